"""C07 — integer text and byte encodings round-trip and match the reference digits (DESIGN §8 C07)."""
from vlib.core import Case
from vlib.gens import *

GROUP = "text"
USES_GEN = True
READY = True
LEAN_PROPS = "Dashu.Props.C07"
LEAN_AUDIT = "Dashu.Audit.C07"
GEN_PROPS = ["Dashu.Props.C07Debug", "Dashu.Props.C07ParseLink"]      # round 5: Debug (DoubleEnd) mirrored on words, composed with C02 / C09 / C10 kernels
GEN_AUDIT = ["Dashu.Audit.C07Debug", "Dashu.Audit.C07ParseLink"]
JOBS = 14

W = 64
ALNUM = "0123456789abcdefghijklmnopqrstuvwxyz"
POW2 = {2: 1, 4: 2, 8: 3, 16: 4, 32: 5}


def dpw(r):
    """digits_per_word of the code: power-of-two radices W / log2(r), others max k with r^k <= 2^W - 1"""
    if r in POW2:
        return W // POW2[r]
    k, p = 0, 1
    while p * r <= (1 << W) - 1:
        p *= r
        k += 1
    return k


def to_radix(n, r):
    """text of n in radix r (lower case), divide and conquer"""
    if n == 0:
        return "0"
    import math
    nd = max(1, int(n.bit_length() / math.log2(r)) - 2)
    while r ** nd <= n:
        nd += 1
    out = []

    def rec(v, k):
        if k <= 64:
            s = []
            for _ in range(k):
                s.append(ALNUM[v % r]); v //= r
            out.append("".join(reversed(s)))
        else:
            h = k // 2
            q, m = divmod(v, r ** h)
            rec(q, k - h); rec(m, h)
    rec(n, nd)
    return "".join(out).lstrip("0") or "0"


def sb(text):
    return "s:" + (text.encode("utf-8") if isinstance(text, str) else text).hex()


def num_with_digits(rng, r, L, pat):
    """a number with exactly L digits in radix r (L >= 1)"""
    if pat == "max":
        return r ** L - 1
    if pat == "min":
        return r ** (L - 1)
    if pat == "min1":
        return r ** (L - 1) + 1
    if pat == "sparse":
        v = r ** (L - 1)
        for _ in range(3):
            v += rng.randrange(r) * r ** rng.randrange(L)
        return min(v, r ** L - 1)
    lo, hi = r ** (L - 1), r ** L - 1
    return rng.randrange(lo, hi + 1)


def digit_lengths(r, tier, big=True):
    d = dpw(r)
    ls = [1, 2, 3, d - 1, d, d + 1, 2 * d - 1, 2 * d, 2 * d + 1, 3 * d + 1, 15 * d, 16 * d - 1, 16 * d, 16 * d + 1,
          17 * d, 32 * d - 1, 32 * d + 1]
    if big:
        ls += [255 * d + 3, 256 * d - 1, 256 * d, 256 * d + 1]
    if big and tier == "thorough":
        ls += [4, 5, 4 * d, 8 * d + 3, 31 * d, 33 * d, 48 * d, 64 * d - 1, 64 * d, 64 * d + 1, 100 * d, 128 * d + 1, 257 * d, 300 * d,
               511 * d, 512 * d - 1, 512 * d, 512 * d + 1, 513 * d + 7, 700 * d, 1023 * d, 1024 * d, 1024 * d + 1, 1500 * d,
               2048 * d + 1]
    return [l for l in ls if l >= 1]


FLAGS = ["-", "+", "#", "0", "+#", "+0", "#0", "+#0"]
TRAITS = ["d", "b", "o", "x", "X"]
TRAIT_RADIX = {"d": 10, "b": 2, "o": 8, "x": 16, "X": 16}


# E1 (ROUND4 addendum): extreme values of the `u32` radix parameters and of the `usize` chunk_bits parameter
RADIX_EXTREMES = [38, 63, 64, 65, 127, 128, 129, 255, 256, (1 << 31) - 1, 1 << 31, (1 << 31) + 1, (1 << 32) - 2, (1 << 32) - 1] + \
                 [(1 << 32) - 1 - k for k in (35, 36, 37, 64, 130)]
USIZE_MAX = (1 << 64) - 1


def usize_extremes(rng, tier):
    ks = [1, 63, 64, 65, 128, 1 << 31, (1 << 32) - 1, 1 << 32, (1 << 32) + rng.randrange(1, 130), (1 << 32) + 64, 1 << 63,
          (1 << 63) + rng.randrange(1, 130)]
    js = range(0, 131) if tier == "thorough" else [0, 1, 2, 62, 63, 64, 65, 126, 127, 128, 129, 130, rng.randrange(3, 62), rng.randrange(66, 126)]
    return ks + [USIZE_MAX - j for j in js]


def radices(rng, tier):
    if tier == "thorough":
        return list(range(2, 37))
    base = [2, 8, 10, 16, 36]
    rest = [r for r in range(2, 37) if r not in base]
    return base + rng.sample(rest, 5)


def underscored(rng, s, p=0.15):
    out = []
    for ch in s:
        out.append(ch)
        if rng.random() < p:
            out.append("_" * rng.choice([1, 1, 2]))
    return "".join(out)


def mixcase(rng, s, mode):
    if mode == 0:
        return s
    if mode == 1:
        return s.upper()
    return "".join(c.upper() if rng.random() < 0.5 else c for c in s)


NONASCII = ["é", "٣", "１", "Ａ", "😀", " ", "²", "ⅷ"]


def words_of(n):
    return (n.bit_length() + W - 1) // W


def gen_tower(rng, tier, rs):
    maxbits = 40000 if tier == "quick" else 140000
    for r in rs:
        if r in POW2:
            continue
        d = dpw(r)
        power = (r ** d) ** 16                       # radix_powers[0]
        level = 0
        while 2 * power.bit_length() <= maxbits:
            L = words_of(power)
            sq = power * power
            vals = set()
            for wc in (2 * L - 2, 2 * L - 1, 2 * L):
                if wc < 3:
                    continue
                vals.add((1 << (W * wc)) - 1)                 # largest value with wc words
                vals.add(1 << (W * (wc - 1)))                 # smallest value with wc words
                vals.add((1 << (W * (wc - 1))) | rng.getrandbits(W * (wc - 1)))
            # just below / at / above the squared power and the neighbouring powers of the radix
            k = d * 16 * (2 ** level) * 2                     # sq = r^k
            for v in (sq - 1, sq, sq + 1, r ** (k - 1) - 1, r ** (k - 1) + 1, r ** (k + 1) - 1, r ** (k + 1) + 1,
                      power - 1, power, power + 1, sq * (r ** d) - 1, sq // 2, sq + rng.getrandbits(64)):
                vals.add(v)
            # bit lengths around the word-count boundary 64*(2L-1)
            step = 16 if r in (10, 36) else 64
            for bits in range(W * (2 * L - 1) - 128, W * (2 * L - 1) + 65, step):
                if bits > 8:
                    vals.add((1 << bits) - 1)
                    if r in (10, 36) or tier == "thorough":
                        vals.add(1 << (bits - 1))
                        vals.add((1 << (bits - 1)) | rng.getrandbits(bits - 1))
            for v in sorted(vals):
                if v >= 0:
                    op = "u.fmt" if rng.random() < 0.7 else "i.fmt"
                    z = v if op == "u.fmt" or rng.random() < 0.5 else -v
                    yield Case(op, ["r%d" % r, 0, "-", "none", hx(z)], nontrivial=True)
            power = sq
            level += 1
        # the running quotient of the tower division EQUALS a power (branch `x >= p` of PreparedLarge::new taken
        # with equality): n = radix_powers[0]^j = product of tower powers, exactly and with a small tail
        p0 = (r ** d) ** 16
        j = 2
        while j <= 12 and j * p0.bit_length() <= maxbits:
            base = p0 ** j
            for v in (base, base + 1, base - 1, base + rng.getrandbits(60), base + p0 - 1):
                op = "u.fmt" if rng.random() < 0.7 else "i.fmt"
                z = v if op == "u.fmt" or rng.random() < 0.5 else -v
                yield Case(op, ["r%d" % r, 0, "-", "none", hx(z)], nontrivial=True)
            j += 1


def gen_fmt(rng, tier):
    rs = radices(rng, tier)
    # 1. size classes x radices, default spec (digits vs the reference digits)
    for r in rs:
        for L in digit_lengths(r, tier, big=True):
            pats = ["max", "min", "random"] if L > 16 * dpw(r) + 1 and tier == "quick" else ["max", "min", "min1", "random", "sparse"]
            if L > 300 * dpw(r) and tier == "quick":
                pats = [rng.choice(["max", "min", "random"])]
            for pat in pats:
                n = num_with_digits(rng, r, L, pat)
                neg = rng.random() < 0.4
                op = "i.fmt" if neg or rng.random() < 0.3 else "u.fmt"
                v = -n if neg else n
                fl = rng.choice(["-", "-", "#", "+"])
                yield Case(op, ["r%d" % r, 0, fl, "none", hx(v)], nontrivial=L > dpw(r))
                if r in (2, 8, 10, 16) and rng.random() < 0.5:
                    t = {2: "b", 8: "o", 10: "d", 16: rng.choice("xX")}[r]
                    yield Case(op, [t, 0, rng.choice(FLAGS), "none", hx(v)], nontrivial=L > dpw(r))
    # 2. word-boundary values in every radix: 2^64-1, 2^64, 2^128-1, 2^128, rpw-related
    for r in rs:
        d = dpw(r)
        rp = r ** d
        for n in [0, 1, r - 1, r, rp - 1, rp, rp + 1, (1 << 64) - 1, 1 << 64, (1 << 64) + 1, rp * rp - 1, rp * rp, rp * rp + 1,
                  (1 << 128) - 1, 1 << 128, rp ** 3 - 1, rp ** 3, rp ** 16 - 1, rp ** 16, rp ** 16 + 1, rp ** 32, rp ** 32 - 1,
                  (1 << 64) * rp, ((1 << 64) - 1) * rp + rp - 1, 1 << (64 * 15), (1 << (64 * 16)) - 1, 1 << (64 * 16)]:
            yield Case("u.fmt", ["r%d" % r, 0, "-", "none", hx(n)], nontrivial=n >= (1 << 64))
    # 3. the flag product x widths on values that fit u128/i128 (compared with primitive formatting in the harness)
    m = 1 if tier == "quick" else 25
    for _ in range(m):
        for t in TRAITS:
            r = TRAIT_RADIX[t]
            for fa in range(10):
                for fl in FLAGS:
                    kind = rng.randrange(6)
                    if kind == 0:
                        n = rng.choice([0, 1, r - 1, r, 255, (1 << 64) - 1, 1 << 64, (1 << 127) - 1, 1 << 127, (1 << 128) - 1])
                    elif kind == 1:
                        n = rng.getrandbits(rng.choice([3, 8, 16, 31, 33, 63, 64, 65, 100, 127, 128]))
                    else:
                        n = rng.getrandbits(rng.randrange(1, 129))
                    neg = rng.random() < 0.5 and n < (1 << 127) + 1
                    v = -n if neg else n
                    nd = len(to_radix(n, r))
                    tot = nd + (1 if neg or "+" in fl else 0) + (2 if "#" in fl and t != "d" else 0)
                    for w in {"none", tot - 1, tot, tot + 1, tot + rng.randrange(2, 9), rng.choice([0, 1, 5, 40, 140])}:
                        if w != "none" and w < 0:
                            continue
                        ws = "none" if w == "none" else dec(w)
                        op = "i.fmt" if neg or rng.random() < 0.5 else "u.fmt"
                        yield Case(op, [t, fa, fl, ws, hx(v)], nontrivial=(w != "none" and w > tot))
    # 4. the flag product on in_radix with other radices and on large values
    for _ in range(300 if tier == "quick" else 30000):
        r = rng.choice(rs)
        big = rng.random() < 0.3
        n = nat_pattern(rng, rng.choice([3, 4, 16, 17, 33]), rng.choice(PATTERNS)) if big else rng.getrandbits(rng.randrange(1, 140))
        neg = rng.random() < 0.5
        fl = rng.choice(FLAGS)
        nd = len(to_radix(n, r))
        tot = nd + (1 if neg or "+" in fl else 0)
        w = rng.choice(["none", tot - 1, tot, tot + 1, tot + 5, tot + 6, 0])
        ws = "none" if w == "none" or w < 0 else dec(w)
        t = "r%d" % r
        if r in (2, 8, 10, 16) and rng.random() < 0.5:
            t = {2: "b", 8: "o", 10: "d", 16: rng.choice("xX")}[r]
        yield Case("i.fmt" if neg else "u.fmt", [t, rng.randrange(10), fl, ws, hx(-n if neg else n)], nontrivial=True)
    # 4b. width/padding of numbers printed by PreparedLarge with big chunks at tower levels i = 1, 2, 3 (PreparedLarge::width
    #     sums (digits_per_word * CHUNK_LEN) << i over the chunks): the padding must still be exactly width - length
    for r in rs:
        if r in POW2:
            continue
        base = 16 * dpw(r)
        for lvl in ((1, 2, 3) if tier == "quick" else (1, 2, 3, 4)):
            for _ in range(1 if tier == "quick" else 3):
                L = rng.randrange(base * 2 ** lvl + 1, base * 2 ** (lvl + 1))
                n = num_with_digits(rng, r, L, rng.choice(["max", "min", "random"]))
                neg = rng.random() < 0.5
                fl = rng.choice(FLAGS)
                tot = L + (1 if neg or "+" in fl else 0)
                for w in (tot + 1, tot + 7):
                    yield Case("i.fmt" if neg else "u.fmt", ["r%d" % r, rng.randrange(10), fl, dec(w), hx(-n if neg else n)], nontrivial=True)
    # 5. the radix-power tower of PreparedLarge::new: powers r^(dpw*16*2^i) computed as the code does; the squaring loop
    #    stops by comparing word counts (2*len(prev) - 1 > len(number)), so numbers whose word count is 2L-2, 2L-1, 2L for
    #    the length L of every tower level, just below/above the squared power, decide how many levels are built
    for case in gen_tower(rng, tier, rs):
        yield case
    # 5b. the lowest layer.  DigitWriter: BUFFER_LEN = 32 bytes, flushed when full and at the end, the final flush
    #     rounds buffer_len up to a multiple of DIGIT_CHUNK_LEN = 8 and zero-fills: every length 1..72 (all residues
    #     mod 8 and mod 32, on both sides of one and two full buffers) in a letter radix and a digit radix, both cases;
    #     SWAR lanes: every digit value 0..35 in every lane position (the digit string cycles through all values with
    #     a stride coprime to 8); FastDivideSmall: words at the extremes for every radix of the run
    for r, flag in ((36, "-"), (36, "#"), (10, "-"), (11, "#"), (16, "-"), (3, "-")):
        for L in list(range(1, 73)) if tier == "thorough" or r == 36 else [7, 8, 9, 31, 32, 33, 40, 63, 64, 65]:
            shift = rng.randrange(r)
            v = 0
            for i in range(L):
                d = (shift + 5 * i) % r
                if i == 0 and d == 0:
                    d = r - 1
                v = v * r + d
            t = "r%d" % r if r != 16 else rng.choice("xX")
            yield Case("u.fmt" if rng.random() < 0.6 else "i.fmt", [t, 0, flag if r != 16 else "-", "none", hx(v)], nontrivial=L > dpw(r))
    for r in rs:
        if r in POW2:
            continue
        for w in [(1 << 64) - 1, (1 << 64) - r, (1 << 63), (1 << 63) - 1, r ** dpw(r) - 1, r ** dpw(r), ((1 << 64) - 1) // r * r,
                  ((1 << 64) - 1) // r * r - 1, (1 << 32) - 1, 1 << 32, r * r - 1, r + 1]:
            yield Case("u.fmt", ["r%d" % r, 0, "-", "none", hx(w)], nontrivial=False)
    # 5c. Debug (`DoubleEnd`, fmt/mod.rs + non_power_two.rs): inline values print all digits, heap values the
    #     digits_per_word most / least significant decimal digits around `..` (log_word_base + division by a power of ten
    #     for the head, rem_by_word for the tail); `#` appends digit and bit counts; the width is ignored
    dvals = [0, 1, 9, 10, (1 << 64) - 1, 1 << 64, (1 << 64) + 1, 10 ** 19 - 1, 10 ** 19, 10 ** 20, (1 << 128) - 1, 1 << 128, (1 << 128) + 1,
             10 ** 38, 10 ** 38 + 1, 10 ** 39 - 1, 10 ** 39, 10 ** 39 + 1, (1 << 192) - 1, 1 << 192, 10 ** 57, 10 ** 58 - 1]
    for k in ([40, 77, 100, 154, 200, 1000, 1233] if tier == "quick" else list(range(39, 120)) + [154, 200, 308, 1000, 1233, 5000, 20000]):
        dvals += [10 ** k - 1, 10 ** k, 10 ** k + 1, 10 ** k + 10 ** (k // 2), 2 * 10 ** k - 1, 10 ** k - 10 ** (k - 19), 10 ** k + 10 ** 19 - 1]
    for _ in range(40 if tier == "quick" else 3000):
        dvals.append(nat_pattern(rng, rng.choice([2, 3, 3, 4, 5, 16, 17, 40]), rng.choice(PATTERNS)))
    # 5c'. (round 5, the mirrored heap arm) 10^e, 10^e +- 1 for EVERY e of a range (log_word_base: Equal / Less / Greater exits;
    #      the power 10^(e+1-19) of every word length and every top-word size, so that the normalising shift takes every value and
    #      `words_top == 0` / `!= 0` both occur), head digits 1000.. / 9999.. (quotient at both ends of [10^18, 10^19)), values just
    #      below / at / above a word-count boundary 2^(64 j) (shl_in_place overflow word), tail 0 / 10^19 - 1
    for e in (range(39, 140) if tier == "quick" else range(39, 700)):
        p10 = 10 ** e
        dvals += [p10, p10 - 1, p10 + 1]
        if tier == "thorough" or e % 7 == 0:
            dvals += [p10 + rng.getrandbits(60), 10 * p10 - 10 ** 19, 10 * p10 - 10 ** 19 - 1, p10 * rng.randrange(1, 10) + rng.getrandbits(64)]
    for j in (range(2, 24) if tier == "quick" else range(2, 80)):
        b = 1 << (64 * j)
        dvals += [b - 1, b, b + 1, (b << 63), (b << 63) - 1, (b >> 1), b + (10 ** 19 - 1)]
    dvals = [v for v in dvals if v >= 0]
    for v in dvals:
        fl = rng.choice(["-", "-", "+", "#", "+#"])
        w = rng.choice(["none", "none", dec(0), dec(5), dec(60)])
        if rng.random() < 0.5:
            yield Case("u.dbg", [fl, w, hx(v)], nontrivial=v >= (1 << 128))
        else:
            yield Case("i.dbg", [fl, w, hx(signed(rng, v))], nontrivial=v >= (1 << 128))
    # 6. invalid radix; E1: extreme u32 radices for in_radix (all panic InvalidRadix) and the largest widths core::fmt accepts (u16)
    for r in [0, 1, 37, 100] + RADIX_EXTREMES:
        yield Case("u.fmt", ["r%d" % r, 0, "-", "none", "5"], nontrivial=False)
        yield Case("i.rt", ["-5", dec(r)], nontrivial=False)
    for w in [65535, 65534, 32768, 4097]:
        for fl in ["-", "0", "+#0"]:
            t = rng.choice(TRAITS + ["r36", "r7"])
            v = signed(rng, rng.getrandbits(rng.choice([8, 64, 130, 2000])))
            yield Case("i.fmt", [t, rng.randrange(10), fl, dec(w), hx(v)], nontrivial=True)
        yield Case("i.dbg", [rng.choice(["-", "+#"]), dec(w), hx(signed(rng, rng.getrandbits(200)))], nontrivial=True)


def gen_parse(rng, tier):
    rs = radices(rng, tier)
    # 1. valid strings around every threshold
    for r in rs:
        for L in digit_lengths(r, tier, big=True):
            pats = ["max", "min", "random"]
            if L > 300 * dpw(r) and tier == "quick":
                pats = [rng.choice(pats)]
            for pat in pats:
                n = num_with_digits(rng, r, L, pat)
                s = mixcase(rng, to_radix(n, r), rng.randrange(3))
                style = rng.randrange(5)
                if style == 1:
                    s = underscored(rng, s, 0.1)
                elif style == 2:
                    s = "0" * rng.choice([1, 2, dpw(r), 70]) + s
                elif style == 3:
                    s = "_" + s if rng.random() < 0.5 else s + "_"
                sgn = rng.random() < 0.5
                sign = rng.choice(["", "+", "-"]) if sgn else rng.choice(["", "+"])
                yield Case("i.parse" if sgn else "u.parse", [sb(sign + s), dec(r)], nontrivial=L > dpw(r))
        # round trip through both sides
        for L in [1, dpw(r), dpw(r) + 1, 16 * dpw(r) + 1, 40 * dpw(r)] + ([256 * dpw(r) + 1] if tier == "thorough" or rng.random() < 0.3 else []):
            n = num_with_digits(rng, r, L, rng.choice(["max", "min", "random"]))
            if rng.random() < 0.5:
                yield Case("u.rt", [hx(n), dec(r)], nontrivial=L > dpw(r))
            else:
                yield Case("i.rt", [hx(signed(rng, n)), dec(r)], nontrivial=L > dpw(r))
    # 2. prefixes
    for _ in range(250 if tier == "quick" else 20000):
        r = rng.choice([2, 8, 16, 10, 10])
        n = rng.getrandbits(rng.choice([1, 8, 63, 64, 65, 128, 129, 200, 700]))
        body = mixcase(rng, to_radix(n, r), rng.randrange(3))
        if rng.random() < 0.3:
            body = underscored(rng, body)
        if rng.random() < 0.2:
            body = "00" + body
        pre = {2: "0b", 8: "0o", 16: "0x", 10: ""}[r]
        k = rng.random()
        if k < 0.12:
            pre = pre.upper()           # upper-case prefixes are not prefixes
        elif k < 0.18:
            body = ""                   # prefix without digits
        elif k < 0.22:
            body = "_"
        elif k < 0.26:
            pre = pre + rng.choice(["+", "-"])
        sgn = rng.random() < 0.5
        sign = rng.choice(["", "+", "-"]) if sgn else rng.choice(["", "+", "", "-"])
        s = sign + pre + body
        which = rng.random()
        if which < 0.5:
            yield Case("i.parse_prefix" if sgn else "u.parse_prefix", [sb(s)])
        else:
            d = rng.choice([10, 16, 2, 12, 36, 8, rng.randrange(2, 37)])
            if rng.random() < 0.06:
                d = rng.choice([0, 1, 37, 64])
            yield Case("i.parse_default" if sgn else "u.parse_default", [sb(s), dec(d)])
    # 3. malformed stream
    fixed = ["", "+", "-", "_", "__", "+_", "-_", "-__", "0_", "_0", "0", "00", "+0", "-0", "+-5", "-+5", "--5", "++5", "0x", "0x_", "0b", "0o",
             "0X1f", "0B1", "0O7", "0x-1", "-0x", " 1", "1 ", "1\n", "1.0", "1e5", "0x0x1", "0b2", "0o8", "0xg", "z", "Z", "-", "٣", "１２", "é",
             "1_000", "1__0", "_1_", "1_", "_", "+0x_", "-0b_", "0x__", "0_0", "-_0", " " + "1", "😀"]
    for s in fixed:
        for r in [2, 10, 16, 36, rng.randrange(2, 37)]:
            yield Case(rng.choice(["u.parse", "i.parse"]), [sb(s), dec(r)])
        yield Case("u.parse_prefix", [sb(s)])
        yield Case("i.parse_prefix", [sb(s)])
        yield Case(rng.choice(["u.parse_default", "i.parse_default"]), [sb(s), dec(rng.choice([2, 8, 16, 36, 11]))])
    # 3b. EVERY byte 0x00..0x7f that is not a digit of the radix (control bytes, punctuation, the ASCII neighbours of the
    #     digit/letter ranges, letters >= radix in both cases, space, DEL; `_`, `+`, `-` included: the grammar decides) and a
    #     few multi-byte UTF-8 characters, put into a digit position: first, middle, last, and the position where the
    #     word/chunk boundary falls; size classes word (< digits_per_word), chunk (a few words), large (> 256 words, a
    #     sample in quick, all bytes for radix 10 and 16 in thorough); every entry point: from_str_radix (+ FromStr for 10),
    #     from_str_with_radix_prefix, from_str_with_radix_default, UBig and IBig, with and without a sign / prefix
    def valid_digit(b, r):
        c = chr(b).lower()
        return c in ALNUM and ALNUM.index(c) < r
    brs = [2, 8, 10, 16, 36] + ([7, 11, 35] if tier == "thorough" else [rng.choice([3, 7, 11, 12, 35])])
    for r in brs:
        d = dpw(r)
        bad = [bytes([b]) for b in range(0x80) if not valid_digit(b, r)] + [c.encode("utf-8") for c in NONASCII]
        for L, cls in ((max(1, d - 1), "word"), (3 * d + 1, "chunk"), (256 * d + 5, "large")):
            if cls == "large":
                if tier == "quick":
                    sample = rng.sample(bad, 8) + [b"\x10", b"\x19", b"\x00", b"\x7f", b" "]
                elif r in (10, 16):
                    sample = bad
                else:
                    sample = rng.sample(bad, 24)
            else:
                sample = bad
            base_txt = to_radix(num_with_digits(rng, r, L, "random"), r).encode()
            poss = sorted({0, len(base_txt) // 2, len(base_txt) - 1, max(0, len(base_txt) - d), min(len(base_txt) - 1, d)})
            for bb in sample:
                for pos in (poss if cls != "large" else rng.sample(poss, 2)):
                    txt = base_txt[:pos] + bb + base_txt[pos + 1:]
                    if rng.random() < 0.3:
                        txt = bytes(mixcase(rng, txt.decode("utf-8"), 1), "utf-8") if all(x < 0x80 for x in txt) else txt
                    sgn = rng.random() < 0.5
                    sign = (rng.choice(["", "", "+", "-"]) if sgn else rng.choice(["", "", "+"])).encode()
                    k = rng.randrange(4)
                    if k <= 1:
                        yield Case("i.parse" if sgn else "u.parse", [sb(sign + txt), dec(r)], nontrivial=cls != "word")
                    elif k == 2 and r in (2, 8, 10, 16):
                        pre = {2: b"0b", 8: b"0o", 16: b"0x", 10: b""}[r]
                        yield Case("i.parse_prefix" if sgn else "u.parse_prefix", [sb(sign + pre + txt)], nontrivial=cls != "word")
                    else:
                        yield Case("i.parse_default" if sgn else "u.parse_default", [sb(sign + txt), dec(r)], nontrivial=cls != "word")
        # the same bytes as a whole one-character body and next to a separator
        for bb in bad:
            yield Case(rng.choice(["u.parse", "i.parse"]), [sb(bb), dec(r)], nontrivial=False)
            yield Case(rng.choice(["u.parse", "i.parse"]), [sb(b"1_" + bb + b"_1"), dec(r)], nontrivial=False)
    # 3c. EVERY byte 0x00..0x7f in the PREFIX-LETTER position `0?101` (b, o, x are prefixes for the prefix-aware entry points and
    #     digits of radix 36 for from_str_radix; B, O, X and everything else are not prefixes), with and without sign
    for b in range(0x80):
        txt = b"0" + bytes([b]) + b"101"
        sgn = rng.random() < 0.5
        sign = (rng.choice(["", "+", "-"]) if sgn else rng.choice(["", "+"])).encode()
        yield Case("i.parse_prefix" if sgn else "u.parse_prefix", [sb(sign + txt)], nontrivial=False)
        yield Case("i.parse_default" if sgn else "u.parse_default", [sb(sign + txt), dec(rng.choice([2, 8, 10, 16, 36]))], nontrivial=False)
        yield Case("i.parse" if sgn else "u.parse", [sb(sign + txt), dec(rng.choice([2, 16, 36, 34]))], nontrivial=False)
        # and in the SIGN position (first byte) before a valid body
        yield Case(rng.choice(["i.parse", "u.parse"]), [sb(bytes([b]) + b"11"), dec(rng.choice([2, 10, 36]))], nontrivial=False)
        yield Case(rng.choice(["i.parse_prefix", "u.parse_prefix"]), [sb(bytes([b]) + b"0x11")], nontrivial=False)
    # E1: extreme u32 radices (all UnsupportedRadix)
    for r in RADIX_EXTREMES:
        yield Case(rng.choice(["u.parse", "i.parse"]), [sb("1"), dec(r)], nontrivial=False)
        yield Case(rng.choice(["u.parse_default", "i.parse_default"]), [sb(rng.choice(["1", "0x1", "-1", ""])), dec(r)], nontrivial=False)
    for r in [0, 1, 37, 1000]:
        yield Case("u.parse", [sb("1"), dec(r)], nontrivial=False)
        yield Case("i.parse", [sb("-1"), dec(r)], nontrivial=False)
        yield Case("u.parse_default", [sb("1"), dec(r)], nontrivial=False)
        yield Case("i.parse_default", [sb("-1"), dec(r)], nontrivial=False)
        yield Case("u.parse_default", [sb("0x1"), dec(r)], nontrivial=False)
        yield Case("u.parse_default", [sb(""), dec(r)], nontrivial=False)
    for _ in range(500 if tier == "quick" else 60000):
        r = rng.choice(rs)
        d = dpw(r)
        L = rng.choice([1, 2, d - 1, d, d + 1, 2 * d, 5 * d + 2, 16 * d, 40 * d] + ([256 * d + 5, 300 * d] if rng.random() < 0.08 else []))
        L = max(1, L)
        s = list(to_radix(num_with_digits(rng, r, L, "random"), r))
        pos = rng.choice([0, len(s) - 1, rng.randrange(len(s)), max(0, len(s) - d), min(len(s) - 1, d)])
        kind = rng.randrange(7)
        if kind == 0 and r < 36:
            s[pos] = ALNUM[rng.randrange(r, 36)]           # digit >= radix
            if rng.random() < 0.5:
                s[pos] = s[pos].upper()
        elif kind == 1:
            s[pos] = rng.choice(NONASCII)                    # valid UTF-8, not a digit
        elif kind == 2:
            s.insert(pos, rng.choice(NONASCII))
        elif kind == 3:
            s[pos] = rng.choice([" ", ".", ",", "-", "+", "/", ":", "@", "[", "`", "{", "\t", "\x00", "\x7f"])
        elif kind == 4:
            s.insert(pos, "_")
        elif kind == 5:
            s = ["_"] * rng.choice([1, 2, d, d + 1, 300])  # underscores only
        else:
            s.insert(rng.choice([0, len(s)]), "_")
        text = "".join(s)
        sgn = rng.random() < 0.5
        sign = rng.choice(["", "+", "-"]) if sgn else rng.choice(["", "+"])
        yield Case("i.parse" if sgn else "u.parse", [sb(sign + text), dec(r)], nontrivial=len(text) > d)


def gen_bytes(rng, tier):
    # decode: every length 0..40 with top byte 0x00/0x7f/0x80/0xff
    reps = 1 if tier == "quick" else 20
    for L in range(0, 41):
        for top in [0x00, 0x7f, 0x80, 0xff, None]:
            for fillk in ["rand", "zero", "ff"]:
                for _ in range(reps):
                    if L == 0:
                        b = b""
                    else:
                        body = {"rand": bytes(rng.getrandbits(8) for _ in range(L - 1)), "zero": bytes(L - 1), "ff": b"\xff" * (L - 1)}[fillk]
                        t = rng.getrandbits(8) if top is None else top
                        b = body + bytes([t])
                    yield Case("u.from_le", ["s:" + b.hex()], nontrivial=L > 16)
                    yield Case("i.from_le", ["s:" + b.hex()], nontrivial=L > 16)
                    yield Case("u.from_be", ["s:" + b[::-1].hex()], nontrivial=L > 16)
                    yield Case("i.from_be", ["s:" + b[::-1].hex()], nontrivial=L > 16)
    for L in [47, 48, 49, 64, 65, 200, 257]:
        b = bytes(rng.getrandbits(8) for _ in range(L))
        for op in ["u.from_le", "i.from_le", "u.from_be", "i.from_be"]:
            yield Case(op, ["s:" + b.hex()])
    # encode: byte-boundary magnitudes
    for k in range(0, 42):
        vals = [1 << (8 * k), (1 << (8 * k)) - 1, (1 << (8 * k)) + 1]
        if k > 0:
            vals += [1 << (8 * k - 1), (1 << (8 * k - 1)) - 1, (1 << (8 * k - 1)) + 1, rng.getrandbits(8 * k), rng.getrandbits(8 * k) | (1 << (8 * k - 1))]
        for v in vals:
            yield Case("u.le", [hx(v)], nontrivial=k > 16)
            yield Case("u.be", [hx(v)], nontrivial=k > 16)
            for z in (v, -v):
                yield Case("i.le", [hx(z)], nontrivial=k > 16)
                yield Case("i.be", [hx(z)], nontrivial=k > 16)
    for _ in range(200 if tier == "quick" else 30000):
        v = nat_pattern(rng, rng.choice([0, 1, 2, 2, 3, 3, 4, 5, 9]), rng.choice(PATTERNS))
        if rng.random() < 0.3 and v:
            v >>= rng.randrange(64)
        z = signed(rng, v)
        yield Case(rng.choice(["i.le", "i.be"]), [hx(z)], nontrivial=v >= (1 << 128))
        yield Case(rng.choice(["u.le", "u.be"]), [hx(v)], nontrivial=v >= (1 << 128))


CHUNK_SIZES = [1, 7, 8, 63, 64, 65, 127, 128, 129, 200]


def gen_chunks(rng, tier):
    for k in CHUNK_SIZES + [0, 2, 192, 256, 320]:
        for nw in [0, 1, 1, 2, 2, 3, 3, 4, 5, 6, 7, 8]:
            for pat in (["random", "ones", "zero", "pow2"] if tier == "quick" else PATTERNS):
                n = nat_pattern(rng, nw, pat)
                if k == 1 and nw > 3:
                    continue
                yield Case("u.chunks", [hx(n), dec(k)], nontrivial=nw >= 3)
                if rng.random() < 0.3 and n:
                    yield Case("u.chunks", [hx(n >> rng.randrange(1, 64)), dec(k)], nontrivial=nw >= 3)
    # E1: extreme chunk_bits.  Inline values: every extreme (the code never allocates there).  Heap values: since fix 80bcfde the
    # chunk buffers have min(ceil(chunk_bits / 64), words.len()) + 1 words, so EVERY chunk size is driven on heap values too:
    # the extremes, sizes all over (2^20, 2^63) (which allocated chunk_bits / 8 bytes per chunk before the fix) and, from the branch
    # condition of the `.min(words.len())`, sizes with ceil(chunk_bits / 64) = len - 1, len, len + 1 (both sides of the clamp, aligned
    # and unaligned path) for numbers with bit length 64 len (top word full: end_bits == 0), 64 (len - 1) + 1 and in between.
    ext = usize_extremes(rng, tier)
    for k in ext:
        for n in [0, 1, (1 << 64) - 1, 1 << 64, (1 << 128) - 1, rng.getrandbits(rng.randrange(1, 129))]:
            yield Case("u.chunks", [hx(n), dec(k)], nontrivial=False)
        # from_chunks with ONE chunk: the shift is 0 for every chunk size
        yield Case("u.from_chunks", [dec(k), hx(rng.getrandbits(rng.choice([1, 64, 65, 200])))], nontrivial=False)
    heap = [1 << 128, (1 << 192) - 1, nat_pattern(rng, 5, "random") | (1 << 300)]
    mid = [(1 << 20) + 64, 1 << 21, (1 << 24) + 1, (1 << 30) - 1, 1 << 32, (1 << 40) + rng.randrange(1, 64), 1 << 48, (1 << 62) + 63, (1 << 63) - 1, (1 << 63) - 64]
    mid += [rng.getrandbits(rng.randrange(21, 64)) | (1 << 20) for _ in range(4 if tier == "quick" else 60)]
    for k in [129, 193, 1 << 10, (1 << 16) + 1, 1 << 20, (1 << 20) + 63] + mid + [x for x in ext if x >= (1 << 63)]:
        for n in heap:
            yield Case("u.chunks", [hx(n), dec(k)], nontrivial=True)
    for L in ([3, 4, 5, 9] if tier == "quick" else [3, 4, 5, 6, 7, 9, 16, 17, 33]):
        ns = [(1 << (64 * L)) - 1, 1 << (64 * (L - 1)), (1 << (64 * (L - 1))) | rng.getrandbits(64 * (L - 1)),
              rng.getrandbits(64 * L - rng.randrange(1, 63)) | (1 << (64 * (L - 1)))]
        ks = set()
        for c in (L - 1, L, L + 1):
            ks.update([64 * c - 63, 64 * c - 1, 64 * c, 64 * c + 1])       # ceil(k / 64) = c (c + 1 for the last one)
        ks.update([64 * (L - 1) - rng.randrange(1, 63), 64 * L - rng.randrange(2, 63), 64 * L + rng.randrange(2, 63)])
        for k in sorted(ks):
            for n in ns:
                yield Case("u.chunks", [hx(n), dec(k)], nontrivial=True)
    # two chunks far apart (result buffer of max_len + chunk_bits + 1 words)
    for k in [1 << 10, (1 << 14) + 1, 1 << 16]:
        yield Case("u.from_chunks", [dec(k), hx(rng.getrandbits(64)), hx(rng.getrandbits(70) | 1)], nontrivial=True)
        yield Case("u.from_chunks", [dec(k), hx(rng.getrandbits(64)), "0", hx(1)], nontrivial=True)
    for _ in range(250 if tier == "quick" else 30000):
        k = rng.choice(CHUNK_SIZES + [2, 192, 256]) if rng.random() < 0.97 else 0
        cnt = rng.choice([0, 1, 2, 3, 5, 8, 12])
        cs = []
        for _ in range(cnt):
            m = rng.random()
            if m < 0.6:
                c = rng.getrandbits(max(k, 1)) if rng.random() < 0.8 else (1 << max(k, 1)) - 1
            elif m < 0.75:
                c = 0
            else:
                c = rng.getrandbits(max(k, 1) + rng.choice([1, 5, 64, 130]))     # chunks may exceed chunk_bits
            cs.append(c)
        yield Case("u.from_chunks", [dec(k)] + [hx(c) for c in cs], nontrivial=cnt * k > 128)


def gen_fastdiv(rng, tier):
    """radix::FastDivideSmall = num_modular::PreMulInv1by1<Word> driven directly (new: m, shift; div_rem) at the four word
    sizes the type exists for: divisors 2..36 (the radices), 2^k-1, 2^k, 2^k+1 (both sides of every value of n = ceil log2 d),
    the largest divisors, random ones; dividends 0, 1, around d and 2d, the largest multiple of d and its neighbours, 2^W-1,
    2^(W-1), random.  Thorough: W = 8 exhaustively (every divisor x every dividend)."""
    for W in (8, 16, 32, 64):
        M = (1 << W) - 1
        ds = set(range(2, 37))
        for k in range(1, W + 1):
            ds.update([(1 << k) - 1, 1 << k, (1 << k) + 1])
        ds.update([M, M - 1, (M + 1) // 2 + 1, (M + 1) // 3, 10 ** (len(str(M)) - 1)])
        for _ in range(6 if tier == "quick" else 200):
            ds.add(rng.getrandbits(rng.randrange(2, W + 1)))
        ds = sorted(d for d in ds if 2 <= d <= M)
        if tier == "quick" and W != 64:
            ds = [d for d in ds if d <= 36] [::5] + rng.sample(ds, 25)
        for d in ds:
            As = {0, 1, d - 1, d, d + 1, 2 * d - 1, 2 * d, (M // d) * d - 1, (M // d) * d, (M // d) * d + 1, M, M - 1, 1 << (W - 1), (1 << (W - 1)) - 1}
            for _ in range(2 if tier == "quick" else 6):
                As.add(rng.getrandbits(W))
                As.add(rng.getrandbits(rng.randrange(1, W + 1)))
            for a in sorted(x for x in As if 0 <= x <= M):
                yield Case("t.fastdiv", [dec(W), hx(d), hx(a)], nontrivial=d > 36 or W != 64)
    if tier == "thorough":
        for d in range(2, 256):
            for a in range(256):
                yield Case("t.fastdiv", [dec(8), hx(d), hx(a)], nontrivial=True)


def generate(rng, tier):
    yield from gen_fastdiv(rng, tier)
    yield from gen_fmt(rng, tier)
    yield from gen_parse(rng, tier)
    yield from gen_bytes(rng, tier)
    yield from gen_chunks(rng, tier)


def nontrivial(c):
    return c.nontrivial


def search(rng, tier, impl_exe, model_exe):
    """Used by ./check when a proof obligation no longer checks (e.g. a regenerated definition changed) and the
    correspondence produced no input: look for a failing input with the implementation alone, against digits computed
    here in Python (plain default-format printing and parse-back of the tower-boundary numbers and the size classes)."""
    import os, tempfile, shutil
    from vlib import core
    rs = [10, 36, 3, 7, 5, 24, 31]
    cases = list(gen_tower(rng, tier, rs))
    for r in rs:
        for L in digit_lengths(r, tier, big=True):
            n = num_with_digits(rng, r, L, "random")
            cases.append(Case("u.fmt", ["r%d" % r, 0, "-", "none", hx(n)]))
            cases.append(Case("u.parse", [sb(to_radix(n, r)), dec(r)], tag=hx(n)))
    wd = tempfile.mkdtemp(prefix="verif-search-")
    try:
        path = os.path.join(wd, "cases.txt")
        core.write_cases(path, cases)
        got = core.run_side(impl_exe, path, len(cases), 60, "impl")
    finally:
        shutil.rmtree(wd, ignore_errors=True)
    bad = []
    for i, c in enumerate(cases):
        if c.op.endswith(".fmt"):
            v = int(c.args[4].lstrip("-"), 16)
            neg = c.args[4].startswith("-") and v != 0
            want = "ok " + sb(("-" if neg else "") + to_radix(v, int(c.args[0][1:])))
        else:
            want = "ok " + c.tag
        if got.get(i, "missing") != want:
            bad.append((c, got.get(i, "missing"), want))
    if not bad:
        return None
    lines = ["# %d inputs on which the implementation alone contradicts the reference digits (python); first ones:" % len(bad)]
    for c, g, w in bad[:10]:
        lines.append(c.key())
        lines.append("#   impl: %s | required: %s" % (g[:200], w[:120]))
    return lines


RULE = ("fmt: for each radix (quick: 2,8,10,16,36 + 5 drawn by rng; thorough: all 35) numbers with exactly L digits for L around "
        "digits_per_word, 2x, 16x (medium/large printer switch), 32x, 256x, (thorough: 512x, 1024x) digits_per_word in the patterns "
        "all-max-digit (z..z), 10..0, 10..01, sparse, random, both signs; word-boundary values (2^64, 2^128, range_per_word^k +-1); the "
        "radix-power tower of the large printer: for every level (power r^(dpw*16*2^i) of L words, up to 40k / 140k bits) numbers of "
        "2L-2, 2L-1, 2L words (min, max, random), the squared power and neighbouring radix powers +-1, and bit lengths "
        "64(2L-1)-128..+64 (step 16 for radix 10 and 36); the "
        "full flag product {+,#,0} x 10 fill/align specs x widths {none, len-1, len, len+1, len+k, far} x {Display,b,o,x,X} on values "
        "< 2^128 (harness additionally compares with Rust's primitive formatting), and on in_radix for other radices / heap values. "
        "parse: texts of numbers with the same digit lengths (parse thresholds digits_per_word, 256x, 512x) with random letter case, "
        "signs, underscores, leading zeros, radix prefixes (lower and upper case, with and without digits, with all default radices), "
        "and a malformed stream (empty, sign only, underscores only, doubled signs, digit >= radix at chunk boundaries, valid multi-byte "
        "UTF-8 non-digits, ASCII neighbours of the digit ranges, invalid radices); exhaustive non-digit stream: for radices 2,8,10,16,36 (+1 drawn; "
        "thorough +7,11,35) EVERY byte 0x00..0x7f that is not a digit of the radix and 8 multi-byte characters replaces a digit at the first, "
        "middle, last and word-boundary positions of word-, chunk- and (sampled) large-size texts, through from_str_radix/FromStr, "
        "from_str_with_radix_prefix and from_str_with_radix_default of UBig and IBig, with signs and prefixes, plus alone and between separators. bytes: every length 0..40 x top byte "
        "{00,7f,80,ff,random} x body {random,zero,ff} for the four decoders; +-2^(8k), 2^(8k)+-1, 2^(8k-1), ... for the encoders. "
        "low layer: digit strings of every length 1..72 (quick: all for radix 36, boundary lengths 7..9, 31..33, 40, 63..65 for 10/11/16/3) cycling "
        "through all digit values in all 8 lane positions, both letter cases (DigitWriter full-buffer and final-flush paths, every SWAR lane/value); "
        "extreme words (2^64-1, 2^63, multiples of the radix +-1, range_per_word +-1) for the reciprocal division in every radix. "
        "fastdiv: num-modular PreMulInv1by1<u8|u16|u32|u64> driven directly (multiplier m, shift, quotient, remainder compared with the mirrored "
        "new/div_rem): divisors 2..36, 2^k-1, 2^k, 2^k+1 for every k, the largest ones, random; dividends 0, 1, d-1..d+1, 2d-1, 2d, the largest "
        "multiple of d +-1, 2^W-1, 2^(W-1), random (thorough: W = 8 exhaustively). "
        "debug: {:?} / {:+?} / {:#?} with and without width on 0, word/dword boundaries, 10^k and 10^k +-1, 2*10^k-1, 10^k +- 10^(k-19) "
        "for k = 40..1233 (thorough: 39..120 and up to 20000), random heap values. "
        "chunks: sizes {0,1,2,7,8,63,64,65,127,128,129,192,200,256,320} x 0..8-word values; from_chunks with oversized chunks. "
        "extremes (ROUND4 addendum E): u32 radices 38, 63..65, 127..129, 255, 256, 2^31+-1, 2^32-1-k through from_str_radix / from_str_with_radix_default / in_radix; "
        "widths 65535, 65534, 32768, 4097 (the largest core::fmt accepts) for all traits and Debug; usize chunk_bits 1, 63..65, 128, 2^31, 2^32+-k, 2^63(+k), MAX-j (j = 0..130; "
        "quick 14 of them) x inline values and x heap values, heap values also x sizes all over (2^20, 2^63) and x sizes with ceil(chunk_bits/64) = len-1, len, len+1 for "
        "numbers of len = 3..9 (thorough ..33) words with full / minimal / random top word (the `.min(words.len())` clamp of fix 80bcfde), from_chunks with one chunk for every extreme size; every byte 0x00..0x7f in the "
        "prefix-letter position `0?101` and in the sign position through all entry points; Debug: 10^e, 10^e+-1 for every e = 39..139 (thorough ..699), head digits 100../99.., "
        "values around 2^(64j) and 2^(64j+63) for every j = 2..23 (thorough ..79). "
        "Non-trivial := more digits than one word holds / a padding width above the text length / heap values; distinct := distinct case lines.")

REFINED = [
    "math::max_exp_in_word + RadixInfo (range_per_word = r^dpw < 2^W, dpw >= 1, maximal for even W): all W (radix_table)",
    "fmt/non_power_two: PreparedWord, PreparedDword (three-part split), PreparedMedium (repeated division), PreparedLarge "
    "(power tower, big_chunks, write_big_chunk recursion, zero-padded write_chunk) = digits r n (print_non_pow2_digits, print_size_classes, big_chunk_padded)",
    "fmt/power_two: PreparedWord/Dword (shift+mask), PreparedLarge (bit slicing across word boundaries, on the word list) = digits (print_pow2_digits)",
    "InRadixWriter::format_prepared = pad_integral specification, all flags/widths/alignments (layout_eq_pad_integral); all six traits (print_eq_reference)",
    "parse/mod.rs grammar (sign, prefixes, leading zeros, separator-only bodies), non_power_two parse_word / parse_chunk / "
    "parse_large_divide_conquer, power_two parse_word / parse_large (bit packing with word wrap) = documented grammar on every byte string "
    "(parse_radix_eq_grammar, parse_default_eq_grammar, parse_ok_sound, parse_no_digits)",
    "print -> parse round trip of the model, all radices, both cases, with '+' (print_parse_round_trip, _unsigned)",
    "convert.rs UBig::to_le_bytes / from_le_bytes (+BE), inline and heap paths = positional bytes, mutually inverse, all W = 8k (ubig_bytes_model)",
    "convert.rs IBig::to_le_bytes / from_le_bytes (+BE): to_signed_le_bytes (sub_one_in_place, FLIP, resize of fix dcc404d), from_signed_le_bytes "
    "(one-padding, per-word complement, add_one_in_place) = two's complement spec, mutually inverse for every integer incl. -(2^(8k)) (ibig_bytes_model)",
    "Tie A: the tower-loop test of PreparedLarge::new (Dashu.Gen.fmt_tower_stop), fmt CHUNK_LEN and parse CHUNK_LEN are regenerated from "
    "the source text on every run and used by the model (buildPowers, fmtChunkLen, parseChunkLen); tower_length_shortcut_sound and "
    "printer_buffers_never_overrun are theorems about the regenerated predicate",
    "fixed-size buffers as bounded arrays (Model/Text/Capacity.lean: PreparedWord/PreparedDword digit arrays, [Word; 16] chunk buffer, "
    "low_groups, write_chunk groups + assert, power-of-two digit arrays, DigitWriter, parse_word word arithmetic, Buffer::push capacity in "
    "parse_chunk / power_two::parse_large, length assertions of the D&C parser): never overrun, results equal the unbounded model, all inputs "
    "(tower_length_shortcut_sound, printer_buffers_never_overrun, digit_writer_sound, parser_buffers_never_overrun); the driver runs the bounded model too",
    "convert.rs to_chunks (inline path, aligned shortcut with clamp, general path with shr_in_place on words) and from_chunks (chunks_to_words: "
    "shl_in_place + add_in_place into the result buffer, buffer sizes of Repr::from_chunks) = positional chunks, mutually inverse, all k >= 1, all W (chunks_model)",
    "byte / two's complement / chunk encodings: round trip and minimality of the positional specification "
    "(le_bytes_round_trip, signed_bytes_round_trip, chunks_round_trip, chunks_zero_panics)",
    "single-word divisions of the printers ON WORDS (Model/Text/FmtWord.lean): PreparedMedium::new and write_chunk run on the word buffer with "
    "builder-div's fast_div_by_word_in_place model (normalising shl_in_place, div_rem_2by1 per word, remainder un-shift; contract "
    "fastDivByWordInPlace_spec, C02) + trimming of zero words + assert_eq!(buffer_len, 0); PreparedDword::new's three-part split with shl_dword, "
    "three div_rem_2by1 by the normalised range_per_word (contract div2by1, discharged against num-modular's Algorithm 4 in C02 "
    "nm_contracts_discharged) and double_word(q0,q1) << shift without overflow — equal to the number-level / and %, no precondition fails, "
    "all radices, all (even) word sizes (medium_on_words, write_chunk_on_words, dword_split_on_words)",
    "{:#b} {:#o} {:#x} {:#X} (optionally +) -> from_str_with_radix_prefix returns the same integer and the prefix's radix "
    "(print_prefix_parse_round_trip); digit strings differing only by `_` separators parse alike (parse_underscores_ignored)",
    "radix::FastDivideSmall = num_modular::PreMulInv1by1<Word> (num-modular 0.6.5 barrett.rs): `new` (n = ceil log2 d, ones(n), the double-word "
    "division giving m, both debug_assert!s, every Word operation checked) and `div_rem` (multiply-high, a - t, add-and-halve, >> shift, "
    "a - q*d, all checked) mirrored on words in Model/Text/FmtLow.lean = (a / d, a % d) for EVERY word size, divisor 2 <= d < 2^W and word "
    "(fast_divide_small_exact); PreparedWord::new, get_digit and the middle loop of PreparedDword::new run on it in the driver "
    "(raw_digits_on_mirrored_division); additionally the real num-modular type is driven DIRECTLY (op t.fastdiv) at W = 8, 16, 32, 64 and its "
    "private fields m / shift, quotient and remainder are compared with the mirrored new / div_rem",
    "arch/generic/digits.rs digit_chunk_raw_to_ascii: the SWAR trick on one Word (0x76*ALL_ONES + word, >> 7, & ALL_ONES, * case, "
    "+ ALL_ONES*b'0'), every operation overflow-checked = per-byte conversion on ALL lanes, all digits < 36, every W = 8k; the lane mask "
    "((…)>>7)&ALL_ONES = [digit >= 10] per lane (swar_digit_chunk). Constants 0xff / 0x76 / 7 / b'0' / DigitCase discriminants / BUFFER_LEN_MIN "
    "are regenerated from the source on every run (Dashu/Gen/TextLow.lean, Tie A) and called by the model (low_layer_constants_regenerated)",
    "fmt/digit_writer.rs DigitWriter::{write, flush} with the real flush (round_up to DIGIT_CHUNK_LEN, zero fill inside [u8; BUFFER_LEN], "
    "chunks_exact_mut, SWAR per chunk, first buffer_len bytes out): invariant buffer_len < BUFFER_LEN, rounded <= BUFFER_LEN, all pending bytes "
    "raw digits; output = per-byte conversion of the concatenated writes (digit_writer_write_invariant, digit_writer_swar_sound); the driver "
    "prints through it (print_on_mirrored_low_layer: = fmtModel = the reference text)",
    "the SEQUENCE of DigitWriter::write calls of every printer (Model/Text/Pieces.lean: PreparedWord/PreparedDword one call, PreparedMedium top group + "
    "one call per low group, PreparedLarge through write_big_chunk -> write_chunk CHUNK_LEN calls, power-of-two heap printer one call per digit), "
    "number-level and on the mirrored reciprocal division: concatenation = the digit string, every non-first call of a non-power-of-two printer carries "
    "exactly digits_per_word digits; the driver feeds exactly these pieces to the mirrored DigitWriter (write_pieces_recorded, write_pieces_shape, "
    "print_on_recorded_pieces)",
    "Debug (`{:?}` / `{:+?}` / `{:#?}`, DoubleEnd::fmt_non_power_two + format_prepared of fmt/mod.rs, non_power_two.rs) mirrored in Model/Text/Debug.lean: inline "
    "word / double word (word-level split), heap arm ON WORDS with the kernels of their owners — rem_by_word, div_by_word_in_place, normalize, "
    "div_rem_highest_word (C02 models + specs), shl_in_place (C09), log_word_base (C10/C12 model + spec; the f32 first guess is a parameter) — every "
    "debug_assert! an error branch: no assertion or kernel precondition fails, the dividend window is exactly one word longer than the divisor, head = "
    "n / 10^(exp+1-dpw), tail = n % 10^dpw, exp+1 = number of decimal digits; the text is sign + first dpw digits + `..` + last dpw digits (never "
    "overlapping) + the (digits, bits) suffix; every integer, every even W >= 8 (Props/C07Debug: debug_head_tail_on_words, debug_text, debug_text_est_one, "
    "debug_head_tail_true_digits); ops u.dbg / i.dbg run the mirrored model, spec = closed form debugSpec (also compared with C08's debugInt)",
    "to_chunks / from_chunks mutually inverse IN BOTH DIRECTIONS on words for every chunk size k >= 1, word-aligned shortcut included: from(to(n)) = n for every n, "
    "to(from(cs)) = cs for every canonical chunk list (chunks_inverse); unsigned bytes likewise (ubig_bytes_inverse_canonical)",
    "convert.rs big-endian byte functions as the separate code they are (Model/Text/BytesBE.lean: words_to_be_bytes, to_be_bytes, to_signed_be_bytes with "
    "insert(0, 0xff) for -(2^(8k)) and the sign byte at the front, word/dword_from_be_bytes_partial, from_be_bytes, from_signed_be_bytes, from_be_bytes_large with "
    "rchunks_exact + remainder), executed by the driver for u.be / i.be / u.from_be / i.from_be: equal to the mirror-image model, hence to the positional / two's "
    "complement specification, mutually inverse, all W = 8k (be_bytes_mirrored)",
    "convert.rs TypedReprRef::to_chunks RefLarge arm with its chunk BUFFERS as bounded arrays (Model/Text/ChunksBuf.lean, round 6, the code of fix 80bcfde): "
    "word_per_chunk = ceil_div(chunk_bits, WORD_BITS).min(words.len()), every buffer word_per_chunk + 1 zero words; words_to_chunks (aligned shortcut and general "
    "path) with every slice range on `words` and on `chunk_out`, every usize subtraction and debug_assert!(start < end) an error branch: nothing fails, chunks = "
    "positional chunks, buffer <= words.len() + 1 words whatever chunk_bits is — every number, every k >= 1, every W (to_chunks_buffers_never_overrun); the driver "
    "runs this bounded model for u.chunks",
    "Tie A (round 6): word_per_chunk (with the clamp .min(words.len()) of 80bcfde), the arguments of Buffer::allocate / push_zeros of to_chunks, the shortcut test, "
    "words_per_chunk, start_pos, end_pos (clamp of 49f0136) of words_to_chunks and math::ceil_div are regenerated from convert.rs / math.rs on every run "
    "(vlib/extract_textchunks.py -> Dashu/Gen/TextChunks.lean); toChunksB on heap values IS the program assembled from these texts (chunk_buffer_formulas_regenerated, by rfl): "
    "dropping the + 1, a clamp, or changing an index expression breaks the theorem, a change of shape fails closed (unit-tested on 7 mutated source texts)",
    "chunks_to_words on a result buffer of any length R with room for the last chunk and for the total (Proofs/Text/ChunksTight.lean chunksToWords_spec_len); instance: "
    "result_len = max_len + ceil_div((len-1)*chunk_bits, WORD_BITS) + 1 of the proposed fix c07-from-chunks-result-len-words (fromChunksWT) = the current code's "
    "result (fromChunksW) = sum chunk_i 2^(i k), all word slices, all k >= 1, all W (from_chunks_result_len_in_words)",
    "two's complement bytes, the converse direction (round 7, Proofs/Text/BytesSignedInv.lean): the encoding of z has exactly signedLen z = bit_len(|z|)/8 + 1 bytes (0 for zero), "
    "which is the minimal two's complement length minSignedLen z (proved: minSignedLen z <= n iff z = 0 or n >= 1 and -(2^(8n-1)) <= z < 2^(8n-1)) for every z except -(2^(8q+7)), where it is one more (signed_bytes_length); the decoder is injective on byte strings of "
    "one length, and encode(decode(bs)) = bs holds EXACTLY for the byte strings (bytes < 256) of length signedLen(decode(bs)) — specification, word-level little-endian functions and the "
    "mirrored big-endian functions (signed_bytes_inverse_canonical); with ibig_bytes_model / be_bytes_mirrored this makes the signed byte functions mutually inverse in both directions",
    "Tie A: radix::digit_from_ascii_byte (three byte ranges, offsets, `res < radix`), is_radix_valid, MIN_RADIX, MAX_RADIX regenerated from radix.rs on every run "
    "(Dashu/Gen/TextDigit.lean); the hand model of the grammar theorems (digitOf, validRadix) equals the regenerated text for every byte and radix "
    "(digit_table_regenerated)",
    "link to C01 by import (round 8, Proofs/Text/ParseLink.lean, Props/C07ParseLink.lean): the multi-word arithmetic inside the non-power-of-two parser replaced by C01's mirrored kernels "
    "and proved equal to the Nat-valued parser model THROUGH Props/C01's theorems: parse_chunk on the word buffer with mulWordInPlace (mul_word_in_place_with_carry) and "
    "`if carry != 0 { push }` has the model's value / the model's error, words < 2^W, length <= groups.len() = the allocated capacity, every W, radix, byte string "
    "(parse_chunk_on_mul_word_kernel; the kernel's hypotheses are discharged at each iteration: parse_word(group) < range_per_word < 2^W); the whole non_power_two::parse on TypedRepr "
    "(ofNat, fromBuffer, TRepr.mul / TRepr.add for res_hi * radix_power + res_lo, ubigPow for range_per_word.pow(CHUNK_LEN), prev * prev) returns the model's error or a canonical UBig "
    "of the model's number, every W >= 4 (parse_non_pow2_on_ubig_kernels; by C01 of_nat_exact, from_buffer_exact, mul_word_in_place_exact, u_mul_exact, u_add_exact, u_pow_exact)",
]
FRONTIER = [
    "TypedRepr div_rem / sqr / pow of the PRINTERS' divide-and-conquer tower (fmt/non_power_two.rs: radix_powers by sqr, div_rem by the tower): "
    "C01/C02 kernels (ubig_div_rem_exact, u_sqr_exact); Nat arithmetic here (linked by name, not by an imported theorem: the printers' "
    "theorems hold for exact arithmetic, which is what those kernels are proved to compute). The PARSERS' side (mul_word_in_place_with_carry, from_buffer, UBig * / + / pow) "
    "is linked by import since round 8 (Props/C07ParseLink); the word-level parser of that link is a Lean composition proved equal to the driven model, it is not itself what the driver executes",
    "shift::shr_in_place / shl_in_place / add_in_place inside the chunk routines, rem_by_word / div_by_word_in_place / normalize / div_rem_highest_word / "
    "log_word_base inside Debug are builder-div's / C01's / C10's mirrored models with their proved specs, imported and composed (Props/C07Debug, chunks_model)",
    "padIntegral (Model/Text/Spec.lean) is a hand transcription of core::fmt::Formatter::pad_integral — Rust's standard library is outside /repo, so no theorem "
    "can tie it; the harness compares every flag combination with Rust's primitive integer formatting on values < 2^128 (`prim-disagree`)",
    "two's complement bytes: IBig::to_le_bytes(-(2^(8q+7))) is one byte longer than the minimal two's complement encoding (-128 -> [0x80, 0xff], proved: signed_bytes_length); the "
    "documentation promises two's complement, not minimality, so this is recorded as behaviour of the code (and of the specification the theorems are about), not as a finding; "
    "consequently encode(decode(b)) = b fails for the minimal string [0x80] — the converse is stated for the encoder's length signedLen, which is the exact condition (signed_bytes_inverse_canonical)",
    "log_word_base's f32 first guess is a parameter `est` of the Debug model (theorems hold for every est passing the function's own assert!; that the real "
    "estimate passes it is C10's clause); the two DigitWriters of DoubleEnd::format_prepared receive one piece each and are modelled by the per-byte conversion "
    "(equal by digit_writer_swar_sound)",
    "from_chunks with two or more chunks is driven for chunk_bits <= 2^16 only: Repr::from_chunks allocates and zero-fills max_len + (len-1)*chunk_bits + 1 WORDS — "
    "a bit offset counted as words, 64 times the memory of the result (from_chunks([1,1], 1<<28): 2 GiB for a 32 MiB number; `panic OutOfMemory` under "
    "`ulimit -v 1500000`). Reported as a defect with proposed_fixes/c07-from-chunks-result-len-words.diff (proved right: from_chunks_result_len_in_words); it needs an "
    "address-space limit to be observed, which the harness does not set, so the check has no case and no finding entry for it; to_chunks is driven for every chunk size since fix 80bcfde",
]
THEOREMS = ["Dashu.Props.C07." + t for t in [
    "positional_representation", "radix_table", "print_non_pow2_digits", "print_size_classes", "big_chunk_padded",
    "print_pow2_digits", "layout_eq_pad_integral", "print_eq_reference", "parse_radix_eq_grammar", "parse_default_eq_grammar",
    "parse_ok_sound", "parse_no_digits", "print_parse_round_trip", "print_parse_round_trip_unsigned", "le_bytes_round_trip",
    "ubig_bytes_model", "signed_bytes_round_trip", "ibig_bytes_model", "tower_length_shortcut_sound", "printer_buffers_never_overrun", "digit_writer_sound", "parser_buffers_never_overrun", "chunks_model", "chunks_round_trip", "chunks_zero_panics",
    "print_prefix_parse_round_trip", "parse_underscores_ignored",
    "medium_on_words", "write_chunk_on_words", "dword_split_on_words",
    "fast_divide_small_exact", "swar_digit_chunk", "low_layer_constants_regenerated", "digit_writer_swar_sound",
    "digit_writer_write_invariant", "print_on_mirrored_low_layer", "raw_digits_on_mirrored_division",
    "write_pieces_recorded", "write_pieces_shape", "print_on_recorded_pieces", "chunks_inverse", "digit_table_regenerated", "chunk_spec_guards", "ubig_bytes_inverse_canonical", "be_bytes_mirrored", "to_chunks_buffers_never_overrun", "from_chunks_result_len_in_words", "chunk_buffer_formulas_regenerated",
    "signed_bytes_length", "signed_bytes_inverse_canonical"]] + [
    "Dashu.Props.C07Debug." + t for t in ["debug_head_tail_on_words", "debug_text", "debug_text_est_one", "debug_head_tail_true_digits"]] + [
    "Dashu.Props.C07ParseLink." + t for t in ["parse_chunk_on_mul_word_kernel", "parse_non_pow2_on_ubig_kernels"]]
EXPLANATION = ("Lean theorems for every word size, radix 2..36 and integer: the printing model (all size classes of both printers) "
               "produces exactly the positional digits; the parsing model equals the documented grammar as a total function on byte "
               "strings (errors included) and parse(print) is the identity in both letter cases; format_prepared equals the "
               "pad_integral specification; the word-level byte encoders/decoders equal the positional / two's complement specification and "
               "are mutually inverse; the word-level chunk routines equal the base-2^k digits and are mutually inverse in both directions for every "
               "chunk size; Debug ({:?}) prints the true leading and trailing decimal digits (mirrored on words, composed with the division / shift / "
               "logarithm kernels of C02 / C09 / C10 through their proved specifications). "
               "Model and code are run side by side on structured inputs; the harness additionally compares every flag "
               "combination with Rust's primitive formatting.")
ASSUMPTIONS = ["frontier kernels (multi-word division/multiplication of the divide-and-conquer "
               "converters) behave as exact Nat arithmetic — they are the subject of C01/C02; the single-word divisions by "
               "range_per_word are tied to C02's contracts by theorems; the division by the radix (FastDivideSmall) is mirrored and proved here",
               "Word::from_ne_bytes / to_ne_bytes modelled little-endian (the SWAR lanes do not interact, so the byte order is immaterial)",
               "core::fmt delivers the format spec fields (fill, align, flags, width) as documented"]
LEVEL_TEXT = ("Machine-checked Lean 4 theorems about an executable model of dashu-int's text and byte converters, for all word sizes, "
              "all radices 2..36 and all integers (no size bound): printed digits = positional representation for every size class "
              "(word, double word three-part split, medium repeated division, large divide-and-conquer tower with zero-padded chunks, "
              "power-of-two bit slicing across word boundaries); parser = documented grammar as a total function (malformed text is an "
              "error, never a number) and parse(print(n)) = n for both letter cases and signs; format_prepared = pad_integral spec; the "
              "word-level byte encoders/decoders of convert.rs (unsigned and two's complement, little AND big endian each mirrored as the code it is, inline and heap paths) equal the positional "
              "specification and are mutually inverse for every integer, in both directions (the converse exactly for byte strings of the encoder's length, which is the minimal two's complement length except for -(2^(8q+7))); the chunk routines (to_chunks all three paths, chunks_to_words with its "
              "shift/add kernels and buffer sizes) equal the base-2^k digits and are mutually inverse for every chunk size k >= 1; every "
              "fixed-size buffer of printers and parsers is modelled as a bounded array and proved never overrun; the lowest layer is mirrored "
              "on machine words and is what the driver executes: the multiply-shift reciprocal division by the radix (FastDivideSmall = "
              "num-modular PreMulInv1by1) is exact for every divisor 2 <= d < 2^W and every word, the SWAR digit->ASCII routine equals the "
              "per-byte conversion on all lanes for all digits < 36 with no Word overflow, and the buffered DigitWriter with its real flush "
              "delivers exactly the converted digits for any sequence of writes — and the sequence of writes each printer really makes is recorded and is "
              "what the driver feeds to it; Debug ({:?}) is mirrored on words and proved to print the sign, the first and the last digits_per_word decimal "
              "digits and the digit / bit counts; the digit table of the parsers is regenerated from the source and proved equal to the model's; the non-power-of-two parser re-run on C01's mirrored word / UBig kernels (mul_word_in_place_with_carry, from_buffer, *, +, pow) is proved, through C01's imported theorems, to return the model's number in canonical form or the model's error. "
              "The hand-written model is tied to /repo on every run by differential "
              "execution (model vs real code) over all thresholds of both converters and a malformed-text stream, plus a direct "
              "comparison of all flag combinations with Rust's primitive integer formatting.")
LEVEL_NOTE = ("Trusted: Lean kernel; axioms propext/Classical.choice/Quot.sound; the correspondence harness and generators (sampling) "
              "for the tie model<->code; division/multiplication kernels used inside the converters are exact arithmetic in the model "
              "(frontier, see evidence). Constants of the SWAR routine, DigitCase, the DigitWriter buffer, both CHUNK_LENs and the tower-loop test "
              "and the parsers' digit table (digit_from_ascii_byte, is_radix_valid) and the chunk-buffer arithmetic of to_chunks / words_to_chunks are regenerated from the source text on every run (Tie A). Six defects found by this check "
              "were repaired in /repo (`fixed:` lines of known_findings.jsonl; the last one, to_chunks with chunk_bits >= 2^63 on a heap value, by 80bcfde); model and "
              "theorems describe the repaired code. No open finding entry; one reported defect is outside what the check can observe (from_chunks over-allocates 64x, see FRONTIER).")
TECHNIQUE = "Lean 4 refinement proofs (positional-representation algebra, induction over digit/word lists, all W) + differential correspondence model vs real code + comparison with Rust primitive formatting"
