"""C16 — operations terminate and panic only where the documentation says so (DESIGN §8 C16) — PARTIAL."""
import os, struct, sys
from vlib import core
from vlib.core import Case
from vlib.gens import *

GROUP = "panic"
LEAN_PROPS = "Dashu.Props.C16"
LEAN_AUDIT = "Dashu.Audit.C16"
# Tie A, typed translator: the entry guards (prologues) of powf / ln / ln_1p / sqrt / div / ulp, IBig::nth_root / sqrt,
# in_radix, from_parts regenerated from /repo and proved equal to the hand-mirrored guards of `Model/Panic/Guards.lean`
USES_GEN = True
GEN_PROPS = ["Dashu.Props.GenGuards", "Dashu.Props.C16Gen"]
GEN_AUDIT = ["Dashu.Audit.GenGuards", "Dashu.Audit.C16Gen"]
JOBS = 14

# the supervisor in exec_panic decides `hang` on the worker's CPU time (not wall time: a loaded machine must not turn a
# slow case into a hang) and caps the worker's address space; limits per tier are set in pre_build()
core.ENV.setdefault("VERIF_PANIC_CPU_MS", "20000")
core.ENV.setdefault("VERIF_PANIC_MEM_MB", "4096")

REFINED = ["entry guards mirrored from the code and proved equivalent to the documentation: UBig::sub, div/rem/div_rem/"
           "div_euclid/rem_euclid/div_rem_euclid/is_multiple_of by zero (UBig, IBig), gcd/gcd_ext(0,0), UBig/IBig::nth_root, "
           "IBig::sqrt, UBig/IBig::ilog, in_radix, ConstDivisor::new, is_multiple_of_const, float assert_finite_operands / "
           "assert_limited_precision as used by add/sub/div/sqrt/ulp, float div_euclid/rem_euclid, powf, split_at_point, "
           "ln and ln_1p (domain guard of fix b0e87a3), RBig/Relaxed::from_parts, nearest/next_up/next_down(limit = 0)",
           "round 2 (GuardsMore): float to_int/trunc/fract/ceil/floor/round, rem, inv, to_binary, from_repr; rational "
           "from_parts_signed, inv, / % div_euclid, / integer; ConstDivisor::from_word/from_dword and its uses, Reduced ops of two "
           "rings (DifferentRings), to_chunks, UBig::in_radix — full equivalences; partial (hypothesis excludes a recorded finding, "
           "counterexample theorem shows it is needed): float mul/sqr/cubic/powi/shl/shr (unchecked exponent), exp/exp_m1 "
           "(|x| <= 2^61), to_decimal (binary precision 1..3)",
           "allocation requests of ones / set_bit / << (64-bit words): the request exceeds the result by <= 2 words, so "
           "Buffer::allocate/reallocate's MAX_CAPACITY test fires iff the documentation says AllocTooMuch, outside a band of two "
           "word counts (band counterexample proved)",
           "round 3: the 58 operations for which the documentation names no panic (parsers, formatting, shifts right, bit "
           "inspectors, conversions, comparisons, rational arithmetic without division): `documented = none` for all arguments; "
           "f.info, Reduced ops in one ring (inv at its specification), from_chunks(chunk_bits = 0), IBig <<; from_parts partial",
           "round 3 loops (fuel models, termination under the condition the code establishes): exp Maclaurin loop (|r| <= 1/2), "
           "iacoth series (n >= 2), integer log estimate-fixing loops (base >= 2), UBig::remove first stage (<= bit_len steps), "
           "binary-exponentiation bit loop of pow/powi",
           "RBig::farey_neighbors loop (fuel model): terminates within `limit` iterations; needs exactly `limit` for x = 1/(limit+1)",
           "float ln series loop (fuel model over Rat): terminates for 0 <= z <= 1/3 (x > 0 after scaling, the only input that "
           "reaches it since the ln guard); as-is counterexample for the pre-fix code: never terminates for z >= 2 (x < 0)",
           "float parser marker search: byte offsets returned for ASCII markers are UTF-8 boundaries",
           "round 5: size RESERVATIONS mirrored (Model/Panic/Guards5.lean), executed by the driver for every u.pow / i.pow / q.pow / "
           "u.from_chunks case and proved (64-bit words, all arguments): math::max_exp_in_word meets its specification (base^k <= "
           "Word::MAX, k >= 1, every word size); pow_word_base and pow_dword_base: (S1) documented AllocTooMuch => the reservation "
           "is refused with AllocTooMuch, (S2) refused => the documentation does not say `returns`; a pure power of two: full "
           "equivalence (exp.checked_mul(shift) + the exact `1 << n` request); Repr::from_chunks: (S1) when the unchecked "
           "`result_len` stays inside usize, (S2) for chunks of <= 2^32 words; counterexample theorems for the converse of (S1) "
           "(findings pow_dword_estimate, from_chunks_size_arithmetic), for the missing reservation of >= 3-word bases (finding "
           "pow_large_base_no_precheck) and for result_len leaving usize",
           "round 5: RBig/Relaxed::to_float: the bare assert fails iff UnlimitedPrecision is documented (both ops, every precision); "
           "FBig Sum / Product: the fold stops with Infinite at the first infinite element iff documented (lists of any length); "
           "UBig/IBig Sum / Product, UBig/IBig/RBig Hash: no documented panic for any argument list; FBig::ulp re-stated with the "
           "exponent-underflow clause (partial: precision <= 2^62, counterexample at precision 2^63)",
           "round 5 Tie A (Props/C16Gen.lean over Gen/Scratch.lean + the new Gen/SizeGuards.lean): pow_word_base path / buffer words, "
           "pow_dword_base buffer words, max_exp_in_word shortcut / start exponent / loop step, from_chunks assert + result_len, "
           "rational to_float assert / no-scaling test / shift are REGENERATED from the Rust text and proved equal to the mirrored "
           "definitions the driver executes",
           "round 6 (after fix 43925c0): rational to_float `need_digits = precision.saturating_add(den_digits)` regenerated (usize::MAX a "
           "parameter) and mirrored (qToFloatNeedDigits / qToFloatShift); theorem to_float_need_digits_in_usize: need_digits and shift are "
           "machine numbers for every input and equal the exact sum whenever that fits — the former finding to_float_precision_overflow is "
           "now a theorem; findings float_parse_exponent_overflow, to_chunks_allocates_chunk_bits, to_float_precision_overflow are `fixed:` "
           "lines, float_precision_usize_overflow is narrowed to Context::powi (exp.rs:127,146), float_precision_isize_cast to FBig::ulp",
           "round 6: Context::powi working precisions (`precision + guard_bits`, `precision + guard_digits`) REGENERATED from exp.rs "
           "(Gen/SizeGuards powi_rev_precision / powi_work_precision), mirrored (fPowiRevPrecision, fPowiWorkPrecision, fPowiPrecisionFits), "
           "proved equal, linked to C11's powiWorkPrec (powi_work_precision_is_c11s); fbig_powi_precision_fits (all p, e with "
           "p + bit_len(e) + 192 <= usize::MAX) and fbig_powi_precision_counterexample (= the finding's class boundary usize::MAX-66/-67)",
           "round 7: FBig::ulp — the hypothesis `precision <= 2^62` of fbig_ulp_guard_partial weakened to the weakest possible one "
           "(fbig_ulp_guard_sharp_partial: prec = 0, or infinite, or isize::MIN <= exp + digits - prec; every precision up to usize::MAX); "
           "fbig_ulp_guard_exact_class: on canonical moderate operands guard == documentation for all kinds IFF that hypothesis holds, and "
           "outside it the code returns where ExponentOverflow is documented (the class of finding float_precision_isize_cast as a theorem, "
           "not only its witness); closed form fbig_ulp_guard_prec_bound_partial: precision <= 3*2^61 (Proofs/Panic/UlpSharp.lean)",
           "round 8: Reduced / Reduced — `inv()` is no longer taken at its specification: link theorems by import of C13's inv_spec / "
           "div_spec (Proofs/Panic/InvLink.lean): reduced_div_guard_is_c13s (guardMSame passes IFF C13's modelled inv returns Some; says "
           "NonInvertible IFF the modelled `/` ends in NonInvertible; passes IFF the modelled `/` returns — every W >= 1, every accepted "
           "modulus incl. multi-word rings, every dividend/divisor) and reduced_div_documented_is_c13s (the same on the documentation, "
           "modulus != 1; DivideByZero documented IFF C13's constructor refuses the modulus)"]
FRONTIER = ["reservations only partly tied to the documentation: pow of an EVEN base with odd part > 1 (second-stage `<<` request depends "
            "on the value odd^e: `guardPow = none`, decided by correspondence); pow of a >= 3-word base (no reservation exists in the "
            "code: finding, counterexample theorem); the converse of (S1) is false in the band between reservation and result size "
            "(counterexample theorems) — these are facts about the code, not gaps of the model",
            "the overflow test of exp beyond |x| = 2^61 (transcendental threshold); Reduced::inv is linked to C13's modelled kernels since "
            "round 8 (reduced_div_guard_is_c13s) — what stays open there is C13's own frontier (its mirrored kernels vs the compiled code)",
            "that the BODIES behind the guards never panic / always terminate is proved only for the modelled loops (farey, ln, exp, "
            "iacoth, ilog fixing, remove stage 1, pow bit loop, max_exp_in_word loop invariant); Newton root iteration and the gcd loops "
            "have fuel-bound theorems in C12's model, not repeated here; everything else (multiplication, division, parsing, formatting "
            "kernels) is observed by the correspondence (per-case CPU limit, termination stream up to 2*10^6 bits / 20000 digits), not proved",
            "float operands with |exponent| > 2^61: the transcription answers only where the code has an explicit rule (shl/shr exact, "
            "mul/sqr/cubic/powi of +-B^k, from_parts, ulp underflow); all other ops return `unspecified` there — no executable rule can "
            "be given without the rounding position of the result; result sizes between 2^30 and 2^38 bits: `unspecified` (whether the "
            "allocator succeeds under the 4 GiB cap is a fact about the environment; not exercised to keep the shared machine usable)",
            "float operands whose context precision is > 2^62: only the exact-result ops are transcribed and driven (add sub mul sqr cubic "
            "powi cmp rounding ops conversions ulp); div/sqrt/exp/ln/powf/inv at such precisions are not generated (result needs p digits)",
            "operator impls of UBig/IBig in all primitive/reference forms: covered by group `forms` (C15), not repeated here",
            "not driven: num-traits / num-integer / rand / zeroize / serde integrations (need cargo features + lockfile entries the shared "
            "offline harness manifest does not have; adding them changes every group's dependency resolution), macros crate, Buffer-level "
            "internals, FBig Display with huge exponents; dashu::Natural/Integer/Real/Decimal/Rational are `pub type` aliases (checked "
            "textually in pre_build): the compiler makes them the driven types, no separate run can add information; RBig/Relaxed have NO "
            "Sum/Product impl (rational/src/iter.rs is not a module of the crate — reported)"]
RULE = ("One case = one public API call at a domain edge; both sides print only HOW the call ends (ok | panic <Kind> | hang | crash). "
        "Integers: parsers (from_str_radix / with_radix_prefix / with_radix_default / FromStr, UBig and IBig) on a pool of ~60 strings "
        "(empty, signs only, `_`, prefixes without digits, non-ASCII and multi-byte UTF-8 at every position, NUL, spaces) x radix "
        "{0,1,2,10,36,37,2^32-1}; in_radix radix {0,1,2,36,37}; shifts / set_bit / ones with counts {0,1,63..65,10^6, 2^38, 2^40, 2^62, "
        "usize::MAX-1, usize::MAX}; pow with exponents up to usize::MAX for 1-, 2- and 3-word bases; roots (n = 0, even/odd, negative); "
        "ilog (0, base 0/1/2^k/multi-word); gcd/gcd_ext incl. long zero tails; division family by zero; chunks (0, huge); ConstDivisor 0; "
        "Reduced from same / different rings, non-invertible division. Floats (bases 2 and 10): every operation on {+-inf, 0, +-1, 3, -3, "
        "12345e+-2, e+-30, e+-400} x precision {0, fitting}, shifts by isize extremes, exp/powi at the exponent-overflow edge, ln at and "
        "below 0, parse on ~110 strings with multi-byte UTF-8 around every marker (. e E @ p P b B 0x _ + -). Rationals: zero denominators, "
        "division by zero, pow, nearest/next_up/next_down with limit {0,1,2,10, 2^16, 10^8, 2^64-1, 10^20}, parse pool incl. `1/0`. "
        "Thorough tier repeats every case in the release build of the harness (`R/` prefix) and adds seeded random strings / operands. "
        "Round 5 (addendum E): every usize / isize / u32 argument of every cheap op with {0,1,63,64,65,128,2^31,2^32-1,2^32,2^32+k,2^63-1,2^63,"
        "2^63+1,usize::MAX-k} (k sampled in quick, every k < 131 in thorough); allocating ops with one value per outcome kind; context "
        "precisions {2^31,2^32,2^63-1,2^63,MAX/3(+1),MAX/2(+1),MAX-130..MAX} on the exact-result float ops; RBig::to_float per base at "
        "every precision class incl. the `precision + den_digits` overflow edge; every byte 0x00..0x7f and three multi-byte chars in "
        "every syntactic position of the integer / float / rational parsers; pow around exp = wexp, 2*wexp for odd bases of EVERY bit "
        "length 2..64; in_radix of r^n-1, r^n, r^n+1 for every radix at 63..192 bits; nth_root / ilog / remove on k^n-1, k^n, k^n+1 for k "
        "of every bit length; Sum/Product/Hash over size-class lists with infinities at every position. "
        "Non-trivial := the documentation predicts a panic, or an argument is at a domain edge (every generated case); distinct := "
        "distinct (op,args) lines.")
EXPLANATION = ("The model of this property is the documentation: Spec/Panics.lean transcribes the rustdoc `# Panics` sections, the "
               "trait/type level docs and the central panic helpers into a decidable `verdict : Op -> Args -> returns | panics k | "
               "unspecified` (157 operations). Proved: every kind it returns is a documented one; for all but the pow family (reservations: the two implications S1/S2, executed per case) the entry guards / absence of guards "
               "mirrored from the code fail with kind k iff the documentation names k; the Farey walk terminates within `limit` steps and "
               "needs `limit` steps on 1/(limit+1) (the linear-time finding, made precise); ln/ln_1p now guard their domain (proved "
               "equivalent to the documentation) so the series loop is entered only where it provably terminates; for the pre-fix "
               "code the loop provably never terminates on negative input (kept as as-is counterexample). Everything else is decided by running the real "
               "call (debug build; thorough: also release) under a watchdog with an address-space cap against the transcription.")
ASSUMPTIONS = ["Spec/Panics.lean is a faithful transcription of the rustdoc (it is the thing to review)",
               "the harness address-space cap (4 GiB) turns allocation failure into the documented `out of memory` panic",
               "per-case CPU-time limit (20 s quick, 120 s thorough; 6x for the termination stream) distinguishes termination from non-termination for the generated sizes"]
LEVEL_TEXT = ("PARTIAL. Lean 4 theorems: the transcription of the documentation is total and only names documented kinds; the entry "
              "guards of 153 of the 157 operations (mirrored from the code) are equivalent to it (pow / from_chunks reservations: implications S1, S2 + counterexamples; regenerated from source, Tie A); the loops whose termination is the "
              "question (see REFINED) are modelled with fuel and their (non-)termination is proved. The rest of the public API (157 ops in total) is "
              "decided by correspondence only: each call runs in a supervised worker (panic capture, CPU-time limit, address-space cap) in "
              "the debug build and, in the thorough tier, the release build, and its outcome class is compared with the transcription.")
LEVEL_NOTE = ("Trusted: Lean kernel; axioms propext/Classical.choice/Quot.sound; the transcription of the rustdoc; the harness, its "
              "watchdog and classify_panic table. Operator impls of integers in every primitive form are covered by group `forms` "
              "(C15, 1720 impls, panic kinds compared) and are not repeated. Termination is proved only for the modelled loops (farey, ln series, exp Maclaurin, iacoth, ilog fixing, remove stage 1, pow bit loop).")
TECHNIQUE = "Lean 4 transcription of the documentation + guard-equivalence/termination theorems + supervised differential run (debug and release)"
THEOREMS = ["Dashu.Props.C16." + t for t in (
    "documented_is_total documented_never_undocumented kind_names_agree kind_names_distinct ubig_sub_guard "
    "ubig_div_family_guard ibig_div_family_guard ubig_gcd_guard ibig_gcd_guard ubig_nth_root_guard ibig_nth_root_guard "
    "ibig_sqrt_guard ubig_ilog_guard ibig_ilog_guard in_radix_guard const_divisor_new_guard rbig_from_parts_guard "
    "rbig_limit_guard fbig_add_sub_guard fbig_div_guard fbig_sqrt_guard fbig_ulp_guard_partial fbig_ulp_guard_counterexample ubig_is_multiple_of_const_guard "
    "ibig_is_multiple_of_const_guard fbig_split_at_point_guard fbig_euclid_guard fbig_powf_guard fbig_ln_guard "
    "fbig_ln_1p_guard fbig_finite_only_guard fbig_mul_guard_partial fbig_mul_guard_counterexample fbig_sqr_guard_partial fbig_cubic_guard_partial fbig_rem_guard fbig_inv_guard fbig_exp_guard_partial fbig_powi_guard_partial fbig_shl_guard_partial fbig_shr_guard_partial fbig_shl_guard_counterexample fbig_to_binary_guard fbig_to_decimal_guard_partial fbig_to_decimal_guard_counterexample fbig_from_repr_guard rbig_from_parts_signed_guard rbig_inv_guard rbig_div_family_guard rbig_div_int_guard const_divisor_from_word_guard const_divisor_from_dword_guard const_divisor_use_guard reduced_different_rings_guard to_chunks_guard ubig_in_radix_guard ones_alloc_guard set_bit_alloc_guard shl_alloc_guard_partial shl_alloc_band_counterexample parse_radix_never_panics parse_never_panics unary_int_never_panics int_index_never_panics remove_never_panics from_ieee_never_panics float_cmp_never_panics float_conv_never_panics with_precision_never_panics float_ctor_never_panics ratio_parse_never_panics ratio_unary_never_panics ratio_binary_never_panics fbig_info_guard reduced_same_ring_guard from_chunks_zero_guard ishl_alloc_guard_partial fbig_from_parts_guard_partial fbig_from_parts_guard_counterexample exp_series_terminates iacoth_series_terminates ilog_fix_returns remove_returns pow_bit_loop_terminates farey_terminates "
    "farey_needs_limit_steps ln_positive_terminates ln_negative_never_terminates ascii_cuts_safe "
    "float_parser_cuts_safe "
    "max_exp_in_word_spec pow_word_reservation_sound_partial pow_word_refused_not_returns pow_dword_reservation_sound_partial pow_dword_refused_not_returns pow_dword_band_counterexample pow_large_no_reservation_counterexample pow_two_reservation_guard from_chunks_reservation_sound_partial from_chunks_refused_not_returns from_chunks_overallocation_counterexample from_chunks_arithmetic_unchecked_counterexample rbig_to_float_assert_guard fbig_sum_guard fbig_product_guard int_fold_never_panics hash_never_panics rbig_to_float_b_assert_guard").split()]

THEOREMS += ["Dashu.Props.C16Gen." + t for t in (
    "pow_word_request_is_generated pow_dword_request_is_generated max_exp_loop_is_generated max_exp_in_word_is_generated "
    "from_chunks_len_is_generated from_chunks_guard_is_generated to_float_assert_is_generated to_float_shift_is_generated to_float_need_digits_in_usize "
    "powi_precision_is_generated powi_work_precision_is_c11s").split()]
THEOREMS += ["Dashu.Props.C16.fbig_powi_precision_fits", "Dashu.Props.C16.fbig_powi_precision_counterexample"]
# round 7: FBig::ulp at every precision up to usize::MAX (hypothesis = the documented underflow clause is silent; exact class)
THEOREMS += ["Dashu.Props.C16." + t for t in ("fbig_ulp_guard_sharp_partial", "fbig_ulp_guard_exact_class", "fbig_ulp_guard_prec_bound_partial")]
# round 8: link to C13 — the NonInvertible guard of Reduced / Reduced decides what C13's modelled inv / div do
THEOREMS += ["Dashu.Props.C16." + t for t in ("reduced_div_guard_is_c13s", "reduced_div_documented_is_c13s")]

M = 2 ** 64 - 1
IMAX = 2 ** 63 - 1
IMIN = -2 ** 63


def S(s):
    return "s:" + s.encode("utf-8").hex()


def D(n):
    return "d:%d" % n


def F(base, sig, exp, prec):
    """canonical float argument (see Spec/Panics.lean FArg.canonical)"""
    if sig == 0:
        assert exp in (0, 1, -1)
    else:
        assert abs(sig) % base != 0
        if prec:
            d, n = 0, abs(sig)
            while n:
                n //= base; d += 1
            assert d <= prec, (base, sig, prec)
    return "f:%d:%s:%d:%d:%s" % (base, hx(sig), exp, prec, "Z" if base == 2 else "H")


INT_STRINGS = ["", "+", "-", "_", "__", "0", "00", "12", "zz", "Zz", "é", "1é", "é1", "1é2", "0x", "0x1f", "-0b", "0b2", "0o8", "１２", "1_000",
               "_1", "1_", "+-1", "-+1", "++1", " 1", "1 ", "\x001", "1\x00", "0x_", "-_", "+_", "0X1F", "1e5", "1.5", "-", "+0", "-0", "0b",
               "0o", "0b_1", "١٢٣", "1​2", "\U0001F600", "1\U0001F600", "a" * 40, "9" * 80, "-" + "f" * 70, "+" + "0" * 50, "0" * 50 + "_",
               "0x" + "é", "-0x-1", "0x+1", "0b-1", "１", "𝟙𝟚", "ⅷ", "¹²", "1\n", "\t1", "1,000"]
RADICES = [0, 1, 2, 10, 16, 36, 37, 2 ** 32 - 1]

FLOAT_STRINGS = ["", "+", "-", ".", "-.", "+.", "1", "1.", ".5", "1.5", "-1.5e3", "1e", "e5", "1e+", "1e-", "1e5x", "1e5.5", "1@5", "1.1@-5",
                 "0x", "0x.", "0x1", "0x1.8p3", "0x.8", "0x.8p1", "0x1p", "1p3", "1.p3", ".1p3", "1b3", "1.1b-3", "0X1P3", "0x1.8P-3", "1_0.0_1",
                 "_", "_._", "1._", "._1", "1.5_e3", "é", "1é", "1.é", "é.1", "1eé", "1é5", "1.5eé", "１.５", "1.5e１", "0xé", "0x1.ép1", "0xép1",
                 "1.5́", "é.", ".é", "é.é", "éeé", "é@é", "1é.5", "1.5ée3", "1.5eé3", "1.5e3é", "épé", "0xé.ép1", "ébé", "1@é", "é@1",
                 "@é", " ", "1..5", "1.5.5", "1e5e5", "--1", "+-1", "-+1", " 1", "1 ", "inf", "nan", "-inf", "NaN", "infinity", "1/2", "0x1.8",
                 "0x_", "0x_.p1", "1e99999999999999999999", "1e-99999999999999999999", "e", "@", "p", "b", "1@", "1b", "0b1", "0b", "1h3", "1o3",
                 "0.0", "0e0", "00", "-0", "-0.0e-5", "1" * 300 + "." + "2" * 300, "1e5\U0001F600", "\U0001F600e5", "1\U0001F600.5", ".\U0001F600",
                 "1.5e+5", "1.5E-5", "1_5e1_0", "1.e5", ".e5", "-.e", "0x.p0", "0x1.", "1.5p3", "１e５", "1.5e9223372036854775807",
                 "1e-9223372036854775808", "1e9223372036854775808", "1e-9223372036854775809"]
# strings whose exact value has an exponent outside isize: the documented outcome is Err or a documented panic, not arithmetic
FLOAT_OVERFLOW_STRINGS = ["1.5e-9223372036854775808", "10e9223372036854775807", "0.00001e-9223372036854775807", "100e9223372036854775806"]

RATIO_STRINGS = ["", "/", "1/", "/1", "1/0", "0/0", "-0/-0", "1/2", "-1/-2", "1/2/3", "é/1", "1/é", "1é/2", "é/é", "1/2é", "0x10/0x2", "0x10/2",
                 "0b1/0o7", "1/-0", "+1/+2", " 1/2", "1 / 2", "1_0/2_", "_/_", "z/z", "１/２", "0x/1", "1/0x", "1/0x0", "0/5", "-/1", "1//2",
                 "\U0001F600/1", "1/\U0001F600", "-1/+0", "0x0/0x0", "1/00", "1/_0"]


def ieee64(v):
    return struct.unpack("<Q", struct.pack("<d", v))[0]


def _alloc(bits):
    if (bits + 63) // 64 > (2 ** 64 - 1) // 64:
        return "AllocTooMuch"
    if bits >= 2 ** 38:
        return "OutOfMemory"
    return "ok" if bits <= 2 ** 30 else None


def _alloc_range(lo, hi):
    return _alloc(lo) if _alloc(lo) == _alloc(hi) else None


def pow_verdict(mag, e):
    """mirror of Spec/Panics.lean powVerdict (None = unspecified); used only to keep the generator out of the grey zones"""
    if mag <= 1 or e <= 1:
        return "ok"
    s = (mag & -mag).bit_length() - 1
    odd = mag >> s
    L = odd.bit_length()
    if odd == 1:
        return _alloc(s * e + 1)
    v = _alloc_range((L - 1) * e + 1, L * e)
    if v == "ok":
        return _alloc_range((L - 1) * e + 1 + s * e, L * e + s * e)
    return v


def pow_ok_to_generate(mag, e):
    v = pow_verdict(mag, e)
    if v is None:
        return False
    if v == "ok" and mag > 1 and e > 1 and mag.bit_length() * e > 2 ** 22:
        return False         # would return, but too slow for the per-case limit
    return True


def int_cases(rng, tier):
    th = tier == "thorough"
    strs = list(INT_STRINGS)
    if th:
        alphabet = "0123456789abzAZ_+-x. é１\x00"
        for _ in range(400):
            strs.append("".join(rng.choice(alphabet) for _ in range(rng.randrange(0, 9))))
    for s in strs:
        for r in RADICES:
            yield Case("u.from_str_radix", [S(s), D(r)]); yield Case("i.from_str_radix", [S(s), D(r)])
            if th or r in (0, 10, 37):
                yield Case("u.from_str_default", [S(s), D(r)]); yield Case("i.from_str_default", [S(s), D(r)])
        yield Case("u.from_str_prefix", [S(s)]); yield Case("i.from_str_prefix", [S(s)])
        yield Case("u.from_str", [S(s)]); yield Case("i.from_str", [S(s)])
    for r in (0, 1, 2, 3, 10, 36, 37, 2 ** 32 - 1):
        for x in (0, 255, 1 << 200):
            yield Case("u.in_radix", [hx(x), D(r)]); yield Case("i.in_radix", [hx(-x), D(r)])
    for x in (0, 1, 12345, (1 << 300) + 7):
        yield Case("u.fmt", [hx(x)]); yield Case("i.fmt", [hx(-x)])
    xs = [0, 1, 3, (1 << 64) + 1, (1 << 175) - 1]
    ns = [0, 1, 63, 64, 65, 127, 128, 1000, 10 ** 6, 2 ** 38, 2 ** 40, 2 ** 62, M - 200, M - 64, M - 1, M]
    for x in xs:
        for n in ns:
            yield Case("u.shl", [hx(x), D(n)]); yield Case("i.shl", [hx(-x), D(n)])
            yield Case("u.shr", [hx(x), D(n)]); yield Case("i.shr", [hx(-x), D(n)])
            yield Case("u.set_bit", [hx(x), D(n)]); yield Case("u.clear_bit", [hx(x), D(n)])
            yield Case("u.bit", [hx(x), D(n)]); yield Case("i.bit", [hx(-x), D(n)])
            yield Case("u.split_bits", [hx(x), D(n)]); yield Case("u.clear_high_bits", [hx(x), D(n)])
    for n in ns:
        yield Case("u.ones", [D(n)])
    # pow: small results, and exponents whose result cannot exist
    for x in (0, 1, 2, 3, 10, 16, 1 << 32, (1 << 64) - 1, 1 << 64, (1 << 64) + 1, 3 << 64, (1 << 200) + 1, 1 << 200):
        L = x.bit_length()
        for e in (0, 1, 2, 3, 5, 64, 1000, 2 ** 20, 2 ** 38, 2 ** 40, 2 ** 57, 2 ** 58, 2 ** 62, 2 ** 63, M - 1, M):
            if not pow_ok_to_generate(x, e):
                continue
            # a >= 3-word base with an impossible exponent runs until memory is exhausted (finding
            # pow_large_base_no_precheck, CPU-limit `hang`): one such case per tier besides the corpus witness
            # (quick: the corpus witness `u.pow (2^200+1) 2^57` is the one such case — each costs the whole CPU limit)
            if x == (1 << 200) + 1 and e >= 2 ** 38 and not (tier != "quick" and e in (2 ** 40, 2 ** 57, M)):
                continue
            yield Case("u.pow", [hx(x), D(e)]); yield Case("i.pow", [hx(-x), D(e)])
    for x in (0, 1, 4, 8, 27, (1 << 200) + 5, -1, -4, -8, -27, -((1 << 200) + 5)):
        if x >= 0:
            yield Case("u.sqrt", [hx(x)]); yield Case("u.cbrt", [hx(x)])
        yield Case("i.sqrt", [hx(x)]); yield Case("i.cbrt", [hx(x)])
        for n in (0, 1, 2, 3, 4, 5, 64, 2 ** 32, M - 1, M):
            if x >= 0:
                yield Case("u.nth_root", [hx(x), D(n)])
            yield Case("i.nth_root", [hx(x), D(n)])
    for x in (0, 1, 2, 255, -255, 1 << 64, (1 << 200) + 1, -(1 << 130)):
        for b in (0, 1, 2, 3, 4, 10, 1 << 32, 1 << 64, (1 << 64) + 1, 1 << 128, 1 << 130, (1 << 200) + 1):
            if x >= 0:
                yield Case("u.ilog", [hx(x), hx(b)])
            yield Case("i.ilog", [hx(x), hx(b)])
    G = [0, 1, 5, 1 << 64, 1 << 128, 1 << 320, (1 << 320) + (1 << 128), 3 << 200, (1 << 128) * 7, (1 << 1000), (1 << 700)]
    for a in G:
        for b in G:
            yield Case("u.gcd", [hx(a), hx(b)]); yield Case("u.gcd_ext", [hx(a), hx(b)])
            yield Case("i.gcd", [hx(-a), hx(b)]); yield Case("i.gcd_ext", [hx(a), hx(-b)])
    for (a, b) in ((1, 2), (0, 1), (1 << 200, (1 << 200) + 1), (5, 1 << 200), (1 << 200, 5), (7, 7)):
        yield Case("u.sub", [hx(a), hx(b)])
    for op in ("div", "rem", "div_rem", "div_euclid", "rem_euclid", "div_rem_euclid", "is_multiple_of"):
        for x in (0, 5, 1 << 64, (1 << 200) + 3):
            for y in (0, 3, 1 << 64, (1 << 130) + 1):
                yield Case("u." + op, [hx(x), hx(y)]); yield Case("i." + op, [hx(-x), hx(-y)])
    for x in (0, 5, 1 << 64, (1 << 200) + 3):
        for d in (0, 3, (1 << 64) + 1, (1 << 128) - 1):
            yield Case("u.is_multiple_of_const", [hx(x), hx(d)]); yield Case("i.is_multiple_of_const", [hx(-x), hx(d)])
        for f in (0, 1, 2, 3, 4, 6, 1 << 64, (1 << 70) + 1):
            yield Case("u.remove", [hx(x), hx(f)]); yield Case("u.remove", [hx(x * max(f, 1) ** 3), hx(f)])
    for x in (0, 1, (1 << 150) + 5, (1 << 1000) - 1):
        for k in (0, 1, 7, 63, 64, 65, 128, 1000):
            yield Case("u.to_chunks", [hx(x), D(k)])
    yield Case("u.to_chunks", [hx(1 << 150), D(2 ** 40)]); yield Case("u.to_chunks", [hx(5), D(2 ** 40)]); yield Case("u.to_chunks", [hx(5), D(M)]); yield Case("u.to_chunks", [hx(1 << 150), D(M - 63)])
    for k in (0, 1, 8, 64, 65, 128):
        for cs in ([], [1], [1, 0, 255], [0, 0], [(1 << 150) + 1, 5], [0] * 5 + [3]):
            yield Case("u.from_chunks", [D(k)] + [hx(c) for c in cs])
    for k in (2 ** 40, 2 ** 62, M):
        for cs in ([], [1], [0, 0], [0, 1], [1, 0, 255]):
            yield Case("u.from_chunks", [D(k)] + [hx(c) for c in cs])
    for x in (0, 1, -1, (1 << 160) - 1, -((1 << 160) - 1), 1 << 127, -(1 << 127), 1 << 128, -(1 << 63), (1 << 64) - 1):
        if x >= 0:
            yield Case("u.bitinfo", [hx(x)]); yield Case("u.to_prims", [hx(x)]); yield Case("u.bytes", [hx(x)])
        yield Case("i.bitinfo", [hx(x)]); yield Case("i.to_prims", [hx(x)]); yield Case("i.bytes", [hx(x)]); yield Case("u.try_from_i", [hx(x)])
    for v in (0.0, -0.0, 1.5, -1.5, float("inf"), float("-inf"), float("nan"), 1e300, -1e300, 5e-324, 2.0 ** 64, 2.0 ** 1023):
        b = ieee64(v)
        yield Case("u.try_from_f64", [D(b)]); yield Case("i.try_from_f64", [D(b)])
    for b32 in (0, 0x80000000, 0x3fc00000, 0x7f800000, 0xff800000, 0x7fc00000, 0x7f7fffff, 1, 0x5f800000):
        yield Case("u.try_from_f32", [D(b32)]); yield Case("i.try_from_f32", [D(b32)])
    for x in (0, 1, 2, (1 << 64) - 1, 1 << 64, (1 << 128) - 1, 1 << 128, (1 << 200) + 1):
        yield Case("cd.new", [hx(x)])
        if x < 1 << 64:
            yield Case("cd.from_word", [hx(x)])
        if x < 1 << 128:
            yield Case("cd.from_dword", [hx(x)])
        yield Case("cd.divrem", [hx(-7), hx(x)]); yield Case("cd.divrem", [hx(1 << 300), hx(x)])
    mods = [7, 12, (1 << 64) + 13, (1 << 200) + 357, 1 << 64, 2]
    for f in ("add", "sub", "mul", "div", "eq"):
        for m in mods:
            for (a, b) in ((3, 5), (3, 0), (3, 6), (0, 0), (-1, m + 1), (m, m - 1)):
                yield Case("m.same", ["fn:" + f, hx(m), hx(a), hx(b)])
            yield Case("m.diff", ["fn:" + f, hx(m), hx(3), hx(m), hx(5)]); yield Case("m.diff", ["fn:" + f, hx(m), hx(3), hx(11), hx(5)])
        yield Case("m.diff", ["fn:" + f, hx(0), hx(3), hx(7), hx(5)]); yield Case("m.diff", ["fn:" + f, hx(7), hx(3), hx(0), hx(5)])
        yield Case("m.same", ["fn:" + f, hx(0), hx(3), hx(5)])
        if f != "div":
            yield Case("m.same", ["fn:" + f, hx(1), hx(3), hx(5)])
    for m in mods + [0, 1]:
        for a in (0, 1, 3, -3, 6):
            yield Case("m.inv", [hx(m), hx(a)])
            for e in (0, 1, 2, 1 << 70):
                yield Case("m.pow", [hx(m), hx(a), hx(e)])


def float_operands(base, p):
    big = 0x3039
    vals = [("inf", (0, 1)), ("ninf", (0, -1)), ("zero", (0, 0)), ("one", (1, 0)), ("mone", (-1, 0)), ("three", (3, 0)), ("mthree", (-3, 0)),
            ("big", (big, 2)), ("small", (big, -2)), ("nsmall", (-big, -2)), ("e30", (1, 30)), ("em30", (7, -30)), ("tiny", (1, -400)),
            ("huge", (3, 400)), ("mhuge", (-3, 400)), ("half", (1, -1) if base == 2 else (5, -1)), ("mtiny", (-1, -400)), ("nineish", (9, -1) if base == 10 else (7, -3))]
    out = {}
    for k, (s, e) in vals:
        pp = p if p == 0 or s == 0 else max(p, 14 if base == 2 else 5)
        out[k] = F(base, s, e, pp)
    return out


def float_cases(rng, tier):
    th = tier == "thorough"
    for base in (2, 10):
        Z = F(base, 0, 0, 1)
        for p in (0, 1, 20):
            V = float_operands(base, p)
            names = list(V)
            bin_a = ["inf", "ninf", "zero", "one", "nsmall", "big", "tiny"]
            bin_b = ["inf", "ninf", "zero", "three", "nsmall", "em30", "huge"]
            for op in ("add", "sub", "mul", "div", "rem", "div_euclid", "rem_euclid", "powf", "cmp"):
                for a in bin_a:
                    for b in bin_b:
                        if op == "powf" and (("huge" in (a, b)) or ("tiny" in (a, b)) or b == "em30"):
                            continue
                        yield Case("f." + op, [V[a], V[b]])
            for op in ("sqr", "cubic", "sqrt", "inv", "ln", "ln_1p", "exp", "exp_m1", "to_int", "trunc", "fract", "ceil", "floor", "round",
                       "split_at_point", "ulp", "to_f32", "to_f64", "neg_abs", "fmt", "to_int_try", "to_decimal", "to_binary", "info", "to_ratio"):
                for a in names:
                    if op in ("exp", "exp_m1") and a in ("huge", "mhuge"):
                        continue      # |x| ~ 2^401: handled below with explicit magnitudes
                    yield Case("f." + op, [V[a]])
            for a in ("inf", "zero", "one", "mone", "three", "mthree", "nsmall"):
                for b in ("one", "zero", "three", "mone", "half"):
                    yield Case("f.powf", [V[a], V[b]])
            for a in ("inf", "zero", "one", "mone", "three", "mthree", "half", "nsmall"):
                for e in (0, 1, -1, 2, -2, 3, -3, 100, -100, 1000):
                    yield Case("f.powi", [V[a], hx(e)])
            for a in ("inf", "ninf", "zero", "one", "nsmall", "e30"):
                for n in (0, 1, -1, 1000, -1000, 2 ** 40, -2 ** 40, IMAX, IMIN, IMAX - 40, IMIN + 40):
                    yield Case("f.shl", [V[a], D(n)]); yield Case("f.shr", [V[a], D(n)])
                for q in (0, 1, 3, 50, 2 ** 40, M):
                    yield Case("f.with_precision", [V[a], D(q)])
        # base conversion of low-precision values (the target precision is derived from the source precision)
        for p in (1, 2, 3, 4, 7):
            for (sg, e) in ((1, 0), (-1, 3), (1, -2), (3 if base == 10 else 1, 5)):
                yield Case("f.to_decimal", [F(base, sg, e, p)]); yield Case("f.to_binary", [F(base, sg, e, p)])
        # exp at the exponent-overflow edge: |x| >= 2^66 overflows, |x| <= 2^61 does not
        for p in (1, 10):
            for k in (10, 40, 60):
                for sgn in (1, -1):
                    x = F(2, sgn, k, p) if base == 2 else F(10, sgn, k // 4, p)
                    yield Case("f.exp", [x]); yield Case("f.exp_m1", [x])
            for k in (66, 70, 400, 2 ** 20):
                for sgn in (1, -1):
                    x = F(2, sgn, k, p) if base == 2 else F(10, sgn, k, p)
                    yield Case("f.exp", [x]); yield Case("f.exp_m1", [x])
        # powi / mul / sqr / cubic of +-B^k: the result exponent is exact
        for k in (1, -1, 2 ** 40, -2 ** 40, 2 ** 61, -2 ** 61, 2 ** 62 + 2 ** 42, -2 ** 62 - 2 ** 42, IMAX, IMIN):
            for p in (0, 5):
                x = F(base, 1, k, p); y = F(base, -1, k, p)
                yield Case("f.sqr", [x]); yield Case("f.cubic", [y]); yield Case("f.mul", [x, y])
                yield Case("f.mul", [x, F(base, 1, -k if k != IMIN else IMAX, p)])
                for e in (2, 3, -2, 2 ** 10, 2 ** 62, M, -M, 1 << 70):
                    if e < 0 and p == 0:
                        continue
                    if abs(k * e) >= 2 ** 63 - 2 ** 41 and abs(k * e) <= 2 ** 63 + 2 ** 41:
                        continue
                    if e < 0 and abs(k) > 2 ** 61:
                        continue
                    yield Case("f.powi", [x, hx(e)])
        for (s, e) in ((1, 0), (1, IMAX), (1, IMIN), (base, IMAX), (base, 5), (base ** 3, IMAX - 2), (base ** 3, IMAX - 3), (0, 5), (0, -5), (-255, 0),
                       (base ** 40, 7), (3 * base ** 2, -9)):
            if s != 0 and e + s.bit_length() > IMAX and not (s % base == 0 and e == IMAX):
                continue
            yield Case("f.from_parts", [hx(s), D(e), Z])
        yield Case("f.from_parts", [hx(base), D(IMAX), Z]); yield Case("f.from_parts", [hx(base ** 3), D(IMAX - 2), Z])
        dbg = 1
        for (s, e, p) in ((0x3039, 0, 3), (0x3039, 0, 5), (0x3039, 0, 14), (base ** 5, 0, 1), (0, 1, 1), (0, 0, 0), (0x3039, 0, 0), (base ** 4 - 1, 0, 4),
                          (base ** 4 + 1, -3, 4), (-7, 2, 1), (-9, 2, 1) if base == 10 else (-3, 2, 1)):
            yield Case("f.from_repr", [D(dbg), "f:%d:%s:%d:%d:%s" % (base, hx(s), e, p, "Z" if base == 2 else "H")])
        for i in (0, 1, -255, 1 << 200):
            for p in (0, 1, 3):
                yield Case("f.from_int", [hx(i), D(p), Z])
        strs = list(FLOAT_STRINGS) + FLOAT_OVERFLOW_STRINGS
        if th:
            alphabet = "0123456789.eE@pPbB_xX+-é１ "
            for _ in range(1500):
                strs.append("".join(rng.choice(alphabet) for _ in range(rng.randrange(0, 10))))
        for s in strs:
            yield Case("f.parse", [S(s), Z])
    for v in (0.0, -0.0, 1.5, float("inf"), float("-inf"), float("nan"), 1e300, 5e-324, -2.5e-310, 2.0 ** -1074):
        yield Case("f.from_f64", [D(ieee64(v)), F(2, 0, 0, 1)])


def ratio_cases(rng, tier):
    th = tier == "thorough"
    for K in ("k:R", "k:X"):
        for n in (0, 1, -6, 1 << 200):
            for d in (0, 1, 4, -4, 1 << 200):
                if d >= 0:
                    yield Case("q.from_parts", [hx(n), hx(d), K])
                yield Case("q.from_parts_signed", [hx(n), hx(d), K])
        for s in RATIO_STRINGS:
            yield Case("q.parse", [S(s), K]); yield Case("q.from_str_prefix", [S(s), K])
            for r in (0, 1, 2, 10, 36, 37):
                yield Case("q.from_str_radix", [S(s), D(r), K])
        vals = [(0, 1), (1, 1), (-1, 1), (3, 4), (-7, 3), (1 << 200, 3), (1, 1 << 200), (-5, (1 << 64) - 1), (6, 4)]
        for (n, d) in vals:
            for op in ("inv", "sqr_cubic", "rounding", "to_floats", "sign", "fmt", "to_int_try"):
                yield Case("q." + op, [hx(n), hx(d), K])
            L = max(abs(n), d).bit_length()
            for e in (0, 1, 2, 3, 100, 2 ** 38, 2 ** 57, 2 ** 62, M):
                import math
                g = d if n == 0 else (math.gcd(abs(n), d) if K == "k:R" else 2 ** min((abs(n) & -abs(n)).bit_length() - 1, (d & -d).bit_length() - 1))
                if not pow_ok_to_generate(abs(n) // g, e) or (pow_verdict(abs(n) // g, e) == "ok" and not pow_ok_to_generate(d // g, e)):
                    continue
                yield Case("q.pow", [hx(n), hx(d), K, D(e)])
            for p in (0, 1, 5, 100):
                yield Case("q.to_float", [hx(n), hx(d), K, D(p)])
            for (n2, d2) in vals[:6]:
                for op in ("div", "add", "sub", "mul", "rem", "div_euclid", "cmp"):
                    yield Case("q." + op, [hx(n), hx(d), K, hx(n2), hx(d2)])
            for i in (0, 1, -3, 1 << 100):
                yield Case("q.div_int", [hx(n), hx(d), K, hx(i)])
    vals = [(0, 1), (1, 1), (-1, 1), (3, 4), (-7, 3), (1, 3), (2, 3), (1 << 200, 3), (1, 1 << 200), (-5, (1 << 64) - 1), (314159265, 10 ** 8), (1, 10001),
            (10000, 10001), (-1, 10 ** 8 + 1), (355, 113)]
    lims = [0, 1, 2, 3, 10, 2 ** 16]
    for (n, d) in vals:
        for lim in lims:
            for op in ("nearest", "next_up", "next_down"):
                yield Case("q." + op, [hx(n), hx(d), "k:R", hx(lim)])
        for (n2, d2) in vals[:8]:
            yield Case("q.simplest_in", [hx(n), hx(d), "k:R", hx(n2), hx(d2)])
    # the Farey walk is linear in `limit` (theorem farey_needs_limit_steps): large limits are the finding
    # measured: 1.6 s CPU at limit 10^8, 3.1 s at 2*10^8 (x = 1/3): limits of 2^64 and beyond never return
    yield Case("q.next_up", [hx(1), hx(3), "k:R", hx(10 ** 7)]); yield Case("q.nearest", [hx(1), hx(1 << 200), "k:R", hx(10 ** 6)])
    if th:      # quick: corpus/C16/farey_linear.case is the one never-returning walk (each costs the whole CPU limit)
        yield Case("q.next_up", [hx(1), hx(1 << 200), "k:R", hx(M)])
    if th:
        yield Case("q.nearest", [hx(1), hx(1 << 200), "k:R", hx(M)]); yield Case("q.next_down", [hx(1), hx(3), "k:R", hx(10 ** 20)])
        yield Case("q.next_up", [hx(-1), hx(10 ** 8 + 1), "k:R", hx(10 ** 20)])
    for v in (0.0, -0.0, 1.5, float("inf"), float("-inf"), float("nan"), 1e300, 5e-324, -2.5e-310, 0.1):
        yield Case("q.from_f64", [D(ieee64(v))])


def termination_cases(rng, tier):
    """termination stream: powf / ln / exp / sqrt / roots / logs with huge precisions and exponents.  Quick: sizes that
    answer within the normal per-case limit; thorough: `L/` cases (long limit; answers over 10 s carry `#slow=`)"""
    big = tier == "thorough"
    pre = "L/" if big else ""
    P10 = [300] + ([2000, 4000] if big else [])
    P2 = [1000] + ([20000] if big else [])
    for p in P10:
        yield Case(pre + "f.ln", [F(10, 3, 0, p)]); yield Case(pre + "f.ln_1p", [F(10, 7, -1, p)])
        yield Case(pre + "f.exp", [F(10, 1, 0, p)]); yield Case(pre + "f.exp_m1", [F(10, -3, -1, p)])
        yield Case(pre + "f.powf", [F(10, 3, 0, p), F(10, 7, -1, p)])
        yield Case(pre + "f.powi", [F(10, 3, 0, p), hx(1000)]); yield Case(pre + "f.powi", [F(10, 3, 0, p), hx(-999)])
        yield Case(pre + "f.sqrt", [F(10, 2, 0, 50 * p)]); yield Case(pre + "f.inv", [F(10, 7, 0, 50 * p)])
    for p in P2:
        yield Case(pre + "f.ln", [F(2, 3, 0, p)]); yield Case(pre + "f.exp", [F(2, 5, -2, p)])
        yield Case(pre + "f.sqrt", [F(2, 3, 1, 64 * p)]); yield Case(pre + "f.powf", [F(2, 3, 0, p), F(2, 5, -1, p)])
    # ln of huge exponents: recorded finding ln_huge_exponent (witnesses in the corpus); quick keeps to the sizes that answer
    for e in ((2 ** 20, -2 ** 20, 2 ** 30) if big else (2 ** 10, -2 ** 10, 2 ** 12)):
        if not (big and e == 2 ** 30):
            yield Case(pre + "f.ln", [F(10, 7, e, 20)])      # 10^(2^20) is already beyond the limit (finding)
        if not (big and e == 2 ** 20):
            yield Case(pre + "f.ln", [F(2, 3, e, 64)])
        yield Case(pre + "f.sqrt", [F(2, 3, e + 1, 64)]); yield Case(pre + "f.sqrt", [F(10, 7, e, 20)])
        if abs(e) <= 2 ** 12:
            yield Case(pre + "f.powf", [F(2, 3, e, 64), F(2, 3, -4, 64)])
    bits = 250000 if big else 20000       # measured: nth_root with n = bits/20 costs 10 s CPU at 250k bits, 57 s at 500k
    x = (1 << bits) + 12345
    for n in (2, 3, 7, 64, 1001, bits // 20, bits // 2, bits, bits + 5):
        yield Case(pre + "u.nth_root", [hx(x), D(n)]); yield Case(pre + "i.nth_root", [hx(-x), D(n | 1)])
    yield Case(pre + "u.sqrt", [hx(x)]); yield Case(pre + "u.cbrt", [hx(x)]); yield Case(pre + "i.cbrt", [hx(-x)])
    lb = bits // 2
    y = (1 << lb) + 777
    for b in (2, 3, 10, 16, (1 << 64) - 59, (1 << 64) + 13, (1 << 200) + 1, y - 1, y, y + 1):
        yield Case(pre + "u.ilog", [hx(y), hx(b)]); yield Case(pre + "i.ilog", [hx(-y), hx(b)])
    yield Case(pre + "u.pow", [hx(3), D(2 ** 21 if big else 2 ** 13)]); yield Case(pre + "u.pow", [hx((1 << 64) + 1), D(2 ** 14 if big else 2 ** 8)])
    yield Case(pre + "u.pow", [hx((1 << 200) + 1), D(2 ** 12 if big else 2 ** 6)])
    k = 20000 if big else 500
    yield Case(pre + "u.remove", [hx(3 ** k * 7), hx(3)]); yield Case(pre + "u.remove", [hx(((1 << 70) + 1) ** (k // 10) * 5), hx((1 << 70) + 1)])
    for lim in ((10 ** 5, 10 ** 6) if big else (10 ** 4,)):
        yield Case(pre + "q.next_up", [hx(1), hx(3), "k:R", hx(lim)]); yield Case(pre + "q.nearest", [hx(1), hx(1 << 200), "k:R", hx(lim)])


def size_class_values():
    """one value per size class and per boundary between classes: inline 1 word, inline 2 words, heap 3/4/5 words"""
    B = 1 << 64
    vs = [0, 1, 2, B - 1, B, B + 1, B * B - 1, B * B, B * B + 1, B ** 3 - 1, B ** 3, B ** 3 + 5, (B ** 3) * 7 + 3, B ** 4 - 1, B ** 4,
          B ** 4 + B, B ** 5 + 1]
    return vs


def panic_condition_cases(rng, tier):
    """every documented integer panic condition, reached through every call form (the harness ops run all ownership /
    assign forms) and every PAIR of size classes (inline/inline, inline/heap, heap/heap of equal and of different
    length), on BOTH sides of the condition (equal, one below, one above, low words only, high words only)"""
    B = 1 << 64
    V = size_class_values()
    # UBig - UBig: NegativeUBig iff a < b
    pairs = set()
    for a in V:
        for b in V:
            pairs.add((a, b))
        for d in (1, B, B * B, B ** 3):
            for (x, y) in ((a, a + d), (a + d, a), (a, a + 1), (a + 1, a), (a, a)):
                pairs.add((x, y))
    # same word length, differing only in the top / middle / low word (borrow chains through equal words)
    for n in (3, 4, 6):
        top = B ** (n - 1)
        for (x, y) in ((top + 5, top + 6), (top + 6, top + 5), (2 * top, 2 * top + 1), (top * 3, top * 3 - 1 + B), (top + B, top + B + 1),
                       (top * 2 - 1, top * 2), (top * 2, top * 2 - 1), (top + (B - 1), top + B), (B ** n - 1, B ** n - 1), (B ** n - 2, B ** n - 1)):
            pairs.add((x, y))
    if tier == "thorough":
        for _ in range(3000):
            na = rng.choice([1, 2, 3, 3, 4, 5, 8]); nb = na if rng.random() < 0.6 else rng.choice([1, 2, 3, 4, 5, 8])
            a = nat_pattern(rng, na, rng.choice(PATTERNS)); b = nat_pattern(rng, nb, rng.choice(PATTERNS))
            r = rng.random()
            if r < 0.3:
                b = a + rng.choice([0, 1, B, B * B])
            elif r < 0.5 and a > 0:
                b = a - 1
            pairs.add((a, b))
    for (a, b) in sorted(pairs):
        yield Case("u.sub", [hx(a), hx(b)])
    # division family by zero / non-zero, dividend in every size class; divisor classes around zero
    for op in ("div", "rem", "div_rem", "div_euclid", "rem_euclid", "div_rem_euclid", "is_multiple_of"):
        for x in V:
            for y in (0, 1, B - 1, B, B * B - 1, B * B, B ** 3 + 5):
                yield Case("u." + op, [hx(x), hx(y)])
                yield Case("i." + op, [hx(-x), hx(y)]); yield Case("i." + op, [hx(x), hx(-y)])
    for x in V:
        for d in (0, 1, B - 1, B, B * B - 1):
            yield Case("u.is_multiple_of_const", [hx(x), hx(d)]); yield Case("i.is_multiple_of_const", [hx(-x), hx(d)])
    # gcd(0, 0) against every class
    for x in V:
        for y in (0, 1, B, B * B, B ** 3 + 5):
            for op in ("gcd", "gcd_ext"):
                yield Case("u." + op, [hx(x), hx(y)]); yield Case("u." + op, [hx(y), hx(x)])
                yield Case("i." + op, [hx(-x), hx(y)]); yield Case("i." + op, [hx(y), hx(-x)])
    # conversions at exactly the limits of every primitive type, and UBig from a negative IBig in every size class
    lims = set()
    for bts in (7, 8, 15, 16, 31, 32, 63, 64, 127, 128):
        for d in (-1, 0, 1):
            lims.add((1 << bts) + d); lims.add(-(1 << bts) + d)
    for v in V:
        lims.add(v); lims.add(-v)
    for x in sorted(lims):
        if x >= 0:
            yield Case("u.try_prims", [hx(x)])
        yield Case("i.try_prims", [hx(x)]); yield Case("u.try_from_i", [hx(x)])
    # roots / logs: the condition against every size class
    for x in V:
        for n in (0, 1, 2, 3):
            yield Case("u.nth_root", [hx(x), D(n)]); yield Case("i.nth_root", [hx(-x), D(n)]); yield Case("i.nth_root", [hx(x), D(n)])
        yield Case("i.sqrt", [hx(-x)]); yield Case("i.sqrt", [hx(x)])
        for b in (0, 1, 2, 3, B, B * B + 1, B ** 3 + 5):
            yield Case("u.ilog", [hx(x), hx(b)]); yield Case("i.ilog", [hx(-x), hx(b)])
    # shifts / set_bit / ones at exactly the MAX_CAPACITY limit (exact requests only: x = 1, inline set_bit, ones)
    MC = (2 ** 64 - 1) // 64
    for words in (MC - 1, MC, MC + 1):
        n = 64 * (words - 1)          # 1 << n has exactly `words` words
        for nn in (n, n + 63):
            yield Case("u.shl", [hx(1), D(nn)]); yield Case("i.shl", [hx(-1), D(nn)]); yield Case("u.set_bit", [hx(0), D(nn)])
        yield Case("u.ones", [D(64 * words - 1)]); yield Case("u.ones", [D(64 * (words - 1) + 1)])
    for x in V[1:]:
        for n in (0, 1, 63, 64, 65, 2 ** 40, 2 ** 63):
            yield Case("u.shl", [hx(x), D(n)]); yield Case("i.shl", [hx(-x), D(n)]); yield Case("u.shr", [hx(x), D(n)]); yield Case("i.shr", [hx(-x), D(n)])


# ------------------------------------------------------------------ round 5 streams

def e1_values(tier, lo_only=False):
    """ROUND4 addendum E1: extreme machine-integer arguments (usize).  Quick: a sample of the k; thorough: every k"""
    ks = range(0, 131) if tier == "thorough" else (0, 1, 2, 31, 32, 62, 63, 64, 65, 127, 128, 129, 130)
    vs = [0, 1, 63, 64, 65, 128, 2 ** 31, 2 ** 32 - 1, 2 ** 32] + [2 ** 32 + k for k in ks]
    if not lo_only:
        vs += [2 ** 63 - 1, 2 ** 63, 2 ** 63 + 1] + [M - k for k in ks]
    return vs


def to_float_b_verdict(n, d, kind, p, base):
    """mirror of Spec/Panics.lean qToFloatB (None = unspecified)"""
    import math
    if p == 0:
        return "UnlimitedPrecision"
    if n == 0 or p <= 2 ** 20:
        return "ok"
    dd = d // math.gcd(abs(n), d)
    while math.gcd(dd, base) > 1:
        dd //= math.gcd(dd, base)
    if dd == 1:
        return "ok"
    lo, hi = (p, p) if base == 2 else (3 * p, 4 * p)
    return _alloc_range(lo, hi)


def round5_cases(rng, tier):
    th = tier == "thorough"
    B = 1 << 64
    V = size_class_values()
    # ---- core::iter::Sum / Product, Hash (integer/src/iter.rs, float/src/iter.rs, derived Hash, rational/src/cmp.rs)
    lists = [[], [0], [1], [0, 0], [B - 1, 1], [B * B - 1, 1], V, V[::-1], [0] + V, [5, 0, 7], [B ** 3 + 5] * 4,
             [3] * 100, [B + 1] * 40, [1, B, B * B, B ** 3, B ** 4]]
    for l in lists:
        yield Case("u.sum", [hx(x) for x in l]); yield Case("u.product", [hx(x) for x in l])
        yield Case("i.sum", [hx(-x if i % 2 else x) for i, x in enumerate(l)])
        yield Case("i.product", [hx(-x if i % 3 == 0 else x) for i, x in enumerate(l)])
        yield Case("i.sum", [hx(-x) for x in l])
    for x in V:
        yield Case("u.hash", [hx(x)]); yield Case("i.hash", [hx(x)]); yield Case("i.hash", [hx(-x)])
        yield Case("q.hash", [hx(-x), hx(max(x, 1) + 2), "k:R"]); yield Case("q.hash", [hx(x), hx(1), "k:R"])
    for base in (2, 10):
        for p in (0, 1, 20):
            Vf = float_operands(base, p)
            fin = [Vf[k] for k in ("zero", "one", "mthree", "big", "nsmall", "e30", "em30")]
            for l in ([Vf["one"]], [Vf["inf"]], [Vf["ninf"]], fin, fin[::-1], [Vf["inf"]] + fin, fin + [Vf["ninf"]],
                      fin[:3] + [Vf["inf"]] + fin[3:], [Vf["zero"], Vf["inf"]], [Vf["zero"]] * 5, [Vf["inf"], Vf["ninf"]],
                      [Vf["tiny"], Vf["huge"], Vf["mhuge"]], fin * 6):
                yield Case("f.sum", list(l)); yield Case("f.product", list(l))
    # ---- E1: extreme machine-integer arguments of every cheap op
    E = e1_values(tier)
    xs3 = (5, (1 << 64) + 1, (1 << 175) - 1)
    for n in E:
        for x in xs3:
            yield Case("u.shr", [hx(x), D(n)]); yield Case("i.shr", [hx(-x), D(n)])
            yield Case("u.bit", [hx(x), D(n)]); yield Case("i.bit", [hx(-x), D(n)])
            yield Case("u.clear_bit", [hx(x), D(n)])
            yield Case("u.split_bits", [hx(x), D(n)]); yield Case("u.clear_high_bits", [hx(x), D(n)])
        yield Case("u.shl", [hx(0), D(n)]); yield Case("i.shl", [hx(0), D(n)])
        yield Case("u.pow", [hx(0), D(n)]); yield Case("u.pow", [hx(1), D(n)]); yield Case("i.pow", [hx(-1), D(n)])
        yield Case("q.pow", [hx(-1), hx(1), "k:R", D(n)]); yield Case("q.pow", [hx(0), hx(1), "k:X", D(n)])
        for x in (0, 1, 5, (1 << 200) + 1):
            yield Case("u.nth_root", [hx(x), D(n)]); yield Case("i.nth_root", [hx(-x), D(n | 1)])
        for x in (0, 5, 1 << 100):
            yield Case("u.to_chunks", [hx(x), D(n)])
        for cs in ([], [1], [(1 << 100) + 1]):
            yield Case("u.from_chunks", [D(n)] + [hx(c) for c in cs])
        for base in (2, 10):
            Z = F(base, 0, 0, 1)
            yield Case("f.with_precision", [F(base, 3, 0, 5), D(n)]); yield Case("f.with_precision", [F(base, 0, 0, 0), D(n)])
            yield Case("f.from_int", [hx(-255), D(n), Z])
    # the allocating ops: one value of each kind where the documentation names an allocation panic
    for n in [2 ** 63 - 1, 2 ** 63, 2 ** 63 + 1] + [M - k for k in (0, 1, 62, 63, 64, 65, 127, 128, 129, 130, 200)]:
        for x in (1, 3, (1 << 64) + 1):
            # the band right below MAX_CAPACITY words is outside the generator (shl_alloc_band_counterexample)
            if _alloc(x.bit_length() + n) == "AllocTooMuch" or (x.bit_length() + n + 63) // 64 + 2 <= (2 ** 64 - 1) // 64:
                yield Case("u.shl", [hx(x), D(n)]); yield Case("i.shl", [hx(-x), D(n)])
        yield Case("u.set_bit", [hx(0), D(n)]); yield Case("u.set_bit", [hx(5), D(n)])
        if not (n % 64 == 0 and n // 64 == (2 ** 64 - 1) // 64):
            yield Case("u.ones", [D(n)])
        for x in (2, 4, 1 << 63, 3, 10, (1 << 32) + 1, (1 << 64) - 1, 6, 12):
            if pow_ok_to_generate(x, n):
                yield Case("u.pow", [hx(x), D(n)]); yield Case("i.pow", [hx(-x), D(n)])
    # isize arguments
    IE = [0, 1, -1, 63, 64, 65, 2 ** 31, -2 ** 31, 2 ** 32 - 1, 2 ** 32, -2 ** 32] + \
         [s * (2 ** 32 + k) for k in (0, 1, 64, 129) for s in (1, -1)] + \
         [IMAX - k for k in ((0, 1, 2, 63, 64, 65, 129, 130) if not th else range(0, 131))] + \
         [IMIN + k for k in ((0, 1, 2, 63, 64, 65, 129, 130) if not th else range(0, 131))]
    for base in (2, 10):
        Z = F(base, 0, 0, 1)
        for n in IE:
            for a in (F(base, 3, 0, 5), F(base, -1, 7, 0), F(base, 0, 0, 3)):
                yield Case("f.shl", [a, D(n)]); yield Case("f.shr", [a, D(n)])
            yield Case("f.from_parts", [hx(3), D(n), Z]); yield Case("f.from_parts", [hx(0), D(n), Z])
            if n + 2 <= IMAX:
                yield Case("f.from_parts", [hx(-base * base), D(n), Z])
    # u32 arguments (radices)
    for r in (3, 35, 63, 64, 65, 128, 255, 256, 2 ** 16, 2 ** 31 - 1, 2 ** 31, 2 ** 31 + 1, 2 ** 32 - 2):
        for s in ("", "0", "12", "zz", "-1", "_"):
            yield Case("u.from_str_radix", [S(s), D(r)]); yield Case("i.from_str_radix", [S(s), D(r)])
            yield Case("u.from_str_default", [S(s), D(r)]); yield Case("q.from_str_radix", [S(s + "/1"), D(r), "k:R"])
        yield Case("u.in_radix", [hx(255), D(r)]); yield Case("i.in_radix", [hx(-(1 << 200)), D(r)])
    # precision of RBig::to_float (one base per call): every class of the documentation + the overflow edge
    for (n, d) in ((1, 3), (1, 10), (1, 8), (5, 1), (3, 4), (0, 1), (-7, 3), (1 << 200, 3), (1, (1 << 70) + 1), (-9, 1000)):
        for K in ("k:R", "k:X"):
            for base in (2, 10):
                ps = [1, 2, 63, 64, 65, 128, 1000, 2 ** 38, 2 ** 40, 2 ** 61, 2 ** 63 - 1, 2 ** 63, 2 ** 63 + 1, M - 200, M - 1000] + \
                     [M - k for k in (range(0, 63) if th else (0, 1, 2, 3, 4, 31, 61, 62))]
                for pp in ps:
                    if to_float_b_verdict(n, d, K, pp, base) is None:
                        continue
                    yield Case("q.to_float_b", [hx(n), hx(d), K, D(pp), D(base)])
    # E1 for the PRECISION carried by float operands (Context::new(p), p a usize): operations whose result is exact
    for base in (2, 10):
        for pr in [2 ** 31, 2 ** 32, 2 ** 63 - 1, 2 ** 63, M // 3, M // 3 + 1, M // 2, M // 2 + 1, M - 130, M - 65, M - 64, M - 2, M - 1, M]:
            a = F(base, 3, 0, pr); b = F(base, -7, 2, pr); c = F(base, 5, -3, 7)
            for op in ("add", "sub", "mul", "cmp", "rem"):
                yield Case("f." + op, [a, b]); yield Case("f." + op, [a, c]); yield Case("f." + op, [c, b])
            for op in ("sqr", "cubic", "to_int", "trunc", "fract", "ceil", "floor", "round", "split_at_point", "ulp", "to_f32", "to_f64",
                       "neg_abs", "fmt", "to_int_try", "info", "to_ratio"):
                yield Case("f." + op, [a]); yield Case("f." + op, [b])
            for e in (0, 1, 2, 5):
                yield Case("f.powi", [a, hx(e)])
            yield Case("f.shl", [a, D(5)]); yield Case("f.shr", [b, D(-5)])
            yield Case("f.with_precision", [a, D(3)]); yield Case("f.with_precision", [a, D(M)])
            yield Case("f.sum", [a, b, a]); yield Case("f.product", [a, b])
    # round 6: Context::powi working precisions (exp.rs:127 `precision + 2*bit_len(precision)` for a negative exponent, exp.rs:146
    # `precision + bit_len(exp) + bit_len(precision)`): the context precision on both sides of `… = usize::MAX`, for exponents of
    # several bit lengths (mirrored: Model/Panic/Guards5 fPowiPrecisionFits; base 1 * B^0 so that huge exponents stay exact)
    for base in (2, 10):
        for e in (2, 3, 5, 255, 2 ** 32, 2 ** 64 - 1, 2 ** 70):
            edge = M - 64 - e.bit_length()               # largest precision whose working precision fits (bit_len(p) = 64)
            for pr in (edge - 1, edge, edge + 1, edge + 2):
                yield Case("f.powi", [F(base, 1, 0, pr), hx(e)])
                if e <= 5:
                    yield Case("f.powi", [F(base, 3, 0, pr), hx(e)])
        for e in (-1, -2, -5):
            for pr in (M - 129, M - 128, M - 127, M - 128 - 64 - (-e).bit_length(), M - 128 - 64 - (-e).bit_length() + 1):
                yield Case("f.powi", [F(base, 1, 0, pr), hx(e)])
    # exp / exp_m1 / ln_1p of arguments with a hugely NEGATIVE exponent (result 1, x, x): cost must not follow |exponent|
    for (base, ok_e, bad_e) in ((2, (-2 ** 20, -2 ** 30), (-2 ** 36, -2 ** 40, -2 ** 61)), (10, (-2 ** 16, -2 ** 20), (-2 ** 32, -2 ** 40, -2 ** 61))):
        for e in ok_e + bad_e:
            for (sg, p) in ((1, 10), (-3, 2), (7, 40)):
                if e in bad_e and (sg, p) != (1, 10):
                    continue
                yield Case("f.exp", [F(base, sg, e, p)]); yield Case("f.exp_m1", [F(base, sg, e, p)])
                if sg > 0:      # (the transcription of ln_1p's domain test x <= -1 evaluates B^-exp for negative x)
                    yield Case("f.ln_1p", [F(base, sg, e, p)])
    # ---- E2: every ASCII byte (and three multi-byte chars) in every syntactic position of the parsers
    chars = [chr(i) for i in range(128)] + ["é", "１", "\U0001F600"]
    it = [("{c}", "{c}1", "1{c}", "1{c}2", "-{c}", "+{c}1", "0x{c}", "0{c}1", "1_{c}", "{c}_1"), ("{c}", "1{c}2", "-{c}1", "0x{c}1")]
    ft = [("{c}", "1{c}", "{c}1", "1{c}5", "1.{c}", "1.{c}5", "1e{c}", "1e{c}5", "1e+{c}", "0x{c}", "0x1{c}", "0x1.{c}p1", "0x1p{c}", "0x1p{c}2",
           "{c}.5", "1.5{c}", "-{c}", "1_{c}", "1.5e3{c}", "{c}e5"), ("{c}", "1{c}5", "1.{c}", "1e{c}5", "0x1{c}", "0x1p{c}", "1.5{c}")]
    qt = [("{c}", "{c}/1", "1/{c}", "1{c}2", "1/{c}2", "1/2{c}", "1{c}/2", "-{c}/1", "0x{c}/1", "1/0x{c}"), ("{c}/1", "1/{c}", "1{c}2", "1/2{c}")]
    for ci, c in enumerate(chars):
        for t in it[0 if th else 1]:
            s = t.replace("{c}", c)
            yield Case("u.from_str_radix", [S(s), D(10)]); yield Case("i.from_str_radix", [S(s), D(36)])
            yield Case("i.from_str_prefix", [S(s)])
            if th:
                yield Case("u.from_str_radix", [S(s), D(16)]); yield Case("u.from_str_prefix", [S(s)]); yield Case("i.from_str", [S(s)])
                yield Case("u.from_str_default", [S(s), D(2)])
        for t in ft[0 if th else 1]:
            s = t.replace("{c}", c)
            for base in ((2, 10) if th else ((2, 10)[ci % 2],)):
                yield Case("f.parse", [S(s), F(base, 0, 0, 1)])
        for t in qt[0 if th else 1]:
            s = t.replace("{c}", c)
            K = ("k:R", "k:X")[ci % 2]
            yield Case("q.parse", [S(s), K]); yield Case("q.from_str_prefix", [S(s), "k:X" if K == "k:R" else "k:R"])
            if th:
                yield Case("q.from_str_radix", [S(s), D(36), K]); yield Case("q.parse", [S(s), "k:X" if K == "k:R" else "k:R"])
    # ---- E2: boundary magnitudes k^n +- 1 for k of EVERY bit length
    for L in range(2, 65):
        for b in ((1 << (L - 1)) + 1, (1 << L) - 1):
            if b % 2 == 0 or b < 3:
                continue
            # thresholds of pow_word_base: exp < wexp, exp < 2*wexp (wexp = max_exp_in_word(b))
            w, pw = 1, b
            while pw * b < 1 << 64:
                pw *= b; w += 1
            for e in {w - 1, w, w + 1, 2 * w - 1, 2 * w, 2 * w + 1, 3 * w} - {0}:
                yield Case("u.pow", [hx(b), D(e)])
                if th or L % 4 == 0:
                    yield Case("i.pow", [hx(-b), D(e)]); yield Case("u.pow", [hx(b << 3), D(e)])
    for r in range(2, 37):
        for bits in (63, 64, 65, 128, 192):
            n = 1
            while (r ** (n + 1)).bit_length() <= bits:
                n += 1
            for x in (r ** n - 1, r ** n, r ** n + 1):
                yield Case("u.in_radix", [hx(x), D(r)])
                if th or bits in (64, 128):
                    yield Case("i.in_radix", [hx(-x), D(r)])
    for L in (range(1, 131) if th else list(range(1, 70, 3)) + [63, 64, 65, 127, 128, 129, 130]):
        k = (1 << (L - 1)) + 1 if L > 1 else 1
        for n in (2, 3, 5):
            for x in (k ** n - 1, k ** n, k ** n + 1):
                yield Case("u.nth_root", [hx(x), D(n)])
                if n % 2:
                    yield Case("i.nth_root", [hx(-x), D(n)])
                if k >= 2:
                    yield Case("u.ilog", [hx(x), hx(k)])
            if k >= 2:
                yield Case("u.remove", [hx(k ** n * 3), hx(k)])


def base_cases(rng, tier):
    yield from termination_cases(rng, tier)
    yield from panic_condition_cases(rng, tier)
    yield from int_cases(rng, tier)
    yield from float_cases(rng, tier)
    yield from ratio_cases(rng, tier)
    yield from round5_cases(rng, tier)


def _expected_slow(c):
    """cases that are known / likely to burn the per-case CPU limit (the `hang` findings, the long-limit `L/` stream, pow of a
    >= 3-word base towards an impossible size, exp of arguments with a hugely negative exponent)"""
    try:
        a = c.args
        if c.op.startswith("L/"):
            return True
        if c.op in ("q.nearest", "q.next_up", "q.next_down"):
            return _I(a[3]) >= 2 ** 32
        if c.op == "f.ln":
            f = _F(a[0])
            return f["exp"] >= 2 ** 13 or f["exp"] <= -2 ** 20
        if c.op in ("u.pow", "i.pow"):
            return abs(_I(a[0])) >= 2 ** 128 and _I(a[1]) >= 2 ** 30
        if c.op in ("f.exp", "f.exp_m1"):
            return _F(a[0])["exp"] <= -2 ** 26
    except Exception:
        pass
    return False


def generate(rng, tier):
    seen = set()
    cases = []
    for c in base_cases(rng, tier):
        if c.key() not in seen:
            seen.add(c.key()); cases.append(c)
    # round 6 (thorough-tier budget): ORDER only — the shards are filled round-robin (case index mod JOBS), so the slow cases go
    # first, consecutively: they land on different shards instead of queueing up behind each other on one worker
    slow = [c for c in cases if _expected_slow(c)]
    cases = slow + [c for c in cases if not _expected_slow(c)]
    yield from cases
    if tier == "thorough" and release_exe_available():
        for c in cases:
            args = list(c.args)
            if c.op == "f.from_repr":
                args[0] = "d:0"
            yield Case("R/" + c.op, args)


def nontrivial(c):
    return True


# ------------------------------------------------------------------ release build of the harness (thorough tier)

def _tier_from_argv():
    a = sys.argv
    for i, x in enumerate(a):
        if x == "--tier" and i + 1 < len(a):
            return a[i + 1]
        if x.startswith("--tier="):
            return x.split("=", 1)[1]
    return os.environ.get("VERIF_TIER", "quick")


_release = {"exe": None}


def release_exe_available():
    return _release["exe"] is not None and os.path.exists(_release["exe"])


ALIASES = {"Natural": "dashu_int::UBig", "Integer": "dashu_int::IBig", "Real": "dashu_float::FBig", "Decimal": "dashu_float::DBig",
           "Rational": "dashu_ratio::RBig"}


def _alias_check():
    """dashu::Natural / Integer / Real / Decimal / Rational must be plain `pub type` aliases of the driven types"""
    import re
    try:
        src = open(os.path.join(core.REPO, "src", "lib.rs")).read()
    except OSError as e:
        return "unreadable: %s" % e
    bad = [n for n, t in ALIASES.items() if not re.search(r"^pub type %s = %s;" % (n, re.escape(t)), src, re.M)]
    if bad:
        print("WARNING C16: %s no longer a `pub type` alias of the driven type in src/lib.rs" % ", ".join(bad))
        return "CHANGED: " + ", ".join(bad)
    return "ok: " + ", ".join("%s = %s" % kv for kv in ALIASES.items())


def pre_build():
    """thorough tier: also build the harness in the release profile (no debug assertions, wrapping arithmetic)"""
    if "VERIF_PANIC_CPU_MS_SET" not in core.ENV:
        core.ENV["VERIF_PANIC_CPU_MS"] = "120000" if _tier_from_argv() == "thorough" else "20000"
        core.ENV.setdefault("VERIF_PANIC_LONG_MS", "360000")
    if _tier_from_argv() != "thorough":
        return {"release_build": "not built (quick tier runs the debug profile only)", "aliases": _alias_check()}
    rc, out, bindir, t = core.cargo_build(profile="release", bins=["exec_panic"])
    if rc != 0:
        return {"release_build": "FAILED", "tail": out.splitlines()[-5:]}
    _release["exe"] = os.path.join(bindir, "exec_panic")
    core.ENV["VERIF_PANIC_RELEASE_EXE"] = _release["exe"]
    return {"release_build": _release["exe"], "cargo_s": round(t, 1), "aliases": _alias_check()}


# ------------------------------------------------------------------ predicates of the known findings (known_findings.jsonl)

def _op(case_op):
    return case_op[2:] if case_op.startswith("R/") else case_op


def _is_release(case_op):
    return case_op.startswith("R/")


def _I(s):
    if s.startswith("d:"):
        return int(s[2:])
    return -int(s[1:], 16) if s.startswith("-") else int(s, 16)


def _F(s):
    t = s.split(":")
    return {"base": int(t[1]), "signif": _I(t[2]), "exp": int(t[3]), "prec": int(t[4])}


def kf(name, args, impl, model):
    """input class of the finding `name` (see the `what` of the entry in known_findings.jsonl); the op list of the
    entry selects the operation and the build profile (`R/` = release)"""
    try:
        return bool(_KF[name](args, impl, model))
    except Exception:
        return False


_KF = {}


def _kf(f):
    _KF[f.__name__] = f
    return f


def _str(a):
    return bytes.fromhex(a[2:]).decode("utf-8")


@_kf
def float_exponent_unchecked(args, impl, model):
    # the exact result exponent lies outside isize (documentation: panics); debug: arithmetic-overflow panic, release: wraps
    return model == "panic ExponentOverflow" and (impl == "ok" or "with_overflow" in impl)


@_kf
def exp_m1_negative_huge(args, impl, model):
    f = _F(args[0])
    lg = {2: 1, 10: 3}[f["base"]]
    return model == "ok" and impl == "panic ExponentOverflow" and f["signif"] < 0 and f["exp"] * lg >= 66


@_kf
def decimal_to_ieee_debug_assert(args, impl, model):
    return model == "ok" and _F(args[0])["base"] == 10 and "self.significand.bit_len()_<=" in impl


@_kf
def to_decimal_small_precision(args, impl, model):
    a = _F(args[0])
    return model == "ok" and impl == "panic UnlimitedPrecision" and a["base"] == 2 and 1 <= a["prec"] <= 3


@_kf
def with_precision_infinite_shrink(args, impl, model):
    a = _F(args[0]); p = _I(args[1])
    # the value is re-rounded when the precision shrinks; 0 = unlimited is larger than any other (fix ee15d7b)
    shrinks = (a["prec"] > p) or (a["prec"] == 0 and p > 0)
    return model == "ok" and impl == "panic Infinite" and a["signif"] == 0 and a["exp"] != 0 and shrinks


def _maxcap_words(bits):
    return (bits + 63) // 64 > (2 ** 64 - 1) // 64


@_kf
def pow_large_base_no_precheck(args, impl, model):
    base = max(abs(_I(args[0])), abs(_I(args[1])) if not args[1].startswith("d:") and not args[1].startswith("k:") else 0)
    return impl == "hang" and model in ("panic AllocTooMuch", "panic OutOfMemory") and base >= 2 ** 128


@_kf
def from_chunks_size_arithmetic(args, impl, model):
    k = _I(args[0]); n = len(args) - 1
    return n >= 2 and k * (n - 1) >= 2 ** 58 and model in ("panic AllocTooMuch", "panic OutOfMemory") and \
        ("convert.rs" in impl or "add.rs" in impl or "buffer.rs:58" in impl or (model == "panic OutOfMemory" and impl == "panic AllocTooMuch"))


@_kf
def relaxed_parse_zero_denominator(args, impl, model):
    s = _str(args[0])
    den = s.split("/", 1)[1] if "/" in s else ""
    import re
    zero_den = re.fullmatch(r"[+-]?(0[box])?[0_]*0[0_]*", den) is not None
    return model == "ok" and args[-1] == "k:X" and zero_den and "rational/src/repr.rs" in impl


@_kf
def farey_linear(args, impl, model):
    return impl == "hang" and model == "ok" and _I(args[3]) >= 2 ** 60


@_kf
def farey_integer_limit_one(args, impl, model):
    return model == "ok" and _I(args[3]) == 1 and _I(args[0]) % _I(args[1]) == 0 and "simplify.rs" in impl


@_kf
def to_float_zero_precision(args, impl, model):
    return _I(args[3]) == 0 and model == "panic UnlimitedPrecision" and "precision_>_0" in impl


@_kf
def ln_huge_exponent(args, impl, model):
    # the thresholds are where the
    # measured CPU time has left every limit used here (see the entry): below them the cases answer
    a = _F(args[0])
    big = (a["exp"] >= 2 ** 15 or a["exp"] <= -2 ** 26) if a["base"] == 10 else (a["exp"] >= 2 ** 29 or a["exp"] <= -2 ** 28)
    return impl == "hang" and model == "ok" and a["signif"] > 0 and big


@_kf
def realloc_too_much_unreachable(args, impl, model):
    # growth of an existing heap buffer beyond MAX_CAPACITY words
    return model == "panic AllocTooMuch" and _I(args[0]) >= 2 ** 128 and (impl == "panic OutOfMemory" or "buffer.rs:58" in impl)


@_kf
def pow_dword_estimate(args, impl, model):
    # 2-word base: 2*exp words exceed MAX_CAPACITY although the result itself does not
    return model == "panic OutOfMemory" and impl == "panic AllocTooMuch" and 2 ** 64 <= abs(_I(args[0])) < 2 ** 128 and 2 * _I(args[1]) > (2 ** 64 - 1) // 64


@_kf
def to_float_exact_huge_precision(args, impl, model):
    # a quotient that terminates in the base (documented: returns) is still scaled by B^(precision + den_digits - num_digits)
    return model == "ok" and _I(args[3]) >= 2 ** 38 and _I(args[0]) != 0 and impl in ("panic AllocTooMuch", "panic OutOfMemory")


def _powi_precision_overflows(prec, e):
    """Context::powi (float/src/exp.rs:127,146): `self.precision + guard` leaves usize; mirror of Model/Panic/Guards5.lean
    fPowiPrecisionFits (negated)"""
    if prec == 0:
        return False
    if e < 0:
        g = 2 * prec.bit_length()
        if prec + g > M:
            return True
        prec += g; e = -e
    if e <= 1:
        return False          # the shortcuts `exp == 0`, `exp == 1` return before line 146
    return prec + e.bit_length() + prec.bit_length() > M


@_kf
def float_precision_usize_overflow(args, impl, model):
    # what is left after fix 5768014 (mul/add/div saturate): `self.precision + guard_bits` / `+ guard_digits` in Context::powi;
    # debug builds panic with an arithmetic overflow although the result exists; release builds wrap and return — except where the
    # reversed-context precision of a negative exponent wraps to exactly 0 (= unlimited): then the final division panics UnlimitedPrecision
    prec, e = _F(args[0])["prec"], _I(args[1])
    if model != "ok" or not _powi_precision_overflows(prec, e):
        return False
    if ("float/src/exp.rs:127" in impl or "float/src/exp.rs:146" in impl) and "add_with_overflow" in impl:
        return True
    return impl == "panic UnlimitedPrecision" and e < 0 and prec + 2 * prec.bit_length() == M + 1


@_kf
def float_precision_isize_cast(args, impl, model):
    # `precision as isize` in FBig::ulp (fbig.rs:402-403): precisions >= 2^63 wrap to a negative isize, precisions near 2^63
    # overflow the unchecked isize subtraction (the same cast in repr_cmp was repaired by ee43486)
    prec = _F(args[0])["prec"]
    site = "float/src/fbig.rs" in impl and "with_overflow" in impl
    return prec >= 2 ** 62 and impl != model and (site or (impl == "ok" and model == "panic ExponentOverflow"))


@_kf
def exp_tiny_argument_cost(args, impl, model):
    # exp(x) for x -> 0: time and memory follow |exponent(x)|; thresholds = where the 4 GiB cap / the CPU limit is reached
    a = _F(args[0])
    tiny = a["exp"] <= (-2 ** 35 if a["base"] == 2 else -2 ** 30)
    return model == "ok" and tiny and a["signif"] != 0 and impl in ("panic OutOfMemory", "panic AllocTooMuch", "hang")


READY = True
