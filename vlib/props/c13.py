"""C13 — reduced-ring arithmetic is the homomorphic image of integer arithmetic (DESIGN §8 C13)."""
from vlib.core import Case
from vlib.gens import *

GROUP = "nt"
LEAN_PROPS = "Dashu.Props.C13"
LEAN_AUDIT = "Dashu.Audit.C13"
GEN_PROPS = ["Dashu.Props.C13Link", "Dashu.Props.C13Reducer"]     # round 5: C13 <-> C02 link (multi-word div_rem_in_place), word-level invm
GEN_AUDIT = ["Dashu.Audit.C13Link", "Dashu.Audit.C13Reducer"]
W = 64

def modulus(rng, tier):
    """moduli {1, 2^k, odd/even single word, double word with/without shift, 3-70 words aligned/unaligned}"""
    c = rng.random()
    if c < 0.04:
        return 1
    if c < 0.10:
        return 1 << rng.choice([1, 2, 7, 63, 64, 65, 127, 128, 129, 191, 192, 200, 256, 64 * rng.randrange(3, 12)])
    if c < 0.30:   # single word
        k = rng.choice([2, 3, 8, 31, 32, 33, 62, 63, 64, 64, 64])
        v = rng.getrandbits(k) | (1 << (k - 1))
        return max(2, v | rng.choice([0, 1]) if rng.random() < 0.7 else v & ~1) or 2
    if c < 0.50:   # double word; with (k<128) / without (k=128) shift
        k = rng.choice([65, 66, 96, 127, 128, 128, 128])
        v = rng.getrandbits(k) | (1 << (k - 1))
        if rng.random() < 0.2:
            v = (1 << k) - rng.choice([1, 2, 3, 59])
        if rng.random() < 0.2:
            v = (1 << (k - 1)) + rng.choice([0, 1, 2])
        return v
    # large
    sizes = [3, 3, 4, 5, 6, 8, 12, 24, 25, 33, 40, 70] if tier == "quick" else [3, 4, 5, 7, 16, 24, 25, 32, 33, 48, 64, 70]
    n = rng.choice(sizes)
    top = rng.choice([64, 64, 63, 62, 33, 32, 2, 1])      # aligned (no shift) / unaligned
    bits = (n - 1) * 64 + top
    r = rng.random()
    if r < 0.15:
        return (1 << bits) - rng.choice([1, 3, 5])
    if r < 0.3:
        return (1 << (bits - 1)) + rng.choice([0, 1, 2, 1 << 64])
    if r < 0.4:   # low words zero / sparse
        return (rng.getrandbits(top) | (1 << (top - 1))) << ((n - 1) * 64)
    v = rng.getrandbits(bits) | (1 << (bits - 1))
    if rng.random() < 0.3:
        v &= ~1
    return v

def operand(rng, m, tier):
    """integers of any sign/size relative to m, incl. multiples of m, m±1, boundaries of the size classes"""
    c = rng.random()
    mb = m.bit_length()
    if c < 0.10:
        v = rng.choice([0, 1, 2, m - 1, m, m + 1, 2 * m - 1, 2 * m, m * m - 1, m * m, (1 << 64) - 1, 1 << 64, (1 << 128) - 1, 1 << 128])
    elif c < 0.25:
        v = rng.getrandbits(max(1, mb - 1))                    # already reduced
    elif c < 0.40:
        v = rng.randrange(0, m) if m > 1 else 0
        if rng.random() < 0.5:
            v += m * rng.getrandbits(rng.choice([1, 8, 64, 130]))
    elif c < 0.55:
        v = rng.getrandbits(rng.choice([1, 8, 31, 63, 64, 65, 127, 128, 129, 192, 193]))
    elif c < 0.75:
        v = rng.getrandbits(mb + rng.choice([-64, -1, 0, 1, 2, 63, 64, 65, 128, 200]) if mb > 64 else mb + rng.choice([0, 1, 64, 128]))
    elif c < 0.85:
        v = m * rng.getrandbits(rng.choice([1, 64, 65, 300]))  # multiples of m
    else:
        v = nat_pattern(rng, rng.choice([1, 2, 3, 4, 5, 24, 71, 140]), rng.choice(PATTERNS))
    return -v if rng.random() < 0.4 else v

def noninvertible(rng, m):
    """a = g*u with g | m, g > 1 (by construction), if m has a small factor we can find"""
    for p in [2, 3, 5, 7, 11, 13, (1 << 64) - 59, (1 << 61) - 1]:
        if m % p == 0 and m > p:
            return p * rng.getrandbits(rng.choice([1, 16, 64, 200]))
    return None

def exponent(rng, tier):
    c = rng.random()
    if c < 0.05:
        # 4..17 words: choose_pow_window_len picks 5 above ~240 bits and 6 above ~672 bits
        b = rng.choice([241, 256, 257, 300, 512, 673, 700, 1030])
        v = rng.getrandbits(b) | (1 << (b - 1))
        if rng.random() < 0.3:
            v &= ~((1 << rng.choice([64, 65, 127, 128, 130])) - 1)   # low word(s) zero: `word_idx == 0 => next_word = 0` with a run of zeros
            v |= rng.choice([0, 1])
        return v
    if c < 0.2:
        return rng.choice([0, 1, 2, 3, 4, 5, 7, 8, 15, 16, 17])
    if c < 0.45:
        return rng.getrandbits(rng.choice([8, 31, 63, 64]))
    if c < 0.6:
        return rng.choice([(1 << 64) - 1, 1 << 64, (1 << 64) + 1, (1 << 63), (1 << 128) - 1, 1 << 128, (1 << 127) + 1])
    if c < 0.85:
        return rng.getrandbits(rng.choice([65, 100, 128, 129, 160, 192]))
    v = rng.getrandbits(rng.choice([64, 128, 192]))
    return v & ~((1 << rng.choice([3, 17, 64, 70])) - 1)        # long runs of zero bits (window logic)

def half_length_cases(rng, tier):
    """mul_normalized / sqr_normalized take the `na + nb <= n` branch (one conditional subtraction instead of a
    long division) when the trimmed operands together have at most n words: moduli of exactly n in
    {2,3,4,5,6,8,9,16} words, top bit set (no shift) or 1..63 leading zero bits, operands whose *residues* have
    exactly n/2, n/2 +- 1 (and na + nb = n, n +- 1) words with all-ones / 2^k - small / random patterns, so that
    a*b crosses m; through sqr, mul with equal and different operands, pow with small exponents, and the Reducer."""
    cnt = 260 if tier == "quick" else 6000
    for _ in range(cnt):
        n = rng.choice([2, 3, 4, 4, 5, 6, 6, 8, 8, 9, 16])
        lz = rng.choice([0, 0, 0, 1, 2, 31, 32, 62, 63])
        bits = n * 64 - lz
        c = rng.random()
        if c < 0.4:
            m = (1 << (bits - 1)) + rng.choice([0, 1, 12345, rng.getrandbits(64), rng.getrandbits(bits - 2)])
        elif c < 0.6:
            m = (1 << bits) - rng.choice([1, 3, 59, rng.getrandbits(64) | 1])
        else:
            m = rng.getrandbits(bits) | (1 << (bits - 1))
        if n == 2 and m < (1 << 64):
            m |= 1 << 64
        def opnd(words):
            words = max(1, words)
            b = words * 64
            r = rng.random()
            if r < 0.25:
                v = (1 << b) - 1
            elif r < 0.5:
                v = (1 << b) - rng.choice([2, 12345, rng.getrandbits(32) + 1, (1 << 64) + 1])
            elif r < 0.65:
                v = (1 << (b - 1)) + rng.getrandbits(20)
            elif r < 0.85:
                # just around sqrt(m): the square / product straddles the modulus
                from math import isqrt
                v = isqrt(m) + rng.choice([-1, 0, 1, 2, rng.getrandbits(10)])
            else:
                v = rng.getrandbits(b) | (1 << (b - 1))
            return max(0, v) % m
        h = n // 2
        na = rng.choice([h, h, h, h - 1, h + 1, (n + 1) // 2])
        nb = rng.choice([na, n - na, n - na, n - na - 1, n - na + 1, h])
        a, b = opnd(na), opnd(nb)
        if rng.random() < 0.25 and a > 1:
            b = (m // a + rng.choice([0, 1, 1, 2])) % m          # a*b lands in [m - a, m + 2a): one conditional subtraction or none
        if rng.random() < 0.3:
            a = -a
        r = rng.random()
        if r < 0.3:
            yield Case("m.sqr", [hx(m), hx(a)])
        elif r < 0.45:
            yield Case("m.mul", [hx(m), hx(a), hx(a)])
        elif r < 0.7:
            yield Case("m.mul", [hx(m), hx(a), hx(b)])
        elif r < 0.85:
            yield Case("m.pow", [hx(m), hx(a), hx(rng.choice([2, 2, 3, 4, 5, 6, 7, 8, 16, 17, 255]))])
        elif r < 0.92:
            yield Case("r.sqr", [hx(m), hx(abs(a))])
        else:
            yield Case("r.mul", [hx(m), hx(abs(a)), hx(abs(b))])

def kernel_cases(rng, tier):
    """The word loops behind `reduce` in single- and double-word rings (div_const.rs rem_word / rem_dword /
    rem_large, div/mod.rs fast_rem_by_normalized_word / _dword): moduli of 1..64 and 65..128 bits (shift 0 and
    1..63; all-ones, 100..0 = the smallest normalised divisor, random) x operands of exactly 1..9, 16, 17, 70,
    71 words (even and odd counts: the dword loop ends in pairs only or in a `div_rem_3by2` tail) that are
    all-ones, q*m + {0, 1, m-2, m-1} (remainders 0 and maximal at every step), powers of two, structured
    patterns, random; high word below / at / above the divisor (the `div_rem_1by1` / `div_rem_2by2`
    compare-and-subtract), both signs; through reduce, Reducer::transform, eq, and as operands of + * inv pow."""
    cnt = 260 if tier == "quick" else 9000
    for _ in range(cnt):
        if rng.random() < 0.5:
            k = rng.choice([64, 64, 64, 63, 62, 33, 32, 31, 8, 2, 1])
            lo = 1
        else:
            k = rng.choice([128, 128, 128, 127, 126, 97, 96, 95, 66, 65])
            lo = 1 << 64
        m = rng.getrandbits(k) | (1 << (k - 1))
        r = rng.random()
        if r < 0.15:
            m = (1 << k) - rng.choice([1, 3, 59])
        elif r < 0.3:
            m = (1 << (k - 1)) + rng.choice([0, 0, 1, 2])
        m = max(m, lo)
        M = m << ((64 if lo == 1 else 128) - m.bit_length())       # the normalised divisor
        words = rng.choice([1, 2, 2, 3, 3, 4, 4, 5, 5, 6, 7, 8, 9, 16, 17, 70, 71])
        bits = words * 64
        c = rng.random()
        if c < 0.15:
            v = (1 << bits) - 1
        elif c < 0.35:
            q = rng.getrandbits(max(bits - m.bit_length(), 1))
            v = q * m + rng.choice([0, 1, m - 2, m - 1])
        elif c < 0.45:
            # top word(s) exactly the normalised divisor -1 / +0 / +1: the compare-and-subtract of the first step
            top = (M + rng.choice([-1, 0, 1])) & ((1 << (64 if lo == 1 else 128)) - 1)
            low = max(bits - (64 if lo == 1 else 128), 0)
            v = (top << low) | (rng.getrandbits(low) if low else 0)
        elif c < 0.55:
            v = nat_pattern(rng, words, rng.choice(PATTERNS))
        elif c < 0.62:
            v = 1 << (bits - 1)
        else:
            v = rng.getrandbits(bits) | (1 << (bits - 1))
        v = max(v, 0)
        a = -v if rng.random() < 0.3 else v
        r = rng.random()
        if r < 0.45:
            yield Case("m.reduce", [hx(m), hx(a)])
        elif r < 0.55:
            yield Case("r.transform", [hx(m), hx(v)])
        elif r < 0.65:
            yield Case("m.eq", [hx(m), hx(a), hx(a + m * rng.choice([0, 1, -1, 1 << 70, 3]) + rng.choice([0, 0, 1]))])
        elif r < 0.8:
            yield Case("m." + rng.choice(["add", "sub", "mul"]), [hx(m), hx(a), hx(operand(rng, m, tier))])
        elif r < 0.9:
            yield Case("m." + rng.choice(["inv", "sqr", "neg", "dbl"]), [hx(m), hx(a)])
        else:
            yield Case("m.pow", [hx(m), hx(a), hx(exponent(rng, tier))])

def coprime_to(rng, bits, other):
    import math
    for _ in range(200):
        v = rng.getrandbits(bits) | 1
        if v > 1 and math.gcd(v, other) == 1:
            return v
    return 1

def conjunct_cases(rng, tier):
    """Tests of the form `len == 1 && word == 1` in the modular code, with inputs that satisfy exactly one
    conjunct.  (1) div.rs inv_large decides "gcd == 1" from the gcd left in the residue buffer: `g_len == 1 &&
    raw[0] == 1` (and `g == 1` on a Word / DoubleWord for 1- and 2-word residues) — gcds that are multi-word
    with lowest word 1 (2^64+1, 3*2^64+1, 2^128+1, k*2^64+1, three words with low word 1; the 2^32 analogues
    matter for 32-bit words) and gcds that are one word but not 1; m = g*m', a = g*a', gcd(a', m') = 1, m of
    3..6 (and a few more) words, residue lengths 1, 2, 3.. words before/after removing the normalisation shift.
    (2) mul.rs `na == 1 && nb == 1` / `na | nb == 0`: one operand one word and the other longer / zero.
    (3) add.rs negate: "all words zero" with only the low word(s) zero."""
    import math
    reps = 6 if tier == "quick" else 60
    W = 64
    gs = []
    for w in (64, 32):
        B = 1 << w
        gs += [B + 1, 3 * B + 1, B * B + 1, B * B + B + 1, (B - 1) * B + 1, B * B * B + 1,
               (B * B * 5) + 1, (1 << (w * 2 - 1)) * B + 1]
    for _ in range(reps):
        gs.append((rng.getrandbits(rng.choice([3, 17, 63, 64, 100, 128])) | 1) * (1 << 64) + 1)
        gs.append((rng.getrandbits(rng.choice([5, 31, 32, 40, 64])) | 1) * (1 << 32) + 1)
        gs.append(rng.getrandbits(64) | (1 << 63) | 1)          # one word, not 1
        gs.append(rng.choice([3, 5, 255, (1 << 32) + 1, (1 << 63) + 1, (1 << 64) - 1]))
        gs.append(rng.getrandbits(128) | (1 << 127) | 1)        # two words, low word random
    for g in gs:
        for _ in range(2 if tier == "quick" else 6):
            glen = (g.bit_length() + W - 1) // W
            mwords = max(rng.choice([3, 3, 4, 5, 6, 6, 9, 17]), glen + 1)
            mbits = max(mwords * W - rng.choice([0, 0, 1, 7, 31, 63]) - g.bit_length(), 2)
            mp = coprime_to(rng, mbits, 1)
            m = g * mp
            # a' coprime to m', a = g*a' < m of a chosen length
            abits = rng.choice([1, 2, 40, 64, 65, 128, 129, max(mbits - 1, 1)])
            abits = min(abits, max(mbits - 1, 1))
            ap = coprime_to(rng, abits, mp) if abits > 1 else 1
            a = g * ap
            big = a + m * rng.choice([0, 0, 1, -1, 1 << 70])
            yield Case("m.inv", [hx(m), hx(big)])
            yield Case("m.div", [hx(m), hx(operand(rng, m, tier)), hx(a)])
            yield Case("r.inv", [hx(m), hx(a % m)])
            yield Case("m.mix", ["div", hx(m), hx(m), hx(operand(rng, m, tier)), hx(a)])
            # the same residue made invertible (control: both conjuncts hold)
            yield Case("m.inv", [hx(m), hx(coprime_to(rng, max(a.bit_length(), 2), m))])
    # residue length classes of inv_large before / after removing the normalisation shift
    for _ in range(reps * 4):
        k = rng.choice([1, 7, 31, 32, 63])
        mwords = rng.choice([3, 4, 6])
        m = rng.getrandbits(mwords * W - k) | (1 << (mwords * W - k - 1)) | 1
        for lo, hi in [(W - k, W), (2 * W - k, 2 * W), (1, W - k), (W, 2 * W - k), (2 * W, 2 * W + 3)]:
            a = rng.getrandbits(hi - lo) | (1 << (hi - lo - 1)) if hi - lo > 1 else 1
            a = (a << lo) >> 1 if lo > 0 else a
            a |= 1 << (rng.randrange(max(lo - 1, 0), hi))
            a %= m
            yield Case(rng.choice(["m.inv", "r.inv"]), [hx(m), hx(a)])
            yield Case("m.div", [hx(m), hx(rng.getrandbits(200)), hx(a)])
    # mul / sqr: operand word counts (0, k), (1, 1), (1, k), (k, 1) inside a multi-word ring; negate with zero low words
    for _ in range(reps * 4):
        mwords = rng.choice([3, 4, 5, 8, 16])
        k = rng.choice([0, 0, 1, 13, 63])
        m = rng.getrandbits(mwords * W - k) | (1 << (mwords * W - k - 1))
        one = rng.choice([1, 2, (1 << (W - k)) - 1 if k < W - 1 else 1, rng.getrandbits(W - k) | 1])  # one word also after the shift
        edge = rng.choice([1 << (W - k), (1 << (W - k)) - 1 if k else (1 << W) - 1, 1 << W])               # around the word boundary of the shifted residue
        longv = rng.getrandbits(rng.choice([65, 128, (mwords - 1) * W])) | (1 << 64)
        for x, y in [(0, longv), (longv, 0), (one, one), (one, longv), (longv, one), (edge, one), (one, edge), (0, 0)]:
            yield Case("m.mul", [hx(m), hx(x % m), hx(y % m)])
        yield Case("m.sqr", [hx(m), hx(one)])
        yield Case("m.sqr", [hx(m), hx(edge % m)])
        yield Case("r.mul", [hx(m), hx(one), hx(longv % m)])
        z = (rng.getrandbits(rng.choice([1, 64, 100])) | 1) << rng.choice([64, 128, 64 - k if k else 64])
        yield Case("m.neg", [hx(m), hx(z % m)])
        yield Case("m.neg", [hx(m), hx(0)])
        yield Case("m.neg", [hx(m), hx(m)])
        yield Case("r.neg", [hx(m), hx(z % m)])
        yield Case("m.sub", [hx(m), hx(0), hx(z % m)])

def invm_prim_cases(rng, tier):
    """round 5 — num-modular's `invm` on Word / DoubleWord (single- and double-word rings), built from the branch
    conditions of `u128::mulm` (checked_mul vs udouble::widening_mul), `udouble::div_rem_2by1` (normalising shift
    0 / 1..63 / 64..127 — the latter needs m < 2^64, i.e. never for DoubleWord; first / second quotient digit: estimate
    >= B, 0 / 1 / 2 correction steps, `rhat >= B` break) and `subm` (a >= b / a < b, difference a multiple of m):
    moduli of EVERY bit length 2..128 (random, all-ones 2^k-1, 2^(k-1)+1, low half all-ones with minimal top half
    d1 = 2^63 after normalisation, low half zero, 2^k - small), x operands whose cofactor sequence makes quo*t large:
    m-1, m-2, m-3, (m+-1)/2, (m+-1)/3, 2, 3, floor(m/phi) (all quotients 1: the longest loop), random coprime,
    a multiple of a factor (non-invertible)."""
    reps = 1 if tier == "quick" else 12
    phi_n, phi_d = 1000000000000, 1618033988749
    for k in list(range(2, 129)):
        ms = [(1 << k) - 1, (1 << (k - 1)) + 1, rng.getrandbits(k) | (1 << (k - 1)) | 1]
        if k > 64:
            h = k - 64      # bits of the top word
            ms += [(1 << (k - 1)) | ((1 << 64) - 1),                 # d1 minimal, d0 all ones
                   ((rng.getrandbits(h) | (1 << (h - 1))) << 64),     # d0 = 0
                   ((rng.getrandbits(h) | (1 << (h - 1))) << 64) | ((1 << 64) - rng.choice([1, 2, 3])),
                   (1 << k) - rng.choice([3, 5, 59, 159, 173])]
        else:
            ms += [(1 << k) - rng.choice([1, 3, 5]) if k > 3 else 3]
        for _ in range(reps):
            for m in ms:
                if m < 2:
                    continue
                xs = [m - 1, m - 2, (m + 1) // 2, (m - 1) // 2, (m + 1) // 3, 2, 3, m * phi_n // phi_d,
                      rng.randrange(1, m), rng.randrange(1, m)]
                if k > 100 and tier != "quick":
                    xs += [m - 3, (m - 1) // 3, rng.randrange(1, m) | 1, m - rng.getrandbits(20) - 1]
                pick = xs if (k > 64 or tier != "quick") else rng.sample(xs, 3)
                for x in pick:
                    x %= m
                    op = rng.choice(["m.inv", "m.inv", "r.inv", "m.div"])
                    if op == "m.div":
                        yield Case("m.div", [hx(m), hx(rng.getrandbits(130)), hx(x)])
                    elif op == "r.inv":
                        yield Case("r.inv", [hx(m), hx(x)])
                    else:
                        yield Case("m.inv", [hx(m), hx(x + m * rng.choice([0, 0, 1, -1, -(1 << 70)]))])

def prim_boundary_cases(rng, tier):
    """round 5 (addendum E1/E2) — `ConstDivisor::reduce` takes every primitive integer type: the boundary values of
    each (0, +-1, MAX, MIN, MAX+1, MIN-1, 2^t, 2^t +- 1 for t in 8,16,32,64,128 and the unsigned/signed halves) against
    one modulus of every ring kind and of word-boundary shape B^e, B^e +- 1 (B = 2^64, 2^32; e = 1..4); operands k*m +- 1,
    m^2 +- 1 and B^e +- 1 against random moduli of every kind."""
    bvals = [0, 1, -1]
    for t in (7, 8, 15, 16, 31, 32, 63, 64, 127, 128):
        for d in (-1, 0, 1):
            bvals += [(1 << t) + d, -((1 << t) + d)]
    shapes = []
    for w in (64, 32):
        for e in (1, 2, 3, 4):
            shapes += [(1 << (w * e)) - 1, 1 << (w * e), (1 << (w * e)) + 1]
    mods = shapes + [modulus(rng, tier) for _ in range(6 if tier == "quick" else 60)]
    for m in mods:
        vals = bvals if (tier != "quick" or m in shapes[:12]) else rng.sample(bvals, 12)
        for v in vals:
            yield Case("m.reduce", [hx(m), hx(v)])
        for v in [m * m - 1, m * m + 1, 3 * m - 1, 3 * m + 1, -(m * m) + 1, -(5 * m) - 1]:
            yield Case("m.reduce", [hx(m), hx(v)])
        for e in (1, 2, 3, 5):
            v = (1 << (64 * e)) + rng.choice([-1, 0, 1])
            yield Case(rng.choice(["m.reduce", "r.transform"]), [hx(m), hx(v)])
        a, b = rng.choice(bvals), rng.choice(bvals)
        yield Case("m." + rng.choice(["add", "sub", "mul"]), [hx(m), hx(a), hx(b)])
        yield Case("m.pow", [hx(m), hx(a), hx(abs(b))])

def big_kernel_cases(rng, tier):
    """round 5 — the multiplication / division algorithms behind the multi-word ring (C01's and C02's mirrored kernels now run inside
    the C13 driver): moduli whose word count sits on either side of every threshold (mul THRESHOLD_SIMPLE 24, sqr MAX_LEN_SIMPLE 30,
    div THRESHOLD_SIMPLE 32, mul THRESHOLD_KARATSUBA 192) x operands of n, n/2, 1, n-1 words (equal / unequal lengths, chunked
    schoolbook) through reduce (Knuth D / Burnikel-Ziegler), mul, sqr, and pow with a tiny exponent."""
    ns = [24, 25, 30, 31, 32, 33, 34, 66] if tier == "quick" else [23, 24, 25, 26, 30, 31, 32, 33, 34, 48, 65, 66, 100, 192, 193, 200]
    if tier == "quick":
        ns += [rng.choice([193, 200])]
    for n in ns:
        for _ in range(1 if (tier == "quick" or n > 150) else 4):
            lz = rng.choice([0, 0, 1, 17, 63])
            m = rng.getrandbits(n * 64 - lz) | (1 << (n * 64 - lz - 1)) | rng.choice([0, 1])
            full = rng.getrandbits(n * 64 - lz - 1)
            half = rng.getrandbits((n // 2) * 64) | (1 << ((n // 2) * 64 - 1))
            one = rng.getrandbits(64) | 1
            near = rng.getrandbits((n - 1) * 64)
            yield Case("m.reduce", [hx(m), hx(rng.getrandbits(2 * n * 64 + rng.choice([0, 64, 700])))])     # lhs - rhs > 32 words for n > 32
            yield Case("m.reduce", [hx(m), hx(-rng.getrandbits((n + rng.choice([1, 2, 30, 33])) * 64))])
            yield Case("m.mul", [hx(m), hx(full), hx(rng.getrandbits(n * 64 - lz - 1))])
            yield Case("m.mul", [hx(m), hx(full), hx(half)])
            yield Case("m.mul", [hx(m), hx(one), hx(full)])
            yield Case("m.mul", [hx(m), hx(near), hx(half)])
            yield Case("m.sqr", [hx(m), hx(full)])
            yield Case("m.sqr", [hx(m), hx(half)])
            yield Case("r.mul", [hx(m), hx(full), hx(full)])
            if n <= 66:
                yield Case("m.pow", [hx(m), hx(full), hx(rng.choice([3, 5, 6]))])
                yield Case("m.div", [hx(m), hx(half), hx(coprime_to(rng, 64, m))])

def addsub_buffer_cases(rng, tier):
    """round 6 — `integer/src/modular/add.rs` of multi-word rings on buffers (add_in_place / dbl_in_place / sub_in_place /
    sub_in_place_swap / negate_in_place now run C01's mirrored add_same_len_in_place / sub_same_len_in_place(_swap) word loops
    in the driver): from the branch conditions `overflow || cmp_same_len(lhs, modulus).is_ge()`, `if overflow` (borrow),
    `raw.iter().all(|w| *w == 0)`, `shl_in_place(raw, 1) > 0` — moduli of 3, 4, 5, 8, 17, 33 words with shift 0 (top bit set: a
    carry out of the top word is possible) and shift 1..63; sums a + b = m - 1, m, m + 1, >= 2^(64 n) (carry), 2m - 2; carry /
    borrow chains through j = 1..n words (2^(64 j) - 1 plus 1; 2^(64 j) minus 1; 0 - 1); differences 0, +-1; doubling of m/2,
    (m +- 1)/2, of values with the top bit of every word set, of m - 1; negation of 0, 1, m - 1, of residues whose low 1..n-1 words
    are zero; negative operands of reduce (IntoRing for IBig negates on the buffer); and for the conditional subtraction of mul_/sqr_normalized's
    short product (`cmp_same_len(product, modulus).is_ge()`): m = p*q, p*q +- 1, p^2, p^2 +- 1 with operands p, q (product exactly / just below / just above m);
    inverses of 1, 2, m - 1, m - 2, (m +- 1)/2 and of 1-, 2-, 3-word residues (inv_large's shl_in_place / is_valid / negate_in_place tail)."""
    reps = 2 if tier == "quick" else 40
    for _ in range(reps):
        for n in (3, 4, 5, 8, 17, 33):
            lz = rng.choice([0, 0, 0, 1, 7, 32, 63])
            bits = n * 64 - lz
            c = rng.random()
            if c < 0.3:
                m = (1 << bits) - rng.choice([1, 2, 3, 59, (1 << 64) + 1])
            elif c < 0.5:
                m = (1 << (bits - 1)) + rng.choice([0, 1, 2, 12345, 1 << 64])
            else:
                m = rng.getrandbits(bits) | (1 << (bits - 1))
            j = rng.randrange(1, n)
            a = rng.randrange(1, m)
            ones = ((1 << (64 * j)) - 1) % m
            alt = sum(1 << (64 * i + 63) for i in range(n)) % m          # top bit of every word
            pairs = [(a, m - a - 1), (a, m - a), (a, m - a + 1), (m - 1, m - 1), (m - 1, 1), (m - 1, m - rng.getrandbits(60) - 1),
                     (m - rng.getrandbits(40) - 1, m - rng.getrandbits(40) - 1),                   # >= 2^(64 n) when lz == 0
                     (ones, 1), (ones, ones), (1 << (64 * j), m - 1), (alt, alt), (a, 0), (0, a), (0, 0)]
            for x, y in pairs:
                yield Case("m.add", [hx(m), hx(x), hx(y)])
            b = rng.randrange(1, m)
            for x, y in [(a, a), (a, a + 1 if a + 1 < m else a), (a, a - 1), (0, 1), (0, m - 1), (1 << (64 * j), 1), (ones, ones + 1),
                         (1, 1 << (64 * j)), (a, b), (b, a), (m - 1, 0), (0, 0), (alt, m - 1)]:
                yield Case("m.sub", [hx(m), hx(x), hx(y)])
            for x in [m // 2, (m + 1) // 2, (m - 1) // 2, m - 1, alt, ones, a, 0, 1, (1 << (bits - 1)) % m, ((1 << (bits - 1)) - 1) % m,
                      m - rng.getrandbits(30) - 1]:
                yield Case("m.dbl", [hx(m), hx(x)])
            for x in [0, 1, m - 1, m, (1 << (64 * j)) % m, ((rng.getrandbits(64) | 1) << (64 * j)) % m, a, -a, ones, -(1 << (64 * j)), 2 * m]:
                yield Case("m.neg", [hx(m), hx(x)])
            for x in [-1, -a, -(m - 1), -m, -(m + 1), -(1 << (64 * j)), -((1 << (64 * n)) - 1), -(a + m * rng.getrandbits(70))]:
                yield Case("m.reduce", [hx(m), hx(x)])
            yield Case("m.mix", [rng.choice(["add", "sub"]), hx(m), hx(m), hx(a), hx(b)])
            # inv_large's tail on the buffer (shl_in_place of the cofactor, is_valid, negate_in_place): cofactors 1 and m - 1 (|b| = 1 with either sign),
            # (m +- 1)/2 (the largest shifted cofactors: top bits of the buffer set when the shift is 0), residues of 1, 2, >= 3 words
            for x in [1, 2, m - 1, m - 2, (m + 1) // 2, (m - 1) // 2, 3, (1 << 64) + 1, (1 << 128) + 1, a]:
                yield Case(rng.choice(["m.inv", "m.inv", "r.inv"]), [hx(m), hx(x % m)])
            yield Case("m.div", [hx(m), hx(b), hx(m - 1)])
            # mul_normalized / sqr_normalized, short product (na + nb <= n): `cmp_same_len(product, modulus).is_ge()` with the product EXACTLY the
            # modulus (m = p*q, operands p, q), one below / above it (m = p*q +- 1) — the conditional subtraction on the buffer
            # (a product equal to the normalised modulus fits the n-word buffer only with shift 0: p, q of exactly h and n - h words with their
            #  two top bits set, so that p*q has exactly 64 n bits and na + nb = n; the squares live in the 2h-word ring of p^2)
            pb = (n // 2) * 64
            qb = n * 64 - pb
            p_ = rng.getrandbits(pb) | (3 << (pb - 2)) | 1
            q_ = rng.getrandbits(qb) | (3 << (qb - 2)) | 1
            for d in (0, 1, -1):
                m2 = p_ * q_ + d
                if m2.bit_length() > 128:
                    yield Case("m.mul", [hx(m2), hx(p_), hx(q_)])
                    yield Case("r.mul", [hx(m2), hx(p_), hx(q_)])
                m3 = p_ * p_ + d
                if m3.bit_length() > 128:
                    yield Case(rng.choice(["m.sqr", "r.sqr"]), [hx(m3), hx(p_)])
                    yield Case("m.mul", [hx(m3), hx(p_), hx(p_)])
                    yield Case("m.pow", [hx(m3), hx(p_), hx(rng.choice([2, 3, 4]))])

def nontrivial(c):
    return c.args and len(c.args[1 if c.op == "m.mix" else 0]) > 16     # modulus above one word

def generate(rng, tier):
    for c in half_length_cases(rng, tier):
        yield c
    for c in conjunct_cases(rng, tier):
        yield c
    for c in kernel_cases(rng, tier):
        yield c
    for c in invm_prim_cases(rng, tier):
        yield c
    for c in prim_boundary_cases(rng, tier):
        yield c
    for c in big_kernel_cases(rng, tier):
        yield c
    for c in addsub_buffer_cases(rng, tier):
        yield c
    n = 2200 if tier == "quick" else 60000
    for i in range(n):
        m = modulus(rng, tier)
        if tier == "quick" and m.bit_length() > 40 * 64 and rng.random() < 0.7:
            m = modulus(rng, tier)
        a = operand(rng, m, tier)
        b = operand(rng, m, tier)
        r = rng.random()
        if r < 0.08:
            yield Case("m.reduce", [hx(m), hx(a)])
        elif r < 0.38:
            op = rng.choice(["add", "sub", "mul"])
            if rng.random() < 0.1:
                b = a
            if rng.random() < 0.08:
                b = m - (a % m) if m > 1 else 0                  # sums that hit exactly m
            yield Case("m." + op, [hx(m), hx(a), hx(b)])
        elif r < 0.50:
            yield Case("m." + rng.choice(["neg", "dbl", "sqr"]), [hx(m), hx(a)])
        elif r < 0.66:
            e = exponent(rng, tier)
            if m.bit_length() > 24 * 64 and e.bit_length() > 130 and tier == "quick":
                e >>= e.bit_length() - 100
            yield Case("m.pow", [hx(m), hx(a), hx(e)])
        elif r < 0.76:
            x = a
            if rng.random() < 0.4:
                ni = noninvertible(rng, m)
                if ni is not None:
                    x = ni
            yield Case("m.inv", [hx(m), hx(x)])
        elif r < 0.84:
            x = b
            if rng.random() < 0.3:
                ni = noninvertible(rng, m)
                if ni is not None:
                    x = ni
            yield Case("m.div", [hx(m), hx(a), hx(x)])
        elif r < 0.87:
            if rng.random() < 0.5:
                b = a + m * rng.choice([0, 1, -1, 5])
            yield Case("m.eq", [hx(m), hx(a), hx(b)])
        elif r < 0.91:
            m2 = m if rng.random() < 0.5 else modulus(rng, tier)
            yield Case("m.mix", [rng.choice(["add", "sub", "mul", "div", "eq"]), hx(m), hx(m2), hx(a), hx(b)])
        else:
            op = rng.choice(["transform", "add", "sub", "mul", "neg", "dbl", "sqr", "inv", "pow", "iszero"])
            a, b = abs(a), abs(b)
            if m.bit_length() > 128 and rng.random() < 0.3:
                # multi-word ring, operands / differences that stay within two words (reducer.rs: the TypedRepr::Small arms of
                # reduce_negate / check / residue, `sub_large_dword`)
                a = rng.getrandbits(rng.choice([1, 8, 63, 64, 65, 100, 127]))
                b = a + rng.choice([0, 1, -1, rng.getrandbits(20)]) if rng.random() < 0.5 else rng.getrandbits(rng.choice([1, 64, 120]))
                b = max(b, 0)
            if op in ("add", "sub", "mul"):
                if op == "add" and rng.random() < 0.25 and m > 1:
                    b = m - (a % m)                              # sum exactly m
                yield Case("r." + op, [hx(m), hx(a), hx(b)])
            elif op == "pow":
                e = exponent(rng, tier)
                if m.bit_length() > 24 * 64 and e.bit_length() > 130 and tier == "quick":
                    e >>= e.bit_length() - 100
                yield Case("r.pow", [hx(m), hx(a), hx(e)])
            else:
                if op == "dbl" and rng.random() < 0.25 and m % 2 == 0:
                    a = m // 2                                   # double exactly m
                yield Case("r." + op, [hx(m), hx(a)])

USES_GEN = True          # lean/Dashu/Gen/Modular.lean: decision logic of integer/src/modular/{mul,pow,div}.rs (vlib/extract.py gen_modular);
                         # lean/Dashu/Gen/ModularBuf.lean (round 5): buffer-level tests of ConstLargeDivisor::rem_large / mul_normalized / sqr_normalized (gen_modular_buf)
                         # lean/Dashu/Gen/ModularAdd.lean (round 6): tests of add_in_place / dbl_in_place / sub_in_place(_swap) / negate_in_place (gen_modular_add)
REFINED = ["ConstDivisor::new (shift)", "ConstSingleDivisor::rem_word/rem_dword/rem_large", "ConstDoubleDivisor::rem_dword/rem_large",
           "ConstLargeDivisor::rem_repr/rem_large", "IntoRing for UBig/IBig", "Reduced::residue/modulus",
           "Neg/Add/Sub/Mul/Div for Reduced", "Reduced::dbl/sqr/inv/pow", "mul_normalized/sqr_normalized",
           "single::pow/double::pow (pow_word, pow_helper)", "large::pow / pow_nontrivial (windowed exponentiation, odd-power table, choose_pow_window_len)",
           "num-modular invm (mirrored extended Euclid)",
           "Reducer<UBig> for ConstDivisor: transform/check/add/dbl/sub/neg",
           "round 4, executed by the driver in place of `%`: div_const.rs rem_word / two-step rem_dword (shl_dword, div_rem_1by1, div_rem_2by1 twice) / "
           "rem_large of single- and double-word rings; div/mod.rs fast_rem_by_normalized_word and fast_rem_by_normalized_dword (word loops; "
           "div_rem_2by2 / 4by2 pairs / 3by2 tail) over C02's mirrored Moeller-Granlund dividers, proved = % for every number of words "
           "(fast_rem_by_normalized_word, fast_rem_by_normalized_dword, reduce_kernels)",
           "round 4: PreMulInv2by1::mul/sqr, PreMulInv3by2::mul/sqr through the mirrored div_rem_2by1 / div_rem_4by2, executed for * , sqr and every step of pow_word / pow_helper (mul_sqr_kernels, pow_kernels)",
           "round 4: modular/div.rs inv_large mirrored (shr, raw_len dispatch, gcd_ext_word/_dword = C12's gcdExtSmall, gcd_ext_in_place = C12's "
           "lehmerExt, shl, negate) and executed; the range claim |b| < modulus (debug_assert!(inv.is_valid(ring))) is a theorem for all three "
           "kernels (inv_large_range: continuant identity t0*y + t1*x = lhs as a second invariant of Lehmer's extended loop, half-size cofactor "
           "bounds of the primitive and the two-width Euclid loops), so inv_large = the specified inverse is a corollary of C12's "
           "lehmer_gcd_ext_correct / gcdExtSmall_spec (inv_large_mirror, inv_div_kernels)",
           "round 4, Tie A (Gen/Modular.lean regenerated from integer/src/modular/{mul,pow,div}.rs): the long-division tests of mul_/sqr_normalized, "
           "cost model / loop guard / stop test / start value of choose_pow_window_len, the `match raw_len` dispatch and the gcd-is-one test of inv_large "
           "— the model is proved equal to the regenerated definitions",
           "round 5, C13<->C02 link (Props/C13Link, by import of C02's divRemInPlace_spec = simple_div_rem_exact + burnikel_ziegler_exact): "
           "ConstLargeDivisor::rem_large / rem_repr and mul_normalized / sqr_normalized mirrored on WORD BUFFERS (shl_in_place, push_resizing(carry), "
           "the len test, trimmed lengths, n.max(na+nb)-word product, `na | nb == 0`, debug_assert_zero!(shr_in_place), div_rem_in_place + truncate / "
           "cmp_same_len + sub) running C02's mirrored Knuth-D / Burnikel-Ziegler div_rem_in_place; executed by the driver for reduce, *, sqr, / of "
           "multi-word rings; proved never to fail and to equal the %-level definitions (rem_large_exact, reduce_kernels_all, mul_sqr_kernels_all; 4 <= W from C02/C01)",
           "round 5, num-modular's invm at the machine level (Model/NT/ModInvm.lean, executed for inv and / of single- and double-word rings): checked + - * "
           "(overflow = error), wrapping_mul/add/sub mod 2^bits, truncating casts; udouble::widening_mul, udouble::shl_u32, udouble::div_rem_2by1 (two "
           "quotient digits, each with the `while q >= B || q*d0 > B*rhat + n` correction loop and its `rhat >= B` break), Rem<u128> for udouble, "
           "u128::mulm (checked_mul / widening path), mulm of u8..u64 through the next wider type, subm, negm, the Euclid loop — proved for every half width "
           "H >= 1 and type width T: no check ever fails, no q underflow, results exact, invm on the primitive type = the Nat-level invm of inv_spec "
           "(widening_mul_exact, udouble_div_rem_2by1_exact, prim_mulm_exact, invm_prim_exact, inv_div_kernels_all)",
           "round 5, C13<->C01 link: the product buffer of mul_normalized / sqr_normalized (productLow) is filled by C01's MIRRORED mul::multiply "
           "(addSignedMul: schoolbook / Karatsuba / Toom-3 with chunk splitting, its debug_assert_zero! carry) resp. sqr::sqr (sqrBuffer), or the one-word "
           "extend_word shortcut; executed by the driver; exactness and buffer length by import of C01's addSignedMul_contract / sqrBuffer_spec (productLow_spec) — "
           "no multiplication or division of the top-level ring operations is taken at its contract any more",
           "round 5: large::pow / pow_nontrivial on buffers (Model/NT/ModPowK.lean: the table construction and the windowed loop over an arbitrary sqr / mul; powLK runs every "
           "sqr_in_place through the buffer-level sqr_normalized and every table / window product through the buffer-level mul_normalized — not the squaring shortcut, as in the code); "
           "executed by the driver for pow of multi-word rings; proved equal to the value-level loop on every valid base (pow_kernels_all: powLG_value by induction, powLG_congr over Valid)",
           "round 5, Tie A (Gen/ModularBuf.lean regenerated from integer/src/div_const.rs and integer/src/modular/mul.rs by the new additive extract target "
           "gen_modular_buf): the `words.len() >= modulus.len()` test of ConstLargeDivisor::rem_large, the product-buffer length `n.max(na + nb)` / `n.max(na * 2)`, "
           "the early return `na | nb == 0` / `na == 0` and the one-word shortcut test of mul_/sqr_normalized — the buffer mirrors are proved to CALL the "
           "regenerated definitions (buffer_logic_gen, rem_large_gen, mul_normalized_gen)",
           "round 6, C13<->C01 link for integer/src/modular/add.rs (Model/NT/ModAddK.lean, executed by the driver for Neg, +, -, &a - b, dbl of multi-word rings and for the "
           "negation inside IntoRing for IBig): negate_in_place, add_in_place, dbl_in_place, sub_in_place, sub_in_place_swap on the n-word residue buffers through C01's MIRRORED "
           "add_same_len_in_place / sub_same_len_in_place / sub_same_len_in_place_swap word loops and C02's mirrored shl_in_place(.., 1) / cmp_same_len, with "
           "debug_assert!(!overflow), debug_assert_eq!(overflow, overflow2), debug_assert!(overflow2) as error values; proved for every word size: on Valid residues no assertion "
           "fails and the buffers hold the values of hom_add / hom_sub / hom_neg / hom_dbl (add_sub_neg_kernels_all, add_in_place_exact, add_sub_neg_ops_all; contracts of the "
           "word loops by import of C01's addSameLen_spec / subSameLen_spec). The driver evaluates BOTH subtraction bodies (sub_in_place, sub_in_place_swap) and both doubling "
           "bodies (dbl_in_place, add_in_place on equal operands), as the harness's call forms do",
           "round 6, Tie A (Gen/ModularAdd.lean regenerated from integer/src/modular/add.rs by the new additive extract target gen_modular_add): the tests "
           "`overflow || cmp_same_len(..).is_ge()` of add_in_place / dbl_in_place, `if overflow` of sub_in_place / sub_in_place_swap, `!raw.0.iter().all(|w| *w == 0)` of "
           "negate_in_place; called word loops, argument order and debug assertions checked as a fixed shape (fails closed) — the buffer mirrors are proved to decide by the "
           "regenerated definitions (add_logic_gen; under mutants m18/m20/m21 the regenerated text changes and the theorem no longer checks, m19 fails closed); the same for the "
           "`cmp_same_len(product, modulus).is_ge()` test of mul_/sqr_normalized's short product, whose conditional subtraction now runs C01's mirrored sub_same_len_in_place "
           "with its debug_assert_zero! on the buffer (mul_normalized_gen; mutants m22/m23)",
           "round 6, inv_large's buffer plumbing (Model/NT/ModInvLargeB.lean, executed by the driver for inv and / of multi-word rings and Reducer::inv): "
           "debug_assert_zero!(shr_in_place(modulus)), debug_assert_zero!(shr_in_place(raw)), locate_top_word_plus_one, the cofactor zero-extended in the modulus buffer, "
           "shl_in_place (carry dropped by the code: proved zero), debug_assert!(inv.is_valid(ring)) as ReducedLarge::is_valid on the buffer (length, cmp_same_len(..).is_lt(), "
           "low shift bits zero), negate_in_place on the buffer — proved: on Valid residues no assertion fails and the result is that of round 4's mirrored inv_large "
           "(inv_large_buffers_all, from the range theorems gcdExtSmall_range / lehmerExt_range and C02's shrInPlace_spec / shlInPlace_spec)",
           "round 7, C13<->C01 link for integer/src/modular/reducer.rs (Proofs/NT/ModReducerU.lean, Props/C13Reducer): Reducer<UBig>::check / reduce_once / reduce_negate / add / dbl / sub / neg "
           "written on C01's mirrored UBig representation (TRepr.add, TRepr.sub with NegativeUBig as an error value, TRepr.shl, TRepr.cmp; the multi-word arms call sub_large, "
           "sub_large_dword, sub_large_ref_val, cmp_in_place directly; check with its (Large, RefSmall) => true and words[0] & ones_word(shift) arms) — proved for every word size and every "
           "ring ConstDivisor::new builds: on canonical operands that pass check no UBig subtraction panics, results are canonical and their values are the rAdd / rSub / rNeg of reducer_ops "
           "(reducer_ubig_link; by import of C01's TRepr.add_spec / sub_ok / shl_spec / cmp_spec). Theorem-level mirror: the driver keeps executing rAdd / rSub / rNeg (no driver change in round 7)",
           "round 8, C13<->C02/C01 link for Reducer<UBig>::residue / is_zero (Proofs/NT/ModResidueU.lean, Props/C13Reducer): residue written on C01's mirrored UBig representation and C02's "
           "MIRRORED shift::shr_in_place (Small: from_word(shrink_dword(dw).unwrap() >> shift) / from_dword(dw >> shift); Large: debug_assert_zero!(shr_in_place(&mut buffer, d.shift)) then "
           "Repr::from_buffer; unreachable!() for a heap operand in a one- or two-word ring; the unwrap, the overflow check of >>, the debug assertion and unreachable!() are error values) — "
           "proved for every word size and every ring ConstDivisor::new builds: on a canonical operand that passes check none of the four error arms is taken, the result is canonical, equals "
           "target / 2^shift (what the driver prints for every r.* op) and lies in [0, m); is_zero decides residue = 0; composed with reducer_ubig_link and reducer_ops: residue(add(x,y)), "
           "residue(dbl(x)), residue(sub(x,y)), residue(neg(x)) on the representation are the ring sum / double / difference / negation of the residues (reducer_residue_link; by import of "
           "C02's shrInPlace_spec and C01's fromBuffer_value / fromBuffer_canon). Theorem-level mirror, not executed by the driver (no driver change in round 8)"]
FRONTIER = ["large::pow above the driver's work budget (n^2 * bit_len(exp) > 1.5e5 word operations) is executed with the value-level mul_normalized instead of the buffer-level one "
            "(pow_kernels_all proves both equal on every valid base, so this only bounds the running time of the check); the extended-gcd kernels inside inv_large (C12's gcdExtSmall / lehmerExt) "
            "run on values, not on the buffers gcd_ext_in_place works in (C12 owns their buffer-level mirror, Proofs/NT/LehmerBuf*); the representation-level mirror of Reducer<UBig>'s add/dbl/sub/neg "
            "(round 7, rAddU / rSubU / rNegU over C01's TRepr operators, proved = rAdd / rSub / rNeg by reducer_ubig_link; round 8, rResidueU over C02's shrInPlace / C01's fromBuffer, proved = t / 2^shift "
            "by reducer_residue_link) is not yet the one the driver executes; Reducer<UBig>::transform / mul / sqr / inv / pow convert to Reduced and back (convert_from_normalized / convert_to_normalized: "
            "push_zeros / pop_zeros + from_buffer) — that conversion appears at its value",
            "the `s >= umax::BITS` arm of udouble::shl_u32 and the `self.hi >= rhs` arm of Rem<u128> for udouble are modelled and covered by the theorems "
            "(udoubleRem_spec) but unreachable from invm (quo*t < m*2^128), so Tie B never exercises them",
            "the ptr::eq ring identity is modelled by an instance id (two instances with equal modulus are different rings): a modelling convention, not derivable from source text"]
RULE = ("moduli from {1, 2^k, odd/even single word, double word with/without normalisation shift, 3..70 words with aligned/unaligned "
        "top word, all-ones / 100..0 / low-words-zero patterns} x operands of any sign and size (reduced, multiples of m, m+-1, "
        "size-class boundaries, up to 140 words) x exponents 0..3 words incl. long zero runs, plus 4..17-word exponents (window lengths 5 and 6) x ops {reduce, + - * / neg dbl sqr pow inv eq, "
        "mixing two ConstDivisor instances, the num_modular::Reducer impl}; a dedicated stream for the no-division branch of mul/sqr_normalized "
        "(incl. products landing just below / above m); "
        "a stream for the word loops behind reduce in single- and double-word rings (moduli of 1..64 / 65..128 bits with shift 0 and 1..63, all-ones and smallest "
        "normalised divisors x operands of exactly 1..9, 16, 17, 70, 71 words, even and odd counts, all-ones / q*m + {0,1,m-2,m-1} / top words = divisor-1,+0,+1 / "
        "powers of two / patterns, both signs); "
        "a stream for conjunctive tests (`len == 1 && word == 1` style) with exactly one conjunct true: inv/div/Reducer::inv with m = g*m', a = g*a', "
        "gcd(a', m') = 1 and g multi-word with lowest word 1 (2^64+1, 3*2^64+1, 2^128+1, k*2^64+1, three words; the 2^32 analogues) or one word != 1, "
        "m of 3..17 words, residues of 1/2/>=3 words before and after removing the normalisation shift; mul/sqr with operand word counts (0,k),(1,1),(1,k),(k,1); "
        "negation of residues whose low words are zero; "
        "(moduli of exactly 2..16 words with 0..63 leading zero bits x operands of exactly n/2, n/2+-1 words, all-ones / 2^k-small / "
        "around sqrt(m), through sqr, mul (equal and different operands), pow with small exponents); non-invertible elements by construction (multiples of a "
        "factor of m); sums/doubles that hit exactly m; "
        "round 5: invm_prim_cases — single- and double-word moduli of EVERY bit length 2..128 (random, 2^k-1, 2^(k-1)+1, minimal top half with all-ones low half, "
        "zero low half, 2^k-small) x operands m-1, m-2, (m+-1)/2, (m+-1)/3, 2, 3, m/phi, random, through inv / div / Reducer::inv (measured on the quick tier with a "
        "Python replica of u128::mulm: 3068 widening_mul + div_rem_2by1 calls, normalising shift 0 and 1..63, first/second digit with 0/1/2 correction steps, "
        "estimate >= B, rhat >= B break all hit); prim_boundary_cases — reduce of 0, +-1, +-(2^t + {-1,0,1}) for t in 7,8,15,16,31,32,63,64,127,128 (MIN/MAX of every "
        "primitive type, all primitive call forms that fit) against moduli B^e, B^e+-1 (B = 2^64, 2^32, e = 1..4) and random moduli of every kind, operands m^2+-1, k*m+-1, B^e+-1; "
        "big_kernel_cases — moduli of 24, 25, 30..34, 66, 193/200 words (thorough: 23..26, 30..34, 48, 65, 66, 100, 192, 193, 200), i.e. on either side of mul THRESHOLD_SIMPLE, sqr MAX_LEN_SIMPLE, "
        "div THRESHOLD_SIMPLE and THRESHOLD_KARATSUBA, x operands of n, n/2, 1, n-1 words through reduce (Knuth D and Burnikel-Ziegler), mul, sqr, pow, div — annotations "
        "`<product arm>.<division arm>` (sq1 / sqr.simple|karatsuba|toom3 / mul11 / mul.simple|karatsuba|toom3 x same|uneven|empty x knuth|bz) all non-zero on the quick tier. "
        "round 6: addsub_buffer_cases — multi-word moduli of 3, 4, 5, 8, 17, 33 words with shift 0 (a carry out of the top word is possible) and shift 1..63 x sums "
        "m-1, m, m+1, >= 2^(64n), 2m-2, carry / borrow chains through 1..n words, differences 0, +-1, 0-1, doubling of m/2, (m+-1)/2, top-bit-of-every-word, m-1, negation of "
        "0, 1, m-1, residues with low words zero, negative operands of reduce — annotations add.large.{lt,ge,eqM,carry}, sub.large.{eq,noborrow,borrow}, "
        "neg.large.{zero,lowzero,nonzero}, dbl.large.{lt,ge,eqM,carry} all non-zero on the quick tier; products p*q and squares p^2 against the moduli p*q, p*q+-1, p^2, p^2+-1 "
        "(short product exactly / just below / just above the modulus: the conditional subtraction of mul_/sqr_normalized). "
        "The model driver annotates every case with the branch of the mirrored code it takes (reduce: ring kind x "
        "operand size class x shift x sign; mul/sqr: division / conditional subtraction / none; inv: raw_len arm x gcd class; pow: window length / exponent words; "
        "add/sub: carry / borrow) — histogram under coverage.annotations in the evidence file. Non-trivial := modulus above one word; distinct := distinct (op,args) lines.")
EXPLANATION = ("Lean theorems (all W, all moduli, all integers): reduce yields a Valid pre-shifted residue equal to a mod m; + - * neg dbl "
               "sqr preserve Valid and commute with residue; pow = a^e mod m for every e in every ring (square-and-multiply over words; windowed loop for multi-word rings); inv = Some x iff gcd(a,m)=1 "
               "and then a*x = 1; division; different rings panic. The driver executes the mirrored word-level kernels (rem_word/rem_dword/rem_large, "
               "fast_rem_by_normalized_(d)word, PreMulInv*::mul/sqr, inv_large through C12's extended-gcd kernels), each proved equal to the definition the "
               "homomorphism theorems are about; inv_large's range claim |b| < modulus is a theorem. Round 5: multi-word reduce / * / sqr / pow run on word buffers through C01's mirrored "
               "mul::multiply / sqr::sqr and C02's mirrored div_rem_in_place (exactness by import of C01's / C02's theorems), and inv of single-/double-word rings runs num-modular's invm with machine arithmetic "
               "(u128 through udouble::widening_mul and div_rem_2by1), proved overflow-free and equal to the Nat-level invm.")
ASSUMPTIONS = ["word size W >= 4 for the multi-word multiplication / division links (hypothesis of C01's Toom-3 carry bounds, inherited by C02's Burnikel-Ziegler theorem)",
               "usize has 64 bits in choose_pow_window_len's loop guard (WORD_BITS.min(usize::BIT_SIZE))"]
LEVEL_TEXT = ("Machine-checked Lean 4 theorems over an executable model that mirrors the pre-shifted residue representation of "
              "ConstDivisor/Reduced (single, double and multi-word rings): for every word size, modulus m >= 1 and all integers, "
              "reduce/+/-/*/neg/dbl/sqr/pow (incl. the windowed multi-word loop)/inv/div are the homomorphic image of integer arithmetic with residues in [0,m), inverse "
              "exists iff coprime, mixing rings panics. Every arithmetic kernel under these operations is mirrored, executed by the model driver and proved equal to the "
              "arithmetic definition the homomorphism theorems are about: the word-level reductions of single- and double-word rings (two-step rem_dword, "
              "fast_rem_by_normalized_word/_dword, PreMulInv*::mul/sqr over the mirrored Moeller-Granlund dividers); the multi-word reductions and products on word buffers "
              "(rem_large, mul_normalized, sqr_normalized, the windowed pow loop) through C01's mirrored multiplication and C02's mirrored Knuth-D / Burnikel-Ziegler division, "
              "with exactness imported from C01's / C02's theorems (W >= 4); the additive operations of multi-word rings (add_in_place, dbl_in_place, sub_in_place(_swap), negate_in_place) "
              "on buffers through C01's mirrored add/sub word loops with their debug assertions proved never to fail; the Reducer<UBig> impl's add/dbl/sub/neg through C01's mirrored UBig operators "
              "(no NegativeUBig panic on checked operands, canonical results; theorem-level link) and its residue / is_zero through C02's mirrored shr_in_place and C01's from_buffer (unwrap, shift overflow, "
              "debug_assert_zero!, unreachable!() proved not taken on checked operands; theorem-level link); inv_large through C12's mirrored extended-gcd kernels with the range claim |b| < modulus proved; "
              "num-modular's invm with machine arithmetic (checked / wrapping u64 / u128, udouble::widening_mul, div_rem_2by1) proved overflow-free and exact for every width. "
              "Decision logic of mul/pow/div and of the buffer mirrors is regenerated from source and proved equal to the model's. The model is tied to /repo on every "
              "run by differential execution against ConstDivisor::reduce, all Reduced operator call forms and the num_modular::Reducer impl.")
LEVEL_NOTE = ("Trusted: Lean kernel; axioms propext/Classical.choice/Quot.sound; correspondence harness + generators (sampling) for the tie "
              "model<->code (incl. that num-modular 0.6.5's invm / udouble are transcribed faithfully: that crate is outside /repo, so no Tie A for it); the regeneration script vlib/extract.py "
              "for the Tie-A definitions.")
TECHNIQUE = "Lean 4 refinement proofs (value-level model of the pre-shifted residue representation, word-level mirrors of the division/gcd kernels) + regeneration of decision logic from source + differential correspondence model vs real code"
THEOREMS = ["Dashu.Props.C13." + t for t in ["new_spec", "reduce_spec", "ops_closed", "hom_add", "hom_sub", "hom_mul", "hom_neg", "hom_dbl",
            "hom_sqr", "hom_pow", "inv_spec", "div_spec", "different_rings",
            "different_instances_same_modulus", "single_word_division_contracts", "double_word_division_contracts", "reducer_ops", "one_asIs_counterexample", "reducer_add_asIs_counterexample",
            "fast_rem_by_normalized_word", "fast_rem_by_normalized_dword", "eq_spec", "reduce_kernels", "mul_sqr_kernels", "pow_kernels", "inv_large_range", "inv_large_mirror", "inv_div_kernels",
            "mul_normalized_guard_gen", "choose_pow_window_len_gen", "inv_large_dispatch_gen", "inv_large_gcd_is_one_gen"]] + [
            "Dashu.Props.C13Link." + t for t in ["rem_large_exact", "large_divisor_fields", "reduce_kernels_all", "mul_sqr_kernels_all",
            "widening_mul_exact", "udouble_div_rem_2by1_exact", "prim_mulm_exact", "invm_prim_exact", "inv_div_kernels_all",
            "buffer_logic_gen", "rem_large_gen", "mul_normalized_gen", "product_low_gen", "pow_kernels_all",
            "add_sub_neg_kernels_all", "add_in_place_exact", "add_sub_neg_ops_all", "add_logic_gen", "inv_large_buffers_all"]] + [
            "Dashu.Props.C13Reducer.reducer_ubig_link", "Dashu.Props.C13Reducer.reducer_residue_link"]
READY = True
