"""C13 — reduced-ring arithmetic is the homomorphic image of integer arithmetic (DESIGN §8 C13)."""
from vlib.core import Case
from vlib.gens import *

GROUP = "nt"
LEAN_PROPS = "Dashu.Props.C13"
LEAN_AUDIT = "Dashu.Audit.C13"
W = 64

def modulus(rng, tier):
    """moduli {1, 2^k, odd/even single word, double word with/without shift, 3-70 words aligned/unaligned}"""
    c = rng.random()
    if c < 0.04:
        return 1
    if c < 0.10:
        return 1 << rng.choice([1, 2, 7, 63, 64, 65, 127, 128, 129, 191, 192, 200, 256, 64 * rng.randrange(3, 12)])
    if c < 0.30:   # single word
        k = rng.choice([2, 3, 8, 31, 32, 33, 62, 63, 64, 64, 64])
        v = rng.getrandbits(k) | (1 << (k - 1))
        return max(2, v | rng.choice([0, 1]) if rng.random() < 0.7 else v & ~1) or 2
    if c < 0.50:   # double word; with (k<128) / without (k=128) shift
        k = rng.choice([65, 66, 96, 127, 128, 128, 128])
        v = rng.getrandbits(k) | (1 << (k - 1))
        if rng.random() < 0.2:
            v = (1 << k) - rng.choice([1, 2, 3, 59])
        if rng.random() < 0.2:
            v = (1 << (k - 1)) + rng.choice([0, 1, 2])
        return v
    # large
    sizes = [3, 3, 4, 5, 6, 8, 12, 24, 25, 33, 40, 70] if tier == "quick" else [3, 4, 5, 7, 16, 24, 25, 32, 33, 48, 64, 70]
    n = rng.choice(sizes)
    top = rng.choice([64, 64, 63, 62, 33, 32, 2, 1])      # aligned (no shift) / unaligned
    bits = (n - 1) * 64 + top
    r = rng.random()
    if r < 0.15:
        return (1 << bits) - rng.choice([1, 3, 5])
    if r < 0.3:
        return (1 << (bits - 1)) + rng.choice([0, 1, 2, 1 << 64])
    if r < 0.4:   # low words zero / sparse
        return (rng.getrandbits(top) | (1 << (top - 1))) << ((n - 1) * 64)
    v = rng.getrandbits(bits) | (1 << (bits - 1))
    if rng.random() < 0.3:
        v &= ~1
    return v

def operand(rng, m, tier):
    """integers of any sign/size relative to m, incl. multiples of m, m±1, boundaries of the size classes"""
    c = rng.random()
    mb = m.bit_length()
    if c < 0.10:
        v = rng.choice([0, 1, 2, m - 1, m, m + 1, 2 * m - 1, 2 * m, m * m - 1, m * m, (1 << 64) - 1, 1 << 64, (1 << 128) - 1, 1 << 128])
    elif c < 0.25:
        v = rng.getrandbits(max(1, mb - 1))                    # already reduced
    elif c < 0.40:
        v = rng.randrange(0, m) if m > 1 else 0
        if rng.random() < 0.5:
            v += m * rng.getrandbits(rng.choice([1, 8, 64, 130]))
    elif c < 0.55:
        v = rng.getrandbits(rng.choice([1, 8, 31, 63, 64, 65, 127, 128, 129, 192, 193]))
    elif c < 0.75:
        v = rng.getrandbits(mb + rng.choice([-64, -1, 0, 1, 2, 63, 64, 65, 128, 200]) if mb > 64 else mb + rng.choice([0, 1, 64, 128]))
    elif c < 0.85:
        v = m * rng.getrandbits(rng.choice([1, 64, 65, 300]))  # multiples of m
    else:
        v = nat_pattern(rng, rng.choice([1, 2, 3, 4, 5, 24, 71, 140]), rng.choice(PATTERNS))
    return -v if rng.random() < 0.4 else v

def noninvertible(rng, m):
    """a = g*u with g | m, g > 1 (by construction), if m has a small factor we can find"""
    for p in [2, 3, 5, 7, 11, 13, (1 << 64) - 59, (1 << 61) - 1]:
        if m % p == 0 and m > p:
            return p * rng.getrandbits(rng.choice([1, 16, 64, 200]))
    return None

def exponent(rng, tier):
    c = rng.random()
    if c < 0.2:
        return rng.choice([0, 1, 2, 3, 4, 5, 7, 8, 15, 16, 17])
    if c < 0.45:
        return rng.getrandbits(rng.choice([8, 31, 63, 64]))
    if c < 0.6:
        return rng.choice([(1 << 64) - 1, 1 << 64, (1 << 64) + 1, (1 << 63), (1 << 128) - 1, 1 << 128, (1 << 127) + 1])
    if c < 0.85:
        return rng.getrandbits(rng.choice([65, 100, 128, 129, 160, 192]))
    v = rng.getrandbits(rng.choice([64, 128, 192]))
    return v & ~((1 << rng.choice([3, 17, 64, 70])) - 1)        # long runs of zero bits (window logic)

def half_length_cases(rng, tier):
    """mul_normalized / sqr_normalized take the `na + nb <= n` branch (one conditional subtraction instead of a
    long division) when the trimmed operands together have at most n words: moduli of exactly n in
    {2,3,4,5,6,8,9,16} words, top bit set (no shift) or 1..63 leading zero bits, operands whose *residues* have
    exactly n/2, n/2 +- 1 (and na + nb = n, n +- 1) words with all-ones / 2^k - small / random patterns, so that
    a*b crosses m; through sqr, mul with equal and different operands, pow with small exponents, and the Reducer."""
    cnt = 260 if tier == "quick" else 6000
    for _ in range(cnt):
        n = rng.choice([2, 3, 4, 4, 5, 6, 6, 8, 8, 9, 16])
        lz = rng.choice([0, 0, 0, 1, 2, 31, 32, 62, 63])
        bits = n * 64 - lz
        c = rng.random()
        if c < 0.4:
            m = (1 << (bits - 1)) + rng.choice([0, 1, 12345, rng.getrandbits(64), rng.getrandbits(bits - 2)])
        elif c < 0.6:
            m = (1 << bits) - rng.choice([1, 3, 59, rng.getrandbits(64) | 1])
        else:
            m = rng.getrandbits(bits) | (1 << (bits - 1))
        if n == 2 and m < (1 << 64):
            m |= 1 << 64
        def opnd(words):
            words = max(1, words)
            b = words * 64
            r = rng.random()
            if r < 0.25:
                v = (1 << b) - 1
            elif r < 0.5:
                v = (1 << b) - rng.choice([2, 12345, rng.getrandbits(32) + 1, (1 << 64) + 1])
            elif r < 0.65:
                v = (1 << (b - 1)) + rng.getrandbits(20)
            elif r < 0.75:
                # just around sqrt(m): the square / product straddles the modulus
                from math import isqrt
                v = isqrt(m) + rng.choice([-1, 0, 1, 2, rng.getrandbits(10)])
            else:
                v = rng.getrandbits(b) | (1 << (b - 1))
            return max(0, v) % m
        h = n // 2
        na = rng.choice([h, h, h, h - 1, h + 1, (n + 1) // 2])
        nb = rng.choice([na, n - na, n - na, n - na - 1, n - na + 1, h])
        a, b = opnd(na), opnd(nb)
        if rng.random() < 0.3:
            a = -a
        r = rng.random()
        if r < 0.3:
            yield Case("m.sqr", [hx(m), hx(a)])
        elif r < 0.45:
            yield Case("m.mul", [hx(m), hx(a), hx(a)])
        elif r < 0.7:
            yield Case("m.mul", [hx(m), hx(a), hx(b)])
        elif r < 0.85:
            yield Case("m.pow", [hx(m), hx(a), hx(rng.choice([2, 2, 3, 4, 5, 6, 7, 8, 16, 17, 255]))])
        elif r < 0.92:
            yield Case("r.sqr", [hx(m), hx(abs(a))])
        else:
            yield Case("r.mul", [hx(m), hx(abs(a)), hx(abs(b))])

def coprime_to(rng, bits, other):
    import math
    for _ in range(200):
        v = rng.getrandbits(bits) | 1
        if v > 1 and math.gcd(v, other) == 1:
            return v
    return 1

def conjunct_cases(rng, tier):
    """Tests of the form `len == 1 && word == 1` in the modular code, with inputs that satisfy exactly one
    conjunct.  (1) div.rs inv_large decides "gcd == 1" from the gcd left in the residue buffer: `g_len == 1 &&
    raw[0] == 1` (and `g == 1` on a Word / DoubleWord for 1- and 2-word residues) — gcds that are multi-word
    with lowest word 1 (2^64+1, 3*2^64+1, 2^128+1, k*2^64+1, three words with low word 1; the 2^32 analogues
    matter for 32-bit words) and gcds that are one word but not 1; m = g*m', a = g*a', gcd(a', m') = 1, m of
    3..6 (and a few more) words, residue lengths 1, 2, 3.. words before/after removing the normalisation shift.
    (2) mul.rs `na == 1 && nb == 1` / `na | nb == 0`: one operand one word and the other longer / zero.
    (3) add.rs negate: "all words zero" with only the low word(s) zero."""
    import math
    reps = 6 if tier == "quick" else 60
    W = 64
    gs = []
    for w in (64, 32):
        B = 1 << w
        gs += [B + 1, 3 * B + 1, B * B + 1, B * B + B + 1, (B - 1) * B + 1, B * B * B + 1,
               (B * B * 5) + 1, (1 << (w * 2 - 1)) * B + 1]
    for _ in range(reps):
        gs.append((rng.getrandbits(rng.choice([3, 17, 63, 64, 100, 128])) | 1) * (1 << 64) + 1)
        gs.append((rng.getrandbits(rng.choice([5, 31, 32, 40, 64])) | 1) * (1 << 32) + 1)
        gs.append(rng.getrandbits(64) | (1 << 63) | 1)          # one word, not 1
        gs.append(rng.choice([3, 5, 255, (1 << 32) + 1, (1 << 63) + 1, (1 << 64) - 1]))
        gs.append(rng.getrandbits(128) | (1 << 127) | 1)        # two words, low word random
    for g in gs:
        for _ in range(2 if tier == "quick" else 6):
            glen = (g.bit_length() + W - 1) // W
            mwords = max(rng.choice([3, 3, 4, 5, 6, 6, 9, 17]), glen + 1)
            mbits = max(mwords * W - rng.choice([0, 0, 1, 7, 31, 63]) - g.bit_length(), 2)
            mp = coprime_to(rng, mbits, 1)
            m = g * mp
            # a' coprime to m', a = g*a' < m of a chosen length
            abits = rng.choice([1, 2, 40, 64, 65, 128, 129, max(mbits - 1, 1)])
            abits = min(abits, max(mbits - 1, 1))
            ap = coprime_to(rng, abits, mp) if abits > 1 else 1
            a = g * ap
            big = a + m * rng.choice([0, 0, 1, -1, 1 << 70])
            yield Case("m.inv", [hx(m), hx(big)])
            yield Case("m.div", [hx(m), hx(operand(rng, m, tier)), hx(a)])
            yield Case("r.inv", [hx(m), hx(a % m)])
            yield Case("m.mix", ["div", hx(m), hx(m), hx(operand(rng, m, tier)), hx(a)])
            # the same residue made invertible (control: both conjuncts hold)
            yield Case("m.inv", [hx(m), hx(coprime_to(rng, max(a.bit_length(), 2), m))])
    # residue length classes of inv_large before / after removing the normalisation shift
    for _ in range(reps * 4):
        k = rng.choice([1, 7, 31, 32, 63])
        mwords = rng.choice([3, 4, 6])
        m = rng.getrandbits(mwords * W - k) | (1 << (mwords * W - k - 1)) | 1
        for lo, hi in [(W - k, W), (2 * W - k, 2 * W), (1, W - k), (W, 2 * W - k), (2 * W, 2 * W + 3)]:
            a = rng.getrandbits(hi - lo) | (1 << (hi - lo - 1)) if hi - lo > 1 else 1
            a = (a << lo) >> 1 if lo > 0 else a
            a |= 1 << (rng.randrange(max(lo - 1, 0), hi))
            a %= m
            yield Case(rng.choice(["m.inv", "r.inv"]), [hx(m), hx(a)])
            yield Case("m.div", [hx(m), hx(rng.getrandbits(200)), hx(a)])
    # mul / sqr: operand word counts (0, k), (1, 1), (1, k), (k, 1) inside a multi-word ring; negate with zero low words
    for _ in range(reps * 4):
        mwords = rng.choice([3, 4, 5, 8, 16])
        k = rng.choice([0, 0, 1, 13, 63])
        m = rng.getrandbits(mwords * W - k) | (1 << (mwords * W - k - 1))
        one = rng.choice([1, 2, (1 << (W - k)) - 1 if k < W - 1 else 1, rng.getrandbits(W - k) | 1])  # one word also after the shift
        edge = rng.choice([1 << (W - k), (1 << (W - k)) - 1 if k else (1 << W) - 1, 1 << W])               # around the word boundary of the shifted residue
        longv = rng.getrandbits(rng.choice([65, 128, (mwords - 1) * W])) | (1 << 64)
        for x, y in [(0, longv), (longv, 0), (one, one), (one, longv), (longv, one), (edge, one), (one, edge), (0, 0)]:
            yield Case("m.mul", [hx(m), hx(x % m), hx(y % m)])
        yield Case("m.sqr", [hx(m), hx(one)])
        yield Case("m.sqr", [hx(m), hx(edge % m)])
        yield Case("r.mul", [hx(m), hx(one), hx(longv % m)])
        z = (rng.getrandbits(rng.choice([1, 64, 100])) | 1) << rng.choice([64, 128, 64 - k if k else 64])
        yield Case("m.neg", [hx(m), hx(z % m)])
        yield Case("m.neg", [hx(m), hx(0)])
        yield Case("m.neg", [hx(m), hx(m)])
        yield Case("r.neg", [hx(m), hx(z % m)])
        yield Case("m.sub", [hx(m), hx(0), hx(z % m)])

def nontrivial(c):
    return c.args and len(c.args[1 if c.op == "m.mix" else 0]) > 16     # modulus above one word

def generate(rng, tier):
    for c in half_length_cases(rng, tier):
        yield c
    for c in conjunct_cases(rng, tier):
        yield c
    n = 2200 if tier == "quick" else 60000
    for i in range(n):
        m = modulus(rng, tier)
        if tier == "quick" and m.bit_length() > 40 * 64 and rng.random() < 0.7:
            m = modulus(rng, tier)
        a = operand(rng, m, tier)
        b = operand(rng, m, tier)
        r = rng.random()
        if r < 0.08:
            yield Case("m.reduce", [hx(m), hx(a)])
        elif r < 0.38:
            op = rng.choice(["add", "sub", "mul"])
            if rng.random() < 0.1:
                b = a
            if rng.random() < 0.08:
                b = m - (a % m) if m > 1 else 0                  # sums that hit exactly m
            yield Case("m." + op, [hx(m), hx(a), hx(b)])
        elif r < 0.50:
            yield Case("m." + rng.choice(["neg", "dbl", "sqr"]), [hx(m), hx(a)])
        elif r < 0.66:
            e = exponent(rng, tier)
            if m.bit_length() > 24 * 64 and e.bit_length() > 130 and tier == "quick":
                e >>= e.bit_length() - 100
            yield Case("m.pow", [hx(m), hx(a), hx(e)])
        elif r < 0.76:
            x = a
            if rng.random() < 0.4:
                ni = noninvertible(rng, m)
                if ni is not None:
                    x = ni
            yield Case("m.inv", [hx(m), hx(x)])
        elif r < 0.84:
            x = b
            if rng.random() < 0.3:
                ni = noninvertible(rng, m)
                if ni is not None:
                    x = ni
            yield Case("m.div", [hx(m), hx(a), hx(x)])
        elif r < 0.87:
            if rng.random() < 0.5:
                b = a + m * rng.choice([0, 1, -1, 5])
            yield Case("m.eq", [hx(m), hx(a), hx(b)])
        elif r < 0.91:
            m2 = m if rng.random() < 0.5 else modulus(rng, tier)
            yield Case("m.mix", [rng.choice(["add", "sub", "mul", "div", "eq"]), hx(m), hx(m2), hx(a), hx(b)])
        else:
            op = rng.choice(["transform", "add", "sub", "mul", "neg", "dbl", "sqr", "inv", "pow", "iszero"])
            a, b = abs(a), abs(b)
            if op in ("add", "sub", "mul"):
                if op == "add" and rng.random() < 0.25 and m > 1:
                    b = m - (a % m)                              # sum exactly m
                yield Case("r." + op, [hx(m), hx(a), hx(b)])
            elif op == "pow":
                e = exponent(rng, tier)
                if m.bit_length() > 24 * 64 and e.bit_length() > 130 and tier == "quick":
                    e >>= e.bit_length() - 100
                yield Case("r.pow", [hx(m), hx(a), hx(e)])
            else:
                if op == "dbl" and rng.random() < 0.25 and m % 2 == 0:
                    a = m // 2                                   # double exactly m
                yield Case("r." + op, [hx(m), hx(a)])

REFINED = ["ConstDivisor::new (shift)", "ConstSingleDivisor::rem_word/rem_dword/rem_large", "ConstDoubleDivisor::rem_dword/rem_large",
           "ConstLargeDivisor::rem_repr/rem_large", "IntoRing for UBig/IBig", "Reduced::residue/modulus",
           "Neg/Add/Sub/Mul/Div for Reduced", "Reduced::dbl/sqr/inv/pow", "mul_normalized/sqr_normalized",
           "single::pow/double::pow (pow_word, pow_helper)", "large::pow / pow_nontrivial (windowed exponentiation, odd-power table, choose_pow_window_len)",
           "num-modular invm (mirrored extended Euclid)",
           "Reducer<UBig> for ConstDivisor: transform/check/add/dbl/sub/neg"]
FRONTIER = ["num_modular div_rem_2by1 / div_rem_4by2 at the mul/sqr/rem_word call sites of single- and double-word rings: DISCHARGED against "
            "C02's mirrored Moeller-Granlund algorithms (preconditions proved, single_word_/double_word_division_contracts); the "
            "remaining uses (rem_dword's two-step reduction, div_rem_3by2, fast_rem_by_normalized_(d)word, multi-word div_rem_in_place) "
            "are modelled as exact % — their exactness is C02's div_by_word/dword_exact, burnikel_ziegler_exact, nm_div_rem_3by2_exact",
            "mul::multiply / sqr::sqr on word slices: modelled as exact * (refined in C01)",
            "inv_large: gcd::gcd_ext_word/_dword/_in_place (Lehmer) specified by the mirrored invm (the inverse is unique mod m). The kernels "
            "themselves are now mirrored and proved in C12 (gcd_ext_spec, lehmer_gcd_ext_correct: g = gcd and modulus | g - raw*b); what keeps "
            "inv_large from being a corollary is the range claim |b| < modulus (the debug_assert!(inv.is_valid(ring))), not yet a theorem"]
RULE = ("moduli from {1, 2^k, odd/even single word, double word with/without normalisation shift, 3..70 words with aligned/unaligned "
        "top word, all-ones / 100..0 / low-words-zero patterns} x operands of any sign and size (reduced, multiples of m, m+-1, "
        "size-class boundaries, up to 140 words) x exponents 0..3 words incl. long zero runs x ops {reduce, + - * / neg dbl sqr pow inv eq, "
        "mixing two ConstDivisor instances, the num_modular::Reducer impl}; a dedicated stream for the no-division branch of mul/sqr_normalized "
        "a stream for conjunctive tests (`len == 1 && word == 1` style) with exactly one conjunct true: inv/div/Reducer::inv with m = g*m', a = g*a', "
        "gcd(a', m') = 1 and g multi-word with lowest word 1 (2^64+1, 3*2^64+1, 2^128+1, k*2^64+1, three words; the 2^32 analogues) or one word != 1, "
        "m of 3..17 words, residues of 1/2/>=3 words before and after removing the normalisation shift; mul/sqr with operand word counts (0,k),(1,1),(1,k),(k,1); "
        "negation of residues whose low words are zero; "
        "(moduli of exactly 2..16 words with 0..63 leading zero bits x operands of exactly n/2, n/2+-1 words, all-ones / 2^k-small / "
        "around sqrt(m), through sqr, mul (equal and different operands), pow with small exponents); non-invertible elements by construction (multiples of a "
        "factor of m); sums/doubles that hit exactly m. Non-trivial := modulus above one word; distinct := distinct (op,args) lines.")
EXPLANATION = ("Lean theorems (all W, all moduli, all integers): reduce yields a Valid pre-shifted residue equal to a mod m; + - * neg dbl "
               "sqr preserve Valid and commute with residue; pow = a^e mod m for every e in every ring (square-and-multiply over words; windowed loop for multi-word rings); inv = Some x iff gcd(a,m)=1 "
               "and then a*x = 1; division; different rings panic. Division primitives of num-modular are contract parameters.")
ASSUMPTIONS = ["num_modular div_rem_* primitives and dashu's div_rem_in_place/fast_rem_by_normalized_* satisfy their floor-division contract",
               "mul::multiply/sqr::sqr are exact (C01)"]
LEVEL_TEXT = ("Machine-checked Lean 4 theorems over an executable model that mirrors the pre-shifted residue representation of "
              "ConstDivisor/Reduced (single, double and multi-word rings): for every word size, modulus m >= 1 and all integers, "
              "reduce/+/-/*/neg/dbl/sqr/pow (incl. the windowed multi-word loop)/inv/div are the homomorphic image of integer arithmetic with residues in [0,m), inverse "
              "exists iff coprime, mixing rings panics. The model is tied to /repo on every run by differential execution against "
              "ConstDivisor::reduce, all Reduced operator call forms and the num_modular::Reducer impl.")
LEVEL_NOTE = ("Trusted: Lean kernel; axioms propext/Classical.choice/Quot.sound; correspondence harness + generators (sampling) for the tie "
              "model<->code; num-modular's division primitives and dashu's multi-word multiply/divide kernels at their exact contracts "
              "(% and *); the Lehmer-based inverse of multi-word rings is specified by the mirrored extended Euclid (the inverse is unique).")
TECHNIQUE = "Lean 4 refinement proofs (value-level model of the pre-shifted residue representation) + differential correspondence model vs real code"
THEOREMS = ["Dashu.Props.C13." + t for t in ["new_spec", "reduce_spec", "ops_closed", "hom_add", "hom_sub", "hom_mul", "hom_neg", "hom_dbl",
            "hom_sqr", "hom_pow", "inv_spec", "div_spec", "different_rings",
            "different_instances_same_modulus", "single_word_division_contracts", "double_word_division_contracts", "reducer_ops", "one_asIs_counterexample", "reducer_add_asIs_counterexample"]]
READY = True
