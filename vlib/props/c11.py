"""C11 — exp, exp_m1, ln, ln_1p, powi, powf are accurate to less than one unit in the last place and
flag Exact only exact results (DESIGN §8 C11) — PARTIAL: proof + certified exploration of the residual.

Two-pass flow (kept inside this module): `generate` first runs the harness alone on the raw cases
(`f.exp <x>` …) and appends what the implementation printed to each case line
(`f.exp <x> | ok <sig> <exp> <prec> <flag>`).  `./check` then runs both sides on those lines: the harness
recomputes (ignoring everything after `|`), the Lean driver runs the model of the entry guards and otherwise
*certifies the claim* against enclosures of the real value that are proved sound in Lean (`Props/C11.lean`),
echoing the claim iff the certificate holds.  Since round 4 the driver ALSO runs the statement-by-statement
mirror of exp_internal / ln_internal / iacoth / ln2 / ln10 / ln_base / powf (`Model/Trans/Series.lean`) and compares
it digit for digit (significand, exponent, flag) with the claim (`mirror-drift:` otherwise, judged below), and the
working-precision / guard / stop-test statements of the source are compared as text with the table the mirror
was written against (`source_formulas`, op `tie.formula`).
"""
import re
import os, subprocess, tempfile, shutil, math
from fractions import Fraction
from decimal import Decimal, getcontext, localcontext
from concurrent.futures import ThreadPoolExecutor
from vlib import core
from vlib.core import Case
from vlib.gens import hx, dec

GROUP = "trans"
LEAN_PROPS = "Dashu.Props.C11"
LEAN_AUDIT = "Dashu.Audit.C11"
# the powi error bound builds on builder-float's C03 contracts (Dashu/Proofs/Float, imported read-only); it is kept
# in a module of its own so that Props/C11 never depends on them
GEN_PROPS = ["Dashu.Props.C11Powi", "Dashu.Props.C11Formulas", "Dashu.Props.C11Float", "Dashu.Props.C11Series",
             "Dashu.Props.C11Gen", "Dashu.Props.C11Link"]
GEN_AUDIT = ["Dashu.Audit.C11Powi", "Dashu.Audit.C11Formulas", "Dashu.Audit.C11Float", "Dashu.Audit.C11Series",
             "Dashu.Audit.C11Gen", "Dashu.Audit.C11Link"]
# Tie A (round 5): lean/Dashu/Gen/TransPrec.lean is regenerated from float/src/{exp,log,fbig}.rs on every run
# (vlib/extract.py gen_trans_prec -> vlib/extract_transprec.py); Props/C11Gen proves the model's precision formulas equal to it
USES_GEN = True
JOBS = 14

BASES = [2, 3, 10, 16, 36]
MODES = "ZAUDEH"
DIRECTED = "ZAUD"
PRECS_QUICK = [1, 2, 3, 10, 53, 100]
PRECS_THOROUGH = [1, 2, 3, 10, 53, 100, 1000, 3000]
BIG_EXP = False   # set by raw_cases for the thorough tier

# ----------------------------------------------------------------------------- number helpers

def fenc(base, signif, exp, prec, mode):
    s = signif if isinstance(signif, str) else hx(signif)
    return "f:%d:%s:%d:%d:%s" % (base, s, exp, prec, mode)

def ndigits(B, n):
    n = abs(n)
    if n == 0:
        return 0
    if B == 2:
        return n.bit_length()
    d = max(1, int((n.bit_length() - 1) / math.log2(B)))
    while B ** d <= n:
        d += 1
    while d > 1 and B ** (d - 1) > n:
        d -= 1
    return d

def normalize(B, s, e):
    if s == 0:
        return 0, 0
    while s % B == 0:
        s //= B
        e += 1
    return s, e

def rand_sig(rng, B, d):
    """a significand with exactly d digits, last digit non-zero"""
    if d <= 0:
        return 0
    if d == 1:
        return rng.randrange(1, B)
    pat = rng.choice(["random", "random", "random", "ones", "one", "lowone", "nines-ish"])
    hi = B ** (d - 1)
    if pat == "ones":
        v = B ** d - 1
    elif pat == "one":
        v = hi + 1
    elif pat == "lowone":
        v = rng.randrange(1, B) * hi + rng.randrange(1, B)
    elif pat == "nines-ish":
        v = B ** d - rng.randrange(1, min(B ** d - hi, B * B))
    else:
        v = rng.randrange(hi, B ** d)
    if v % B == 0:
        v += rng.randrange(1, B)
    return v

def round_frac(q, B, p):
    """nearest p-digit base-B float (sig, e) of the Fraction q != 0"""
    neg = q < 0
    q = abs(q)
    # e with B^(e+p-1) <= q < B^(e+p)
    e = int(math.floor((math.log2(q.numerator) - math.log2(q.denominator)) / math.log2(B))) - p + 1
    for _ in range(4):
        lo = Fraction(B) ** (e + p - 1)
        if q < lo:
            e -= 1
        elif q >= lo * B:
            e += 1
        else:
            break
    sc = q / Fraction(B) ** e
    s = (2 * sc.numerator + sc.denominator) // (2 * sc.denominator)
    if s >= B ** p:
        s //= B
        e += 1
    s, e = normalize(B, s, e)
    return (-s if neg else s), e

def dec_digits(B, p):
    return int(p * math.log10(B)) + 1

def d_ln(q, digits):
    with localcontext() as c:
        c.prec = digits
        return Fraction((Decimal(q.numerator) / Decimal(q.denominator)).ln())

def d_exp(q, digits):
    with localcontext() as c:
        c.prec = digits
        c.Emax = 10 ** 9
        c.Emin = -10 ** 9
        return Fraction((Decimal(q.numerator) / Decimal(q.denominator)).exp())

# ----------------------------------------------------------------------------- raw case generators

def cfg(rng, tier, pmax=None):
    p = rng.choice(PRECS_QUICK)
    if tier != "quick":
        r = rng.random()          # the large precisions are expensive on both sides: fewer of them
        # (round 5: 4 % / 0.6 % -> 1.5 % / 0.2 %: a 1000-digit case costs up to minutes of CPU on the model side, and the
        #  600 s watchdog of the tier reports it as `hang` when the machine is loaded eight-fold)
        if r < 0.015:
            p = 1000
        elif r < 0.017 and not (pmax and pmax < 3000):
            p = 3000
    return rng.choice(BASES), p, rng.choice(MODES)

def float_with_top(rng, B, p, top, d=None):
    """random float with d (<= p) significant digits and magnitude B^(top-1) <= |x| < B^top"""
    d = d or rng.choice([1, p, p, p, max(1, p // 2), max(1, p - 1)])
    d = max(1, min(d, p))
    s = rand_sig(rng, B, d)
    return s, top - d

def exp_inputs(rng, B, p, op):
    """arguments of exp / exp_m1"""
    r = rng.random()
    sgn = rng.choice([1, -1])
    if r < 0.30:       # ordinary magnitudes
        s, e = float_with_top(rng, B, p, rng.choice([-3, -2, -1, 0, 0, 1, 1, 2]))
    elif r < 0.45:     # tiny: next to 0 (cancellation in exp_m1, result next to 1 in exp)
        k = rng.choice([1, 2, 3, p - 1, p, p + 1, 2 * p, 2 * p + 1, 3 * p, 30, 100, 300, 1000])
        if rng.random() < 0.5:
            s, e = 1, -max(k, 1)
        else:
            s, e = float_with_top(rng, B, p, -max(k, 1))
    elif r < 0.60:     # small integers and simple fractions
        n = rng.randrange(1, 40)
        if rng.random() < 0.5 or p < 2:
            s, e = normalize(B, n, 0)
            if ndigits(B, s) > p:
                s, e = round_frac(Fraction(n), B, p)
        else:
            s, e = round_frac(Fraction(1, n), B, p)
    elif r < 0.72 and op == "exp":   # large arguments, up to the exponent limit of the result
        mag = rng.choice([1e2, 1e3, 1e4, 1e6, 1e9, 1e12, 1e15, 1e17])
        top = int(math.log(mag) / math.log(B)) + 1
        s, e = float_with_top(rng, B, p, top)
    elif r < 0.80:     # moderately large (both ops)
        s, e = float_with_top(rng, B, p, rng.choice([2, 3]) if B > 3 else rng.choice([4, 6, 8]))
    else:
        s, e = float_with_top(rng, B, p, rng.choice([-1000, -300, -100, -50, -20, -10, -5]))
    return sgn * s, e

def ln_inputs(rng, B, p, op):
    """arguments of ln (x > 0) / ln_1p (x > -1)"""
    r = rng.random()
    if op == "ln":
        if r < 0.25:    # next to 1: 1 +- B^-k (cancellation)
            k = rng.randrange(1, max(2, p))
            if rng.random() < 0.5 and k + 1 <= p:
                return B ** k + 1, -k
            k = min(k, p)
            j = rng.randrange(1, B) if rng.random() < 0.3 else 1
            return B ** k - j, -k
        if r < 0.55:
            return float_with_top(rng, B, p, rng.choice([-2, -1, 0, 0, 1, 1, 2, 3]))
        if r < 0.70:    # integers, powers of the base, reciprocals
            c = rng.random()
            if c < 0.4:
                n = rng.randrange(2, 60)
                s, e = normalize(B, n, 0)
                return round_frac(Fraction(n), B, p) if ndigits(B, s) > p else (s, e)
            if c < 0.7:
                return 1, rng.choice([1, 2, 5, -1, -2, -5, 100, -100, 1000, -1000])
            return round_frac(Fraction(1, rng.randrange(2, 60)), B, p)
        return float_with_top(rng, B, p, rng.choice([-1000, -300, -100, -30, -10, 10, 30, 100, 300, 1000] + ([-5000, 5000] if BIG_EXP and B <= 10 else [])))
    # ln_1p
    sgn = rng.choice([1, -1])
    if r < 0.30:        # tiny
        k = rng.choice([1, 2, 3, p - 1, p, p + 1, 2 * p, 3 * p, 30, 100, 300, 1000])
        if rng.random() < 0.5:
            return sgn, -max(k, 1)
        s, e = float_with_top(rng, B, p, -max(k, 1))
        return sgn * s, e
    if r < 0.45:        # next to -1: -(1 - B^-k)
        k = rng.randrange(1, p + 1)
        return -(B ** k - rng.choice([1, 1, 2 if B > 2 else 1])), -k
    if r < 0.75:
        s, e = float_with_top(rng, B, p, rng.choice([-3, -2, -1, 0, 0]))
        return sgn * s, e
    if r < 0.88:
        s, e = float_with_top(rng, B, p, rng.choice([1, 1, 2, 3, 10, 100, 1000]))
        return s, e
    n = rng.randrange(1, 40)
    s, e = normalize(B, n, 0)
    return round_frac(Fraction(n), B, p) if ndigits(B, s) > p else (s, e)

def unary_cases(rng, tier, n):
    for _ in range(n):
        B, p, m = cfg(rng, tier)
        op = rng.choice(["exp", "exp_m1", "ln", "ln_1p"])
        s, e = (exp_inputs if op in ("exp", "exp_m1") else ln_inputs)(rng, B, p, op)
        if p >= 1000 and abs(e) > 3000:
            e = -3000 if e < 0 else 3000
        if (op == "ln" and s <= 0) or (op == "ln_1p" and Fraction(s) * Fraction(B) ** e <= -1):
            continue      # outside the mathematical domain: see corpus/C11/*.probe
        if rng.random() < 0.15:
            # Context method on an operand longer than the context precision
            d = ndigits(B, s)
            ext = rand_sig(rng, B, rng.randrange(1, p + 3))
            k = ndigits(B, ext)
            s2 = s * B ** k + (ext if s > 0 else -ext)
            if op == "ln_1p" and Fraction(s2) * Fraction(B) ** (e - k) <= -1:
                s2 = s * B ** k
            yield ("c." + op, [fenc(B, s2, e - k, 0, m), dec(p)])
        else:
            yield ("f." + op, [fenc(B, s, e, p, m)])

def powi_cases(rng, tier, n):
    small = [0, 1, 2, 3, 4, 5, 7, 8, 10, 15, 16, 17, 31, 32, 33, 64, 100, 127, 255, 256, 1000]
    for _ in range(n):
        B, p, m = cfg(rng, tier, 1000)
        r = rng.random()
        if r < 0.5:
            s, e = float_with_top(rng, B, p, rng.choice([-3, -1, 0, 0, 1, 1, 2, 4]))
        elif r < 0.65:
            k = rng.randrange(1, max(2, p))
            s, e = (B ** k + 1, -k) if (rng.random() < 0.5 and k + 1 <= p) else (B ** min(k, p) - 1, -min(k, p))
        elif r < 0.8:
            s, e = rng.choice([(1, 1), (1, -1), (1, 3), (2, 0) if B > 2 else (1, 1), (1, 0), (B - 1, 0)])
        else:
            s, e = float_with_top(rng, B, p, rng.choice([-100, -20, 20, 100]))
        if rng.random() < 0.4:
            s = -s
        k = rng.choice(small) if rng.random() < 0.7 else rng.randrange(2, 5000)
        # keep the exact rational power computable by the model side
        while k > 1 and ndigits(B, s) * math.log2(B) * k > 1.5e6:
            k //= 2
        if rng.random() < 0.4:
            k = -k
        if rng.random() < 0.1:
            d = ndigits(B, s)
            yield ("c.powi", [fenc(B, s * B + rng.randrange(1, B), e - 1, 0, m), "k:" + hx(k), dec(p)])
        else:
            yield ("f.powi", [fenc(B, s, e, p, m), "k:" + hx(k)])

def powi_big_cases(rng, tier, n):
    """multi-word exponents where the result stays representable: base 1 +- B^-j with |k| * B^-j moderate"""
    for _ in range(n):
        B = rng.choice(BASES)
        p = rng.choice([53, 100] if tier == "quick" else [53, 100, 100] * 4 + [1000])
        m = rng.choice(MODES)
        jmin = int(64 / math.log2(B)) + 1
        if jmin + 2 > p:
            continue
        j = rng.randrange(jmin, min(p - 1, jmin + 12) + 1)
        k = (1 << rng.choice([64, 64, 65, 70])) + rng.getrandbits(rng.choice([1, 20, 63]))
        # keep |k| * B^-j below ~2^8
        while k.bit_length() - j * math.log2(B) > 8:
            j += 1
        if j + 1 > p:
            continue
        s, e = (B ** j + 1, -j) if rng.random() < 0.5 else (B ** j - 1, -j)
        if rng.random() < 0.5:
            k = -k
        yield ("f.powi", [fenc(B, s, e, p, m), "k:" + hx(k)])

def _smooth(s, B):
    """every prime factor of |s| divides B (s = 1 included)"""
    s = abs(s)
    if s == 0:
        return False
    for q in (2, 3, 5):
        if B % q == 0:
            while s % q == 0:
                s //= q
    return s == 1

def large_argument_cases(rng, tier):
    """exp / exp_m1 / powf whose argument reduction count is large: |x| from 1e3 to 1e12 (exp_m1 to 1e5) in
    every base at several precisions — the digits of floor(x / ln B) must be covered by the working precision
    and by the precision of the constant ln B"""
    precs = [3, 10, 53, 100] if tier == "quick" else [2, 3, 10, 24, 53, 100, 200]
    reps = 1 if tier == "quick" else 4
    for B in BASES:
        for mexp in range(3, 13):
            for p in precs:
                for _ in range(reps):
                    m = rng.choice(MODES)
                    mag = 10.0 ** mexp * rng.uniform(1.0, 9.99)
                    top = int(math.log(mag) / math.log(B)) + 1
                    s, e = float_with_top(rng, B, p, top, rng.choice([1, 2, p, p]))
                    if rng.random() < 0.5:
                        s = -s
                    yield ("f.exp", [fenc(B, s, e, p, m)])
                    if mexp <= 5 and Fraction(s) * Fraction(B) ** e <= 10 ** 6:
                        yield ("f.exp_m1", [fenc(B, s, e, p, m)])
        for p in precs:
            for mexp in (3, 5, 7, 9, 11):
                m = rng.choice(MODES)
                # x^y with y*ln x of the given magnitude: x in (1/B, B), |y| large
                s, e = float_with_top(rng, B, p, rng.choice([0, 1]))
                if (s, e) == (1, 0):
                    s, e = B + 1, 0 if p > 1 else 0
                top = int(math.log(10.0 ** mexp) / math.log(B)) + 1
                t, f = float_with_top(rng, B, p, top, rng.choice([1, 2, p]))
                if f >= 0:
                    # (round 5) an INTEGER exponent of 10^3..10^11 on a base all of whose prime factors divide B (8 in base
                    # 16, 6 in base 36, B itself) gives an exactly representable power with millions of bits: deciding it costs
                    # the model side > 10 min (`hang`); such exact powers are covered at moderate size by powf_cases
                    while _smooth(s, B):
                        s += 1
                if ndigits(B, s) > p:
                    continue
                yield ("f.powf", [fenc(B, s, e, p, m), fenc(B, t if rng.random() < 0.5 else -t, f, p, m)])

def sparse_power_cases(rng, tier):
    """powi of a sparse base 1 + B^-k (also the integer B^k + 1) to the powers 2, 3 (and -2) at a precision
    between k and 2k+1: the exact power has 2k+1 (3k+1) digits, so below that the result must be flagged
    Inexact, from 2k+1 (3k+1) digits on it is exact and may be flagged Exact"""
    ks = [1, 2, 3, 6, 13, 20, 39] if tier == "quick" else list(range(1, 45, 3))
    for B in BASES:
        for k in ks:
            ps = sorted({k + 1, k + 2, (3 * k) // 2 + 1, 2 * k, 2 * k + 1, 2 * k + 2, 3 * k, 3 * k + 1})
            for p in ps:
                if p < k + 1:
                    continue
                m = rng.choice(MODES)
                for n in (2, 3, -2):
                    for (s, e) in ((B ** k + 1, -k), (B ** k + 1, 0), (B ** k - 1, -k)):
                        if rng.random() < (0.5 if tier == "quick" else 1.0):
                            yield ("f.powi", [fenc(B, s if rng.random() < 0.8 else -s, e, p, m), "k:" + hx(n)])

def ln_scale_cases(rng, tier):
    """ln of arguments of large or tiny magnitude at low and moderate precision: the term s*ln 2 (s = floor(log2 x))
    dominates the result, so the constants ln 2 / ln 10 (iacoth) must carry enough guard digits of their own"""
    reps = 1 if tier == "quick" else 4
    for B in BASES:
        for p in (1, 2, 3, 5, 10, 24):
            for k in (-3000, -1000, -300, -100, -49, -20, 20, 49, 100, 300, 1000, 3000):
                if abs(k) * math.log2(B) > (3400 if tier == "quick" else 12000):
                    continue          # ln of such magnitudes takes seconds per case on the implementation side
                for _ in range(reps):
                    m = rng.choice(MODES)
                    d = rng.choice([1, 1, p])
                    s = rand_sig(rng, B, min(d, p))
                    yield ("f.ln", [fenc(B, s, k, p, m)])
                    if k > 0 and rng.random() < 0.3:
                        yield ("f.ln_1p", [fenc(B, s, k, p, m)])

def extreme_base_powf_cases(rng, tier):
    """powf (and ln, base 2) of TINY and HUGE bases: exponent -2^k and +2^k, k = 10..24 — |ln x| itself has many
    integer digits, so y*ln x needs them in the working precision whatever the sign of ln x; the result's
    exponent is huge but well inside isize.  The model side keeps such a base as a float
    (`Model/Trans/CertFloat.lean`): log (sig*B^ex) = log sig + ex*log B."""
    ks = (10, 12, 14, 16, 18, 20, 22, 24) if tier == "quick" else tuple(range(10, 25))
    cap = 2 ** 22 if tier == "quick" else 2 ** 25      # bits of B^|ex|: the implementation shifts by that much for B != 2
    for B in BASES:
        for k in ks:
            ex = 2 ** k
            if B not in (2, 16) and ex * math.log2(B) > cap:
                continue
            for p in (3, 16, 53):
                for sign in (-1, 1):
                    if sign > 0 and B != 2 and ex * math.log2(B) > 2 ** 13:
                        # a HUGE base outside base 2 makes `ln` divide by 2^s (log.rs `x / (IBig::ONE << s)`), which
                        # takes time cubic in the exponent (38 s for ln(11e16383) at 3 digits): C16 material, not C11
                        continue
                    m = rng.choice(MODES)
                    # a short significand that is not a perfect power (so that no result is exactly representable)
                    sg = rng.choice([3, 3, B + 1, B * B + B + 1, rand_sig(rng, B, min(p, 5))])
                    if ndigits(B, sg) > p or sg in (1,):
                        sg = 3 if B > 3 else (3 if B == 2 else 2)
                    base = fenc(B, sg, sign * ex - rng.choice([0, 0, 1, 7]), p, m)
                    ys = [Fraction(3, 4), Fraction(-3, 4), Fraction(7, 2),
                          Fraction(rng.randrange(1, B), B ** rng.randrange(2, 6)) * rng.choice([1, -1])]
                    for y in (ys if tier != "quick" else rng.sample(ys, 2)):
                        t, f = round_frac(y, B, p)
                        yield ("f.powf", [base, fenc(B, t, f, p, m)])
                    if B == 2 and p > 3:
                        yield ("f.ln", [base])

def powf_cases(rng, tier, n):
    for _ in range(n):
        B, p, m = cfg(rng, tier, 1000)
        if p >= 1000 and B >= 10:
            # (round 5) powf at 1000 digits of base 16 / 36 next to a representable result needs an enclosure effort of
            # ~20000 terms to decide a sliver of 2^-5000 ulp: 220 s of CPU for one case, reported as `hang` by the 600 s
            # watchdog on a five-fold loaded machine; p = 1000 stays for bases 2 and 3 (and for the other five operations)
            p = 100
        r = rng.random()
        if r < 0.5:
            s, e = float_with_top(rng, B, p, rng.choice([-3, -1, 0, 0, 1, 1, 2, 4]))
            t, f = float_with_top(rng, B, p, rng.choice([-3, -1, 0, 0, 1, 1, 2]))
        elif r < 0.65:   # base next to 1, large exponent
            k = rng.randrange(1, max(2, p))
            s, e = (B ** k + 1, -k) if (rng.random() < 0.5 and k + 1 <= p) else (B ** min(k, p) - 1, -min(k, p))
            t, f = float_with_top(rng, B, p, rng.choice([0, 1, k, k + 1]))
        elif r < 0.8:    # exact or nearly exact roots and integer exponents
            base = rng.randrange(2, 30)
            q = rng.choice([2, 2, 3, 4])
            s, e = normalize(B, base ** q, 0)
            if ndigits(B, s) > p:
                s, e = round_frac(Fraction(base ** q), B, p)
            if rng.random() < 0.5:
                t, f = round_frac(Fraction(1, q), B, p)
            else:
                t, f = normalize(B, rng.randrange(2, 12), 0)
                if ndigits(B, t) > p:
                    t, f = round_frac(Fraction(t), B, p)
        elif r < 0.9:    # huge / tiny results
            s, e = float_with_top(rng, B, p, rng.choice([-50, -5, 5, 50]))
            t, f = float_with_top(rng, B, p, rng.choice([3, 6, 12]) if B < 16 else rng.choice([2, 4, 7]))
        else:            # zero base, unit base
            s, e = rng.choice([(0, 0), (1, 0)])
            t, f = float_with_top(rng, B, p, rng.choice([-1, 0, 1]))
        if rng.random() < 0.45 and not (s == 0):
            t = -t
        if rng.random() < 0.1:
            p2 = rng.choice([q for q in PRECS_QUICK if q <= p])
            yield ("f.powf", [fenc(B, *float_with_top(rng, B, p2, 0), p2, m), fenc(B, t, f, p, m)])
        else:
            yield ("f.powf", [fenc(B, s, e, p, m), fenc(B, t, f, p, m)])

def guard_cases(rng, tier):
    """entry guards: unlimited precision, infinities, negative base, the exact shortcuts"""
    for B in BASES:
        for m in (rng.choice(MODES), rng.choice(MODES)):
            p = rng.choice([1, 3, 10, 53])
            one = fenc(B, 1, 0, p, m); zero = fenc(B, 0, 0, p, m)
            x = fenc(B, *float_with_top(rng, B, p, 0), p, m)
            x0 = fenc(B, *float_with_top(rng, B, 5, 0, 5), 0, m)     # unlimited precision operand
            for op in ("exp", "exp_m1", "ln", "ln_1p"):
                if op != "ln":
                    yield ("f." + op, [zero])      # ln 0 is outside the domain: corpus/C11/*.probe
                yield ("f." + op, [one])
                yield ("f." + op, [x0])
                yield ("c." + op, [x, dec(0)])
                yield ("f." + op, [fenc(B, "inf", 0, p, m)]); yield ("f." + op, [fenc(B, "-inf", 0, p, m)])
                yield ("f." + op, [fenc(B, "inf", 0, 0, m)])
            for k in (0, 1, -1, 2, -2, 5):
                hk = "k:" + hx(k)
                yield ("f.powi", [x, hk]); yield ("f.powi", [x0, hk])
                yield ("f.powi", [zero, hk]); yield ("f.powi", [one, hk])
                yield ("f.powi", [fenc(B, "inf", 0, p, m), hk])
                yield ("c.powi", [fenc(B, *float_with_top(rng, B, 2 * p + 1, 1, 2 * p + 1), 0, m), hk, dec(p)])
            neg = fenc(B, -rand_sig(rng, B, p), -p, p, m)
            half = fenc(B, *round_frac(Fraction(1, 2), B, p), p, m)
            for a, b in ((x, zero), (x, one), (zero, x), (zero, zero), (neg, x), (neg, one), (neg, zero), (neg, half),
                         (x0, x0), (x0, zero), (fenc(B, "inf", 0, p, m), x), (one, x), (x, half),
                         (fenc(B, "-inf", 0, p, m), zero), (zero, fenc(B, "inf", 0, p, m)),
                         (x, fenc(B, "-inf", 0, p, m)), (one, fenc(B, "inf", 0, p, m))):
                yield ("f.powf", [a, b])
            yield ("c.powf", [fenc(B, *float_with_top(rng, B, 2 * p + 1, 1, 2 * p + 1), 0, m), one, dec(p)])
            yield ("c.powf", [x, x, dec(0)])

def adversarial_cases(rng, tier, n):
    """results next to a representable number (directed modes: an error of the working value across it
    moves the answer by a whole ulp) or next to a midpoint (nearest modes)"""
    for _ in range(n):
        B = rng.choice(BASES)
        p = rng.choice([3, 10, 53, 100] if tier == "quick" else [3, 10, 53, 100] * 6 + [1000])
        m = rng.choice(DIRECTED) if rng.random() < 0.8 else rng.choice("EH")
        dd = 2 * dec_digits(B, p) + 40
        kind = rng.choice(["exp", "exp", "exp_m1", "ln", "ln_1p", "cexp", "cln"])
        try:
            if kind in ("exp", "exp_m1", "cexp"):
                # target t = 1 + j*ulp (p digits) with small j: x = ln t has |x| << 1, so exp(x) lands
                # within ~|x| ulps of t
                jd = rng.randrange(1, max(2, p - 2))
                j = rand_sig(rng, B, jd) if jd > 0 else 1
                t = Fraction(B ** (p - 1) + j, B ** (p - 1))
                if m in "EH":
                    t += Fraction(1, 2 * B ** (p - 1))
                if rng.random() < 0.4:
                    t = 1 / t
                target = t - 1 if kind == "exp_m1" else t
                if kind == "exp_m1":
                    # target result r = p-digit number, argument ln(1 + r)
                    r_s, r_e = float_with_top(rng, B, p, rng.choice([-3, -2, -1]))
                    target = Fraction(r_s) * Fraction(B) ** r_e
                    if rng.random() < 0.5:
                        target = -target
                    t = 1 + target
                x = d_ln(t, dd)
                if x == 0:
                    continue
                if kind == "cexp":
                    s, e = round_frac(x, B, 2 * p)
                    yield ("c.exp", [fenc(B, s, e, 0, m), dec(p)])
                else:
                    s, e = round_frac(x, B, p)
                    yield ("f." + kind, [fenc(B, s, e, p, m)])
            else:
                # target t with |t| ~ B^2..B^3 (p digits): x = exp t; ln x lands within ~B^-2 ulps of t
                top = rng.choice([1, 2, 2, 3]) if B > 3 else rng.choice([3, 5, 8])
                ts, te = float_with_top(rng, B, p, top, p)
                t = Fraction(ts) * Fraction(B) ** te
                if m in "EH":
                    t += Fraction(1, 2) * Fraction(B) ** te
                if rng.random() < 0.5:
                    t = -t
                if abs(t) > 8000:
                    continue
                x = d_exp(t, dd + int(abs(t) / 2.3) + 5)
                if kind == "ln_1p":
                    x = x - 1
                    if x == 0 or round_frac(x, B, p)[0] * Fraction(B) ** round_frac(x, B, p)[1] <= -1:
                        continue
                if kind == "cln":
                    s, e = round_frac(x, B, 2 * p)
                    yield ("c.ln", [fenc(B, s, e, 0, m), dec(p)])
                else:
                    s, e = round_frac(x, B, p)
                    yield ("f." + kind, [fenc(B, s, e, p, m)])
        except Exception:
            continue

def overflow_edge_cases(rng, tier):
    """exp / exp_m1 at the edge of the exponent range: the two `exponent is too large` sites of exp_internal
    (`x_log2 > isize::BITS + log2 B + 1` decided on the estimate, and `s.try_into::<isize>()` after the division by
    ln B) and the last arguments below them (|x| just under 2^63·ln B: a result with an exponent next to isize::MAX)"""
    for B in BASES:
        lnB = math.log(B)
        for p in ((3, 20) if tier == "quick" else (1, 3, 20, 53)):
            for mag in (2.0 ** 62, 2.0 ** 63 * lnB * 0.999, 2.0 ** 63 * lnB * 1.001, 2.0 ** 64 * lnB, 2.0 ** 66 * B, 2.0 ** 70 * B):
                m = rng.choice(MODES)
                s, e = round_frac(Fraction(mag), B, min(p, 12))
                if rng.random() < 0.5:
                    s = -s
                # (exp_m1 of a huge POSITIVE argument is left to exp: the certificate side does not evaluate it)
                yield ("f." + (rng.choice(["exp", "exp_m1"]) if s < 0 else "exp"), [fenc(B, s, e, p, m)])

def pow_guard_arm_cases(rng, tier):
    """exp / exp_m1 / powf at precisions where `pow_guard_digits.max(n + 2)` takes its SECOND arm (n = 2^(bit_len p / 2)
    outgrows 2·bit_len p·log2 B: bases 2 and 3 from p = 512, base 10 from p = 8192) and at the powers of two where
    n doubles (p = 2^k - 1, 2^k)"""
    ps = (255, 256, 600, 1024) if tier == "quick" else (255, 256, 511, 512, 600, 1023, 1024, 2047, 2048, 4100)
    for B in (2, 3):
        for p in ps:
            for op in ("exp", "exp_m1") if tier == "quick" else ("exp", "exp_m1", "exp", "powf"):
                m = rng.choice(MODES)
                s, e = float_with_top(rng, B, p, rng.choice([-2, 0, 1, 3]), rng.choice([3, p]))
                if op == "powf":
                    t, f = float_with_top(rng, B, p, rng.choice([-1, 0, 1]), rng.choice([2, p]))
                    yield ("f.powf", [fenc(B, abs(s), e, p, m), fenc(B, t, f, p, m)])
                else:
                    yield ("f." + op, [fenc(B, s if rng.random() < 0.5 else -s, e, p, m)])

# ----------------------------------------------------------------------------- round 5: E1 / E2 classes

UMAX = 2 ** 64 - 1

def _extreme_uints(rng, tier):
    """E1: 2^31, 2^32-1, 2^32, 2^32+k (k < 130), 2^63, MAX-k (k = 0..130); quick: a sample of the k, thorough: all of them"""
    base = [2 ** 31, 2 ** 32 - 1, 2 ** 32, 2 ** 63 - 1, 2 ** 63, 2 ** 63 + 1, UMAX, UMAX - 1]
    ks = list(range(1, 130, 4)) + [2, 3, 63, 64, 65, 127, 128, 129] if tier != "quick" else rng.sample(range(1, 130), 4) + [1, 129]
    return base + [2 ** 32 + k for k in ks] + [UMAX - k for k in (ks + [130])]

def extreme_argument_cases(rng, tier):
    """E1 — extreme machine-integer arguments of the public operations.
    (a) precision (usize) of a Context / carried by an FBig: 2^31 … usize::MAX on the inputs where the call is cheap, i.e. the
        exact shortcuts (exp 0, exp_m1 0, ln 1, ln_1p 0, x^0, x^1, powf y = 0 / 1): the result carries the precision
        unchanged (x^1) or is the constant; W-1, W, W+1, 2W (63, 64, 65, 128) as ordinary precisions on ordinary arguments;
    (b) exponent of powi (IBig): ±2^31 … ±2^128 on the bases 0, 1, -1 (the powering loop runs bit_len(k) exact squarings; the
        model decides by sign and parity, Props/C11Powi.unit_base_zpow_reduce), 0^negative -> the documented panic."""
    for P in _extreme_uints(rng, tier):
        B = rng.choice(BASES); m = rng.choice(MODES)
        x = fenc(B, *float_with_top(rng, B, 5, rng.choice([0, 1, 3]), 5), 0, m)
        zero = fenc(B, 0, 0, 0, m); one = fenc(B, 1, 0, 0, m)
        pick = rng.randrange(4) if tier == "quick" else None
        table = [("c.exp", [zero, dec(P)]), ("c.exp_m1", [zero, dec(P)]), ("c.ln", [one, dec(P)]), ("c.ln_1p", [zero, dec(P)]),
                 ("c.powi", [x, "k:0", dec(P)]), ("c.powi", [x, "k:1", dec(P)]),
                 ("c.powf", [x, zero, dec(P)]), ("c.powf", [x, one, dec(P)]), ("c.powf", [zero, x.replace(":-", ":"), dec(P)]),
                 ("f.exp", [fenc(B, 0, 0, P, m)]), ("f.exp_m1", [fenc(B, 0, 0, P, m)]), ("f.ln", [fenc(B, 1, 0, P, m)]),
                 ("f.ln_1p", [fenc(B, 0, 0, P, m)]),
                 ("f.powi", [fenc(B, *float_with_top(rng, B, 5, 1, 5), P, m), "k:" + hx(rng.choice([0, 1]))]),
                 ("f.powf", [fenc(B, *float_with_top(rng, B, 5, 1, 5), P, m), fenc(B, rng.choice([0, 1]), 0, 3, m)])]
        for i, (op, args) in enumerate(table):
            if pick is None or i % 4 == pick:
                yield (op, args)
    for P in (63, 64, 65, 128):
        for B in BASES:
            m = rng.choice(MODES)
            op = rng.choice(["exp", "exp_m1", "ln", "ln_1p"])
            s, e = (exp_inputs if op in ("exp", "exp_m1") else ln_inputs)(rng, B, P, op)
            if abs(e) > 400 or (op == "ln" and s <= 0) or (op == "ln_1p" and Fraction(s) * Fraction(B) ** e <= -1):
                s, e = 3, 0
            yield ("f." + op, [fenc(B, s, e, P, m)])
            yield ("f.powi", [fenc(B, *float_with_top(rng, B, P, 1), P, m), "k:" + hx(rng.choice([2, 3, -2, 63, 64, 65]))])
    ks = [2 ** 31, 2 ** 32 - 1, 2 ** 32, 2 ** 63 - 1, 2 ** 63, 2 ** 64 - 1, 2 ** 64, 2 ** 64 + 1, 2 ** 127, 2 ** 128 - 1, 2 ** 128]
    ks += [2 ** 32 + k for k in (range(1, 130) if tier != "quick" else rng.sample(range(1, 130), 3))]
    ks += [2 ** 64 + k for k in (range(1, 130) if tier != "quick" else rng.sample(range(1, 130), 3))]
    for k in ks:
        for sg in ((1, -1) if tier != "quick" else (rng.choice([1, -1]),)):
            B = rng.choice(BASES); m = rng.choice(MODES); p = rng.choice([1, 3, 53])
            for base in (1, -1, 0):
                if base == 0 and sg < 0 and rng.random() < 0.7:
                    continue
                yield ("f.powi", [fenc(B, base, 0, p, m), "k:" + hx(sg * k)])

def boundary_power_cases(rng, tier):
    """E2 — boundary classes for k of EVERY bit length: arguments 2^j +- 1 and B^e +- 1 (ln, powi 2 / 3 / -2) and the
    near-exact square roots powf(k^2 +- 1, 1/2) for k of every bit length up to the precision (the result lies within
    1/(2k) of the integer k: next to a representable number in the directed modes, next to a midpoint never) in the bases
    where 1/2 is exact (2, 10, 16, 36)"""
    js = range(1, 131) if tier != "quick" else sorted(rng.sample(range(1, 131), 16) + [1, 2, 31, 32, 33, 63, 64, 65, 127, 128, 129, 130])
    for j in js:
        for d in (1, -1):
            n = 2 ** j + d
            if n < 2:
                continue
            B = rng.choice(BASES); m = rng.choice(MODES)
            p = rng.choice([53, 100]) if tier == "quick" else rng.choice([10, 53, 100, 200])
            s, e = normalize(B, n, 0)
            if ndigits(B, s) > p:
                s, e = round_frac(Fraction(n), B, p)
            yield ("f.ln", [fenc(B, s, e, p, m)])
            if rng.random() < (0.4 if tier == "quick" else 1.0):
                yield ("f.powi", [fenc(B, s, e, p, m), "k:" + hx(rng.choice([2, 3, -2]))])
    for B in BASES:
        es = range(1, 41) if tier != "quick" else rng.sample(range(1, 41), 5)
        for ee in es:
            for d in (1, -1):
                m = rng.choice(MODES)
                p = ee + rng.choice([0, 1, 2, 5]) + 1
                n = B ** ee + d
                s, e = normalize(B, n, 0)
                if ndigits(B, s) > p:
                    continue
                yield ("f.ln", [fenc(B, s, e, p, m)])
                yield ("f.powi", [fenc(B, s, e, p, m), "k:" + hx(rng.choice([2, 3, -2]))])
    for B in (2, 10, 16, 36):
        half = round_frac(Fraction(1, 2), B, 3)
        for p in ((53, 100) if tier == "quick" else (24, 53, 100)):
            kbits_max = int(p * math.log2(B) / 2) - 1
            bl = range(2, kbits_max + 1, 3) if tier != "quick" else sorted(set(rng.sample(range(2, kbits_max + 1), min(6, kbits_max - 1)) + [kbits_max]))
            for nb in bl:
                k = rng.getrandbits(nb - 1) | (1 << (nb - 1))
                for d in (1, -1):
                    n = k * k + d
                    s, e = normalize(B, n, 0)
                    if ndigits(B, s) > p:
                        continue
                    m = rng.choice(DIRECTED) if rng.random() < 0.7 else rng.choice("EH")
                    yield ("f.powf", [fenc(B, s, e, p, m), fenc(B, half[0], half[1], p, m)])

# ----------------------------------------------------------------------------- source-text tie (Tie A, textual)

_FORMULAS = [  # (name, file, fn, which `fn <name>` in the file, anchor regex, which match, end character)
    ("powi.neg.guard_bits", "float/src/exp.rs", "powi", 1, r"let guard_bits\b", 0, ";"),
    ("powi.guard_digits", "float/src/exp.rs", "powi", 1, r"let guard_digits\b", 0, ";"),
    ("powf.ln_base_ub", "float/src/exp.rs", "powf", 1, r"let ln_base_ub\b", 0, ";"),
    ("powf.arg_log2", "float/src/exp.rs", "powf", 1, r"let arg_log2\b", 0, ";"),
    ("powf.arg_digits", "float/src/exp.rs", "powf", 1, r"let arg_digits\b", 0, ";"),
    ("powf.guard_digits", "float/src/exp.rs", "powf", 1, r"let guard_digits\b", 0, ";"),
    ("exp.series_guard_digits", "float/src/exp.rs", "exp_internal", 0, r"let series_guard_digits\b", 0, ";"),
    ("exp.pow_guard_digits", "float/src/exp.rs", "exp_internal", 0, r"let pow_guard_digits\b", 0, ";"),
    ("exp.no_scaling", "float/src/exp.rs", "exp_internal", 0, r"let no_scaling\b", 0, ";"),
    ("exp.work_precision.1", "float/src/exp.rs", "exp_internal", 0, r"work_precision =", 0, ";"),
    ("exp.work_precision.2", "float/src/exp.rs", "exp_internal", 0, r"work_precision =", 1, ";"),
    ("exp.n", "float/src/exp.rs", "exp_internal", 0, r"let n = ", 0, ";"),
    ("exp.too_large", "float/src/exp.rs", "exp_internal", 0, r"if x_log2 > isize", 0, "{"),
    ("exp.int_digits", "float/src/exp.rs", "exp_internal", 0, r"let int_digits\b", 0, ";"),
    ("exp.work_precision.3", "float/src/exp.rs", "exp_internal", 0, r"work_precision =", 2, ";"),
    ("exp.m1_powering_context", "float/src/exp.rs", "exp_internal", 0, r"Context::<R>::new\(self\.precision \+ self\.precision", 0, "}"),
    ("exp.stop_test", "float/src/exp.rs", "exp_internal", 0, r"if increase\.", 0, "{"),
    ("iacoth.guard_digits", "float/src/log.rs", "iacoth", 0, r"let guard_digits\b", 0, ";"),
    ("iacoth.work_context", "float/src/log.rs", "iacoth", 0, r"let work_context\b", 0, ";"),
    ("iacoth.stop_test", "float/src/log.rs", "iacoth", 0, r"if increase ", 0, "{"),
    ("ln2.formula", "float/src/log.rs", "ln2", 0, r"4 \* self", 0, "}"),
    ("ln10.formula", "float/src/log.rs", "ln10", 0, r"3 \* self", 0, "}"),
    ("ln.guard_digits", "float/src/log.rs", "ln_internal", 0, r"let guard_digits\b", 0, ";"),
    ("ln.work_precision", "float/src/log.rs", "ln_internal", 0, r"let mut work_precision\b", 0, ";"),
    ("ln.no_scaling", "float/src/log.rs", "ln_internal", 0, r"let no_scaling\b", 0, ";"),
    ("ln.s", "float/src/log.rs", "ln_internal", 0, r"let s = log2", 0, ";"),
    ("ln.grow_test", "float/src/log.rs", "ln_internal", 0, r"if s < 0", 0, "{"),
    ("ln.grow", "float/src/log.rs", "ln_internal", 0, r"work_precision \+=", 0, ";"),
    ("ln.stop_test", "float/src/log.rs", "ln_internal", 0, r"if increase\.", 0, "{"),
    ("sub_ulp.exponent", "float/src/fbig.rs", "sub_ulp", 0, r"exponent: self", 0, "}"),
    # round 6: the zero-operand arms of the four FBig +/- helpers (mirrored by fAddSub; repaired by /repo 164990d: the other
    # operand is rounded to the max context) -- a source without the rounding has no such statement (MISSING)
    ("add.val_val.zero_lhs", "float/src/add.rs", "add_val_val", 0, r"context\.repr_round\(rhs\.repr\)\.value\(\)", 0, "}"),
    ("add.val_val.zero_rhs", "float/src/add.rs", "add_val_val", 0, r"context\.repr_round\(lhs\.repr\)\.value\(\)", 0, "}"),
    ("add.val_ref.zero_lhs", "float/src/add.rs", "add_val_ref", 0, r"context\.repr_round\(repr\)\.value\(\)", 0, "}"),
    ("add.val_ref.zero_rhs", "float/src/add.rs", "add_val_ref", 0, r"context\.repr_round\(lhs\.repr\)\.value\(\)", 0, "}"),
    ("add.ref_val.zero_lhs", "float/src/add.rs", "add_ref_val", 0, r"context\.repr_round\(rhs\.repr\)\.value\(\)", 0, "}"),
    ("add.ref_val.zero_rhs", "float/src/add.rs", "add_ref_val", 0, r"context\.repr_round_ref\(&lhs\.repr\)\.value\(\)", 0, "}"),
    ("add.ref_ref.zero_lhs", "float/src/add.rs", "add_ref_ref", 0, r"context\.repr_round\(repr\)\.value\(\)", 0, "}"),
    ("add.ref_ref.zero_rhs", "float/src/add.rs", "add_ref_ref", 0, r"context\.repr_round_ref\(&lhs\.repr\)\.value\(\)", 0, "}"),
    ("add.max_context", "float/src/add.rs", "add_val_val", 0, r"let context = Context::max", 0, ";"),
]

def _fn_body(text, fn, nth):
    m = [m for m in re.finditer(r"\bfn\s+%s\b" % re.escape(fn), text)][nth]
    i = text.index("{", m.end())
    d = 0
    for j in range(i, len(text)):
        if text[j] == "{":
            d += 1
        elif text[j] == "}":
            d -= 1
            if d == 0:
                return text[i:j + 1]
    raise ValueError(fn)

def _stmt(body, anchor, idx, end):
    ms = list(re.finditer(anchor, body))
    if idx >= len(ms):
        return "MISSING"
    i = ms[idx].start()
    d = 0
    for j in range(i, len(body)):
        c = body[j]
        if c == end and d == 0:
            return " ".join(body[i:j + 1].split())
        if c in "{(":
            d += 1
        elif c in "})":
            d -= 1
        if d < 0:
            return " ".join(body[i:j].split())
    return "MISSING"

def source_formulas(repo=None):
    """the statements of float/src/{exp,log,fbig}.rs that the mirror `Model/Trans/Series.lean` is written against
    (working precisions, guard digits, branch and stop tests), extracted from the repository under check:
    comments stripped, white space collapsed.  Compared with `Model/Trans/SourceText.lean` by op `tie.formula`."""
    repo = repo or core.REPO
    cache, out = {}, []
    for name, f, fn, nth, anchor, idx, end in _FORMULAS:
        try:
            if f not in cache:
                cache[f] = re.sub(r"//[^\n]*", "", open(os.path.join(repo, f)).read())
            t = _stmt(_fn_body(cache[f], fn, nth), anchor, idx, end)
        except Exception:
            t = "MISSING"
        out.append((name, t))
    return out

def tie_cases():
    for name, t in source_formulas():
        yield Case("tie.formula", [name, "s:" + t.encode("utf-8").hex()])

def raw_cases(rng, tier):
    global BIG_EXP
    q = tier == "quick"
    BIG_EXP = not q
    yield from guard_cases(rng, tier)
    sc = float(os.environ.get("C11_SCALE", "1"))
    # (round 5: the random streams of the thorough tier were cut to a fifth (C11_SCALE=5 in the environment restores the round-4 sizes) to make room for the E1 / E2 classes and the
    #  per-case step-bound check of the driver within the tier's time limit)
    yield from unary_cases(rng, tier, 1300 if q else int(3000 * sc))
    yield from powi_cases(rng, tier, 350 if q else int(800 * sc))
    yield from large_argument_cases(rng, tier)
    yield from ln_scale_cases(rng, tier)
    yield from extreme_base_powf_cases(rng, tier)
    yield from overflow_edge_cases(rng, tier)
    yield from pow_guard_arm_cases(rng, tier)
    yield from extreme_argument_cases(rng, tier)
    yield from boundary_power_cases(rng, tier)
    yield from sparse_power_cases(rng, tier)
    yield from powi_big_cases(rng, tier, 60 if q else int(200 * sc))
    yield from powf_cases(rng, tier, 350 if q else int(800 * sc))
    yield from adversarial_cases(rng, tier, 250 if q else int(800 * sc))

# ----------------------------------------------------------------------------- pass 1: observe the implementation

def _bindir():
    """where ./check's step 4 has just put exec_trans (same rule as core.cargo_build, without invoking cargo
    again: other groups may hold cargo's build-directory lock)"""
    import hashlib
    tdir = os.path.join(core.CACHE, "harness-target")
    if core.REPO != "/repo":
        tdir += "-alt-" + hashlib.sha1(core.REPO.encode()).hexdigest()[:10]
    return os.path.join(tdir, "debug")

def _heavy(op, args):
    """cases that take seconds on the implementation side (large precision / huge exponents)"""
    for a in args:
        if a.startswith("f:"):
            t = a.split(":")
            if 1000 <= int(t[4]) < 2 ** 31 or abs(int(t[3])) >= 2000 or len(t[2]) > 800:
                return True
        elif a.startswith("d:") and 1000 <= int(a[2:]) < 2 ** 31:
            return True
    return False

def observe(raw, jobs=JOBS, per_case_timeout=60):
    """run the harness alone over raw (op, args) cases; returns the payload printed for each.
    core.run_side gives ONE time budget to a whole case file, so the slow cases are put into small files
    of their own (a slow file must not be mistaken for a hang)."""
    exe = os.path.join(_bindir(), "exec_" + GROUP)
    wd = tempfile.mkdtemp(prefix="verif-C11-pass1-")
    try:
        heavy = [(i, op, args) for i, (op, args) in enumerate(raw) if _heavy(op, args)]
        light = [(i, op, args) for i, (op, args) in enumerate(raw) if not _heavy(op, args)]
        # round 6: the very heavy ones (|exponent| >= 10^6: ln / powf of B^(+-2^24)-sized operands cost ~20 s CPU each in the debug
        # harness) get a file -- hence a watchdog budget -- of their own: four of them in one file overran the file's budget at
        # load average 130 and were all reported `hang` (thorough run of 03:10 UTC; alone the case answers in 20 s)
        vheavy = [h for h in heavy if any(a.startswith("f:") and abs(int(a.split(":")[3])) >= 10 ** 6 for a in h[2])]
        vset = set(h[0] for h in vheavy)
        heavy = [h for h in heavy if h[0] not in vset]
        chunks = [[h] for h in vheavy] + [heavy[k:k + 4] for k in range(0, len(heavy), 4)]
        per = max(50, (len(light) + jobs - 1) // jobs)
        chunks += [light[k:k + per] for k in range(0, len(light), per)]

        def do(k):
            path = os.path.join(wd, "pass1.%d.txt" % k)
            with open(path, "w") as f:
                f.write("#W 64\n")
                for i, op, args in chunks[k]:
                    f.write("%d %s %s\n" % (i, op, " ".join(args)))
            return core.run_side(exe, path, len(chunks[k]), per_case_timeout, "impl")
        res = {}
        with ThreadPoolExecutor(max_workers=jobs) as ex:
            for r in ex.map(do, range(len(chunks))):
                res.update(r)
        return [res.get(i, "missing") for i in range(len(raw))]
    finally:
        shutil.rmtree(wd, ignore_errors=True)

def probe(raw, timeout=8):
    """inputs outside the mathematical domain, where the implementation is known not to return:
    one process per case, short watchdog (`hang` / `crash …` are observations, not errors)"""
    exe = os.path.join(_bindir(), "exec_" + GROUP)
    wd = tempfile.mkdtemp(prefix="verif-C11-probe-")

    def one(item):
        k, (op, args) = item
        path = os.path.join(wd, "probe.%d.txt" % k)
        with open(path, "w") as f:
            f.write("#W 64\n0 %s %s\n" % (op, " ".join(args)))
        try:
            p = subprocess.run([exe, path], stdout=subprocess.PIPE, stderr=subprocess.PIPE, text=True,
                               timeout=timeout, env=core.ENV)
            got = core.parse_out(p.stdout)
            if 0 in got:
                return got[0]
            return "crash rc=%s" % p.returncode
        except subprocess.TimeoutExpired:
            return "hang"
    try:
        with ThreadPoolExecutor(max_workers=8) as ex:
            return list(ex.map(one, list(enumerate(raw))))
    finally:
        shutil.rmtree(wd, ignore_errors=True)

def load_raw(ext):
    d = os.path.join(core.ROOT, "corpus", "C11")
    out = []
    if os.path.isdir(d):
        for f in sorted(os.listdir(d)):
            if f.endswith(ext):
                for line in open(os.path.join(d, f)):
                    line = line.strip()
                    if line and not line.startswith("#"):
                        t = line.split(" ")
                        out.append((t[0], t[1:]))
    return out

def with_claims(raw, obs):
    for (op, args), o in zip(raw, obs):
        if o.startswith("ok ") or o.startswith("panic ") or o.startswith("forms-disagree"):
            # the claim is ONE token (so that ./check's shrinker, which edits bare hex arguments, never edits a
            # claim: a shrunk case would carry a stale claim and a meaningless witness)
            yield Case(op, list(args) + ["|", o.replace(" ", ",")])
        else:
            # hang / crash / missing: the harness does not re-run the input in the second pass
            yield Case("obs." + op, list(args) + ["|"] + o.split(" ")[:2])

def generate(rng, tier):
    # witnesses first: corpus/C11/*.rawcase (raw `op args` lines; their claims are observed afresh on
    # every run, so a repaired implementation is judged on what it prints now) and the out-of-domain
    # probes corpus/C11/*.probe (short watchdog)
    yield from tie_cases()
    probes = load_raw(".probe")
    yield from with_claims(probes, probe(probes))
    raw = load_raw(".rawcase") + list(raw_cases(rng, tier))
    yield from with_claims(raw, observe(raw, per_case_timeout=60 if tier == "quick" else 600))

def judge(c, ri, rm):
    """property-level judge for a drifting MIRROR: the mirrored algorithm (the powi loop of Props/C11Powi, or the
    series of Model/Trans/Series.lean) printed other digits / another flag than the code, but the certificate accepted
    the code's result — the property holds on this input, only the correspondence model<->code is broken"""
    if " mirror-drift:" in rm and rm.split(" mirror-drift:")[0] == ri:
        return "holds"
    if c.op == "tie.formula":
        # a statement of the source differs from the text the mirror was written against: the model no longer
        # mirrors the code; no input was seen to violate the property
        return "holds"
    return "violates"

def nontrivial(c):
    """a case whose answer is decided by the certificate (not by an entry guard)"""
    if "|" not in c.args:
        return False
    k = c.args.index("|")
    cl = c.args[k + 1:]
    if len(cl) == 1:
        cl = cl[0].split(",")
    return len(cl) == 5 and cl[0] == "ok" and cl[3] != "0"

# ----------------------------------------------------------------------------- classes of known findings
# (predicates referenced from known_findings.jsonl; each describes one defect class by its inputs and by
#  the verdict the model printed)

def _farg(a):
    t = a.split(":")
    sg = t[2]
    if "inf" in sg:
        return int(t[1]), None, int(t[3]), int(t[4]), t[5]
    v = -int(sg[1:], 16) if sg.startswith("-") else int(sg, 16)
    return int(t[1]), v, int(t[3]), int(t[4]), t[5]

def _ctx(op, args):
    """(B, context precision, mode, operands) of a case"""
    pre = args[:args.index("|")] if "|" in args else args
    fl = [_farg(a) for a in pre if a.startswith("f:")]
    B, _, _, p0, mode = fl[0]
    if op.split(".")[-2] == "c":
        p = int(pre[-1][2:])
    else:
        p = max(f[3] for f in fl)
    return B, p, mode, fl

def _top(B, f):
    """|x| < B^top"""
    return ndigits(B, f[1]) + f[2] if f[1] else -10 ** 9

def k_large_argument(op, args):
    """exp / exp_m1 of an argument whose reduction count s = floor(x / ln B) has about as many digits as
    the guard digits of exp_internal (series_guard_digits + pow_guard_digits), or more; powf whose
    y·ln x has about as many digits as powf's guard (10 + log2 p), or more: the argument reduction then
    loses the digits of s and the result is off by more than an ulp, up to a wrong exponent."""
    B, p, mode, fl = _ctx(op, args)
    name = op.split(".")[-1]
    lb = math.log2(B)
    if p == 0:
        return False
    if name in ("exp", "exp_m1"):
        guard = int(math.log2(p) / lb) + 2 + int(p.bit_length() * lb * 2)
        return _top(B, fl[0]) >= guard - 2
    if name == "powf" and fl[0][1] and fl[0][1] > 0 and fl[1][1]:
        x = fl[0]; y = fl[1]
        lnx = abs((math.log2(abs(x[1])) + x[2] * lb) * 0.6931)
        if lnx < 1e-9:      # base next to 1: ln x ≈ x - 1
            d = abs(Fraction(x[1]) * Fraction(B) ** x[2] - 1)
            lnx = float(d) if d > 0 else 0.0
        if lnx == 0.0:
            return False
        digits_arg = (math.log2(abs(y[1])) + y[2] * lb + math.log2(lnx)) / lb
        return digits_arg >= 10 + math.log2(p) - 3
    return False

def k_high_precision_powering(op, args):
    """exp / exp_m1 (and powf through exp) at a precision where the final powering exp(r)^(B^n),
    n = 2^(bit_len(p)/2), amplifies the error of the series sum by B^n while only
    series_guard_digits + pow_guard_digits (= log_B p + 2 + 2·bit_len(p)·log2 B) extra digits are carried:
    bases 2 and 3 from p = 2048, bases 10 and 16 from p = 8192, every base from p = 32768."""
    B, p, mode, fl = _ctx(op, args)
    name = op.split(".")[-1]
    if p == 0 or name not in ("exp", "exp_m1", "powf"):
        return False
    lb = math.log2(B)
    pe = p if name != "powf" else p + 10 + int(math.log2(p))
    L = pe.bit_length()
    n = 1 << (L // 2)
    guard = int(math.log2(pe) / lb) + 2 + int(L * lb * 2)
    return n > guard + 2

def k_operand_longer_than_context(op, args):
    """a Context method called with an operand that has more digits than the context precision plus the
    guard digits: the operand itself is rounded to the working precision first (repr_round_ref), which
    is not a relative perturbation of the result (ln next to 1, exp of a large argument)"""
    B, p, mode, fl = _ctx(op, args)
    return op.split(".")[-2] == "c" and p != 0 and any(f[1] is not None and ndigits(B, f[1]) > p for f in fl)

def k_directed(op, args):
    B, p, mode, fl = _ctx(op, args)
    return mode in DIRECTED

def k_low_precision(op, args):
    B, p, mode, fl = _ctx(op, args)
    return 1 <= p <= 3

def kf(cls, op, args, impl, model):
    """predicate of the known-finding class `cls` (see known_findings.jsonl, property C11)"""
    if op.startswith("obs."):
        op = op[4:]
    viol = model.startswith("violation ")
    if cls == "exact-flag":
        # the value is certified within one ulp; only the flag is wrong.  For powi only the negative-exponent
        # branch is affected (it discards the flag of the positive power); the binary powering loop itself
        # tracks inexactness and is NOT covered by this class.
        if op.endswith(".powi"):
            pre = args[:args.index("|")] if "|" in args else args
            if not pre[1].replace("k:", "").startswith("-"):
                return False
        return viol and "Exact-flag-on-inexact-result value-within-1ulp" in model and impl.endswith(" Exact")
    req = model.startswith("required a-value-within-1ulp") and "log.rs:" in impl and "subtract_with_overflow" in impl
    if not (viol and "result-not-within-1ulp" in model or "result-exactly-1ulp" in model or req):
        return False
    if req:
        # a long operand just above the edge of the domain is rounded onto the edge before the computation
        return cls == "operand-longer-than-context" and any(
            a.startswith("d:") for a in args[:args.index("|")] if "|" in args)
    # (the classes `large-argument` and `high-precision-powering` were repaired by fix commit 0b61a28: a large
    #  argument is no excuse any more; k_large_argument / k_high_precision_powering are kept as documentation of
    #  the repaired input classes)
    large = False
    longer = k_operand_longer_than_context(op, args)
    tiny = "error=1ulp+tiny" in model or "result-exactly-1ulp" in model
    if cls == "operand-longer-than-context":
        return longer and not large
    if cls == "directed-one-ulp":
        # exp_m1 is powered at only p + p/8 + 1 digits, so its sliver is up to B^-(p/8+1) ulp
        wide = op.endswith(".exp_m1") and "error<2ulp" in model and _ctx(op, args)[1] <= 24
        return (tiny or wide) and k_directed(op, args) and not large and not longer
    if cls == "low-precision":
        # only the directed modes: there the coarse working precision at p <= 3 lets the working value fall on the
        # wrong side of a representable number by more than the sliver of the class above; in the two nearest modes
        # an error of a whole ulp at any precision is a violation
        # (measured on the repaired tree: beyond the sliver of the class above this happens for ln / ln_1p at ONE
        #  digit only; exp_m1 is covered by the `wide` rule above)
        return (op.endswith(".ln") or op.endswith(".ln_1p")) and _ctx(op, args)[1] == 1 and k_directed(op, args) \
            and "error<2ulp" in model and not longer
    return False

def kfc(cls, args, impl, model):
    """entry point used by known_findings.jsonl; the operation is named in the model's violation text"""
    import re as _re
    m = _re.search(r" op=([cf]\.\w+)$", model)
    return kf(cls, m.group(1) if m else "", args, impl, model)

# ----------------------------------------------------------------------------- texts

THEOREMS = [
    "Dashu.Props.C11.exp_zero_exact",
    "Dashu.Props.C11.exp_m1_zero_exact",
    "Dashu.Props.C11.ln_one_exact",
    "Dashu.Props.C11.ln_1p_zero_exact",
    "Dashu.Props.C11.ln_nonpositive",
    "Dashu.Props.C11.ln_1p_le_neg_one",
    "Dashu.Props.C11.powi_zero_exact",
    "Dashu.Props.C11.powi_one_round",
    "Dashu.Props.C11.powf_zero_exact",
    "Dashu.Props.C11.powf_one_round",
    "Dashu.Props.C11.exp_unlimited",
    "Dashu.Props.C11.ln_unlimited",
    "Dashu.Props.C11.powf_unlimited",
    "Dashu.Props.C11.powi_neg_unlimited",
    "Dashu.Props.C11.exp_infinite",
    "Dashu.Props.C11.ln_infinite",
    "Dashu.Props.C11.powi_infinite",
    "Dashu.Props.C11.powf_infinite",
    "Dashu.Props.C11.powf_negative_base",
    "Dashu.Props.C11.exp_compute",
    "Dashu.Props.C11.expEncl_sound",
    "Dashu.Props.C11.lnEncl_sound",
    "Dashu.Props.C11.ok_iff_within",
    "Dashu.Props.C11.checkedExp_sound",
    "Dashu.Props.C11.checkedExpScaled_sound",
    "Dashu.Props.C11.checkedExpm1_sound",
    "Dashu.Props.C11.checkedLn_sound",
    "Dashu.Props.C11.checkedLn1p_sound",
    "Dashu.Props.C11.checkedPowf_sound",
    "Dashu.Props.C11.checkedPowfScaled_sound",
    "Dashu.Props.C11.checkedPowfExact_sound",
    "Dashu.Props.C11.ratRoot_spec",
    "Dashu.Props.C11.checkedPowi_sound",
    "Dashu.Props.C11.checkedPowiBig_sound",
    "Dashu.Props.C11.certPowi_decided",
    "Dashu.Props.C11.exact_flag_counterexample",
    "Dashu.Props.C11.large_argument_counterexample",
    "Dashu.Props.C11.directed_one_ulp_counterexample",
    "Dashu.Props.C11Powi.powi_nonneg_error",
    "Dashu.Props.C11Powi.powi_nonneg_half_lt_ulp",
    "Dashu.Props.C11Powi.workPrec_eq",
    "Dashu.Props.C11Powi.powi_model_reproduces",
    "Dashu.Props.C11Powi.powi_directed_counterexample",
    "Dashu.Props.C11Powi.powi_neg_error",
    "Dashu.Props.C11Powi.powi_neg_half_lt_ulp",
    "Dashu.Props.C11Powi.coarseNone_sound",
    "Dashu.Props.C11Powi.unlimited_step_exact",
    "Dashu.Props.C11Powi.powi_unlimited_exact",
    "Dashu.Props.C11Formulas.iacoth_series",
    "Dashu.Props.C11Formulas.ln2_formula",
    "Dashu.Props.C11Formulas.ln10_formula",
    "Dashu.Props.C11Formulas.ln_reduction",
    "Dashu.Props.C11Formulas.ln_1p_reduction",
    "Dashu.Props.C11Formulas.exp_reduction",
    "Dashu.Props.C11Float.checkedPowfFloatScaled_sound",
    "Dashu.Props.C11Float.checkedLnFloat_sound",
    "Dashu.Props.C11Series.powLoopF_value",
    "Dashu.Props.C11Series.powiNonnegF_value",
    "Dashu.Props.C11Series.expLoop_fuel_irrelevant",
    "Dashu.Props.C11Series.lnLoop_fuel_irrelevant",
    "Dashu.Props.C11Series.iacothLoop_fuel_irrelevant",
    "Dashu.Props.C11Series.expLoop_deterministic",
    "Dashu.Props.C11Series.expLoop_steps",
    "Dashu.Props.C11Series.expWorkPrec_eq",
    "Dashu.Props.C11Series.expWorkPrecNoScaling_eq",
    "Dashu.Props.C11Series.lnWorkPrec_eq",
    "Dashu.Props.C11Series.iacothWorkPrec_eq",
    "Dashu.Props.C11Series.powfGuardDigits_eq",
    "Dashu.Props.C11Series.powiWorkPrec_eq",
    "Dashu.Props.C11Series.workPrec_gt",
    "Dashu.Props.C11Series.expBody_never_exact",
    "Dashu.Props.C11Series.lnBody_never_exact",
    "Dashu.Props.C11Series.expFull_exact_only_zero",
    "Dashu.Props.C11Series.lnFull_exact_only_shortcut",
    "Dashu.Props.C11Series.body_prec",
    "Dashu.Props.C11Series.subUlp_le",
    "Dashu.Props.C11Series.sum_add_keeps_one",
    "Dashu.Props.C11Series.expLoop_step_bound",
    "Dashu.Props.C11Series.expLoop_fuel_suffices",
    "Dashu.Props.C11Series.expStage_error",
    "Dashu.Props.C11Series.expTerms_error",
    "Dashu.Props.C11Series.expLoop_state",
    "Dashu.Props.C11Series.iacothLoop_step_bound",
    "Dashu.Props.C11Series.sum_add_keeps_pow",
    "Dashu.Props.C11Series.sum_add_error",
    "Dashu.Props.C11Series.expSum_error",
    "Dashu.Props.C11Series.expPartial_eq",
    "Dashu.Props.C11Series.expLoop_result",
    "Dashu.Props.C11Series.expLoop_result_error",
    "Dashu.Props.C11Series.fAddSub_zero_operand",
    "Dashu.Props.C11Series.fAddSub_zero_fits",
    "Dashu.Props.C11Series.iacothTerms_error",
    "Dashu.Props.C11Series.iacothStates_eq",
    "Dashu.Props.C11Series.iacothSum_error",
    "Dashu.Props.C11Series.iacothLoop_result",
    "Dashu.Props.C11Series.iacothLoop_result_error",
    "Dashu.Props.C11Series.lnLoop_result",
    "Dashu.Props.C11Series.lnLoop_result_error",
    "Dashu.Props.C11Series.expPartial_encloses_exp",
    "Dashu.Props.C11Series.expLoop_result_vs_exp",
    "Dashu.Props.C11Series.stop_test_value",
    "Dashu.Props.C11Series.expLoop_stop",
    "Dashu.Props.C11Series.expLoop_stage_error",
    "Dashu.Props.C11Series.powfBody_exact_only_base_one",
    "Dashu.Props.C11Series.powfBody_base_one",
    "Dashu.Props.C11Series.powfBody_exact_is_exact",
    "Dashu.Props.C11Gen.seriesGuardDigits_gen",
    "Dashu.Props.C11Gen.powGuardDigits_gen",
    "Dashu.Props.C11Gen.expN_gen",
    "Dashu.Props.C11Gen.expWorkPrecNoScaling_gen",
    "Dashu.Props.C11Gen.expWorkPrec_gen",
    "Dashu.Props.C11Gen.expm1PowPrec_gen",
    "Dashu.Props.C11Gen.iacothWorkPrec_gen",
    "Dashu.Props.C11Gen.lnWorkPrec_gen",
    "Dashu.Props.C11Gen.lnGrowPrec_gen",
    "Dashu.Props.C11Gen.powfGuardDigits_gen",
    "Dashu.Props.C11Gen.powiWorkPrec_gen",
    "Dashu.Props.C11Gen.powiNegPrec_gen",
    "Dashu.Props.C11Gen.fSubUlp_gen",
    "Dashu.Props.C11Link.stop_test_is_code_abs_cmp",
    "Dashu.Props.C11Link.stop_test_is_code_cmp",
    "Dashu.Props.C11Link.stop_test_value_iff",
]

REFINED = ["Context::exp_internal entry guards (assert_finite, assert_limited_precision, zero shortcut)",
           "Context::ln_internal entry guards (assert_finite, assert_limited_precision, ln 1 / ln_1p 0 shortcut, domain test x <= 0 / x <= -1)",
           "Context::powi entry (assert_finite, negative exponent + unlimited precision, x^0, x^1 = repr_round)",
           "Context::powf entry (assert_finite_operands, assert_limited_precision, y = 0, y = 1, base = 0, negative base)",
           "Context::powi, non-negative exponent >= 2: the binary powering loop (sqr / mul at the working precision "
           "p + exp.bit_len + p.bit_len, final with_precision) is mirrored on builder-float's C03 model, tied to the code "
           "digit for digit on every powi case, and carries a proved error bound (Props/C11Powi.lean)",
           "Context::powi, negative exponent: reversed context at p + 2*bit_len p digits, inner non-negative power, repr_div, "
           "final repr_round mirrored (Model/Trans/PowiNeg.lean), tied digit for digit, error bound + nearest-mode < 1 ulp proved",
           "Context::exp_internal numerical body (working precision, no_scaling branch, argument reduction x = s*ln B + r via "
           "FBig::div_rem_euclid, r >> n, Maclaurin loop with the sub_ulp stop test, final powering exp(r)^(B^n) through powi, "
           "<< s, the exp_m1 subtraction at p + p/8 + 1 digits, mark_inexact) mirrored statement by statement "
           "(Model/Trans/Series.lean expBody) on builder-float's C03 model and executed by the driver: significand, exponent AND flag "
           "equal the implementation's on every mirrored case",
           "Context::ln_internal numerical body (working precision, no_scaling, floor(log2 x) from log2_bounds, scaling by 2^s "
           "(shift / division / multiplication by FBig::from(2^s)), precision doubling for s < 0, z = (x-1)/(x+1), atanh loop with "
           "the sub_ulp stop test, 2*sum + s*ln2, with_precision, mark_inexact) mirrored (lnBody), same tie",
           "Context::iacoth / ln2 / ln10 / ln_base (all four arms: 2, 10, power of two, generic through ln) mirrored "
           "(iacoth, ln2, ln10, lnBase), tied through every exp / powf case",
           "Context::powf numerical body (guard digits from log2_est, ln at the working context, Context::mul, exp, "
           "with_precision, the and_then flag chain) mirrored (powfBody), same tie",
           "FBig operator layer used by the series (Context::max, FBig::from(integer) precision = digit count, "
           "convert_int, sub_ulp via digits_lb, div_rem_euclid / align_as_int, shifts) mirrored (fMul, fAddSub, fDiv, fOfInt, "
           "fConvertInt, fSubUlp, fDivRemEuclid) — the growth of the operand precisions beyond the working precision is reproduced",
           "f32 estimates of exp.rs / log.rs (usize/Word log2_est, IBig log2_est, Repr::log2_est, Repr::log2_bounds with the f64 "
           "intermediate, `as usize` / `as isize` casts): bit-exact Float32 replica in the driver (Driver/TransEst.lean), an oracle "
           "parameter (`Est`) of the model and of every theorem",
           "the Maclaurin loop of exp_internal (scaled branch): explicit step bound under the two-sided digits_lb hypothesis, "
           "`sum += increase` keeps a sum >= 1 for operands of any length, term-by-term error propagation "
           "(Proofs/Trans/SeriesBound.lean; hypotheses and bound checked per case by the driver: `bound-ok u= slack= kmax=`)",
           "the working-precision / guard-digit / branch-test / stop-test STATEMENTS of exp.rs, log.rs, fbig.rs::sub_ulp "
           "(30 statements): extracted from the repository under check on every run and compared as text with the table the "
           "mirror was written against (Model/Trans/SourceText.lean, op tie.formula)",
           "Tie A (regenerated + proved): 16 of these statements (series_guard_digits, pow_guard_digits, n, the three "
           "work_precision assignments of exp_internal, the exp_m1 powering precision, iacoth guard_digits / working precision, "
           "ln_internal guard_digits / work_precision / `+= precision`, powf guard_digits, powi guard_digits / guard_bits, the "
           "sub_ulp exponent) are translated into Lean definitions on every run (lean/Dashu/Gen/TransPrec.lean, "
           "vlib/extract_transprec.py, fails closed outside its subset) and Props/C11Gen proves the definitions the driver "
           "runs equal to them by rfl: an edit of one of these formulas in /repo breaks the build of Props/C11Gen"]
FRONTIER = ["that the certificate succeeds on every input (i.e. that the heuristic guard digits always suffice) is NOT proved: "
            "each result is certified a posteriori against a proved enclosure of the real value",
            "step bound of the series loops: PROVED for the Maclaurin loop of exp_internal on its scaled branch "
            "(Props/C11Series.expLoop_step_bound: reduced argument 0 < r <= B^-u, u >= 1, r held at w digits; hypotheses "
            "DubSound, CoarseSound and the two-sided DlbTight: digits <= digits_lb + cS; conclusion: the loop returns a value and "
            "the last index k is 2 or u*(k-1) < w+cS+1; the driver evaluates hypotheses and conclusion on every mirrored exp / "
            "exp_m1 case, tag bound-ok, a contradiction is INTERNAL); PROVED also for the loop of iacoth (all terms positive: "
            "iacothLoop_step_bound, same oracle hypotheses, 0 <= inv2 <= B^-u: ends within any fuel with u*fuel > b-L+cS+w; "
            "theorem only, not evaluated per case). NOT proved: the unscaled exp_m1 branch and the atanh loop of ln_internal "
            "(terms of either sign / z^2 <= 1/9 is not below 1/B for B >= 10, so the power-of-base decay argument does not "
            "apply), u = 0 (p = 1 outside base 2, where r = rem/B is only < 1); their fuel independence is proved, exhausted "
            "fuel 10^6 is reported as mirror-fuel, never seen",
            "error propagation: proved for one stage of the Maclaurin loop (expStage_error) and for the TERMS the loop forms "
            "(expTerms_error: term k = r^k/k! up to k relative errors B^(1-w)) and for the final powering stage "
            "(powiNonnegF_value + C11Powi.powi_nonneg_error); round 6: PROVED for `sum += increase` (sum_add_error: two relative "
            "errors B^(1-P), operands of any length, all four branches of repr_add_large_small) and for the accumulated partial "
            "SUM of the Maclaurin loop on its scaled branch (expSum_error / expLoop_result_error: a returned (sum, k) is "
            "sum_{j<k} r^j/j! up to 2(k-2)+2 relative errors B^(1-w), for r > 0) and for the loop of iacoth (iacothTerms_error, "
            "iacothSum_error, iacothLoop_result_error: a returned (sum, k = 2j+3) is sum_{l<=j} inv*inv2^l/(2l+1) up to 2j+4 errors, "
            "relative to the values inv, inv2 the loop holds, w >= 2) and, the recursion being the same, for the atanh loop of "
            "ln_internal with z > 0 (lnLoop_result_error). NOT proved: the same chain for the unscaled exp_m1 branch with x < 0 "
            "and for ln_internal when z < 0 (all terms negative: the proofs assume positive operands), the links "
            "inv ~ 1/n, inv2 ~ inv^2 (fSqr's pre-shrink needs a digit bound on the quotient). Rounding + truncation ARE composed "
            "for the Maclaurin loop (expLoop_result_vs_exp: |sum - exp r| <= 2K eps exp r + 2 r^k/k! against Mathlib's Real.exp, "
            "K = 2(k-2)+2) and with the stop test (expLoop_stage_error: |sum - exp r| <= 2K eps exp r + 4 B^-w sum, under DlbSound, "
            "2K eps <= 1, k eps <= 1/2); NOT composed: that stage bound with the error of the reduction x = s ln B + r (ln_base, "
            "div_rem_euclid, r >> n) and with the powering error (C11Powi) into one bound on exp_internal's working value",
            "Tie A does not cover the statements that are wholly inside an f32 estimate (no_scaling, too_large, int_digits, "
            "powf arg_digits / ln_base_ub / arg_log2, ln's `s` from log2_bounds): they are fields of the oracle Est, replicated "
            "bit-exactly in Driver/TransEst.lean and tied by text (tie.formula) and by the digit-for-digit run only",
            "FBig comparison inside the stop tests (abs_cmp, <) is written at specification (value order) in the mirror; round 8: "
            "LINKED to C14's proved kernel (Props/C11Link.stop_test_is_code_abs_cmp, stop_test_is_code_cmp: the decision "
            "`abs_cmp(increase, sub_ulp) != Greater` of exp_internal / ln_internal and `increase < sub_ulp` of iacoth is the same "
            "when C14's model of repr_cmp_same_base::<B, ABS> (cmp.rs, shortcuts + estimate oracle) is evaluated on the same "
            "operands, for every sound oracle; hypotheses: increase > 0 (abs_cmp; != 0 for <) and C14's precision invariant "
            "PrecOK of increase, which is NOT derived from the mirrored loop here (for ln's atanh loop with z < 0 the increase is "
            "negative: not covered by the abs_cmp link); the model def executed by the driver still calls reprAbsCmp / reprCmp. "
            "IBig::div_rem_euclid is Int.ediv/emod",
            "mirror runs are budgeted by the effective precision eff = p (for ln / ln_1p / the base of powf outside base 2: "
            "max(p, |log_B x|), the digit count of 2^s that FBig::from hands on as a precision): every case up to "
            "eff*floor(log2 B) <= 1700, one in eight up to 2600, none above and none for |exponent| > 20000 "
            "(`mirror-skip` / no annotation): there only the certificate decides",
            "statement review (round 5), clause by clause: (a) `within 1 ulp for every argument, precision, base, mode`: a for-all "
            "theorem exists only for powi in the two nearest modes (C11Powi.powi_nonneg_half_lt_ulp, powi_neg_half_lt_ulp); for the "
            "directed modes the clause is FALSE for the code (counterexample theorems, recorded finding); for exp / exp_m1 / ln / "
            "ln_1p / powf it is carried by the certificate theorems (checked*_sound: accept => within 1 ulp) per input only. "
            "(b) `Exact only if exact`: entry-guard theorems + expFull_exact_only_zero / lnFull_exact_only_shortcut on the mirror; "
            "powi: per input through the certificate (certPowi_decided); powf: powfBody_exact_only_base_one (see the last entry). (c) `unlimited precision is "
            "refused by panic`: exp_unlimited, ln_unlimited, powf_unlimited, powi_neg_unlimited; that powi with a NON-negative "
            "exponent at unlimited precision answers exactly: PROVED in round 7 for the mirrored loop at working precision 0 "
            "(C11Powi.powi_unlimited_exact: powLoop at q = 0 returns base^n and with_precision(0) returns it flagged Exact, "
            "every base / mode / operand / n >= 1; unlimited_step_exact: each sqr / mul at precision 0 is exact and flagged "
            "Exact, with or without the pre-shrink) and still checked per case (exact rational power). The arm "
            "`else { Context::new(0) }` that selects q = 0 is NOT in the model def powiNonneg (it spells the limited arm only; "
            "the driver does not mirror p = 0) nor in the tie.formula table: the theorem is about powLoop, the choice q = 0 is read off the source",
            "powf, Exact flag: PROVED on the mirror in round 6 (C11Series.powfBody_exact_only_base_one, powfBody_base_one, "
            "powfBody_exact_is_exact: a result flagged Exact has base 1 and is 1 = 1^y); this is about powfBody (behind the entry "
            "guards y = 0, y = 1, base = 0 of Props/C11), tied to the code per case"]
RULE = ("raw cases = entry-guard table (precision 0, +-inf, negative base, exact shortcuts; every base) + "
        "exp/exp_m1 arguments {ordinary, +-B^-k down to B^-1000 and next to 0, small integers and reciprocals, up to 1e18 "
        "(exp), B^-1000-sized} + ln arguments {1 +- B^-k, ordinary, integers, powers of the base, reciprocals, B^+-5000} + ln_1p "
        "{tiny, next to -1, ordinary, large} + powi {random/near-1/unit bases, exponents 0..1000 and random <= 5000 of both "
        "signs} + powf {ordinary, base next to 1 with large exponent, exact roots, huge/tiny results, zero/unit base} + "
        "adversarial arguments ln(t) / exp(t) of p-digit targets t (result within ~B^-2 ulp of a representable number or of "
        "a midpoint; also with 2p-digit operands) x bases {2,3,10,16,36} x six modes x precisions {1,2,3,10,53,100} "
        "(+1000, 3000 thorough) x {FBig method + Context method (all forms), Context method on an over-long operand}. "
        "+ exp at the edge of the exponent range (both `exponent is too large` sites and the last arguments below them) + "
        "precisions where pow_guard_digits.max(n+2) takes its second arm (bases 2, 3; p in {255, 256, 600, 1024}, more in thorough) "
        "+ 39 `tie.formula` cases (source statements of the working precisions, stop tests and -- round 6 -- the zero-operand arms of the FBig +/- helpers of add.rs, as text). "
        "+ E1 (round 5): precisions 2^31, 2^32-1, 2^32, 2^32+k, 2^63, usize::MAX-k (k <= 130) of a Context and carried by an FBig "
        "on the exact shortcuts of all six operations (cheap there), precisions 63/64/65/128 on ordinary arguments, powi "
        "exponents +-2^31 .. +-2^128 (incl. 2^32+k, 2^64+k) on the bases 0, 1, -1 "
        "+ E2: ln / powi(2, 3, -2) of 2^j+-1 for every j <= 130 and of B^e+-1 (e <= 40), powf(k^2+-1, 1/2) for k of every bit "
        "length that fits the precision (bases 2, 10, 16, 36) — quick samples the j / e / bit lengths, thorough takes all. "
        "Pass 1 runs the harness and appends the printed result to the case; pass 2 runs harness and model driver "
        "(entry guards, certificate, and the statement-by-statement mirror of the series: significand, exponent, flag must be equal). "
        "Non-trivial := decided by the certificate (result with non-zero precision); distinct := distinct case lines.")
EXPLANATION = ("Proved in Lean for all inputs: (1) the entry-guard clauses (exp 0 = 1, exp_m1 0 = 0, ln 1 = 0, ln_1p 0 = 0, "
               "x^0 = 1 flagged Exact; x^1 = the operand rounded to the context; unlimited precision, infinities, negative "
               "powf base are refused by the documented panic) about a model mirroring the guard code; (2) soundness of the "
               "rational enclosures expEncl / lnEncl (Taylor / atanh series with explicit remainder, argument reduction, outward "
               "rounding) for every rational argument and every effort; (3) the certificate theorems: whenever the executable "
               "test accepts a result r it holds that (|r - f(x)| < 1 ulp or r = f(x)) and (Exact -> r = f(x)), and whenever it "
               "reports a violation the negation holds (also for the scaled comparison used for astronomically large or small "
               "results, for exact rational powers, and for multi-word integer exponents); three results printed by the "
               "pinned commit are refuted as theorems (`*_counterexample`). (4) powi with a non-negative exponent (Props/C11Powi): "
               "the working value of the mirrored powering loop is within relative distance B^(2-p-bit_len p) of base^n, the "
               "result is its correct rounding (C03 contract), hence < 1 ulp in the two nearest modes when 3*B^(2-bit_len p) <= 1; "
               "in the directed modes < 1 ulp is false for any guard (counterexample theorem, reproduced by the model). NOT proved: that dashu's results always pass the certificate (its guard-digit "
               "counts are heuristic); this residual is explored: every generated input is run on the real code and its "
               "result certified; a failed certificate is a violation with that input, an exhausted effort budget is "
               "counted as undecided. (5) Round 4: the numerical bodies are mirrored (Model/Trans/Series.lean) and run by the driver; "
               "Props/C11Series proves the fuel independence of the three series loops, that the powering stage has the value "
               "analysed in C11Powi, and the working-precision formulas as evaluated; the mirror agrees with the implementation "
               "in significand, exponent and flag on every budgeted case (a disagreement is a `mirror-drift`). (6) Round 5: "
               "explicit step bound of the Maclaurin loop of exp_internal (scaled branch) under the two-sided hypothesis "
               "DlbTight on digits_lb (expLoop_step_bound, built on new lemmas that a C03 contract never crosses a power of "
               "the base and that same-sign FBig addition of operands of any length keeps a sum >= 1), checked per case by "
               "the driver; error propagation through one stage of the loop and for its terms (expStage_error, expTerms_error). "
               "(7) Round 6: the error of `sum += increase` (sum_add_error) and the accumulated error of the partial sum the "
               "Maclaurin loop returns (expLoop_result_error: sum_{j<k} r^j/j! up to 2(k-2)+2 relative errors B^(1-w)); the "
               "mirror of FBig +/- follows /repo 164990d (a zero operand: the other one rounded, fAddSub_zero_operand).")
ASSUMPTIONS = ["the harness prints the value the library returned (pass 1 and pass 2 are the same deterministic computation)",
               "Mathlib's Real.exp / Real.log / Real.rpow are the functions the property speaks about"]
LEVEL_TEXT = ("proof (partial) + certified exploration of the residual: machine-checked Lean 4 theorems for the exactness and "
              "domain clauses (entry guards of exp.rs/log.rs, mirrored and tied by differential execution), for the soundness "
              "of the rational enclosures of exp and ln (all arguments, all efforts), and for the certificate test (accept => "
              "within 1 ulp and Exact only if exact; reject => not). That the certificate always succeeds on dashu's results is "
              "NOT proved; it is explored by running the real code on structured and adversarial inputs and certifying every "
              "result against the proved enclosures. The numerical bodies (exp_internal, ln_internal, iacoth, ln2, ln10, ln_base, "
              "powf) are mirrored statement by statement in the Lean model and tied to the code digit for digit on every "
              "budgeted case; proved about the mirror: fuel independence of the series loops, the value link of its powering stage "
              "to the powi error bound, the spelled-out working-precision formulas, an explicit step bound of the Maclaurin "
              "loop (scaled branch, two-sided digits_lb hypothesis, checked per case), the error of its terms and the accumulated "
              "rounding error of the partial sum it returns.")
LEVEL_NOTE = ("Trusted: Lean kernel; axioms propext/Classical.choice/Quot.sound; Mathlib's definitions of exp/log/rpow; the "
              "harness output format; the generators (sampling) for the unproved residual. The numerical algorithms of "
              "exp_internal/ln_internal/iacoth/powf ARE mirrored and compared digit for digit (Tie B) and their precision formulas "
              "are compared with the source text (Tie A, textual), but no accuracy theorem is drawn from the mirror - a result "
              "is only ever accepted through the certificate theorem. The Float32 replica of the f32 estimates is trusted to be the "
              "same IEEE arithmetic / libm log2f as the Rust build (checked by the digit-for-digit tie on every case).")
TECHNIQUE = ("Lean 4 + Mathlib analysis (Real.exp_bound', hasSum_log_sub_log_of_abs_lt_one): verified interval enclosures; "
             "a-posteriori certification of the implementation's results; differential run of the guard model and of the mirrored "
             "series (digit-for-digit); textual source tie of the precision formulas")
READY = True
