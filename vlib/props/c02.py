"""C02 — integer division obeys the division identity with documented conventions (DESIGN §8 C02)."""
import re
from vlib.core import Case
from vlib.gens import *

GROUP = "div"
LEAN_PROPS = "Dashu.Props.C02"
LEAN_AUDIT = "Dashu.Audit.C02"

W = 64
B = 1 << W
THR = 32          # div::THRESHOLD_SIMPLE

# every (operand kinds, form) the library offers for big-integer division
FORMS_UU = ["u.div", "u.rem", "u.divrem", "u.diveuclid", "u.remeuclid", "u.divremeuclid", "u.ismultiple"]
FORMS_II = ["i.div", "i.rem", "i.divrem", "i.diveuclid", "i.remeuclid", "i.divremeuclid", "i.ismultiple"]
FORMS_UI = ["ui.div", "ui.rem", "ui.divrem"]
FORMS_IU = ["iu.div", "iu.rem", "iu.divrem"]
FORMS_CU = ["u.cdivrem", "u.cdiv", "u.crem", "u.cdivrem2"]
FORMS_CI = ["i.cdivrem", "i.cdiv", "i.crem", "i.cdivrem2"]
ALL_FORMS = FORMS_UU + FORMS_II + FORMS_UI + FORMS_IU + FORMS_CU + FORMS_CI


def nontrivial(c):
    ws = [len(a.lstrip('-')) for a in c.args if re.fullmatch(r"-?[0-9a-f]+", a)]
    return any(w > 32 for w in ws)      # some operand has >= 3 words


def emit(rng, form, a, b):
    """one case of `form` on magnitudes a, b with random signs where the form has signed operands"""
    kind = form.split(".")[0]
    if form in FORMS_CU:
        return Case(form, [hx(a), hx(b)])
    if form in FORMS_CI:
        return Case(form, [hx(signed(rng, a)), hx(b)])
    if kind == "u":
        return Case(form, [hx(a), hx(b)])
    if kind == "i":
        return Case(form, [hx(signed(rng, a)), hx(signed(rng, b))])
    if kind == "ui":
        return Case(form, [hx(a), hx(signed(rng, b))])
    return Case(form, [hx(signed(rng, a)), hx(b)])


def any_form(rng):
    return rng.choice(ALL_FORMS)


def divisor(rng, n):
    """an n-word divisor (top word non-zero), patterns chosen for the normalisation shift"""
    if n == 0:
        return 0
    pat = rng.choice(["random", "random", "highbit", "topone", "ones", "zero", "pow2", "pow2m1", "pow2p1", "lowones"])
    if pat == "lowones":
        # top word random, all lower words B-1: the low part of the divisor matters most (add-back)
        top = rng.getrandbits(W) | (1 << rng.randrange(0, W))
        return (top << (W * (n - 1))) | ((1 << (W * (n - 1))) - 1)
    return nat_pattern(rng, n, pat)


def quotient(rng, n):
    if n == 0:
        return 0
    pat = rng.choice(["topones", "topones", "ones", "random", "zero", "pow2", "highbit"])
    if pat == "topones":
        # top word all ones: the estimate for the top quotient word is B-1 / needs the correction
        return ((B - 1) << (W * (n - 1))) | rng.getrandbits(W * (n - 1))
    return nat_pattern(rng, n, pat)


def remainder(rng, b):
    if b <= 1:
        return 0
    return rng.choice([0, 1, b - 1, b - 1, rng.randrange(0, b), b >> 1])


def sizes(tier):
    s = [1, 1, 2, 2, 3, 3, 4, 5, 6, 8, 16, THR - 1, THR, THR + 1, THR + 2, 40, 47, 63, 64, 65, 66, 70]
    if tier == "thorough":
        s += [100, 128, 200, 257, 400]
    return s


def generate(rng, tier):
    quick = tier != "thorough"
    sz = sizes(tier)

    # ---- 1. division by zero in every form, dividends of every representation class
    for form in ALL_FORMS + ["cd.value", "cd.fromword", "cd.fromdword"]:
        if form.startswith("cd."):
            yield Case(form, ["0"])
            continue
        for na in [0, 1, 2, 3, 40]:
            yield emit(rng, form, nat_pattern(rng, na, "random"), 0)
    # is_multiple_of_const(0): the documented divide-by-zero panic (explicit test in is_multiple_of_dword since
    # /repo c27ca7f), dividends of every representation class and sign
    for na in [0, 1, 2, 3, 4, 40]:
        a = nat_pattern(rng, na, "random")
        yield Case("u.ismultipleconst", [hx(a), "0"])
        yield Case("i.ismultipleconst", [hx(a), "0"])
        yield Case("i.ismultipleconst", [hx(-a), "0"])

    # ---- 2. divisors 2^k for every k in 0..192 (and neighbours), dividends of 0..3 more words
    for k in range(0, 193):
        for b in [1 << k, (1 << k) + 1, max((1 << k) - 1, 1)]:
            nb = (b.bit_length() + W - 1) // W
            reps = 2 if (quick and b != 1 << k) else 4
            for _ in range(reps):
                na = max(nb + rng.choice([-1, 0, 0, 1, 1, 2, 3]), 0)
                a = nat_pattern(rng, na, rng.choice(PATTERNS))
                yield emit(rng, any_form(rng), a, b)
        # exact multiples / one less of 2^k
        q = quotient(rng, rng.choice([1, 2, 3, 4]))
        yield emit(rng, any_form(rng), q << k, 1 << k)
        yield emit(rng, any_form(rng), max((q << k) - 1, 0), 1 << k)
    for k in [0, 1, 63, 64, 65, 127, 128]:
        yield Case("cd.value", [hx(1 << k)])
        if k < 64:
            yield Case("cd.fromword", [hx(1 << k)])
        if k < 128:
            yield Case("cd.fromdword", [hx(1 << k)])

    # ---- 3. single-word and double-word divisors (with / without top bit), all dividend sizes
    special_w = [1, 2, 3, 5, 10, B - 1, B - 2, B >> 1, (B >> 1) + 1, (B >> 1) - 1, 0xffffffff, 1 << 32, (1 << 32) + 1]
    special_d = [B, B + 1, B + 2, 2 * B - 1, 2 * B, (B * B) - 1, (B * B) >> 1, ((B * B) >> 1) + 1, ((B * B) >> 1) - 1,
                 (B - 1) * B, (B - 1) * B + 1, B * B - B - 1, 3 * B + 7, (1 << 100) + 12345]
    n3 = 700 if quick else 40000
    for i in range(n3):
        if rng.random() < 0.5:
            b = rng.choice(special_w) if rng.random() < 0.4 else divisor(rng, 1)
        else:
            b = rng.choice(special_d) if rng.random() < 0.4 else divisor(rng, 2)
        na = rng.choice([0, 1, 2, 2, 3, 3, 4, 5, 6, 7, 8, 9, 33, 70] + ([] if quick else [200, 1025]))
        r = rng.random()
        if r < 0.35:
            nq = max(na - ((b.bit_length() + W - 1) // W) + rng.choice([0, 1]), 0)
            a = quotient(rng, nq) * b + remainder(rng, b)
        else:
            a = nat_pattern(rng, na, rng.choice(PATTERNS))
        yield emit(rng, any_form(rng), a, b)
        if i % 10 == 0:
            yield Case("u.ismultipleconst", [hx(a), hx(b)])
            yield Case("i.ismultipleconst", [hx(signed(rng, a)), hx(b)])
        if i % 25 == 0:
            yield Case("cd.value", [hx(b)])
            yield Case("cd.fromword" if b < B else "cd.fromdword", [hx(b)])

    # ---- 4. ConstDivisor remainder with a one-word divisor whose top bit is set and a two-word
    #         dividend (both sides of `high word < divisor`)
    for i in range(60 if quick else 3000):
        b = rng.getrandbits(W) | (B >> 1)
        hi = rng.choice([b - 1, b, b + 1, B - 1, rng.randrange(0, B)]) % B
        a = (hi << W) | rng.getrandbits(W)
        yield emit(rng, rng.choice(FORMS_CU + FORMS_CI), a, b)

    # ---- 5. multi-word divisors: a = q*b + r, size classes around THRESHOLD_SIMPLE on BOTH the
    #         divisor length and the quotient length; q's top word all ones; r in {0,1,b-1,..}
    n5 = 1400 if quick else 50000      # round 6: thinned 80000 -> 50000 (thorough budget; random stream only)
    for i in range(n5):
        nb = rng.choice([3, 3, 4, 5] + sz)
        nq = rng.choice([0, 1, 1, 2, 3] + sz)
        if quick and nb * nq > 5000:
            nq = rng.choice([1, 2, THR, THR + 1])
        b = divisor(rng, max(nb, 3))
        q = quotient(rng, nq)
        a = q * b + remainder(rng, b)
        yield emit(rng, any_form(rng), a, b)

    # ---- 6. quotient carry: the top n words of a are >= b
    for i in range(250 if quick else 15000):
        nb = rng.choice([3, 4, 5, THR, THR + 1, THR + 2, 40])
        b = divisor(rng, nb)
        extra = rng.choice([0, 1, 2, 3, THR, THR + 1, THR + 2])
        top = rng.choice([b, b + 1, b + rng.getrandbits(W), (1 << (W * nb)) - 1, b | ((1 << (W * (nb - 1))) - 1)])
        top = min(top, (1 << (W * nb)) - 1)
        a = (top << (W * extra)) | (rng.getrandbits(W * extra) if extra else 0)
        yield emit(rng, any_form(rng), a, b)

    # ---- 7. estimate too large (add-back): b = d*B^(n-2) + (B^(n-2) - 1), a = Q * d * B^(n-2) (+ low)
    for i in range(250 if quick else 15000):
        nb = rng.choice([3, 4, 5, 8, THR, THR + 1, 40])
        d = rng.getrandbits(2 * W) | (1 << rng.choice([2 * W - 1, 2 * W - 1, 2 * W - 2, 2 * W - 7, W + 1]))
        d &= (1 << (2 * W)) - 1
        low = (1 << (W * (nb - 2))) - 1
        b = (d << (W * (nb - 2))) | rng.choice([low, low, low - rng.getrandbits(16), rng.getrandbits(W * (nb - 2))])
        nq = rng.choice([1, 2, 3, THR, THR + 1, THR + 3])
        Q = quotient(rng, nq)
        a = Q * (d << (W * (nb - 2))) + rng.choice([0, 0, 1, rng.getrandbits(W)])
        yield emit(rng, any_form(rng), a, b)

    # ---- 8. dividend top word equal to divisor top word (estimate = B-1 branch), a just below b<<k
    for i in range(200 if quick else 10000):
        nb = rng.choice([3, 4, 5, THR, THR + 1, 40])
        b = divisor(rng, nb)
        k = rng.choice([1, 2, 3, THR + 1])
        a = (b << (W * k)) - rng.choice([1, 2, 1 << W, rng.getrandbits(W * k) + 1])
        yield emit(rng, any_form(rng), max(a, 0), b)

    # ---- 9. a < b, a = b, a = 0, same length with a random
    for i in range(250 if quick else 10000):
        nb = rng.choice([1, 2, 3, 4, THR, THR + 1, 40])
        b = divisor(rng, nb)
        a = rng.choice([0, 1, b - 1, b, b + 1, 2 * b - 1, 2 * b, nat_pattern(rng, nb, "random"),
                        nat_pattern(rng, max(nb - 1, 0), "random")])
        yield emit(rng, any_form(rng), a, b)

    # ---- 9b. heap dividend with FEWER words than a heap divisor (the `len() >= len()` else-arms of div_ops::repr and
    #          div_const: the dividend itself is the remainder — returned, or cloned into the divisor's buffer), every form
    for i in range(200 if quick else 2000):
        nb = rng.choice([4, 5, 6, 8, THR, THR + 1, 40])
        na = rng.randrange(3, nb)
        yield emit(rng, any_form(rng), nat_pattern(rng, na, rng.choice(["random", "ones", "highbit", "random"])) | (1 << (W * (na - 1))),
                   divisor(rng, nb))

    # ---- 9c. Burnikel-Ziegler inner boundaries: div_rem_in_place_small_quotient is entered with a quotient of exactly
    #          THRESHOLD_SIMPLE / THRESHOLD_SIMPLE+1 words (`m <= THRESHOLD_SIMPLE` hand-over to Knuth D) — from same_len
    #          (m = ceil(n/2): divisors of 2T-1 .. 2T+2 words, dividend >= 2n words) and from the final call of the block
    #          loop (dividend of k*n + n + T (+1) words); and the block loop's own `m >= 2n`, `m > n` boundaries
    for i in range(90 if quick else 3000):
        nb = rng.choice([2 * THR - 1, 2 * THR, 2 * THR + 1, 2 * THR + 2, THR + 1, THR + 2, 40, 47])
        na = rng.choice([2 * nb, 2 * nb + 1, 2 * nb - 1, nb + THR + 1, nb + THR + 2, 2 * nb + THR, 2 * nb + THR + 1,
                         3 * nb, 3 * nb - 1])
        b = divisor(rng, nb)
        q = quotient(rng, na - nb) if rng.random() < 0.7 else nat_pattern(rng, na - nb, rng.choice(PATTERNS))
        yield emit(rng, any_form(rng), q * b + remainder(rng, b), b)

    # ---- 10. fully random structured operands
    n10 = 500 if quick else 30000
    for i in range(n10):
        na = rng.choice(sz + [0, 1, 2, 3])
        nb = rng.choice(sz + [1, 2, 3])
        if quick and nb > THR and na - nb > THR and na * nb > 6000:
            na = nb + rng.choice([0, 1, THR, THR + 1])
        a = nat_pattern(rng, na, rng.choice(PATTERNS))
        b = nat_pattern(rng, nb, rng.choice(PATTERNS))
        yield emit(rng, any_form(rng), a, b)

    # ---- 11. thorough: long operands and Burnikel–Ziegler sizes (divisor > 32 and quotient > 32 words)
    if not quick:
        for i in range(2000):              # round 6: thinned 4000 -> 2000 (62% of the tier's CPU time was here)
            nb = rng.choice([33, 34, 35, 40, 64, 65, 100, 128, 129, 200, 256, 500, 1000, 1500])
            nq = rng.choice([33, 34, 64, 65, 100, 129, 300, 1000, 1500])
            if nb + nq > 3000:
                nq = 3000 - nb
            b = divisor(rng, nb)
            a = quotient(rng, nq) * b + remainder(rng, b)
            yield emit(rng, any_form(rng), a, b)
        for i in range(500):               # round 6: thinned 1000 -> 500
            na = rng.choice([1000, 2000, 3000])
            nb = rng.choice([1, 2, 3, 5, 31, 32, 33, 34, 100, 999, 1499])
            a = nat_pattern(rng, na, rng.choice(PATTERNS))
            b = divisor(rng, nb)
            yield emit(rng, any_form(rng), a, b)


    # ---- 14. (E1) extreme machine-integer arguments: the Word parameter of ConstDivisor::from_word and the DoubleWord
    #          parameter of ConstDivisor::from_dword / is_multiple_of_const — 0, 1, W-1, W, W+1, 2W, 2^31, 2^32-1, 2^32,
    #          2^32+k, 2^63, 2^63+-k, 2^64-1-k, 2^64+k, 2^127+-k, 2^128-1-k (k < 131) — as divisors of dividends
    #          q*d, q*d+-1 (inline and heap) through every ConstDivisor / is_multiple_of_const form
    for c in extreme_cases(rng, quick):
        yield c

    # ---- 15. (E2) divisors of EVERY bit length 1..260 (2^(L-1), 2^L-1, random L-bit) with ties: a = q*b-1, q*b,
    #          q*b+r (q's top word all ones; r in {1, b-1, ..}) through any form
    for L in range(1, 261):
        for b in {1 << (L - 1), (1 << L) - 1, rng.getrandbits(L) | (1 << (L - 1))}:
            for rep in range(1 if quick else 3):
                q = quotient(rng, rng.choice([1, 1, 2, 3, 4]))
                yield emit(rng, any_form(rng), q * b + remainder(rng, b), b)
                yield emit(rng, any_form(rng), max(q * b - 1, 0), b)
                if L <= 128 and rep == 0:
                    t = rng.choice([0, 1, b - 1])
                    yield Case(rng.choice(["u.ismultipleconst", "i.ismultipleconst"]), [hx(q * b + t), hx(b)])
                    yield Case("i.ismultipleconst", [hx(-(q * b + t)), hx(b)])

    # ---- 12. num-modular's dividers called directly (the mirror in Model/Int/NumModular.lean is tied to
    #          the crate here): reciprocals, 1by1/2by1/2by2/3by2/4by2 at W = 8, 16, 32, 64 on boundary and
    #          random normalized divisors and dividends with a_hi < d; exhaustive sweeps of the 8-bit instance
    for c in nm_cases(rng, quick):
        yield c

    # ---- 13. primitive kernels of base/src/ring/div_rem.rs: every op x every machine type on boundary
    #          values (MIN, MIN+1, -1, 0, 1, 2, MAX-1, MAX, random); the 8-bit types exhaustively
    for c in prim_cases(rng, quick):
        yield c


def extreme_words():
    """extreme values of a Word / DoubleWord argument (ROUND4 addendum E1)"""
    ks = list(range(0, 131))
    one = [0, 1, W - 1, W, W + 1, 2 * W, 1 << 31, (1 << 32) - 1, 1 << 32, 1 << 63]
    one += [(1 << 32) + k for k in ks[:130]]
    one += [(1 << 63) + k for k in (1, 2, 3)] + [(1 << 63) - k for k in (1, 2, 3)]
    one += [B - 1 - k for k in ks]
    two = [B + k for k in ks[:40]] + [(1 << 127) + k for k in (0, 1, 2, 3)] + [(1 << 127) - k for k in (1, 2, 3)]
    two += [(1 << 96) - 1, 1 << 96, (1 << 96) + 1, (1 << 2 * W) - B, (1 << 2 * W) - B - 1, (1 << 2 * W) - B + 1]
    two += [(1 << 2 * W) - 1 - k for k in ks]
    return one, two


def extreme_cases(rng, quick):
    one, two = extreme_words()
    for d in one + two:
        if d < B:
            yield Case("cd.fromword", [hx(d)])
        yield Case("cd.fromdword", [hx(d)])
        if d == 0:
            continue
        reps = 1 if quick else 2
        for _ in range(reps):
            nq = rng.choice([0, 1, 1, 2, 3, 4])
            q = quotient(rng, nq)
            a = q * d + rng.choice([0, 0, 1, d - 1, rng.randrange(0, d)])
            if rng.random() < 0.5:
                yield Case("u.ismultipleconst", [hx(a), hx(d)])
            else:
                yield Case("i.ismultipleconst", [hx(signed(rng, a)), hx(d)])
            yield emit(rng, rng.choice(FORMS_CU + FORMS_CI), a, d)
        yield Case("i.ismultipleconst", [hx(-(quotient(rng, 2) * d)), hx(d)])


PRIM_TYPES = [("u8", 8, False), ("u16", 16, False), ("u32", 32, False), ("u64", 64, False), ("u128", 128, False),
              ("usize", 64, False), ("i8", 8, True), ("i16", 16, True), ("i32", 32, True), ("i64", 64, True),
              ("i128", 128, True), ("isize", 64, True)]
PRIM_OPS = ["divrem", "divremassign", "diveuclid", "remeuclid", "divremeuclid"]


def prim_cases(rng, quick):
    for name, bits, signed in PRIM_TYPES:
        lo = -(1 << (bits - 1)) if signed else 0
        hi = (1 << (bits - 1)) - 1 if signed else (1 << bits) - 1
        base = [lo, lo + 1, lo + 2, -2, -1, 0, 1, 2, 3, hi - 1, hi, hi // 2, lo // 2, 7, -7, 10]
        vals = sorted(set(v for v in base if lo <= v <= hi))
        for op in PRIM_OPS:
            for a in vals:
                for b in vals:
                    if quick and rng.random() < 0.8 and not (b in (0, -1) and a == lo):
                        continue
                    yield Case("p." + op, [name, hx(a), hx(b)])
            for i in range(10 if quick else 300):
                yield Case("p." + op, [name, hx(rng.randint(lo, hi)), hx(rng.randint(lo, hi))])
    for name, lo, hi in (("u8", 0, 255), ("i8", -128, 127)):
        for op in PRIM_OPS:
            avals = range(lo, hi + 1) if not quick else [lo, lo + 1, -1 if lo < 0 else 1, 0, 7, hi]
            for a in avals:
                yield Case("p.sweep", [name, op, hx(a)])


def nm_cases(rng, quick):
    def norm_word(w):
        Bw = 1 << w
        return rng.choice([Bw >> 1, (Bw >> 1) + 1, Bw - 1, Bw - 2, (Bw >> 1) | 1, 3 << (w - 2), (3 << (w - 2)) + 1,
                           rng.getrandbits(w) | (Bw >> 1), rng.getrandbits(w) | (Bw >> 1)])
    def norm_dword(w):
        Bw = 1 << w
        return rng.choice([Bw * Bw >> 1, (Bw * Bw >> 1) + 1, Bw * Bw - 1, Bw * Bw - 2, (Bw >> 1) * Bw + Bw - 1,
                           (Bw - 1) * Bw, (Bw - 1) * Bw + 1, Bw * Bw - Bw, Bw * Bw - Bw - 1, Bw * Bw - Bw + 1,
                           (3 << (2 * w - 2)) + 16, rng.getrandbits(2 * w) | (Bw * Bw >> 1),
                           rng.getrandbits(2 * w) | (Bw * Bw >> 1), rng.getrandbits(2 * w) | (Bw * Bw >> 1)])
    def below(d):
        return rng.choice([0, 1, d - 1, d - 2 if d > 1 else 0, d >> 1, rng.randrange(0, d), rng.randrange(0, d)])
    def anyw(bits):
        return rng.choice([0, 1, (1 << bits) - 1, (1 << bits) - 2, 1 << (bits - 1), rng.getrandbits(bits), rng.getrandbits(bits)])
    n = 120 if quick else 6000
    for w in (8, 16, 32, 64):
        Bw = 1 << w
        for i in range(n):
            d = norm_word(w)
            yield Case("nm.inv1", [dec(w), hx(d)])
            yield Case("nm.div1by1", [dec(w), hx(d), hx(anyw(w))])
            yield Case("nm.div2by1", [dec(w), hx(d), hx(below(d) * Bw + anyw(w))])
            D = norm_dword(w)
            yield Case("nm.inv2", [dec(w), hx(D)])
            yield Case("nm.div2by2", [dec(w), hx(D), hx(anyw(2 * w))])
            yield Case("nm.div3by2", [dec(w), hx(D), hx(anyw(w)), hx(below(D))])
            yield Case("nm.div4by2", [dec(w), hx(D), hx(anyw(2 * w)), hx(below(D))])
    # 8-bit instance: exhaustive
    ds = range(128, 256) if not quick else [128, 129, 170, 254, 255]
    for d in ds:
        yield Case("nm.sweep2by1", [dec(8), hx(d)])
    step = 1024
    los = range(0x8000, 0x10000, step) if not quick else [0x8000, 0xfc00]
    for lo in los:
        yield Case("nm.sweepinv2", [dec(8), hx(lo), hx(step)])
    for i in range(40 if quick else 20000):
        D = norm_dword(8)
        yield Case("nm.sweep3by2", [dec(8), hx(D), hx(below(D))])


USES_GEN = True
GEN_PROPS = ["Dashu.Props.GenInt", "Dashu.Props.C02Plumbing", "Dashu.Props.C02PrimLink", "Dashu.Props.C02PrimBig"]
GEN_AUDIT = ["Dashu.Audit.GenInt", "Dashu.Audit.C02Plumbing", "Dashu.Audit.C02PrimLink", "Dashu.Audit.C02PrimBig"]

_C02 = ["truncating_conventions", "euclidean_conventions",
        "div_by_word_exact", "div_by_dword_exact", "rem_by_word_exact", "rem_by_dword_exact",
        "knuth_step_exact", "simple_div_rem_exact", "burnikel_ziegler_exact", "div_rem_large_exact",
        "ubig_div_rem_exact", "ubig_div_exact", "ubig_rem_exact", "ubig_division_identity",
        "ubig_is_multiple_of_exact", "is_multiple_of_const_exact", "is_multiple_of_const_zero",
        "ibig_div_exact", "ibig_rem_exact", "ibig_div_rem_exact", "ibig_div_euclid_exact",
        "ibig_rem_euclid_exact", "ibig_div_rem_euclid_exact", "ubig_ibig_rem_exact",
        "ubig_ibig_div_rem_exact", "ibig_is_multiple_of_exact",
        "const_divisor_new_value", "const_divisor_eq_plain", "const_divisor_ibig_exact",
        "nm_invert_word_exact", "nm_div_rem_2by1_exact", "nm_invert_double_word_exact",
        "nm_div_rem_3by2_exact", "nm_div_rem_4by2_exact", "nm_div_rem_1by1_2by2_exact", "nm_contracts_discharged",
        "div_scratch_memory_suffices", "prim_zero_divisor", "prim_min_neg_one", "prim_kernels_exact",
        # Props/C02Plumbing.lean (same namespace): the operator-trait plumbing table regenerated from the macro-expanded
        # source, and ConstDivisor::from_word / from_dword
        "plumbing_table_routes", "plumbing_table_forwards", "plumbing_table_forms", "evalCore_exact",
        "plumbing_every_impl_exact", "const_from_word_eq_new", "const_from_dword_eq_new", "const_from_dword_value",
        "const_from_word_value", "repr_table_arms", "repr_table_complete", "expectedArms_eval", "repr_every_impl_eq_model",
        "plumbing_division_identity", "ibig_is_multiple_of_const_exact",
        "div_rem_in_place_choice", "bz_entry_guard", "bz_same_len_guard", "bz_small_quotient_guards",
        "bz_small_quotient_recursive", "simple_entry_guards", "hw_estimate_guard", "hw_addback_guard",
        "div_by_word_guards", "rem_by_word_dword_guards", "div_by_dword_guards", "unshifted_carry_guard",
        # round 6: the arms of div_const::repr regenerated (Gen/DivPlumbing.constReprTable) and tied to divConst / remConst / divRemConst
        "const_repr_table_arms", "const_repr_table_complete", "constExpectedArms_eval", "const_repr_every_impl_eq_model",
        "rem_large_large_guard"]
_GEN = ["ibig_div_exact", "ibig_rem_exact", "ibig_divrem_exact", "ibig_div_euclid_exact",
        "ibig_rem_euclid_exact", "ibig_divrem_euclid_exact", "ubig_ibig_rem_exact", "ubig_ibig_divrem_exact"]
# round 7, Props/C02PrimLink.lean: the primitive-operand forms (`big.op(Big::from(prim)).try_into().unwrap()`) written on the C02
# model routes and composed with C15's checked-conversion theorems (Props/C15.primForm), by import of both
_PRIMLINK = ["ibig_rem_prim_eq", "ibig_divrem_prim_eq", "prim_div_ibig_eq", "ubig_rem_prim_exact", "ubig_divrem_prim_exact",
             "prim_div_ubig_exact", "ibig_rem_signed_prim_exact", "ibig_divrem_signed_prim_exact", "ibig_rem_unsigned_prim_exact",
             "signed_prim_div_ibig_exact", "ibig_rem_unsigned_prim_counterexample", "signed_prim_div_ibig_counterexample"]
# round 8, Props/C02PrimBig.lean: the primitive-operand forms with a big result (`Big / prim -> Big`) and the assign forms
# (DivAssign<prim>, DivRemAssign<prim> with OutputRem = prim) = the regenerated table entry `Trait<Big> for Big` on Big::from(prim)
# (+ C15's primForm for the DivRemAssign remainder)
_PRIMBIG = ["ofInt_operandOk", "big_prim_every_impl_exact", "divrem_assign_prim_eq", "ubig_divrem_assign_prim_exact",
            "ibig_divrem_assign_signed_prim_exact"]
THEOREMS = (["Dashu.Props.C02." + t for t in _C02] + ["Dashu.Props.GenInt." + t for t in _GEN]
            + ["Dashu.Props.C02PrimLink." + t for t in _PRIMLINK] + ["Dashu.Props.C02PrimBig." + t for t in _PRIMBIG])

REFINED = [
    "shift::shl_in_place / shr_in_place / shr_in_place_with_carry / shr_in_place_one_word, math::shl_dword / shr_word",
    "div::div_by_word_in_place (rhs=1, power-of-two shortcut, normalisation shift, remainder un-shift) + fast_div_by_word_in_place",
    "div::rem_by_word + fast_rem_by_normalized_word",
    "div::div_by_dword_in_place (power-of-two path 2^W..2^(2W-1), 3by2 top, 4by2 chain, odd leftover word) + fast_div_by_dword_in_place",
    "div::rem_by_dword + fast_rem_by_normalized_dword",
    "cmp::cmp_same_len, mul::sub_mul_word_same_len_in_place (carry_plus_max)",
    "div::simple::div_rem_highest_word (Knuth D: estimate never too small / too large by <= 1, borrow>lhs_top correction, both debug_asserts)",
    "div::simple::div_rem_in_place (quotient carry, loop)",
    "div::divide_conquer::{div_rem_in_place, div_rem_in_place_same_len, div_rem_in_place_small_quotient} (Burnikel-Ziegler: block loop, 2m/m estimate, add_signed_mul update, conditional sub_same_len, `while rem_overflow < 0` loop terminates within 4 rounds, all asserts) with C01's mirrored and proved add_signed_mul (theorems through it need W >= 4)",
    "div::normalize, div::div_rem_unshifted_in_place (q_top), div::div_rem_in_place (algorithm choice). Tie A: the length conditions of div::div_rem_in_place (`if`), divide_conquer::div_rem_in_place / same_len / small_quotient (`assert!`s and the `m <= THRESHOLD_SIMPLE` hand-over) are REGENERATED from the kernel sources (vlib/divplumb.py GUARDS -> Gen/DivPlumbing.guard_*) and the model functions are proved to branch exactly on them (div_rem_in_place_choice, bz_entry_guard, bz_same_len_guard, bz_small_quotient_guards, bz_small_quotient_recursive); likewise simple::div_rem_in_place's two `assert!`s and div_rem_highest_word's two decisions `lhs_top < *rhs_top` (3-by-2 estimate vs Word::MAX) and `borrow > lhs_top` (add-back) (simple_entry_guards, hw_estimate_guard, hw_addback_guard), the `rhs == 1` / `is_power_of_two()` / `shift == 0` shortcuts of div_by_word_in_place, rem_by_word, div_by_dword_in_place, rem_by_dword (div_by_word_guards, rem_by_word_dword_guards, div_by_dword_guards) and `lhs_carry > 0` of div_rem_unshifted_in_place (unshifted_carry_guard): 17 regenerated conditions in all",
    "div_ops::repr::{div_rem_in_lhs, div_rem_large, div_large, rem_large, div_rem_dword, div_rem_large_dword, rem_large_dword}",
    "DivRem / Div / Rem for TypedRepr / TypedReprRef (all four size-class arms, zero divisor -> panic_divide_by_0): the arms of all 12 impls of div_ops::repr (pattern order, callee per size class, the len() >= len() guard, what an undersized dividend returns incl. the clone_from_slice buffer reuse) are REGENERATED from the macro-expanded source (Gen/DivPlumbing.reprTable) and proved, impl by impl and for all magnitudes, equal to the model's divRemRepr / divRepr / remRepr (repr_every_impl_eq_model)",
    "TypedRepr::add_one; impl_ibig_div, impl_ibig_rem, impl_ibig_divrem, impl_ibig_div_euclid, impl_ibig_rem_euclid, impl_ibig_divrem_euclid, impl_ubig_ibig_rem, impl_ubig_ibig_divrem (model glue = glue regenerated from /repo = Int.tdiv/tmod resp. ediv/emod)",
    "UBig::is_multiple_of, IBig::is_multiple_of, UBig/IBig::is_multiple_of_const = TypedReprRef::is_multiple_of_dword (its own zero test -> the documented divide-by-zero panic, shrink_dword, rem_by_word / rem_by_dword); zero divisor generated and compared",
    "operator-trait plumbing: every `impl Trait<Rhs> for Lhs` of Div / Rem / DivRem / DivEuclid / RemEuclid / DivRemEuclid / DivAssign / RemAssign / DivRemAssign on UBig / IBig / ConstDivisor in every ownership form (108 impls: helper_macros forward_ubig_binop_to_repr / forward_ibig_binop_to_repr / forward_ubig_ibig / forward_ibig_ubig, impl_binop_assign_by_taking, the hand-written ConstDivisor impls). The table (operand accessors, sign-table macro or wrapper shape, TypedRepr dispatch functions called) is REGENERATED on every run from the macro-expanded crate (vlib/divplumb.py -> Gen/DivPlumbing.lean, registered in vlib/extract.py); the driver runs every op through ALL table entries of its traits; theorem plumbing_every_impl_exact: every entry, run along its route, gives the truncating resp. Euclidean quotient/remainder of the documented result types, or the divide-by-zero panic, for all operands",
    "primitive-operand forms of div_ops.rs (Rem<prim> -> prim, DivRem<prim>, Div<Big> for prim; macro bodies `big.op(Big::from(prim)).try_into().unwrap()` read by hand): link theorems Props/C02PrimLink - the C02 model route on Big::from(prim) composed with C15's checked conversion (Props/C15.primForm) returns the documented value without a conversion panic exactly in the form classes C15 proves, DivideByZero for a zero divisor, and fails the conversion on the two finding classes recorded under C15 (round 7, by import of Props/C02Plumbing and Props/C15)",
    "primitive-operand forms with a big result and the assign forms (`Div<prim> for Big -> Big`, `DivAssign<prim>`, `DivRemAssign<prim>` with OutputRem = prim; macro bodies `self.method(Big::from(rhs))[.try_into().unwrap()]` read by hand): Props/C02PrimBig (round 8) - EVERY entry `Trait<Big> for Big` of the regenerated operator table (Gen/DivPlumbing.table), run along its route (Entry.eval, an assign entry forwarding to the by-value impl) on Big::from(p) = SRepr.ofInt p, gives DivideByZero for p = 0 and otherwise well-formed results of the documented types denoting tdiv / tmod (resp. Euclidean) of a by p (big_prim_every_impl_exact); for DivRemAssign<prim> the quotient is left in self and the remainder passes C15's checked conversion without a panic for UBig with 0 < p <= uN::MAX and IBig with p != 0 in a signed range (ubig_divrem_assign_prim_exact, ibig_divrem_assign_signed_prim_exact, over C15.ubig_rem_unsigned_fits / ibig_rem_signed_fits)",
    "ConstDivisor::from_word / from_dword mirrored directly (own zero tests, shrink_dword, ConstSingleDivisor::new / ConstDoubleDivisor::new with their debug_asserts) and proved equal to ConstDivisor::new of the same value (const_from_word_eq_new, const_from_dword_eq_new), zero included",
    "base/src/ring/div_rem.rs impl_div_rem_ops_prim (DivRem, DivRemAssign, DivRemEuclid with its sign fix-up and overflow checks; DivEuclid/RemEuclid forward to std) for every machine integer type: zero divisor and MIN / -1 panic, otherwise tdiv/tmod resp. Euclidean quotient/remainder, all in range",
    "div::memory_requirement_exact / divide_conquer::memory_requirement_exact: sufficient for every scratch allocation of div_rem_in_place, all operand lengths (memory.rs 'not enough memory allocated' unreachable)",
    "num-modular 0.6 Normalized2by1Divisor::{invert_word, div_rem_1by1, div_rem_2by1} and Normalized3by2Divisor::{invert_double_word, div_rem_2by2, div_rem_3by2, div_rem_4by2} (Moeller-Granlund Algorithms 4, 5, 6 with every wrapping operation) = floor division under the crate's preconditions; the division model's contract parameters are discharged (nm_contracts_discharged)",
    "ConstDivisor::new (single/double/large, zero -> divide-by-zero panic), value(); div_rem_small_single, div_rem_small_double, ConstSingleDivisor::{rem_dword, rem_large}, ConstDoubleDivisor::{rem_dword, rem_large}; Div / Rem / DivRem<&ConstDivisor> for TypedRepr, IBig forms. Tie A (round 6): the arms of all four `impl Div / Rem / DivRem<&ConstDivisorRepr> for TypedRepr / TypedReprRef` of div_const::repr (pattern order; the body of each of the 24 arms classified token for token: callee, Repr::from_word / from_dword / from_buffer / zero, the `>> shift`, the `buffer.len() < div_len` guard, erase_front / push_resizing / truncate / shift-back with debug_assert_zero!) and the body of `fn rem_large_large` with its `lhs.len() >= modulus.len()` condition are REGENERATED from integer/src/div_const.rs (Gen/DivPlumbing.constReprTable, remLargeLargeShape, guard_rem_large_large_reduce) and proved, impl by impl and for all dividends and prepared divisors, equal to the model's divConst / remConst / divRemConst (const_repr_every_impl_eq_model, rem_large_large_guard)",
]
FRONTIER = [
    "operator-trait plumbing, what remains outside the theorem: (a) that the macro-expanded listing read by vlib/divplumb.py is what rustc compiles (the expansion is rustc's own -Zunpretty=expanded output; a body outside the recognised shapes becomes Core.other and fails closed) and the meaning given to the recognised shapes by DivPlumbing.evalCore (`UBig(L.div(R))` = divRepr etc.) - tied by the correspondence: the harness evaluates all ownership/assign forms and prints forms-disagree on a difference; (b) by-value vs by-reference operands are the same model value (ownership has no semantic content in the model; buffer reuse is C17's)",
    "primitive-operand forms of div_ops.rs (impl_binop_with_primitive / impl_div_by_primitive / impl_divrem_with_primitive: UBig|IBig op uN|iN, uN|iN / UBig|IBig, Rem -> primitive) are not DRIVEN by C02 (C15 drives every such form; two findings about them are recorded under C15). Since round 7 they are linked by theorem (Props/C02PrimLink, imports Props/C02Plumbing + Props/C15): the composition `big-operand route of the C02 model (remRepr / divRemRepr / divRepr, ibigRem / ibigDivRem / ibigDiv on Big::from(prim)) then C15.primForm` returns the documented remainder / quotient with no conversion panic for UBig % uN, UBig.div_rem(uN), uN / UBig, IBig % iN, IBig.div_rem(iN), IBig % uN with a non-negative dividend, iN / IBig except MIN / -1, the divide-by-zero panic for a zero divisor, and `none` on the two finding classes. What remains outside: that the macro bodies are this composition is read from the source text by hand (the three macros are not regenerated), `Big::from(prim)` is taken as ofNat / SRepr.ofInt of the value (C16 owns the conversions). Since round 8 the assign forms (DivAssign / DivRemAssign with a primitive) and `Big / prim -> Big` are theorems over the regenerated table entries on Big::from(prim) (Props/C02PrimBig); still outside: `IBig.div_rem_assign(uN)` with a negative dividend (the remainder conversion fails there - the same finding class as `IBig % uN` recorded under C15; only the general form divrem_assign_prim_eq covers it, giving primForm of the negative remainder), and that the macro instantiates the by-value `Trait<Big> for Big` impl (read by hand)",
    "div_const::repr, what remains outside the regenerated arm table: the MEANING given to each recognised arm body (DivPlumbing.CAct.eval: e.g. `erase_front(div_len); push_resizing(q_top)` = drop n ++ [qTop]) is hand-written, tied to the code by the correspondence only; the bodies of div_rem_small_single / div_rem_small_double and of ConstSingleDivisor / ConstDoubleDivisor::{rem_dword, rem_large} are hand-mirrored (proved = plain division, compared on every run) but not regenerated",
    "ConstLargeDivisor::rem_large / rem_repr and the Reducer impls belong to C13 and are not modelled here",
    "primitive.rs / math.rs word helpers (double_word, split_dword, extend_word, shrink_dword, highest_dword, lowest_dword, split_hi_word) are inlined as Nat arithmetic; std intrinsics (leading_zeros, trailing_zeros, is_power_of_two, <<, >>, &, |, checked_div) and, for the primitive kernels, Rust's `/` `%` and std div_euclid / rem_euclid are taken at their documented meaning (see ASSUMPTIONS) - no executable Rust-semantics model exists below these, so nothing can carry them further",
    "the allocator side of MemoryAllocation::new (alloc returning null, size > isize::MAX) is C17's; C02 proves only that the requested scratch size suffices",
    "Burnikel-Ziegler and everything above it is proved for W >= 4 only (C01's multiplication theorems need it); the word / double-word / Knuth-D kernels for W >= 1. dashu supports W in {16, 32, 64}",
]
RULE = ("corpus, then: every form (u/i/ui/iu x div,rem,divrem,diveuclid,remeuclid,divremeuclid,ismultiple; ConstDivisor cdiv,crem,cdivrem,cdivrem2 "
        "for UBig and IBig; is_multiple_of_const; ConstDivisor::value/from_word/from_dword) x {zero divisor with dividends of each representation class; "
        "divisors 2^k, 2^k+-1 for every k in 0..192 with dividends 0..3 words longer; one-word divisors (1, 2, B-1, B/2, B/2+-1, ...) and two-word divisors "
        "(B, B+1, 2B-1, B^2-1, B^2/2, ...) with/without top bit x dividends of 0..70 (thorough: 1025) words; multi-word divisors of sizes {3,4,5,8,16,31,32,33,34,40,47,63..70} "
        "x quotient sizes from the same set (both sides of THRESHOLD_SIMPLE=32 on both lengths) with a = q*b + r, q's top word all ones, r in {0,1,b-1,b/2,random}; "
        "quotient-carry dividends (top n words >= b); estimate-too-large constructions (b = d*B^(n-2) + all-ones low part, a = Q*d*B^(n-2)); dividend top word = divisor top word; "
        "a<b, a=b, a=0; heap dividends with fewer words than a heap divisor; Burnikel-Ziegler inner boundaries (divisors of 2T-1..2T+2 words, dividends of 2n, 2n+-1, n+T+1, n+T+2, 2n+T, 2n+T+1, 3n words: small_quotient entered with exactly T / T+1 quotient words); ConstDivisor one-word divisors with top bit set x two-word dividends around `high word < divisor`; random structured operands}; signs random. "
        "is_multiple_of_const(0) on every dividend class; extreme Word / DoubleWord arguments of from_word / from_dword / is_multiple_of_const (0, 1, W-1, W, W+1, 2W, 2^31, 2^32-1, 2^32+k, 2^63+-k, 2^64-1-k, 2^64+k, 2^127+-k, 2^128-1-k for k < 131) as divisors of q*d, q*d+-1; "
        "divisors of EVERY bit length 1..260 (2^(L-1), 2^L-1, random) with dividends q*b-1, q*b, q*b+r. "
        "Thorough adds 3000-word dividends and Burnikel-Ziegler sizes up to 1500 x 1500 words. Every case runs all ownership/assign call forms in the harness. "
        "Measured reach of the quick tier (Python replay of the branch conditions over the generated cases): Knuth steps 33845 of which estimate=B-1 3970 and add-back 384; "
        "quotient carry 390 (simple) + 48 (B-Z); shift carry > 0 611; normalisation shift = 0 922 / > 0 1970; B-Z 234 cases; power-of-two word divisors 143, double-word 225 "
        "(19 with 2^W exactly); odd leftover word 482; lhs shorter than divisor 157; zero divisor 140; ConstDivisor single/double/large x inline/heap all > 40 each. "
        "Non-trivial := some operand >= 3 words; distinct := distinct (op,args) lines.")
EXPLANATION = ("Theorems (all W >= 1 for the word/double-word/Knuth-D kernels, W >= 4 for everything that can reach Burnikel-Ziegler's multiplication; all lengths): the word-divisor and double-word-divisor loops, the power-of-two shortcuts, Knuth D (estimate, correction, loop, quotient carry), "
               "Burnikel-Ziegler (calling C01's proved multiplication), normalize / unshifted division / remainder shift-back, the four size-class arms of `/`, `%`, div_rem on magnitudes, zero divisor = documented panic in every form, "
               "is_multiple_of, is_multiple_of_const (zero included), ConstDivisor (new/from_word/from_dword/value and Div/Rem/DivRem for UBig and IBig) = plain division; and, over the table of all 108 operator impls regenerated from the macro-expanded source, that every trait method in every ownership/assign form reaches a route that computes its documented quotient/remainder (plumbing_every_impl_exact). The IBig and mixed sign tables executed by the model are proved equal "
               "to the glue regenerated from /repo's macros (Tie A), whose meaning (Int.tdiv/tmod, Int.ediv/emod) is proved in Props/GenInt. num-modular's dividers (Moeller-Granlund) are mirrored and proved equal to floor division, so no contract parameter remains besides std bit intrinsics.")
ASSUMPTIONS = [
               "Rust's primitive `/`, `%` (truncating; panic on zero divisor and on MIN / -1 in every profile) and std `div_euclid` / `rem_euclid` at their documented meaning",
               "u64::leading_zeros, trailing_zeros, is_power_of_two, <<, >>, &, | at their documented meaning",
               ]
TRUSTED = ["the hand-written mirror of num-modular's dividers is tied to the crate by direct calls (nm.* ops at W = 8/16/32/64, exhaustive sweeps of the 8-bit instance in the thorough tier)"]
LEVEL_TEXT = ("Machine-checked Lean 4 theorems, for every word size W >= 1 and every operand length, that the mirrored division code of dashu-int (single- and double-word divisor "
              "loops with their power-of-two shortcuts, Knuth algorithm D with normalisation, top-word correction and quotient carry, the size-class dispatch, the zero-divisor panic "
              "in every form, the truncating and Euclidean sign conventions, is_multiple_of, and ConstDivisor in all three classes) computes exactly a = q*b + r with the documented "
              "conventions; the hand-written model is tied to /repo on every run by differential execution of model and real code over structured operands around every branch condition, "
              "all call forms, and the sign tables and the operator-trait plumbing table (which dispatch function / sign table / operand accessor each of the 108 impls uses) additionally by regeneration from the (macro-expanded) source, with a theorem over every regenerated entry; the size-class arms of div_ops::repr and of div_const::repr (division through a prepared ConstDivisor) and 18 branch / assert conditions of the division kernels are regenerated too, with theorems that the model functions branch exactly on them. The divide-and-conquer algorithm (Burnikel-Ziegler, divisor and quotient both > 32 words) "
              "is refined too; the multiplication it calls is C01's mirrored and proved kernel (those theorems hold for W >= 4).")
LEVEL_NOTE = ("Trusted: Lean kernel; axioms propext/Classical.choice/Quot.sound; std bit intrinsics (leading_zeros, is_power_of_two, shifts) at their documented meaning; num-modular's dividers are "
              "mirrored (Algorithms 4/5/6) and proved, the mirror being tied to the crate by direct differential calls incl. exhaustive 8-bit sweeps; the correspondence harness and generators (sampling) for the tie "
              "model<->code. Finding recorded and fixed in /repo (commit 2941615): ConstDivisor `%` with a "
              "normalised one-word divisor and an inline dividend whose high word is >= the divisor.")
TECHNIQUE = "Lean 4 refinement proofs (induction over word lists, all W) + differential correspondence model vs real code + sign tables and operator plumbing table regenerated from source"
READY = True
