"""C08 — float text I/O is lossless; base/precision changes are faithfully rounded (DESIGN §8 C08)."""
from vlib.core import Case
from vlib.gens import *
from vlib.props.c07 import to_radix, sb, ALNUM

GROUP = "text"
USES_GEN = True
READY = True
LEAN_PROPS = "Dashu.Props.C08"
LEAN_AUDIT = "Dashu.Audit.C08"
JOBS = 14

BASES = [2, 3, 8, 10, 16, 36]
MODES = "ZAUDEH"
FFLAGS = ["-", "+", "0", "+0", "<", "^", ">", "*<", "*^", "*>", "+*^", "0<"]
MARKERS = {10: "eE@", 2: "bB@", 8: "oO@", 16: "hH@", 3: "@", 36: "@"}
# base pairs instantiated in the harness
# round 6: COMM = commensurable bases (powers of a common root) that are NOT powers of one another — `ilog_exact` must answer 0 for
# them (its loop ends with pow > n), so they take the general branches although every digit boundary of one is a bit/trit boundary
# of the other; NESTED = powers with a root other than 2 / a composite smaller base (ilog_exact answers n >= 2)
COMM_PAIRS = [(4, 32), (32, 4), (4, 8), (8, 4), (16, 8), (9, 27), (27, 9)]
NESTED_PAIRS = [(4, 16), (16, 4), (3, 9), (9, 3), (27, 3)]
PAIRS = [(2, 10), (10, 2), (2, 16), (16, 2), (2, 8), (8, 2), (10, 16), (16, 10), (3, 10), (10, 3), (2, 3), (3, 2), (36, 10), (10, 36), (8, 16)] \
    + COMM_PAIRS + NESTED_PAIRS
PAIRS_CHK = [(2, 10), (10, 2), (10, 16), (16, 10), (3, 10), (10, 3), (2, 3), (3, 2), (36, 10), (10, 36), (4, 32), (32, 4), (27, 9)]
THRESH = 38          # THRESHOLD_SMALL_EXP for 64-bit words


def ndigits(n, b):
    n = abs(n)
    d = 0
    while n:
        n //= b
        d += 1
    return d


def norm(s, e, b):
    if s == 0:
        return 0, 0
    while s % b == 0:
        s //= b
        e += 1
    return s, e


def farg(b, s, e, prec, mode):
    return "f:%d:%s:%d:%d:%s" % (b, hx(s), e, prec, mode)


def rand_digits(rng, b, n, hexform=False):
    r = 16 if hexform else b
    return "".join(ALNUM[rng.randrange(r)] for _ in range(n))


def us(rng, s, p=0.1):
    out = []
    for ch in s:
        out.append(ch)
        if rng.random() < p:
            out.append("_")
    return "".join(out)


def case_mix(rng, s):
    m = rng.randrange(3)
    return s if m == 0 else s.upper() if m == 1 else "".join(c.upper() if rng.random() < 0.5 else c for c in s)


def gen_literal(rng, b):
    """a literal of the documented grammar for base b"""
    hexform = b == 2 and rng.random() < 0.35
    ni = rng.choice([0, 1, 1, 2, 3, 5, 19, 20, 40, 200])
    nf = rng.choice([0, 0, 1, 2, 3, 7, 19, 60, 200])
    dot = nf > 0 or rng.random() < 0.3
    if ni == 0 and nf == 0:
        ni = 1
    ip = rand_digits(rng, b, ni, hexform)
    fp = rand_digits(rng, b, nf, hexform)
    if rng.random() < 0.2:
        ip = "0" * rng.randrange(1, 4) + ip
    if rng.random() < 0.2 and fp:
        fp = fp + "0" * rng.randrange(1, 4)
    if rng.random() < 0.25:
        ip = us(rng, ip)
        fp = us(rng, fp)
    ip, fp = case_mix(rng, ip), case_mix(rng, fp)
    body = ("0x" if hexform and rng.random() < 0.8 else "0X" if hexform else "") + ip + ("." + fp if dot else "")
    sign = rng.choice(["", "", "+", "-"])
    k = rng.random()
    if k < 0.45:
        scale = ""
    else:
        mk = rng.choice("pP@" if hexform else MARKERS[b])
        ev = rng.choice([0, 1, 2, 5, 17, 38, 39, 100, 999, 5000])
        es = rng.choice(["", "+", "-"]) + ("0" * rng.randrange(0, 3)) + str(ev)
        scale = mk + es
    return sign + body + scale


MALFORMED = ["", "+", "-", ".", "-.", "+.", "_", "_._", "1__2", "1._", "_.1", "..", "1..2", "1.2.3", ".e5", "e5", "1e", "1e+", "1e-", "1e5_0",
             "1e5.5", "1e99999999999999999999", "1e-99999999999999999999", "1.+5", "1.-5", "++5", "+-5", "-+5.0", "--5", "0x.", "0x.p5",
             "0x", "0xp5", "0x1p", "0x1.8p-1", "0X1.8P+1", "1.1p1", "1p1", ".8p1", "0x_1.8p1", "0x1_.8", "0x+1.8", "1b3", "1B-3", "1o3", "1h3",
             "1@3", "1@+3", "1@", "@3", "1e5e3", "1 ", " 1", "1.0 ", "1é", "é1", "1é5", "1e٣", "１.5", "inf", "-inf",
             "nan", "1e٣", "0x1g", "0b1.1", "1,5", "1_000.000_1", "1e+0", "-0", "-0.0", "0.", ".0", "00.00", "1.e2", "1.e", "0x1.", "0x.8"]


def gen_parse(rng, tier):
    n = 250 if tier == "quick" else 12000
    for b in BASES:
        for _ in range(n):
            s = gen_literal(rng, b)
            yield Case("f.parse", [dec(b), rng.choice(MODES), sb(s)], nontrivial=len(s) > 12)
        for s in MALFORMED:
            yield Case("f.parse", [dec(b), rng.choice(MODES), sb(s)], nontrivial=False)
        # mutated literals
        for _ in range(n // 2):
            s = list(gen_literal(rng, b))
            pos = rng.randrange(len(s) + 1)
            k = rng.randrange(6)
            if k == 0:
                s.insert(pos, rng.choice(["+", "-", ".", "_", "e", "p", "@", "x"]))
            elif k == 1 and s:
                s[min(pos, len(s) - 1)] = rng.choice(["é", "٣", " ", "/", ":", "g", "z", "Z", "G"])
            elif k == 2 and s:
                del s[min(pos, len(s) - 1)]
            elif k == 3:
                s.insert(pos, rng.choice(["１", "\U0001f600", "²"]))
            elif k == 4:
                s = s + list(rng.choice(["e", "E", "@", "p", "e+", "e-", "@-"]))
            else:
                s = list(rng.choice(["+", "-"])) + s
            yield Case("f.parse", [dec(b), rng.choice(MODES), sb("".join(s))], nontrivial=True)


def rand_float(rng, b, tier):
    nd = rng.choice([1, 1, 2, 3, 5, 10, 19, 20, 40, 77, 200])
    lo, hi = b ** (nd - 1), b ** nd - 1
    pat = rng.randrange(5)
    if pat == 0:
        s = hi
    elif pat == 1:
        s = lo
    else:
        s = rng.randrange(lo, hi + 1)
    e = rng.choice([0, 0, 1, -1, -2, -3, -nd, -nd + 1, -nd - 1, -nd - 3, 5, 17, -17, 38, -38, 39, -39, 100, -100]
                   + ([1000, -1000, 5000, -5000] if tier == "thorough" else [300, -300]))
    if rng.random() < 0.5:
        s = -s
    if rng.random() < 0.03:
        s = 0
    s, e = norm(s, e, b)
    prec = ndigits(s, b) + rng.choice([0, 0, 1, 5]) if s else rng.choice([0, 1, 7])
    return s, e, prec


def halfway_float(rng, b, k):
    """a value whose digit after the k-th fractional digit is around the half-way point"""
    hd = rng.randrange(1, b ** 3)
    tail = rng.choice([b // 2, b // 2, b // 2 - 1 if b > 2 else 0, (b + 1) // 2, 0, b - 1])
    extra = rng.choice([0, 0, 1, b - 1, rng.randrange(b)])
    nx = rng.choice([0, 1, 3])
    s = (hd * b + tail) * b ** nx + (extra if nx else 0)
    e = -(k + 1 + nx)
    if rng.random() < 0.5:
        s = -s
    s, e = norm(s, e, b)
    return s, e, max(1, ndigits(s, b))


def gen_fmt(rng, tier):
    n = 500 if tier == "quick" else 20000
    for _ in range(n):
        b = rng.choice(BASES)
        mode = rng.choice(MODES)
        kind = rng.choice(["disp", "disp", "lexp", "uexp"])
        if rng.random() < 0.4:
            k = rng.choice([0, 1, 2, 5])
            s, e, prec = halfway_float(rng, b, k)
            p = k if rng.random() < 0.8 else rng.choice([0, 1, 2, 3])
        else:
            s, e, prec = rand_float(rng, b, tier)
            if abs(e) > 400:
                e = rng.choice([-400, 400, -50, 50])
            p = rng.choice([None, None, 0, 1, 2, 3, max(0, -e), max(0, -e - 1), -e + 2 if e < 0 else 4, 30])
        if kind != "disp" and p is not None and rng.random() < 0.5:
            # scientific: precision around the digit count, all-nines to force the carry
            nd = rng.choice([1, 2, 3, 6])
            s = (b ** nd - 1) * rng.choice([1, -1])
            s, e = norm(s, rng.choice([0, -1, -nd, 3]), b)
            prec = nd
            p = rng.choice([0, 1, nd - 1, max(0, nd - 2), nd, nd + 2])
        tot = ndigits(s, b) + abs(e) + 3
        w = rng.choice([None, None, None, 0, 3, tot - 2, tot, tot + 1, tot + 4, 12])
        if w is not None and w < 0:
            w = None
        plus = rng.choice(["-", "-", "+"]) if w is None else rng.choice(FFLAGS)
        yield Case("f.fmt", [kind, "none" if p is None else dec(p), "none" if w is None else dec(w), plus, farg(b, s, e, prec, mode)],
                   nontrivial=p is not None or w is not None)
    # Binary / Octal / LowerHex / UpperHex (scientific form in the trait's base; hexadecimal form 0xh.hhhp±e for base 2)
    for _ in range(300 if tier == "quick" else 12000):
        kind, b = rng.choice([("bin", 2), ("oct", 8), ("lhex", 16), ("uhex", 16), ("lhex", 2), ("uhex", 2), ("lhex", 2)])
        mode = rng.choice(MODES)
        s, e, prec = rand_float(rng, b, tier)
        if abs(e) > 400:
            e = rng.choice([-400, 400, -50, 50])
        nd = ndigits(s, b)
        hexd = (nd + 3) // 4 if (b == 2 and kind != "bin") else nd
        p = rng.choice([None, None, 0, 1, 2, max(0, hexd - 1), max(0, hexd - 2), hexd, hexd + 2])
        if p is not None and rng.random() < 0.4:
            # all-ones / all-nines significands: the rounding carries into a new digit
            k = rng.choice([1, 2, 3, 4, 5, 8, 9, 13])
            s = (b ** k - 1) * rng.choice([1, -1])
            s, e = norm(s, rng.choice([0, -1, -k, 3]), b)
            prec = k
            kk = (k + 3) // 4 if (b == 2 and kind != "bin") else k
            p = rng.choice([0, 1, max(0, kk - 1), max(0, kk - 2), kk])
        tot = hexd + 6
        w = rng.choice([None, None, 0, 3, tot, tot + 1, tot + 5, 24])
        fl = rng.choice(["-", "-", "+"]) if w is None else rng.choice(FFLAGS)
        yield Case("f.fmt", [kind, "none" if p is None else dec(p), "none" if w is None else dec(w), fl, farg(b, s, e, prec, mode)],
                   nontrivial=True)
    # Debug of FBig and Repr (plain and pretty): significands on both sides of the two-word boundary of the integer Debug form
    for _ in range(120 if tier == "quick" else 4000):
        b = rng.choice(BASES)
        mode = rng.choice(MODES)
        kind = rng.choice(["dbg", "dbga", "rdbg", "rdbga"])
        bits = rng.choice([0, 1, 5, 63, 64, 65, 127, 128, 129, 130, 200, 700])
        s = 0 if bits == 0 else rng.choice([(1 << bits) - 1, 1 << (bits - 1), (1 << (bits - 1)) | rng.getrandbits(bits - 1)])
        if rng.random() < 0.5:
            s = -s
        s, e = norm(s, rng.choice([0, 1, -1, -7, 30, -300]), b)
        prec = ndigits(s, b) + rng.choice([0, 0, 3]) if s else rng.choice([0, 5])
        yield Case("f.fmt", [kind, "none", "none", "-", farg(b, s, e, prec, mode)], nontrivial=bits > 64)
    # tiny non-zero values printed with {:.N}: the directed modes must still round away from / toward zero as the mode says
    #    (Up/Away of a tiny positive value is 0.0..01, Down/Away of a tiny negative one is -0.0..01), all six modes, both signs
    for b in (BASES if tier == "thorough" else [2, 10, 36]):
        for mode in MODES:
            for sgn in (1, -1):
                for p in (0, 1, 3):
                    for k in (p + 1, p + 2, p + 9, 60):
                        for s0 in (1, b // 2, b - 1):
                            s, e = norm(sgn * s0, -k, b)
                            yield Case("f.fmt", ["disp", dec(p), "none", "-", farg(b, s, e, max(1, ndigits(s, b)), mode)], nontrivial=True)
    # negative values that round to zero under {:w.p} (`signif_str` is EMPTY after the sign is cut: the width computation counts
    #    no significand digit and p+1 leading zeros) and their neighbours that round to -0.0..01, with width, fill, alignment, zero flag
    for b in BASES:
        for mode in MODES:
            for p in (0, 1, 3):
                for k in (p + 1, p + 4):
                    s, e = norm(-rng.choice([1, b // 2, b - 1]), -k, b)
                    for w in (p + 2, p + 3, p + 7):
                        yield Case("f.fmt", ["disp", dec(p), dec(w), rng.choice(FFLAGS), farg(b, s, e, max(1, ndigits(s, b)), mode)], nontrivial=True)
    # exponent-zero integers with a width (layout)
    for b in BASES:
        for v in [0, 1, b - 1, b + 1, 123, -45]:
            s, e = norm(v, 0, b)
            for w in [None, 1, 5, 8]:
                yield Case("f.fmt", ["disp", "none", "none" if w is None else dec(w), "-", farg(b, s, e, max(1, ndigits(s, b)), "Z")], nontrivial=False)


def gen_rt(rng, tier):
    n = 400 if tier == "quick" else 20000
    for _ in range(n):
        b = rng.choice(BASES)
        s, e, prec = rand_float(rng, b, tier)
        yield Case("f.rt", [farg(b, s, e, prec, rng.choice(MODES))], nontrivial=abs(e) > 3)


def is_pow_related(b, nb):
    lo, hi = min(b, nb), max(b, nb)
    p = lo
    while p < hi:
        p *= lo
    return p == hi and lo != hi


def gen_conv(rng, tier):
    n = 600 if tier == "quick" else 25000
    for _ in range(n):
        b, nb = rng.choice(PAIRS)
        mode = rng.choice(MODES)
        s, e, prec = rand_float(rng, b, tier)
        rel = is_pow_related(b, nb)
        if not rel and abs(e) > THRESH:
            e = rng.choice([-THRESH, THRESH, -THRESH + 1, 0, 3, -3, -20, 20])
            s, e = norm(s, e, b)
            if abs(e) > THRESH:
                e = THRESH if e > 0 else -THRESH
        if rel and abs(e) > 400:
            e = 400 if e > 0 else -400
        if prec == 0:
            prec = 1
        if rng.random() < 0.6:
            p = rng.choice([1, 2, 3, 5, 8, 16, 24, 53, 64, 100, ndigits(s, b), 3 * ndigits(s, b) + 2, 0 if rel else 7])
            yield Case("f.with_base_prec", [dec(nb), dec(p), farg(b, s, e, prec, mode)], nontrivial=abs(e) > 0)
        else:
            if rng.random() < 0.3:
                prec = rng.choice([32, 33, 40, 43, 64, 100, 128, 129]) + 0 * prec   # B^p around and beyond 2^128
                prec = max(prec, ndigits(s, b))
            yield Case("f.with_base", [dec(nb), farg(b, s, e, prec, mode)], nontrivial=abs(e) > 0)
    # exactly representable values with exponent magnitude 20..38 (the upper part of the exact-evaluation range of
    #    convert_base, |e| <= 38) between bases that are not powers of one another: the result must be exact and flagged Exact
    for (b, nb) in [(x, y) for (x, y) in PAIRS if not is_pow_related(x, y)]:
        for e in ([20, 21, 25, 30, 31, 37, 38] if tier == "quick" else list(range(18, 39))):
            for mode in (rng.sample(MODES, 2) if tier == "quick" else MODES):
                s0 = rng.choice([1, -1, b - 1, b + 1, rng.randrange(1, b ** 3)])
                s, e2 = norm(s0, e, b)
                if s == 0 or abs(e2) > THRESH:
                    continue
                # positive exponent: an integer, representable once the precision covers all its digits
                need = ndigits(abs(s) * b ** e2, nb) + 2
                prec = ndigits(s, b) + e2 + 3            # source precision chosen so that the derived precision suffices
                yield Case("f.with_base_prec", [dec(nb), dec(need), farg(b, s, e2, max(1, ndigits(s, b)), mode)], nontrivial=True)
                yield Case("f.with_base", [dec(nb), farg(b, s, e2, prec + 8, mode)], nontrivial=True)
                # negative exponent: s / b^k is representable in base nb iff every prime of b divides nb (2 -> 10, 3 -> 36 ...)
                if all(nb % q == 0 for q in range(2, b + 1) if b % q == 0 and all(q % t for t in range(2, q))):
                    s, e3 = norm(s0, -e, b)
                    if s and abs(e3) <= THRESH and abs(e3) >= 18:
                        need = ndigits(abs(s) * (nb ** abs(e3)) // (b ** abs(e3)), nb) + 2
                        yield Case("f.with_base_prec", [dec(nb), dec(max(need, 1)), farg(b, s, e3, max(1, ndigits(s, b)), mode)], nontrivial=True)
    # the long-dividend path of the division branch (exp < 0, quotient longer than the precision: split_digits of the
    #    integer quotient + round_ratio): quotients whose dropped digits are ALL ZERO (only the division remainder makes the
    #    value inexact), exactly half, or just around it — shift = digits(q) - p in {1,2,3}
    npairs = [(x, y) for (x, y) in PAIRS if not is_pow_related(x, y)]
    for (b, nb) in (rng.sample(npairs, 4) if tier == "quick" else npairs):
        for k in ([1, 5, 38] if tier == "quick" else [1, 2, 5, 17, 30, 38]):
            den = b ** k
            for p in (1, 2, 5):
                for shift in (1, 2, 3):
                    hi = rng.randrange(nb ** (p - 1), nb ** p)
                    unit = nb ** shift
                    for lo, r in ((0, 1), (0, den - 1), (0, den // 2), (0, rng.randrange(1, den)), (unit // 2, 0), (unit // 2, 1),
                                  (unit // 2 - 1, den - 1), (unit - 1, den - 1)):
                        a = (hi * unit + lo) * den + r
                        if a % b == 0:
                            a += 1
                        for mode in (rng.sample(MODES, 2) if tier == "quick" else MODES):
                            sg = rng.choice([1, -1])
                            yield Case("f.with_base_prec", [dec(nb), dec(p), farg(b, sg * a, -k, ndigits(a, b), mode)], nontrivial=True)
    # the large-exponent branch: judged by exact arithmetic in the harness
    m = 150 if tier == "quick" else 6000
    for _ in range(m):
        b, nb = rng.choice(PAIRS_CHK)
        mode = rng.choice(MODES)
        nd = rng.choice([1, 1, 2, 5, 10, 20, 50])
        s = rng.randrange(b ** (nd - 1), b ** nd) * rng.choice([1, -1])
        if rng.random() < 0.3:
            s = rng.choice([1, -1, b - 1, b + 1])
        e = rng.choice([39, 40, 41, 50, 64, 70, 100, 128, 200, 300]) * rng.choice([1, 1, -1])
        s, e = norm(s, e, b)
        if abs(e) <= THRESH:
            continue                       # normalisation moved it into the exact-evaluation branch
        prec = max(ndigits(s, b), rng.choice([1, 10, 30, 60, 100]))
        if rng.random() < 0.5:
            yield Case("f.with_base_chk", [dec(nb), "auto", farg(b, s, e, prec, mode)])
        else:
            yield Case("f.with_base_chk", [dec(nb), dec(rng.choice([1, 2, 5, 17, 30, 53, 64, 120, 400])), farg(b, s, e, prec, mode)])


def gen_ieee(rng, tier):
    specials32 = [0x00000000, 0x80000000, 0x00000001, 0x807fffff, 0x007fffff, 0x00800000, 0x7f7fffff, 0xff7fffff, 0x7f800000, 0xff800000,
                  0x7fc00000, 0x7f800001, 0xffffffff, 0x3f800000, 0xbf800000, 0x3f000000, 0x4b800000, 0x4b7fffff, 0x00400000, 0x3eaaaaab]
    specials64 = [0x0, 0x8000000000000000, 0x1, 0x800fffffffffffff, 0x000fffffffffffff, 0x0010000000000000, 0x7fefffffffffffff,
                  0xffefffffffffffff, 0x7ff0000000000000, 0xfff0000000000000, 0x7ff8000000000000, 0x7ff0000000000001, 0xffffffffffffffff,
                  0x3ff0000000000000, 0xbff0000000000000, 0x4340000000000000, 0x433fffffffffffff, 0x0008000000000000, 0x3fd5555555555555]
    for v in specials32:
        yield Case("f.from_f32", ["%x" % v, rng.choice(MODES)], nontrivial=False)
    for v in specials64:
        yield Case("f.from_f64", ["%x" % v, rng.choice(MODES)], nontrivial=False)
    n = 300 if tier == "quick" else 20000
    for _ in range(n):
        k = rng.random()
        if k < 0.5:
            v = rng.getrandbits(32)
            if rng.random() < 0.2:
                v &= 0x807fffff                      # subnormal
            yield Case("f.from_f32", ["%x" % v, rng.choice(MODES)])
        else:
            v = rng.getrandbits(64)
            if rng.random() < 0.2:
                v &= 0x800fffffffffffff
            yield Case("f.from_f64", ["%x" % v, rng.choice(MODES)])


def gen_prec(rng, tier):
    """with_precision (and with_base_and_precision on the same shapes): significands just above / below a power of the base
    (B^k + small has k+1 digits although a log2-based estimate may say k; B^k - small has k digits), up to 60 words long, reduced
    to d-2, d-1, d, d+1 digits, to 1 digit and to 0 (unlimited); source precision unlimited (0: larger than any target, so the
    value IS rounded), exactly the digit count, and larger; every mode; bases 2, 3, 10, 16, 36; both signs."""
    import math
    quick = tier == "quick"
    bit_sizes = [8, 24, 64, 65, 128, 1000, 3840] if quick else [8, 23, 24, 25, 53, 63, 64, 65, 127, 128, 129, 640, 1920, 3840]
    for b in (2, 3, 10, 16, 36):
        for bits in bit_sizes:
            k = max(2, int(bits / math.log2(b)))
            smalls = [1, b - 1, b + 1, rng.randrange(1, b * b)]
            for form in (1, -1):
                for small in ([rng.choice(smalls)] if quick else smalls):
                    s0 = b ** k + form * small
                    if s0 % b == 0:
                        s0 += 1
                    d = ndigits(s0, b)
                    for p in sorted({0, 1, max(1, d - 2), max(1, d - 1), d, d + 1}):
                        for sp in ([rng.choice([0, d, d + 3])] if quick else [0, d, d + 3]):
                            for mode in MODES:
                                s = s0 * rng.choice([1, -1])
                                e = rng.choice([0, 0, -1, 3, -k, -k - 2, 17])
                                yield Case("f.with_precision", [farg(b, s, e, sp, mode), dec(p)], nontrivial=True)
                    # the same shapes through with_base_and_precision (exponent 0: exact-evaluation branch of every pair)
                    for (bb, nb) in [(x, y) for (x, y) in PAIRS if x == b]:
                        if quick and rng.random() < 0.6:
                            continue
                        d2 = ndigits(s0, nb)
                        for p in sorted({1, max(1, d2 - 2), max(1, d2 - 1), d2, d2 + 1}):
                            mode = rng.choice(MODES)
                            s = s0 * rng.choice([1, -1])
                            yield Case("f.with_base_prec", [dec(nb), dec(p), farg(b, s, 0, rng.choice([0, d, d + 3]), mode)], nontrivial=True)
    # random significands and targets
    for _ in range(300 if quick else 15000):
        b = rng.choice(BASES)
        s, e, prec = rand_float(rng, b, tier)
        d = max(1, ndigits(s, b))
        sp = rng.choice([0, prec, prec, d + 5]) if s else rng.choice([0, 1, 7])
        if sp and sp < ndigits(s, b):
            sp = ndigits(s, b)
        p = rng.choice([0, 1, 2, max(1, d - 1), d, d + 1, max(1, d // 2), sp, sp + 3])
        yield Case("f.with_precision", [farg(b, s, e, sp, rng.choice(MODES)), dec(p)], nontrivial=d > 1)


def gen_inf(rng, tier):
    """infinities through every formatting trait (Display, LowerExp, UpperExp, Debug/pretty Debug of FBig and Repr, Binary, Octal,
    LowerHex, UpperHex where the base has them): the shortcut at the head of fmt_round / fmt_round_scientific / Debug prints
    `inf` / `-inf` and ignores precision, width, fill, alignment, `+` and the zero flag"""
    kinds = ["disp", "lexp", "uexp", "dbg", "dbga", "rdbg", "rdbga"]
    for b in BASES:
        ks = kinds + {2: ["bin", "lhex", "uhex"], 8: ["oct"], 16: ["lhex", "uhex"]}.get(b, [])
        for k in ks:
            for sg in "+-":
                combos = [(None, None, "-")]
                if k not in ("dbg", "dbga", "rdbg", "rdbga"):
                    combos += [(2, None, "-"), (None, 8, "-"), (0, 9, "+"), (3, 10, "0"), (None, 10, "*^"), (1, 7, "<"), (None, 2, "+0")]
                    if tier == "thorough":
                        combos += [(rng.choice([None, 0, 1, 5]), rng.choice([None, 0, 3, 4, 5, 20]), fl) for fl in FFLAGS]
                for (p, w, fl) in combos:
                    yield Case("f.fmtinf", [k, "none" if p is None else dec(p), "none" if w is None else dec(w), fl, dec(b), sg,
                                            rng.choice(MODES)], nontrivial=w is not None or p is not None)



# ---------------------------------------------------------------- round 5: scientific text read back, extremes, alphabets

IMAX = 2 ** 63 - 1
IMIN = -2 ** 63
UMAX = 2 ** 64 - 1
# E1: extreme machine integers (usize arguments: precision of with_precision / with_base_and_precision / Context)
EXT_U = [0, 1, 63, 64, 65, 128, 2 ** 31, 2 ** 32 - 1, 2 ** 32, 2 ** 32 + 1, 2 ** 32 + 7, 2 ** 32 + 64, 2 ** 32 + 129, 2 ** 63 - 1, 2 ** 63,
         2 ** 63 + 1] + [UMAX - k for k in (0, 1, 2, 62, 63, 64, 65, 127, 128, 130)]
# E1: extreme exponents (isize argument of from_parts / Repr::new, scale of a literal)
EXT_I = sorted(set([0, 1, -1, 63, -63, 64, -64, 65, -65, 128, -128, 2 ** 31, -2 ** 31, 2 ** 32 - 1, -(2 ** 32 - 1), 2 ** 32, -2 ** 32,
                    2 ** 32 + 5, -(2 ** 32 + 5), 2 ** 32 + 129, 2 ** 62, -2 ** 62]
                   + [IMAX - k for k in (0, 1, 2, 3, 4, 5, 8, 12, 16, 17, 31, 32, 33, 63, 64, 65, 129, 130)]
                   + [IMIN + k for k in (0, 1, 2, 3, 4, 5, 8, 16, 32, 64, 130)]))
SCI_KINDS = [("lexp", b) for b in BASES] + [("uexp", b) for b in BASES] + [("bin", 2), ("oct", 8), ("lhex", 16), ("uhex", 16), ("lhex", 2), ("uhex", 2)]


def sci_shown_digits(kind, b, s):
    nd = max(1, ndigits(s, b))
    return (nd + 3) // 4 if (b == 2 and kind in ("lhex", "uhex")) else nd


def gen_rtsci(rng, tier):
    """scientific text printed and read back (op f.rtsci): every scientific trait of every base, with and without a
    precision (around the number of shown digits: 0, 1, d-2, d-1, d, d+2), with and without `+`, all six modes; random,
    all-nines (the rounding carries into a new digit) and half-way significands; exponents of every magnitude incl. the
    E1 list (the text is short whatever the exponent)."""
    quick = tier == "quick"
    for (kind, b) in SCI_KINDS:
        for _ in range(12 if quick else 700):
            mode = rng.choice(MODES)
            pat = rng.randrange(4)
            if pat == 0:
                k = rng.choice([1, 2, 3, 4, 5, 8, 9, 13, 40])
                s, e = norm((b ** k - 1) * rng.choice([1, -1]), rng.choice([0, -1, -k, 3, 77, -300]), b)
            elif pat == 1:
                s, e, _ = halfway_float(rng, b, rng.choice([0, 1, 2, 5]))
            else:
                s, e, _ = rand_float(rng, b, tier)
            if rng.random() < 0.15:
                e = rng.choice(EXT_I)
                if e > IMAX - 8 * max(1, len(hx(s))):          # keep the printed exponent inside isize here (see gen_extreme)
                    e = IMAX - 8 * max(1, len(hx(s))) - rng.randrange(0, 100)
            d = sci_shown_digits(kind, b, s)
            p = rng.choice([None, None, 0, 1, max(0, d - 2), max(0, d - 1), d, d + 2])
            if rng.random() < 0.3:
                # zero flag + width: the padding zeros stand behind sign / 0x and the text still reads back to the value shown
                wv = rng.choice([0, 3, d + 4, d + 7, d + 12, 40])
                yield Case("f.rtsci", [kind, "none" if p is None else dec(p), rng.choice(["0", "+0"]), farg(b, s, e, max(1, ndigits(s, b)), mode), dec(wv)],
                           nontrivial=True)
            yield Case("f.rtsci", [kind, "none" if p is None else dec(p), rng.choice("+-"), farg(b, s, e, max(1, ndigits(s, b)), mode)],
                       nontrivial=True)
        # zero
        yield Case("f.rtsci", [kind, rng.choice(["none", dec(0), dec(3)]), rng.choice("+-"), farg(b, 0, 0, 0, rng.choice(MODES))], nontrivial=False)


def ilog_pair(b, nb):
    """n with b = nb^n (0 if b is not a proper power of nb)"""
    k, p = 0, 1
    while p < b:
        p *= nb
        k += 1
    return k if p == b and k > 1 else 0


def gen_extreme(rng, tier):
    """E1 (ROUND4 addendum E): extreme machine integers in every usize / isize parameter that can be driven cheaply.
    * exponent (isize) of the printed float: scientific formats at 0, +-1, +-63..65, +-2^31, +-2^32(+-k), +-2^62,
      isize::MAX-k, isize::MIN+k (k up to 130) incl. the region where the printed exponent exp + digits - 1 leaves the isize range;
    * scale of a literal (isize): the same list as decimal text, with 0..3 fraction digits (the exponent becomes scale - fd,
      below isize::MIN for scale near MIN) and trailing zero digits (normalisation ADDS to the exponent, above MAX near MAX),
      plain and hexadecimal form, plus the first values outside the isize range;
    * precision (usize) of with_precision, with_base_and_precision (power-related bases, where the cost does not grow with p)
      and of the source Context: 0, 1, 63..65, 2^31, 2^32-1, 2^32+k, 2^63, usize::MAX-k;
    * width / precision of the formatter (u16 since Rust 1.87): 255, 256, 1000, 65535."""
    quick = tier == "quick"
    exps = EXT_I if not quick else [e for e in EXT_I if abs(e) < 2 ** 33 or rng.random() < 0.45]
    # scientific formats at extreme exponents
    for e in exps:
        for (kind, b) in (rng.sample(SCI_KINDS, 3) if quick else SCI_KINDS):
            nd = rng.choice([1, 2, 3, 9])
            s = rng.randrange(b ** (nd - 1), b ** nd) * rng.choice([1, -1])
            if s % b == 0:
                s += 1
            d = sci_shown_digits(kind, b, s)
            p = rng.choice([None, None, 0, max(0, d - 2), d + 1])
            yield Case("f.rtsci", [kind, "none" if p is None else dec(p), "-", farg(b, s, e, nd, rng.choice(MODES))], nontrivial=True)
    # literals with extreme scales
    for b in BASES:
        mk = "@" if b not in (10,) else rng.choice("eE@")
        scales = exps + [IMAX + 1, IMAX + 2, IMIN - 1, IMIN - 2, 2 ** 64, -2 ** 64, 10 ** 30]
        for z in (scales if not quick else rng.sample(scales, min(len(scales), 22))):
            for (ip, fp) in [("1", ""), ("1", "1"), ("1", "01"), ("1", "001"), (ALNUM[b - 1] + "0", ""), (ALNUM[b - 1] + "00", ""), ("1", "0"),
                             ("0", ""), ("0", "00"), ("1" + "0" * 7, "1")]:
                if quick and rng.random() < 0.5:
                    continue
                lit = rng.choice(["", "-", "+"]) + ip + ("." + fp if fp or rng.random() < 0.2 else "") + mk + str(z)
                yield Case("f.parse", [dec(b), rng.choice(MODES), sb(lit)], nontrivial=True)
        if b == 2:
            for z in (scales if not quick else rng.sample(scales, 12)):
                for body in ("0x1", "0x1.8", "0x1.08", "0xf0", "0x10.001", "0x.8"):
                    yield Case("f.parse", [dec(2), rng.choice(MODES), sb(body + rng.choice("pP") + str(z))], nontrivial=True)
    # precisions
    for b in (2, 10, 16, 36):
        for p in (EXT_U if not quick else rng.sample(EXT_U, 9)):
            s, e, prec = rand_float(rng, b, tier)
            mode = rng.choice(MODES)
            sp = rng.choice([0, prec, rng.choice(EXT_U)])
            if sp and sp < ndigits(s, b):
                sp = ndigits(s, b)
            yield Case("f.with_precision", [farg(b, s, e, sp, mode), dec(p)], nontrivial=True)
            ee = rng.choice(EXT_I)
            yield Case("f.with_precision", [farg(b, s, ee if abs(ee) < 2 ** 62 + 1 else e, sp, mode), dec(rng.choice([1, 2, max(1, ndigits(s, b) - 1), p]))],
                       nontrivial=True)
        for (bb, nb) in [(x, y) for (x, y) in PAIRS if x == b and is_pow_related(x, y)]:
            for p in (EXT_U if not quick else rng.sample(EXT_U, 6)):
                s, e, prec = rand_float(rng, b, tier)
                if abs(e) > 400:
                    e = 7
                if p == 0:
                    continue
                yield Case("f.with_base_prec", [dec(nb), dec(p), farg(b, s, e, prec or 1, rng.choice(MODES))], nontrivial=True)
            # exponents of large magnitude: a pure exponent rescaling (|e| * log(B)/log(NewB) stays inside isize)
            for e in [x for x in EXT_I if abs(x) <= 2 ** 60 or abs(x) == 2 ** 62 and nb > b]:
                if quick and rng.random() < 0.7:
                    continue
                s, _, prec = rand_float(rng, b, tier)
                if s == 0:
                    s = 1
                yield Case("f.with_base_prec", [dec(nb), dec(rng.choice([1, 3, 8, 64])), farg(b, s, e, prec or 1, rng.choice(MODES))], nontrivial=True)
    # with_base_and_precision between bases that are NOT powers of one another, exponent 0..38 (multiplication branch: the cost does
    #    not grow with the precision), extreme precisions
    for (b, nb) in [(x, y) for (x, y) in PAIRS if not is_pow_related(x, y)]:
        for p in (EXT_U if not quick else rng.sample(EXT_U, 4)):
            if p == 0:
                continue
            s, _, prec = rand_float(rng, b, tier)
            e = rng.choice([0, 0, 1, 5, 17, 37, 38])
            s, e = norm(s, e, b)
            if abs(e) > THRESH:
                e = 0
            yield Case("f.with_base_prec", [dec(nb), dec(p), farg(b, s, e, prec or 1, rng.choice(MODES))], nontrivial=True)
    # source precision (usize) of with_base between power-related bases: `precision * n` resp. `precision / n`
    for (b, nb) in [(x, y) for (x, y) in PAIRS if is_pow_related(x, y)]:
        k = max(ilog_pair(b, nb), 1)
        ps = EXT_U + [UMAX // k - 1, UMAX // k, UMAX // k + 1, UMAX // k + 2] if k > 1 else EXT_U
        for sp in (ps if not quick else rng.sample(ps, 8)):
            s, e, _ = rand_float(rng, b, tier)
            if abs(e) > 400:
                e = 5
            if sp and sp < ndigits(s, b):
                sp = ndigits(s, b)
            yield Case("f.with_base", [dec(nb), farg(b, s, e, sp, rng.choice(MODES))], nontrivial=True)
    # formatter width / precision at the largest values core::fmt accepts
    for b in (2, 10, 36):
        for big in ([65535] if quick else [255, 256, 1000, 65534, 65535]):
            s, e, prec = rand_float(rng, b, tier)
            if abs(e) > 400:
                e = -3
            mode = rng.choice(MODES)
            yield Case("f.fmt", ["disp", dec(big), "none", "-", farg(b, s, e, prec, mode)], nontrivial=True)
            yield Case("f.fmt", ["disp", "none", dec(big), rng.choice(FFLAGS), farg(b, s, e, prec, mode)], nontrivial=True)
            yield Case("f.fmt", [rng.choice(["lexp", "uexp"]), dec(big), dec(big), rng.choice(FFLAGS), farg(b, s, e, prec, mode)], nontrivial=True)
            yield Case("f.fmt", ["disp", dec(0), dec(big), rng.choice(FFLAGS), farg(b, s, e, prec, mode)], nontrivial=True)


def gen_alphabet(rng, tier):
    """E2: every byte 0x00..0x7f (and a few multi-byte characters) in every syntactic position of a literal — before and
    after the sign, inside / at the end of the integer digits, right after the point, inside the fraction digits, in the
    marker position, in the sign position of the scale, inside and after the scale digits, and after the `0x` prefix — for
    every base 2, 3, 8, 10, 16, 36 (the digit alphabet, the markers and `_` depend on the base and on the prefix)."""
    quick = tier == "quick"
    extra = ["é", "٣", "１", "\U0001f600", " ", "−", "İ"]
    for b in BASES:
        d = lambda n: rand_digits(rng, b, n)
        mk = rng.choice(MARKERS[b])
        shapes = [
            lambda c: c + d(2) + "." + d(2) + mk + "5",                      # before everything
            lambda c: "-" + c + d(2) + "." + d(2) + mk + "5",                # after the sign
            lambda c: d(1) + c + d(1) + "." + d(2) + mk + "5",               # inside the integer digits
            lambda c: d(2) + c + "." + d(2) + mk + "5",                      # before the point
            lambda c: d(2) + "." + c + d(2) + mk + "5",                      # after the point
            lambda c: d(2) + "." + d(1) + c + d(1) + mk + "5",               # inside the fraction digits
            lambda c: d(2) + "." + d(2) + c + "5",                           # marker position
            lambda c: d(2) + "." + d(2) + c,                                 # marker position, nothing behind
            lambda c: d(2) + "." + d(2) + mk + c + "5",                      # sign of the scale
            lambda c: d(2) + "." + d(2) + mk + "1" + c + "2",                # inside the scale digits
            lambda c: d(2) + "." + d(2) + mk + "-12" + c,                    # after the scale
            lambda c: d(3) + c,                                              # end of an integer literal
            lambda c: c,                                                     # the whole literal
        ]
        if b == 2:
            hd = lambda n: rand_digits(rng, 2, n, True)
            shapes += [
                lambda c: "0x" + c + hd(2) + ".8p3",                         # after the prefix
                lambda c: "0" + c + hd(2) + ".8p3",                          # the `x` of the prefix
                lambda c: "0x" + hd(1) + c + hd(1) + "p3",                   # inside hexadecimal digits
                lambda c: "0x" + hd(2) + "." + hd(1) + c + "p-3",            # inside hexadecimal fraction digits
                lambda c: "0x" + hd(2) + "." + hd(2) + c + "3",              # marker position behind hexadecimal digits
                lambda c: "0x" + hd(2) + "." + hd(2) + "p" + c + "3",        # sign of the binary scale
            ]
        for sh in shapes:
            chars = [chr(i) for i in range(128)] + extra
            if quick:
                chars = rng.sample(chars, 34)
            for c in chars:
                yield Case("f.parse", [dec(b), rng.choice(MODES), sb(sh(c))], nontrivial=True)


SAME_PAIRS = [2, 3, 10, 16]          # same-base instantiations of the harness


def gen_same_base(rng, tier):
    """with_base::<B>() / with_base_and_precision::<B>(p) with the SAME base (the `NewB == B` shortcut at the head of
    convert_base): target precision below, at and above the digit count d of the operand (p in {1, d-2, d-1, d, d+1, 2d}),
    half-way and all-nines tails, all six modes, exponents of any size (nothing is evaluated)."""
    quick = tier == "quick"
    for b in SAME_PAIRS:
        for _ in range(40 if quick else 1500):
            mode = rng.choice(MODES)
            pat = rng.randrange(3)
            if pat == 0:
                s, e, prec = halfway_float(rng, b, rng.choice([0, 1, 2, 5]))
            elif pat == 1:
                k = rng.choice([2, 3, 5, 9, 20])
                s, e = norm((b ** k - 1) * rng.choice([1, -1]), rng.choice([0, -1, -k, 3, 77]), b)
                prec = k
            else:
                s, e, prec = rand_float(rng, b, tier)
            d = max(1, ndigits(s, b))
            p = rng.choice([1, max(1, d - 2), max(1, d - 1), d, d + 1, 2 * d])
            yield Case("f.with_base_prec", [dec(b), dec(p), farg(b, s, e, max(prec, 1), mode)], nontrivial=p < d)
            if rng.random() < 0.3:
                yield Case("f.with_base", [dec(b), farg(b, s, e, max(prec, d), mode)], nontrivial=False)

def gen_commensurable(rng, tier):
    """`ilog_exact(n, base)` (float/src/utils.rs) decides between the lossless digit-regrouping shortcut of convert_base / the
    `p*n`, `p/n` precision of with_base and the general branches.  Its answer is fixed by `pow == n` after the loop `while pow < n`:
    the classes are (a) n a proper power of base (NESTED_PAIRS, plus 2<->8/16 in PAIRS), (b) n and base powers of a common root but
    not of one another (COMM_PAIRS: the loop overshoots), (c) unrelated.  For (a)/(b): every exponent -7..7 (all residues modulo the
    digit-width ratio, both signs) with 1..3-digit and long significands, all modes, through with_base (derived precision) and
    with_base_and_precision (p around the digit count of the result)."""
    quick = tier == "quick"
    for (b, nb) in COMM_PAIRS + NESTED_PAIRS:
        for e0 in range(-7, 8):
            for mode in (rng.sample(MODES, 2) if quick else MODES):
                for nd in ((1, 3) if quick else (1, 2, 3, 7, 30)):
                    s = rng.randrange(b ** (nd - 1), b ** nd) * rng.choice([1, -1])
                    s, e = norm(s, e0, b)
                    if abs(e) > THRESH:
                        continue
                    d = ndigits(s, b)
                    yield Case("f.with_base", [dec(nb), farg(b, s, e, d + rng.choice([0, 1, 6]), mode)], nontrivial=e != 0)
                    from fractions import Fraction
                    dn = max(1, ndigits(int(abs(s) * Fraction(b) ** e) or 1, nb) if e >= 0 else ndigits(abs(s), nb))
                    p = rng.choice([1, max(1, dn - 1), dn, dn + 1, dn + abs(e) + 4, 3 * dn + 8])
                    yield Case("f.with_base_prec", [dec(nb), dec(p), farg(b, s, e, d, mode)], nontrivial=e != 0)


# round 6: base pairs at the top of the Word range (instantiated in the harness): the powers of the smaller base leave the Word
# before they reach the larger one — `pow.checked_mul(base)` of ilog_exact answers None (lo^k < hi and lo^(k+1) >= 2^64; fix 4fb3784)
HUGE_PAIRS = [(2 ** 63 + 1, 2), (2, 2 ** 63 + 1), (2 ** 64 - 1, 3), (2 ** 32 + 1, 2 ** 32)]


def gen_huge_base(rng, tier):
    """with_base / with_base_and_precision between HUGE_PAIRS: exponents -3..3, 1..3-digit significands, all modes."""
    quick = tier == "quick"
    for (b, nb) in HUGE_PAIRS:
        for e0 in range(-3, 4):
            for mode in (rng.sample(MODES, 2) if quick else MODES):
                for nd in ((1, 2) if quick else (1, 2, 3)):
                    s = rng.randrange(b ** (nd - 1), b ** nd) * rng.choice([1, -1])
                    s, e = norm(s, e0, b)
                    d = ndigits(s, b)
                    yield Case("f.with_base", [dec(nb), farg(b, s, e, d + rng.choice([0, 2]), mode)], nontrivial=True)
                    dn = max(1, ndigits(abs(s) * b ** max(e, 0), nb))
                    p = rng.choice([1, max(1, dn - 1), dn, dn + 1, 2 * dn + 70])
                    yield Case("f.with_base_prec", [dec(nb), dec(p), farg(b, s, e, d, mode)], nontrivial=True)


def generate(rng, tier):
    yield from gen_parse(rng, tier)
    yield from gen_fmt(rng, tier)
    yield from gen_rt(rng, tier)
    yield from gen_conv(rng, tier)
    yield from gen_prec(rng, tier)
    yield from gen_ieee(rng, tier)
    yield from gen_inf(rng, tier)
    yield from gen_rtsci(rng, tier)
    yield from gen_extreme(rng, tier)
    yield from gen_alphabet(rng, tier)
    yield from gen_same_base(rng, tier)
    yield from gen_commensurable(rng, tier)
    yield from gen_huge_base(rng, tier)


def _parse_farg(a):
    t = a.split(":")
    return int(t[1]), int(t[2], 16), int(t[3]), int(t[4]), t[5]


def _pow(b, e):
    from fractions import Fraction
    return Fraction(b) ** e


def _representable(x, nb, p):
    """x = M * nb^j with |M| < nb^p ?"""
    from math import gcd
    if x == 0:
        return True
    n, d = abs(x.numerator), x.denominator
    while d != 1:                       # scale by nb until the denominator is gone (possible iff d | nb^k)
        if gcd(d, nb) == 1:
            return False
        n *= nb
        g = gcd(n, d)
        n, d = n // g, d // g
    while n % nb == 0:
        n //= nb
    return n < nb ** p


def judge(case, impl_out, model_out):
    """`with_base` / `with_base_and_precision`: the property fixes the CONTRACT of the result (exact iff representable, otherwise
    < 1 ulp — at most half an ulp for the nearest modes — on the mode's side, truthful flag, at most one digit beyond the
    precision), not which of the admissible representations is returned (e.g. `repr_div` may hand back an exact quotient with
    p+1 digits where `repr_round` would round it).  Everything else (parse, print, IEEE import, precision chosen by
    `with_base`) is fixed by the property: no judgement, a disagreement is a violation."""
    from fractions import Fraction
    if case.op not in ("f.with_base", "f.with_base_prec"):
        return "violates"
    try:
        ti, tm = impl_out.split(), model_out.split()
        if ti[0] != "ok" or tm[0] != "ok" or len(ti) != 5:
            return "violates"
        nb = int(case.args[0].split(":")[1])
        b, s, e, _prec, mode = _parse_farg(case.args[-1])
        s2, e2, p2, flag = int(ti[1], 16), int(ti[2]), int(ti[3]), ti[4]
        # the precision of the result is fixed (explicit argument, or the documented choice of with_base)
        if p2 != int(tm[3]):
            return "violates"
        p = p2
        if p < 1:
            return "violates"
        x = Fraction(s) * _pow(b, e)
        r = Fraction(s2) * _pow(nb, e2)
        if s2 != 0 and ndigits(s2, nb) > p + 1:
            return "violates"
        if flag == "Exact":
            return "holds" if r == x else "violates"
        if not flag.startswith("Inexact:") or r == x:
            return "violates"
        if _representable(x, nb, p):
            return "violates"
        # unit: the largest nb^u with nb^(u+p-1) <= |x|
        ax = abs(x)
        u = 0
        while _pow(nb, u + p - 1) > ax:
            u -= 1
        while _pow(nb, u + p) <= ax:
            u += 1
        ulp = _pow(nb, u)
        err = abs(r - x)
        if mode in "EH":
            if 2 * err > ulp:
                return "violates"
        elif err >= ulp:
            return "violates"
        side = {"Z": abs(r) <= ax and (r == 0 or (r > 0) == (x > 0)), "A": abs(r) >= ax, "U": r >= x, "D": r <= x}.get(mode, True)
        if not side:
            return "violates"
        kind = flag.split(":")[1]
        if kind == "AddOne" and not r > x:
            return "violates"
        if kind == "SubOne" and not r < x:
            return "violates"
        return "holds"
    except Exception:
        return "violates"


def nontrivial(c):
    return c.nontrivial


RULE = ("parse: the documented grammar as a generator for bases {2,3,8,10,16,36}: sign, integer and fractional digit strings of "
        "0..200 digits (random case, underscores, leading/trailing zeros), radix point at every position, every scale marker of "
        "the base (e E @ / b B @ / p P @ with 0x or 0X prefix / o O @ / h H @ / @) with signed decimal exponents up to 5000, plus a "
        "fixed malformed list (two points, marker without exponent, sign inside, `p` without prefix, empty parts, multi-byte "
        "UTF-8, overflowing exponents) and random single-edit mutations of valid literals. fmt: floats with 1..200 digit "
        "significands, exponents 0..+-400, all six modes, Display / LowerExp / UpperExp with precision in {none,0,1,2,3,-exp+-1,30}, "
        "width, `+`; half-way and all-nines significands aimed at the rounding and its carry. rt: print then parse. conversions: "
        "27 base pairs x 6 modes (round 6: + bases that are powers of a common root but not of one another 4<->32 4<->8 16->8 9<->27, + nested powers "
        "with another root 4<->16 3<->9 27->3; directed class gen_commensurable: every exponent -7..7 for those; gen_huge_base: 2^63+1<->2, 2^64-1->3, "
        "2^32+1->2^32, where the powers of the smaller base leave the Word inside ilog_exact), explicit and derived precision, exponents within the exact-evaluation threshold (|e| <= 38) and "
        "any exponent for power-related bases, plus exactly representable values with |e| in 20..38 (18..38 thorough) for every non "
        "power-related pair (must come back Exact); tiny non-zero values under {:.N} for all six modes and both signs (and, negative ones rounding to -0, with width/fill/alignment/zero flag); the ln/exp branch (|e| in 39..300) is judged by exact rational arithmetic in the "
        "harness. with_precision (and with_base_and_precision on the same shapes): B^k+-small significands up to 60 words (B^k+small has k+1 digits), "
        "targets {0, 1, d-2, d-1, d, d+1}, source precision {unlimited, d, d+3}, all six modes, bases 2/3/10/16/36, both signs, plus random ones. "
        "IEEE: special bit patterns and random f32/f64. Infinities (+/-) through every formatting trait of every base "
        "(Display, LowerExp, UpperExp, Debug and pretty Debug of FBig and Repr, Binary/Octal/LowerHex/UpperHex where defined) with and "
        "without precision, width, fill, alignment, `+`, zero flag. Round 5: scientific text printed and read back (op f.rtsci: every scientific trait of every base, "
        "precision none/0/1/d-2/d-1/d/d+2 in shown digits, `+`, zero flag with widths 0..40, all modes, random / all-nines / half-way significands, exponents up to +-5000 and the E1 list); "
        "E1 extremes: exponents 0, +-1, +-63..65, +-128, +-2^31, +-(2^32-1), +-2^32(+k), +-2^62, isize::MAX-k, isize::MIN+k (k <= 130) as exponent of the printed "
        "float (scientific traits) and as scale of literals (0..3 fraction digits, trailing zero digits, plain and 0x form, first values outside isize); usize "
        "precisions 0, 1, 63..65, 128, 2^31, 2^32-1, 2^32+k, 2^63(+-1), usize::MAX-k for with_precision, the source Context and with_base_and_precision "
        "(power-related bases); formatter width / precision 255..65535 (the largest core::fmt accepts). E2: every byte 0x00..0x7f plus 7 multi-byte "
        "characters in 13 syntactic positions of a literal (19 for base 2: 0x prefix positions) for each of the six bases (quick: 34 sampled bytes per position). Non-trivial := literal longer than 12 bytes / a precision or "
        "width option / non-zero exponent; distinct := distinct case lines.")
REFINED = [
    "Context::convert_base, branch NewB = B^n (div_rem_euclid of the exponent, multiply, repr_round): exact value handed to repr_round "
    "=> rounding contract of C03 (convert_base_pow_up_branch, convert_base_pow_up_contract, ilog_exact_sound)",
    "Context::convert_base, branch B = NewB^n and branch small non-negative exponent (as of fix commit 02e179b): same "
    "(convert_base_pow_down_branch/_contract, convert_base_small_pos_contract, exact_when_fits)",
    "Tie A: THRESHOLD_SMALL_EXP of convert_base is regenerated from float/src/convert.rs (Dashu.Gen.float_THRESHOLD_SMALL_EXP) and used by convertBase",
    "documented precision of with_base (max q with NewB^q <= B^p) on the specification side (with_base_precision_documented)",
    "TryFrom<f32/f64> for FBig<_,2> / Repr<2>: exact value, precision = bit_len(mantissa) (from_ieee_exact)",
    "Repr::from_str_native on the plain form of the grammar ([sign] int [. frac] [@ scale], bases 2..36, either case): exactly the written "
    "value, precision = number of written digits (parse_literal_exact)",
    "Repr::from_str_native (parse_unsigned, the scale split on the last marker, the hexadecimal branch, int/frac parts, error precedence) = "
    "the documented grammar parseFloatSpec on EVERY byte string, bases 2..36: underscores, markers e E b B o O h H p P @, 0x/0X form of "
    "base 2, NoDigits/InvalidDigit cases (parse_eq_grammar, grammar_digit_string); every accepted string denotes exactly the number its "
    "digits spell with precision = digit count, x4 for hexadecimal digits (parse_ok_denotes)",
    "Display (fmt_round, no precision/width) then from_str: equal value, all bases/modes/operands (print_parse_round_trip)",
    "Display with a precision option, no width (fmt_round: split_digits + round_fract, sign, integer digits, point, zero padding): the text "
    "is a literal with exactly p fractional digits (print_precision_text) spelling |R|*B^-p where R is the integer the mode names for "
    "x*B^p — floor/ceil/toward zero/away/nearest-even/nearest-away (print_precision_rounding, builder-float's ModeSpec/roundFract_spec'); "
    "parsing the text returns exactly R*B^-p (print_precision_parse)",
    "FBig::with_precision (builder-float's model fWithPrecision, as of fix ee15d7b: a source of unlimited precision is rounded too; driven "
    "against the real code by this check — op f.with_precision — and by C10): new precision p; rounding contract of C03 when the "
    "precision shrinks, unchanged + Exact otherwise and for p = 0 (with_precision_contract, with_precision_unlimited); the driver also "
    "checks contractOk and digits <= p on every case",
    "Context::convert_base, EVERY path that does not go through ln/exp (same base; NewB = B^n; B = NewB^n; |exp| <= regenerated threshold: "
    "multiplication for exp >= 0, repr_div — builder-float's reprDiv_contract, C03 — or the long-dividend single-rounding path of fix bd48ef9 "
    "for exp < 0): the result is the exact value rounded under the contract (convert_base_exact_paths_contract, "
    "convert_base_long_dividend_contract) and has at most p+1 digits of the new base (convert_base_result_digits)",
    "width / fill / alignment / `+` / zero flag of Display (fmt_round) and of the scientific formats (fmt_round_scientific: LowerExp, UpperExp, "
    "Binary, Octal, LowerHex, UpperHex incl. the 0x form): the text is fill^a ++ sign ++ [0x] ++ 0^b ++ core ++ fill^c with a core that does "
    "not depend on any of them (display_padding_keeps_digits, scientific_padding_keeps_digits); Display text without width or with the zero "
    "flag (any width, `+`) parses back to the same value / to the value rounded to the precision option "
    "(padded_print_parse_round_trip, padded_print_precision_parse)",
    "the padding AMOUNTS of fmt_round and fmt_round_scientific: the `width` the code computes from digit count, exponent, precision, sign, "
    "point and `0x` is exactly the length of what it prints (widthG_eq_length, sciWidthG_eq_length), hence the formatter's width is "
    "honoured exactly — padding = width - natural length, none when long enough, placed by zero flag / alignment (centre: extra "
    "character on the right) (display_width_exact, scientific_width_exact)",
    "fmt_round_scientific (LowerExp, UpperExp, Binary, Octal, LowerHex, UpperHex, hexadecimal form 0xh.hhp±e of base 2): the rounding "
    "step is the mode's rounding (ModeSpec) of signif / B^shift to P = p+1 significant digits (4p+4 bits for the hexadecimal form), "
    "the carry branch (9.99 -> 10.0: divide by B, exponent + 1) keeps the value and at most P digits are printed "
    "(scientific_rounding); the text is d0 [. d1..dn] marker E with exactly p fraction digits under a precision p, digits below "
    "the shown radix, and (d0..dn)_radix * B^(E - n*k) = |rounded value| with the sign of the number (scientific_text_denotes)",
    "scientific text read back (round 5): what LowerExp / UpperExp / Binary / Octal / LowerHex / UpperHex print (with or without `+` and precision, no width) is "
    "accepted by from_str_native of the same base — the marker each trait prints is a scale marker of its base (scientific_markers_accepted) — and the float "
    "read is exactly the value shown: the number itself without a precision (round trip), its rounding to p+1 significant digits with one; precision "
    "read = digits shown (scientific_print_parse, lower_upper_exp_parse_back, radix_trait_parse_back; hypothesis: the printed exponent is an isize); "
    "executed against the real code by op f.rtsci, whose specification side is specRound (builder-float's executable rounding over Rat)",
    "Display text = specification text (round 5): fmt_round without a width (any precision option, `+`) prints exactly displaySpec — the exact positional "
    "expansion without a precision, the fixed-point text of roundInt m (x*B^k) with precision k — for every repr whose zero has exponent 0 "
    "(display_text_is_spec; display_text_is_spec_normalised: in particular for everything Repr::new returns); the run-time comparison of the two texts in the driver is now a theorem",
    "displaySpec <-> ModeSpec (round 5): roundInt m (N/D) — the executable definition of the modes used by displaySpec and specRound — satisfies "
    "ModeSpec m N D for all integers N, D > 0 (round_int_meets_mode_spec), ModeSpec names exactly one integer (mode_spec_unique), hence the integer "
    "displaySpec prints is precRounded, the integer fmt_round prints (display_spec_rounds_like_model)",
    "Tie A (round 5): the scale-marker table and the 0x/0X prefix test of Repr::from_str_native and the marker / upper / hex table of the formatting "
    "traits (impl_fmt_with_base! rows, LowerExp/UpperExp marker, unwrap_or('@')) are regenerated from float/src/parse.rs and float/src/fmt.rs "
    "(Dashu.Gen.FloatText) and proved equal to the model's isScaleMarker / hasHexPrefix / fmtSci / fmtRadixTrait (scale_markers_regenerated, "
    "fmt_trait_table_regenerated): a change of a marker, base or flag in the source breaks the build of Props/C08",
    "with_precision never returns more than p digits when the precision shrinks (with_precision_digits)",
    "Tie A (round 6): ilog_exact of float/src/utils.rs (early returns, loop, tail; the checked_mul step of fix 4fb3784 read as `pow *= base` guarded by `the product leaves the Word`) is regenerated "
    "(Dashu.Gen.float_ilogExact) and proved equal to the model's ilogExact for every base >= 2 and every Word n (ilog_exact_regenerated): a fast "
    "path / changed comparison in the source breaks Props/C08 or fails the extraction closed; the precision decision of FBig::with_base "
    "(float/src/convert.rs: which ilog_exact call is down / up, `> 1`, saturating_mul(down), / up, BASE.pow(p).ilog(NewB)) is regenerated "
    "(Dashu.Gen.float_withBasePrecision) and proved equal to the model's withBasePrecision (with_base_precision_regenerated)",
    "with_base between power-related bases at source precisions around usize::MAX / n: the model saturates `precision * n` at usize::MAX like the "
    "code does since fix 38e3075 (saturating_mul)",
    "with_base::<NewB>() (and its call forms to_decimal / to_binary) = with_base_and_precision at the derived precision: contract, <= q+1 digits, and "
    "q the documented maximum for bases that are not powers of one another, in one statement (with_base_contract); zero-padded scientific text (zero "
    "flag, right/default alignment, any width, `+`) parses back to the value shown (padded_scientific_print_parse)",
    "Context::convert_base, same base (code as of fix 0c0f651): repr_round to the target precision like every other "
    "branch (convert_base_same_base), so convert_base_result_digits (<= p+1 digits) and the contract hold WITHOUT excluding NewB = B; "
    "driven by gen_same_base (bases 2, 3, 10, 16)",
    "the scale of a literal (round 7): parseIsize, the model of `str::parse::<isize>()` that both the parser model and the grammar parseFloatSpec use, "
    "accepts EXACTLY the texts `[+|-] d+` (ASCII decimal digits, leading zeros allowed) whose value lies in -2^(bits-1) .. 2^(bits-1)-1, answers that value, "
    "and answers NoDigits for the empty text / InvalidDigit for everything else — stated over the existential grammar IsizeText, which names one value "
    "per text (parse_isize_spec); hence the scale split of from_str_native (last marker, text behind it) succeeds iff that text is an IsizeText of 64 bits, "
    "with scale = its value and body = the text before the marker, scale 0 without a marker (scale_split_spec)",
    "infinities: the shortcut of every formatter prints inf / -inf and ignores every formatter option (fmtInfinite; driven against the real "
    "code through all traits, FBig and Repr, op f.fmtinf)",
    "Binary / Octal / LowerHex / UpperHex of FBig (base 2: `b` and the hexadecimal form 0xh.hhp±e; base 8: `o`; base 16: `h`) and Debug of "
    "FBig and Repr (plain and pretty, incl. the DoubleEnd integer form `123..456 (digits: N, bits: M)`): mirrored (fmtSciG, debugFBig, "
    "debugRepr) and compared with the real code on every run, all fill/alignment/sign/zero flags",
    "Debug of finite Repr / FBig over C07's kernel (round 8, link by import of Props/C07Debug): the significand printer debugInt of the float Debug forms = "
    "C07's debugSpec = the text the mirrored DoubleEnd::fmt yields (every even word size >= 8, every admissible first guess of log_word_base); `{:?}` is "
    "`T * B ^ e` / `T * B ^ e (prec: p)`, the pretty significand field is the `{:#?}` DoubleEnd text in base 10 and `T (N bits|digits)` otherwise; T is all "
    "decimal digits below 2^(2W) and the true first / last dpw digits around `..` beyond (debug_significand_is_double_end, debug_float_forms)",
]
FRONTIER = [
    "str::parse::<isize>() of the scale (parseIsize) is shared by model and grammar; since round 7 the definition is proved equal to the documented "
    "grammar `[+|-] d+`, value inside the isize range, NoDigits / InvalidDigit otherwise (parse_isize_spec, scale_split_spec). What stays run-time only: "
    "that core's `isize::from_str` (not dashu code, nothing to regenerate) behaves like that grammar — compared with the real code on every run "
    "(E1/E2 classes of round 5: every byte in the scale positions, values at and beyond the isize limits); the float theorems hold for 64-bit isize",
    "exponent arithmetic: the model's exponent is an unbounded integer, the code's an isize. The theorems are about the unbounded model; the driver "
    "requires an error for a literal whose exact value needs an exponent outside isize and the exact text for a shown exponent outside isize; the real "
    "code agrees on every driven case since fixes 5997fe0 (parser: i128 exponent, InvalidDigit when the normalized exponent does not fit) and a7e84fd "
    "(scientific formatter: shown exponent in i128). Display with |exponent| "
    "beyond ~5000 is not driven (the text has |exponent| characters); with_base at |exponent| > 2^60 is not driven: from B = NewB^n the exponent is "
    "multiplied by n in isize (`repr.exponent * n as isize`, float/src/convert.rs:558) and for |exponent| > isize::MAX / n the value has NO Repr<NewB> "
    "(observed in round 6: debug builds panic `attempt to multiply with overflow`, release builds wrap to a wrong exponent silently; no result can be "
    "right, so it is reported as an observation, not as a finding entry — the model answers the unbounded exponent)",
    "Scientific text padded with FILL characters (a width without the zero flag, or the zero flag with left / centre alignment) does not parse "
    "back in general and is not claimed; Display text padded with fill characters likewise",
    "Context::convert_base large-exponent branch (ln/exp at doubled precision): not mirrored; every case judged by exact rational arithmetic "
    "in the harness (digits, < 1 ulp, side, truthful flag, exact when representable) — the branch does NOT meet the contract (2 findings); no "
    "executable model can carry it short of C11's mirrored exp/ln at the working precision convert_base chooses (not attempted)",
    "Repr::new normalisation, repr_round, split_digits, round_fract, round_ratio: builder-float's models and theorems (C03/C10) are reused by import",
    "log2_bounds (f32 estimate): no longer on any path of C08 since fix fa3b7b8 (with_base uses the exact integer logarithm); nothing left to prove here",
    "Debug of finite values: since round 8 the integer inside the float Debug forms (debugInt) is proved equal to C07's debugSpec, hence to the text "
    "the word-level mirror of DoubleEnd::fmt yields (C07 debug_text, by import), and debugRepr / debugFBig are stated over that text "
    "(debug_significand_is_double_end, debug_float_forms). What stays run-time only: that the struct layout around the significand (` * B ^ e`, "
    "` (prec: p)`, field names and indentation of the pretty form, written through core::fmt's debug_struct) is what the real code prints — mirrored and "
    "compared on every run; the property text makes no claim about Debug",
    "clause review (round 5): every clause of the property text has a theorem except (a) base conversion through ln/exp (above), (b) `to_decimal` / "
    "`to_binary` — call forms of with_base::<10> / <2> (with_base_contract), compared with with_base by the harness on every run, (c) huge source precisions in with_base between bases that are not "
    "powers of one another are not driven (B^p is evaluated: AllocTooMuch), (d) printing/parsing at exponents outside the "
    "isize-safe range (above)",
]
THEOREMS = ["Dashu.Props.C08." + t for t in [
    "convert_base_pow_up_branch", "convert_base_pow_up_contract", "ilog_exact_sound", "convert_base_pow_down_branch",
    "convert_base_pow_down_contract", "convert_base_small_pos_contract", "exact_when_fits", "with_base_precision_documented",
    "from_ieee_exact", "parse_literal_exact", "print_parse_round_trip", "parse_eq_grammar", "grammar_digit_string", "parse_ok_denotes",
    "print_precision_text", "print_precision_rounding", "print_precision_parse", "with_precision_contract", "with_precision_unlimited",
    "display_padding_keeps_digits", "scientific_padding_keeps_digits", "padded_print_parse_round_trip", "padded_print_precision_parse",
    "convert_base_long_dividend_contract", "convert_base_exact_paths_contract", "convert_base_result_digits", "with_base_precision_model",
    "display_width_exact", "scientific_width_exact", "scientific_rounding", "scientific_text_denotes",
    "scientific_print_parse", "scientific_markers_accepted", "lower_upper_exp_parse_back", "radix_trait_parse_back",
    "round_int_meets_mode_spec", "mode_spec_unique", "display_spec_rounds_like_model", "with_precision_digits",
    "scale_markers_regenerated", "fmt_trait_table_regenerated", "convert_base_same_base",
    "padded_scientific_print_parse", "with_base_contract", "display_text_is_spec", "display_text_is_spec_normalised",
    "ilog_exact_regenerated", "with_base_precision_regenerated", "parse_isize_spec", "scale_split_spec",
    "debug_significand_is_double_end", "debug_float_forms"]]
EXPLANATION = ("Partial. Proved for all bases, modes, precisions and operands: the three exact-evaluation branches of base conversion "
               "round the exact value (contract of C03: exact iff representable, else < 1 ulp on the mode's side, truthful flag); "
               "the documented with_base precision; exactness of the f32/f64 import; the literal parser equals the documented grammar on every byte "
               "string (all markers, underscores, hexadecimal form, error cases) and every accepted string denotes exactly its digits with "
               "precision = digit count; Display then parse returns an equal number; Display with a precision prints exactly that many "
               "fractional digits of the value correctly rounded under the mode; with_precision meets the rounding contract; every path of "
               "convert_base that avoids ln/exp (incl. the division branch) rounds the exact value under the contract; padding (width, fill, "
               "alignment, +, zero flag) never changes the digits, the width is honoured exactly (Display and scientific formats) and "
               "zero-padded Display text parses back to the same value; the scientific formats (LowerExp/UpperExp/Binary/Octal/Hex incl. "
               "the hexadecimal form) round to p+1 significant digits as the mode says and their text denotes that rounded value and parses back "
               "(same base) to exactly it — to the printed number itself without a precision; the executable rounding specification (roundInt) "
               "used on the specification side meets the relational one (ModeSpec), which is single-valued; the Display text equals the text of the "
               "executable specification displaySpec; the marker tables of parser and "
               "formatter, ilog_exact and the precision decision of with_base are regenerated from the source and proved equal to the model. "
               "Debug and the printing of infinities are mirrored models compared on every run with the "
               "real code; the ln/exp conversion branch is judged per case by exact arithmetic.")
ASSUMPTIONS = ["exponents are unbounded integers in the model (isize in the code): results are claimed where no exponent leaves the isize range",
               "the f32 coarse test of round_fract decides like the exact comparison (C10)",
               "core::fmt delivers precision/width/flags as documented",
               "dashu-ratio arithmetic used by the harness judge of the ln/exp branch is exact (C04)"]
LEVEL_TEXT = ("PARTIAL. Machine-checked Lean 4 theorems, for every base >= 2, mode, precision >= 1 and operand: base conversion through the "
              "power-related and small-exponent branches returns repr_round of the exact value and therefore satisfies the rounding "
              "contract (exact whenever representable, otherwise < 1 ulp on the side the mode requires, truthful Exact/Inexact flag); "
              "the documented precision of with_base; exact import of f32/f64; the literal parser equals the documented grammar on every byte "
              "string in every base 2..36 (sign, underscores, markers e b o h p @, hexadecimal form of base 2, all error cases), an accepted "
              "string denotes exactly the number its digits spell and the precision is the number of written digits; the scale behind a marker is accepted exactly when it is "
              "an optional sign and decimal digits with a value inside the isize range, and is that value; Display (no precision) "
              "followed by parsing returns an equal number; Display with precision p prints exactly p fractional digits of the value rounded "
              "as the mode specifies, and parsing that text returns exactly the rounded value; with_precision meets the rounding contract; "
              "base conversion through every branch except ln/exp — including the division branch for small negative exponents — meets it "
              "too; formatter padding never alters the digits, pads to exactly the requested width (Display and all scientific formats), and "
              "zero-padded text parses back to the same value; LowerExp/UpperExp/Binary/Octal/LowerHex/UpperHex (incl. the hexadecimal form "
              "of base 2) round the significand to p+1 digits as the mode specifies — a carry into a new digit keeps the value — and the "
              "printed digits, point and exponent denote exactly that rounded value, with exactly p fraction digits; that text (no width) is "
              "accepted by the parser of the same base and reads back as exactly the value shown — the printed number itself when no precision "
              "is given — provided the printed exponent fits an isize; roundInt (the executable definition of the six modes used by the "
              "specification side) satisfies ModeSpec, ModeSpec is single-valued, so displaySpec rounds to the integer the model prints, and the whole Display text (no width) "
              "equals the displaySpec text; the "
              "scale-marker table of the parser and the marker table of the formatting traits are regenerated from the source and proved equal to "
              "the model's, likewise ilog_exact (float/src/utils.rs) and the precision decision of FBig::with_base (Tie A). "
              "Debug of finite values: the significand inside the Debug forms is proved to be the DoubleEnd text of C07's mirrored code (all digits below two words, "
              "true leading / trailing digits around `..` beyond), and the forms are stated over it; the struct layout around it is a mirrored model. "
              "Not proved but executed against the real code on every run: the layout of Debug, the printing of infinities (all traits). The large-exponent branch (ln/exp) is checked per case with exact "
              "rational arithmetic; it violates the contract on representable inputs and at small precisions (recorded findings). The theorems are about "
              "unbounded exponents; exponent arithmetic at the isize limits (parser, scientific formatter) is compared with the real code on every run "
              "(directed classes at isize::MIN/MAX); so are conversions between two bases near the top of the Word range (2^63+1 and 2, 2^32+1 and 2^32, ...), "
              "where ilog_exact must stop when the next power leaves the Word (fix 4fb3784).")
LEVEL_NOTE = ("Trusted: Lean kernel; axioms propext/Classical.choice/Quot.sound; the correspondence harness, its exact-arithmetic judge "
              "(dashu-ratio) and the generators (sampling); builder-float's rounding model/theorems (C03, C10) and builder-nt's log2 "
              "replica (C12) are reused. Thirteen defects found by this check; eleven were repaired in /repo (`fixed:` lines of known_findings.jsonl, patches in "
              "/verif/proposed_fixes/c08-*.diff) and the model describes the repaired code; the two findings about the ln/exp branch remain recorded.")
TECHNIQUE = "Lean 4 model + theorems, differential correspondence model vs real code, exact-arithmetic judge for the ln/exp branch"
