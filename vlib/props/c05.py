"""C05 — equality, ordering and hashing follow the mathematical value in every type (DESIGN §8 C05)."""
from vlib.core import Case
from vlib.gens import hx, dec
from vlib.props.c09 import mag, MAG_PATTERNS, nwords

GROUP = "bits"
LEAN_PROPS = "Dashu.Props.C05"
LEAN_AUDIT = "Dashu.Audit.C05"
# Tie A, typed translator: float/src/cmp.rs and rational/src/cmp.rs regenerated and proved equal to `Model/Int/Cmp.lean`
USES_GEN = True
GEN_PROPS = ["Dashu.Props.GenFloatCmp", "Dashu.Props.GenRatCmp", "Dashu.Props.GenIntOps"]
GEN_AUDIT = ["Dashu.Audit.GenFloatCmp", "Dashu.Audit.GenRatCmp", "Dashu.Audit.GenIntOps"]
# round 4: `Context::repr_round` AND its borrowing twin `repr_round_ref` regenerated from float/src/repr.rs and proved equal
# to `Float.reprRound` (the definition `float_results_fit`, `float_results_canonical` and the `f.ctx` driver op are about)
GEN_PROPS += ["Dashu.Props.GenFloatOps"]
GEN_AUDIT += ["Dashu.Audit.GenFloatOps"]
# round 5: `Repr::<B>::normalize` regenerated (Gen/FloatNorm.lean, vlib/extract_floatnorm.py) and proved equal to the hand models
# `FRepr.normalize` (C05) and `Float.FRepr.new` (C03); the `UBig::remove` arm is C12's mirrored `removeRepr`
GEN_PROPS += ["Dashu.Props.GenFloatNorm", "Dashu.Props.C05Norm"]
GEN_AUDIT += ["Dashu.Audit.C05Norm"]
# round 5: C05 <-> C04 link — ==/cmp/hash of ANY two registers of any rational history follow the values (C04's history
# invariant composed with ratio_cmp / relaxed_eq / rbig_eq / rbig_hash_follows_value)
GEN_PROPS += ["Dashu.Props.C05Link"]
GEN_AUDIT += ["Dashu.Audit.C05Link"]
# round 5: FBig::from_parts_const's own normaliser mirrored and proved = Repr::normalize
GEN_PROPS += ["Dashu.Props.C05Const"]
GEN_AUDIT += ["Dashu.Audit.C05Const"]
# round 6: the specification order of float_cmp IS the order of the rational values signif*B^exp (Proofs/Int/FloatValue.lean,
# Mathlib ℚ), infinities at the ends; transitivity / swap of the code's comparison on the invariant's domain
GEN_PROPS += ["Dashu.Props.C05Order"]
GEN_AUDIT += ["Dashu.Audit.C05Order"]
# round 7: link to C11's mirrored exp / ln / powf bodies (results fit precision+1 digits => cmp = order of the values)
GEN_PROPS += ["Dashu.Props.C05Trans"]
GEN_AUDIT += ["Dashu.Audit.C05Trans"]
# round 8: link to C08's mirrored Context::convert_base (with_base / with_base_and_precision): every `.ok` result is a good
# register (canonical, finite, <= precision+1 digits of the new base) => cmp / == follow the values; histories may start from them
GEN_PROPS += ["Dashu.Props.C05Base"]
GEN_AUDIT += ["Dashu.Audit.C05Base"]
JOBS = 12
READY = True

W = 64
M = (1 << 64) - 1
N_UROUTES = 40
N_IROUTES = 26


def sizes(tier):
    s = [0, 1, 1, 2, 2, 2, 2, 3, 3, 3, 3, 4, 4, 5]
    return s + ([6, 9, 17, 40, 100] if tier == "thorough" else [6, 9])


def nat(rng, tier, n=None):
    n = rng.choice(sizes(tier)) if n is None else n
    return mag(rng, n, rng.choice(MAG_PATTERNS))


def boundary(rng):
    """values straddling the inline/heap boundary and the 1/2-word boundary"""
    k = rng.choice([64, 128, 192])
    return max(0, (1 << k) + rng.choice([-2, -1, 0, 1, 2, (1 << 63), -(1 << 63)]))


def digits10(n):
    return len(str(abs(n))) if n else 0


def fl_operand(rng, base, tier):
    """(signif, exp, precision) with digits(signif) <= precision (what from_parts/with_precision give)"""
    r = rng.random()
    if r < 0.04:
        return ("inf", 0, 0)
    if r < 0.08:
        return ("-inf", 0, 0)
    if r < 0.14:
        return ("0", 0, 0)
    nd = rng.choice([1, 1, 2, 3, 5, 9, 17, 20, 40, 80])
    s = rng.randrange(base ** (nd - 1), base ** nd)
    if rng.random() < 0.3:
        s *= base ** rng.randrange(1, 4)          # trailing zero digits: normalize must strip them
    if rng.random() < 0.35:
        s *= 2 ** rng.randrange(1, 8)             # trailing zero BITS that are not whole digits (bases 16, 10)
    if rng.random() < 0.5:
        s = -s
    e = rng.choice([0, 0, 1, -1, 5, -5, 20, -20, 100, -100, rng.randrange(-60, 60)])
    p = 0 if rng.random() < 0.5 else None
    return (hx(s), e, p)


def fl_digits(s, base):
    n = abs(int(s, 16)) if not s.startswith("-") else abs(int(s[1:], 16))
    d = 0
    while n:
        n //= base; d += 1
    return d



def iroot(x, n):
    """floor n-th root of x >= 0"""
    if x < 2 or n == 1:
        return x
    lo, hi = 0, 1 << (x.bit_length() // n + 1)
    while lo < hi:
        mid = (lo + hi + 1) // 2
        if mid ** n <= x:
            lo = mid
        else:
            hi = mid - 1
    return lo


DIG = "0123456789abcdefghijklmnopqrstuvwxyz"


def to_radix(v, r, rng):
    """text of |v| in radix r: random case, optional underscores and leading zeros"""
    v = abs(v)
    ds = []
    while v:
        ds.append(DIG[v % r]); v //= r
    t = "".join(reversed(ds)) or "0"
    if rng.random() < 0.3:
        t = "0" * rng.randrange(1, 40) + t
    if rng.random() < 0.3:
        t = t.upper()
    if rng.random() < 0.3 and len(t) > 1:
        k = rng.randrange(1, len(t))
        t = t[:k] + "_" + t[k:]
    return t


def twos_le(v, rng):
    """two's complement little-endian bytes of v, possibly sign-extended beyond the minimum"""
    n = 1
    while not (-(1 << (8 * n - 1)) <= v < (1 << (8 * n - 1))):
        n += 1
    if v == 0 and rng.random() < 0.3:
        n = 0
    n += rng.choice([0, 0, 1, 7, 8, 9, 17]) if n or rng.random() < 0.5 else 0
    return list((v & ((1 << (8 * n)) - 1)).to_bytes(n, "little")) if n else []


ISZ_MAX = (1 << 63) - 1
ISZ_MIN = -(1 << 63)
USZ_MAX = (1 << 64) - 1
NORM_BASES = [2, 3, 4, 5, 6, 7, 8, 9, 10, 11, 12, 16, 24, 32, 36, 64, 100, 255, 256, 1000, 65536, 65537, 1 << 32, (1 << 32) - 1,
              1 << 63, 10 ** 19, (1 << 64) - 1, 3 ** 40]


def ndigits(n, B):
    d = 0
    while n:
        n //= B; d += 1
    return d


def _fparts(B, s, e, p):
    """(normalised significand, normalised exponent, precision as from_parts/with_precision give it, digits) of a
    finite non-zero operand of `f.cmp` / `f.norm`; None for zero and the infinities"""
    if s in ("inf", "-inf"):
        return None
    v = -int(s[1:], 16) if s.startswith("-") else int(s, 16)
    if v == 0:
        return None
    prec = p if p else max(ndigits(abs(v), B), 1)
    while v % B == 0:
        v //= B; e += 1
    return (v, e, prec, ndigits(abs(v), B))


def generate(rng, tier):
    quick = tier == "quick"
    # ---- the same value by many routes: canonical form + pairwise ==, cmp, hash
    for _ in range(260 if quick else 6000):
        x = boundary(rng) if rng.random() < 0.3 else nat(rng, tier)
        yield Case("c.routes", [hx(x)])
        yield Case("ci.routes", [hx(x if rng.random() < 0.5 else -x)])
    for x in [0, 1, (1 << 64) - 1, 1 << 64, (1 << 128) - 1, 1 << 128, (1 << 192) - 1, 1 << 192]:
        yield Case("c.routes", [hx(x)]); yield Case("ci.routes", [hx(-x)]); yield Case("ci.routes", [hx(x)])
    # ---- ordering / equality / hash of pairs, operands produced by different routes
    for _ in range(1500 if quick else 50000):
        a = boundary(rng) if rng.random() < 0.25 else nat(rng, tier)
        r = rng.random()
        if r < 0.25:
            b = a
        elif r < 0.5:
            b = max(0, a + rng.choice([-1, 1, -(1 << 64), 1 << 64, 1 << 128, -(1 << 128)]))
        elif r < 0.6 and a:
            # same length, differ only in a low / middle / top word
            k = rng.randrange(0, nwords(a))
            b = a ^ (1 << (64 * k + rng.randrange(0, 64)))
        else:
            b = boundary(rng) if rng.random() < 0.25 else nat(rng, tier)
        ra, rb = rng.randrange(0, 1000), rng.randrange(0, 1000)
        if rng.random() < 0.6:
            sa = -a if rng.random() < 0.5 else a
            sb = -b if rng.random() < 0.5 else b
            yield Case("c.cmp", [hx(sa), hx(sb), dec(ra), dec(rb)])
        else:
            yield Case("cu.cmp", [hx(a), hx(b), dec(ra), dec(rb)])
    # ---- histories: random programs over a register file (the instruction set of the history theorem);
    #      values are tracked here only to keep sizes bounded and to aim shifts/bit positions at the
    #      inline/heap boundary; every register is printed and all pairs are cross-checked in the harness
    for _ in range(250 if quick else 25000):
        regs = []
        prog = []

        def emit(tok, val):
            prog.append(tok); regs.append(val)
        for _ in range(rng.randrange(2, 4)):
            r = rng.random()
            v = boundary(rng) if r < 0.4 else nat(rng, tier, rng.choice([0, 1, 2, 3, 4]))
            if rng.random() < 0.4:
                v = -v
            k = rng.random()
            if k < 0.4:
                emit("const:" + hx(v), v)
            elif k < 0.7:
                ws = []
                a = abs(v)
                while a:
                    ws.append("%x" % (a & M)); a >>= 64
                ws += ["0"] * rng.randrange(0, 3)               # leading zero words for from_buffer to trim
                emit("words:%d:%s" % (1 if v < 0 else 0, ".".join(ws)), v)
            elif k < 0.85 and abs(v) < (1 << 127):
                b = rng.choice([128]) if abs(v) >= (1 << 63) else rng.choice([64, 128])
                emit("fs:%d:%s" % (b, hx(v)), v)
            else:
                emit("fu:%x" % (abs(v) % (1 << 128)), abs(v) % (1 << 128))
        n_ops = rng.randrange(5, 14)
        for _ in range(n_ops):
            i = rng.randrange(len(regs)); j = rng.randrange(len(regs))
            a, b = regs[i], regs[j]
            op = rng.choice(["add", "sub", "sub", "mul", "div", "rem", "dive", "reme", "and", "or", "xor", "not", "neg",
                             "abs", "clone", "sqr", "pow", "shl", "shr", "shr", "setbit", "clearbit", "clearhigh",
                             "splitlo", "splithi", "nextpow2", "ones",
                             "gcd", "gcd", "sqrt", "root", "root", "str", "str", "leb", "beb", "sleb", "sbeb", "vle", "vbe"])
            big = max(abs(a), abs(b)).bit_length()
            sh = rng.choice([0, 1, 63, 64, 65, 127, 128, 129, 192, max(big - 1, 0), big, big + 1, max(big - 64, 0), max(big - 128, 0)])
            if op in ("mul", "sqr") and big > 1500:
                op = "rem"
            if op == "pow" and big > 300:
                op = "neg"
            if op == "shl" and big + sh > 3000:
                op = "shr"
            if op == "add":
                emit("add:%d:%d:%d" % (i, j, rng.randrange(3)), a + b)
            elif op == "sub":
                emit("sub:%d:%d:%d" % (i, j, rng.randrange(3)), a - b)
            elif op == "mul":
                emit("mul:%d:%d" % (i, j), a * b)
            elif op in ("div", "rem", "dive", "reme"):
                if b == 0:
                    prog.append("%s:%d:%d" % (op, i, j)); break          # DivideByZero ends the history
                q = abs(a) // abs(b); q = q if (a < 0) == (b < 0) else -q
                val = {"div": q, "rem": a - b * q, "dive": (a - a % abs(b)) // b, "reme": a % abs(b)}[op]
                emit("%s:%d:%d" % (op, i, j), val)
            elif op in ("and", "or", "xor"):
                emit("%s:%d:%d" % (op, i, j), {"and": a & b, "or": a | b, "xor": a ^ b}[op])
            elif op == "not":
                emit("not:%d" % i, ~a)
            elif op == "neg":
                emit("neg:%d" % i, -a)
            elif op == "abs":
                emit("abs:%d" % i, abs(a))
            elif op == "clone":
                emit("clone:%d" % i, a)
            elif op == "sqr":
                emit("sqr:%d" % i, a * a)
            elif op == "pow":
                e = rng.choice([0, 1, 2, 3, 4])
                emit("pow:%d:%d" % (i, e), a ** e)
            elif op == "shl":
                emit("shl:%d:%d" % (i, sh), a << sh)
            elif op == "shr":
                emit("shr:%d:%d:%d" % (i, sh, rng.randrange(2)), a >> sh)
            elif op == "ones":
                n = rng.choice([0, 63, 64, 127, 128, 129, 192])
                emit("ones:%d" % n, (1 << n) - 1)
            elif op == "gcd":
                if a == 0 and b == 0:
                    prog.append("gcd:%d:%d" % (i, j)); break                  # GcdZeroZero ends the history
                import math
                emit("gcd:%d:%d" % (i, j), math.gcd(abs(a), abs(b)))
            elif op == "sqrt":
                if a < 0:
                    prog.append("sqrt:%d" % i); break                         # RootNegative
                emit("sqrt:%d" % i, iroot(a, 2))
            elif op == "root":
                n = rng.choice([1, 2, 3, 3, 4, 5, 7, 63, 64, 65, 130, 0 if rng.random() < 0.2 else 3])
                if n == 0 or (a < 0 and n % 2 == 0):
                    prog.append("root:%d:%d" % (i, n)); break                 # RootZeroth / RootNegative
                rt = iroot(abs(a), n)
                emit("root:%d:%d" % (i, n), -rt if a < 0 else rt)
            elif op == "str":
                r = rng.choice([2, 8, 10, 10, 16, 16, 36, 3, 7, 32])
                signed = rng.random() < 0.6
                v = a if signed else abs(a)
                t = to_radix(v, r, rng)
                if v < 0:
                    t = "-" + t
                elif rng.random() < 0.2:
                    t = "+" + t
                if rng.random() < 0.06:
                    t = rng.choice(["", "_", "-", t + "!", t + DIG[r] if r < 36 else "-" + t + " ", "+-" + t])   # malformed: ends the history (unless it happens to be valid)
                    prog.append("str:%d:%d:%s" % (1 if signed else 0, r, t.encode().hex())); break
                if rng.random() < 0.12:
                    # round 5 (E2): ANY byte 0x00..0x7f (and a few multi-byte characters) substituted or inserted at the first /
                    # a middle / the last position of a valid text — the last instruction of the history (valid or not)
                    ch = rng.choice([chr(rng.randrange(0, 0x80))] * 6 + ["\u00e9", "\u0663", "\uff11", "\u2212"])
                    pos = rng.choice([0, len(t) // 2, max(len(t) - 1, 0), len(t), rng.randrange(0, len(t) + 1)])
                    t = t[:pos] + ch + (t[pos + 1:] if rng.random() < 0.5 else t[pos:])
                    prog.append("str:%d:%d:%s" % (1 if signed else 0, r, t.encode().hex())); break
                emit("str:%d:%d:%s" % (1 if signed else 0, r, t.encode().hex()), v)
            elif op in ("leb", "beb"):
                v = abs(a)
                bs = list(v.to_bytes((v.bit_length() + 7) // 8, "little")) + [0] * rng.choice([0, 0, 1, 7, 8, 9, 16, 17])
                if rng.random() < 0.3:
                    bs = [rng.randrange(256) for _ in range(rng.choice([0, 1, 7, 8, 9, 15, 16, 17, 24, 25, 40]))]
                    v = int.from_bytes(bytes(bs), "little")
                if op == "beb":
                    bs = bs[::-1]
                emit("%s:%s" % (op, bytes(bs).hex()), v)
            elif op in ("sleb", "sbeb"):
                v = a
                if rng.random() < 0.25:
                    v = -(1 << (8 * rng.choice([1, 8, 9, 16, 17, 24]) - 1)) + rng.choice([0, 0, 1, -1])   # top byte exactly 0x80 / 0x7f.. / 0x80..01
                bs = twos_le(v, rng)
                if rng.random() < 0.3:
                    bs = [rng.randrange(256) for _ in range(rng.choice([0, 1, 7, 8, 9, 15, 16, 17, 24, 25, 40]))]
                    if bs:
                        bs[-1] = rng.choice([0, 0x7f, 0x80, 0xff, bs[-1]])
                    v = int.from_bytes(bytes(bs), "little", signed=True) if bs else 0
                if op == "sbeb":
                    bs = bs[::-1]
                emit("%s:%s" % (op, bytes(bs).hex()), v)
            elif op in ("vle", "vbe"):
                emit("%s:%d" % (op, i), a)
            else:
                if a < 0:
                    if rng.random() < 0.1:
                        prog.append("%s:%d%s" % (op, i, "" if op == "nextpow2" else ":%d" % sh)); break   # `bad`
                    continue
                if op == "setbit":
                    emit("setbit:%d:%d" % (i, sh), a | (1 << sh))
                elif op == "clearbit":
                    emit("clearbit:%d:%d" % (i, sh), a & ~(1 << sh))
                elif op in ("clearhigh", "splitlo"):
                    emit("%s:%d:%d" % (op, i, sh), a & ((1 << sh) - 1))
                elif op == "splithi":
                    emit("splithi:%d:%d" % (i, sh), a >> sh)
                else:
                    emit("nextpow2:%d" % i, 1 if a <= 1 else 1 << (a - 1).bit_length())
        yield Case("c.hist", [",".join(prog)])
    # ---- round 5 (E2): from_str_radix inside a history with EVERY byte 0x00..0x7f at the first / a middle / the last position
    #      (substituted into a valid text of radix 2..36, signed and unsigned parse): accepted texts must give the canonical
    #      value, rejected ones end the history the same way on both sides
    for b in range(0x80):
        for pk in ([rng.randrange(3)] if quick else [0, 1, 2]):
            r = rng.choice([2, 8, 10, 16, 36, 7, 11, 35])
            v = rng.getrandbits(rng.choice([8, 64, 65, 130])) + 1
            t = to_radix(v, r, rng)
            pos = [0, len(t) // 2, len(t) - 1][pk]
            t = t[:pos] + chr(b) + t[pos + 1:]
            yield Case("c.hist", ["const:%s,str:%d:%d:%s" % (hx(v), rng.randrange(2), r, t.encode().hex())])
    # ---- round 5 (E1): the integer producers with a `usize` count at EVERY kind of count: IBig/UBig >> n (both ownership forms),
    #      clear_high_bits, split_bits, clear_bit, nth_root(n >= bit_len) — 0, 1, W-1, W, W+1, 2W-1..2W+1, around the bit length
    #      and the word boundaries of the value, 2^31, 2^32-1, 2^32, 2^32+k (k < 130), 2^63, usize::MAX-k (k = 0..130); values
    #      of 0..6 words straddling the inline/heap boundary, both signs: results canonical (repr_info), ==/cmp/hash by value
    for _ in range(420 if quick else 15000):
        x = boundary(rng) if rng.random() < 0.3 else nat(rng, tier, rng.choice([0, 1, 1, 2, 2, 3, 3, 4, 6]))
        bl = x.bit_length()
        r = rng.random()
        if r < 0.35:
            n = rng.choice([0, 1, 63, 64, 65, 127, 128, 129, 191, 192, 193, max(bl - 1, 0), bl, bl + 1, max(bl - 64, 0), max(bl - 65, 0),
                            bl + 63, bl + 64, rng.randrange(0, bl + 70)])
        elif r < 0.55:
            n = rng.choice([(1 << 31) - 1, 1 << 31, (1 << 32) - 1, 1 << 32, (1 << 32) + rng.randrange(1, 130), (1 << 32) + 64,
                            (1 << 32) + 128, (1 << 63) - 1, 1 << 63, (1 << 63) + rng.randrange(1, 130)])
        else:
            n = USZ_MAX - rng.randrange(0, 131)
        yield Case("c.ext", [hx(-x if rng.random() < 0.4 else x), dec(n)])
    # ---- ones(n)
    for n in sorted(set([0, 1, 63, 64, 65, 127, 128, 129, 191, 192, 193, 255, 256, 257]
                        + [rng.randrange(0, 600) for _ in range(20 if quick else 300)])):
        yield Case("c.ones", [dec(n)])
    # (the exact byte stream `c.hashfeed` is NOT generated: the property promises that the hash is a
    #  function of the value, not a particular feed — equality of feeds between routes is checked by
    #  c.routes / ci.routes / c.cmp / q.routes; the op remains available for replays)
    # ---- floats of the same base, any precisions (digits <= precision by construction)
    for _ in range(900 if quick else 30000):
        base = rng.choice([2, 10, 10, 16])
        sa, ea, pa = fl_operand(rng, base, tier)
        r = rng.random()
        if r < 0.2:
            sb, eb, pb = sa, ea, pa
        elif r < 0.45 and sa not in ("inf", "-inf", "0"):
            # same value written with a shifted exponent, or a neighbour
            k = rng.randrange(1, 6)
            v = int(sa, 16) if not sa.startswith("-") else -int(sa[1:], 16)
            sb, eb, pb = hx(v * base ** k + rng.choice([0, 0, 1, -1])), ea - k, None
        elif r < 0.6 and sa not in ("inf", "-inf", "0"):
            # exponents far apart / exactly at the digit thresholds of cases 4 and 5
            sb, eb, pb = fl_operand(rng, base, tier)
            if sb not in ("inf", "-inf", "0"):
                eb = ea + rng.choice([-1, 0, 1]) + rng.choice([-1, 1]) * fl_digits(rng.choice([sa, sb]), base)
        else:
            sb, eb, pb = fl_operand(rng, base, tier)

        def prec(s, p):
            if s in ("inf", "-inf"):
                return 0
            if p == 0:
                return 0
            d = max(fl_digits(s, base), 1)
            return d + rng.choice([0, 0, 1, 5, 50])
        yield Case("f.cmp", [base, sa, dec(ea), dec(prec(sa, pa)), sb, dec(eb), dec(prec(sb, pb))])
    # ---- round 5: the normalising constructor alone (`Repr::new` = `Repr::normalize`, regenerated as Gen/FloatNorm.lean):
    #      28 bases — 2 (first arm), powers of two with 2..63 bits per digit (second arm: trailing zero BITS of every
    #      residue modulo the digit width), everything else through `UBig::remove` (one-word bases up to 2^64-1; the
    #      squaring tower reaches f^2, f^4, … f^256: multiplicities 0..300, every binary pattern) — cofactors that share a
    #      proper divisor with the base, signs, zero; exponents at 0, +-1, 2^31, 2^32 (+-k), isize::MIN, and so that the
    #      RESULT exponent is isize::MAX - t for t around the digit count (E1)
    for _ in range(520 if quick else 20000):
        B = rng.choice(NORM_BASES)
        j = rng.choice([0, 0, 1, 1, 2, 3, 4, 5, 6, 7, 8, 9, 15, 16, 17, 31, 32, 33, 63, 64, 65, 127, 128, 129,
                        rng.randrange(0, 130 if quick else 300)])
        if B.bit_length() > 32:
            j = min(j, 40 if quick else 140)
        k = rng.choice([1, 1, B - 1, B + 1, 3, rng.getrandbits(rng.choice([3, 20, 63, 64, 65, 128, 129, 200])) | 1])
        if B & (B - 1) == 0:
            bits = B.bit_length() - 1
            k = (k | 1) << rng.randrange(0, bits)          # trailing zero bits that are not a whole digit
        else:
            divs = [d for d in (2, 3, 5, 7, 11, 17, 257, 65537) if B % d == 0 and d < B]
            if divs and rng.random() < 0.5:
                k *= rng.choice(divs) ** rng.randrange(1, 4)
            while k % B == 0:
                k += 1
        sg = k * B ** j
        if rng.random() < 0.04:
            sg = 0
        if rng.random() < 0.45:
            sg = -sg
        D = ndigits(k, B)
        r = rng.random()
        if r < 0.5:
            e = rng.choice([0, 0, 1, -1, 7, -7, rng.randrange(-1000, 1000)])
        elif r < 0.62:
            e = rng.choice([1, -1]) * ((1 << rng.choice([31, 32])) + rng.randrange(-2, 131))
        elif r < 0.72:
            e = ISZ_MIN + rng.choice([0, 1, 2, 64, 130])
        else:
            e = ISZ_MAX - j - rng.choice([0, 1, max(D - 1, 0), D, D + 1, D + 2, D + 3, D + 5, 2 * D + 2, 64, 130])
        yield Case("f.norm", [dec(B), hx(sg), dec(e)])
    for B in NORM_BASES:
        for sg, e in ((0, 5), (1, 0), (-1, -1), (B, 0), (-B * B, 3), (B * B * B * (B + 1), -3), (B - 1, ISZ_MIN), (B ** 5, ISZ_MIN)):
            yield Case("f.norm", [dec(B), hx(sg), dec(e)])
    # ---- round 5 (E2): `B^j - 1`, `B^j`, `B^j + 1` for EVERY j with B^j < 2^128 and every base (from_parts_const's
    #      `checked_mul` digit loop and both normalisers at every magnitude), plus significands in [B^jmax, 2^128): the
    #      class where the const constructor's inferred precision is one below the digit count (still <= precision + 1)
    pw = []
    for B in NORM_BASES:
        j, p_ = 0, 1
        while p_ < (1 << 128):
            for d_ in (-1, 0, 1):
                if 0 < p_ + d_ < (1 << 128):
                    pw.append((B, p_ + d_))
            j += 1; p_ *= B
        top = p_ // B
        for _ in range(3):
            pw.append((B, rng.randrange(top, 1 << 128)))
        pw.append((B, (1 << 128) - 1)); pw.append((B, 1 << 128))
    if quick:
        pw = rng.sample(pw, 260)
    for B, sg in pw:
        yield Case("f.norm", [dec(B), hx(-sg if rng.random() < 0.3 else sg), dec(rng.choice([0, 0, -3, 17]))])
    # ---- round 6: `FBig::<R,2>::try_from(f32/f64)` / `Repr::<2>::try_from` as producers (history instruction `fromFloat`): bit
    #      patterns from the branch conditions of `decode` (exponent field 0 = subnormal/zero, all ones = inf/NaN, else normal)
    #      and of `Repr::normalize`'s `B == 2` arm (trailing zero bits of the mantissa: every count), both signs
    core, ff = [], []
    for t, mb, eb in ((32, 23, 8), (64, 52, 11)):
        emax = (1 << eb) - 1
        bias = emax >> 1
        def pat(sg, ef, mant):
            return (t, (sg << (t - 1)) | (ef << mb) | mant)
        for sg in (0, 1):
            core += [pat(sg, 0, 0), pat(sg, 0, 1), pat(sg, 0, (1 << mb) - 1), pat(sg, 1, 0), pat(sg, bias, 0),
                     pat(sg, emax - 1, (1 << mb) - 1), pat(sg, emax, 0), pat(sg, emax, 1), pat(sg, emax, 1 << (mb - 1))]
            for ef in [0, 1, 2, bias - 1, bias, bias + 1, bias + mb, bias + mb + 1, emax - 1, emax] + [rng.randrange(1, emax) for _ in range(3)]:
                mants = [0, 1, 2, 3, (1 << mb) - 1, (1 << mb) - 2, 1 << (mb - 1)]
                for k in range(mb):
                    mants += [1 << k, (1 << k) - 1 if k else 0, ((1 << mb) - 1) ^ ((1 << k) - 1), rng.randrange(1 << mb) >> k << k]
                for mant in mants:
                    ff.append(pat(sg, ef, mant))
        for _ in range(100 if quick else 20000):
            ff.append((t, rng.randrange(1 << t)))
    if quick:
        ff = rng.sample(ff, 420)
    for t, bits in core + ff:
        yield Case("f.from", [dec(t), hx(bits)])
    # ---- round 5 (E1): comparison of floats with EXTREME exponents and precisions — exponents within a few digit counts of
    #      isize::MAX (the sums `exp + precision`, `exp + digits_ub` of the shortcuts leave isize: saturating since ee43486), just below
    #      that threshold (must be exact), at isize::MIN, around 2^31 / 2^32; precisions 2^31, 2^32 (+-k), 2^63 -+ k,
    #      usize::MAX - k.  The two exponents stay within 2*digits+2 of each other (the exact comparison is cheap).
    for _ in range(320 if quick else 12000):
        base = rng.choice([2, 10, 10, 16])
        nd = rng.choice([1, 1, 2, 3, 5, 19, 20, 40])
        s1 = rng.randrange(base ** (nd - 1), base ** nd)
        if s1 % base == 0:
            s1 += 1
        kind = rng.choice(["expmax", "expmax", "expmax", "expmin", "exp32", "prec", "prec"])
        if kind == "expmax":
            E = ISZ_MAX - rng.choice([0, 1, max(nd - 1, 0), nd, nd + 1, nd + 2, nd + 3, 2 * nd + 1, 60, 130, 1000])
        elif kind == "expmin":
            E = ISZ_MIN + rng.choice([0, 1, 64, 130])
        elif kind == "exp32":
            E = rng.choice([1, -1]) * ((1 << rng.choice([31, 32])) + rng.randrange(-2, 131))
        else:
            E = rng.choice([0, 3, -3, 100, -100, ISZ_MAX - 200, ISZ_MIN + 5])
        r = rng.random()
        if r < 0.3:
            s2, E2 = s1, E
        elif r < 0.5:
            s2, E2 = s1 + rng.choice([-1, 1]), E
        elif r < 0.75:
            kk = rng.randrange(1, nd + 2)                      # the same value / a neighbour written with a lower exponent
            s2, E2 = s1 * base ** kk + rng.choice([0, 0, 1, -1]), E - kk
        else:
            s2 = rng.randrange(1, base ** rng.randrange(1, nd + 2))
            E2 = E + rng.randrange(-(2 * nd + 2), 2 * nd + 3)
        if s2 == 0:
            s2 = 1
        E2 = min(max(E2, ISZ_MIN), ISZ_MAX)
        if E2 < ISZ_MIN + 0 or E < ISZ_MIN:
            continue
        sgn = rng.choice([(1, 1), (1, 1), (-1, -1), (-1, -1), (1, -1)])

        def bigprec(dg):
            if kind != "prec" and rng.random() < 0.8:
                return 0 if rng.random() < 0.5 else dg + rng.choice([0, 1, 5])
            return rng.choice([1 << 31, (1 << 32) - 1, 1 << 32, (1 << 32) + rng.randrange(1, 130), (1 << 63) - 1 - rng.randrange(0, 131),
                               1 << 63, (1 << 63) + rng.randrange(1, 131), USZ_MAX - rng.randrange(0, 131), USZ_MAX])
        # trailing base-digits of s2 are stripped by normalize: the exponent must stay inside isize
        t2, z2 = s2, 0
        while t2 % base == 0:
            t2 //= base; z2 += 1
        if E2 + z2 > ISZ_MAX:
            continue
        yield Case("f.cmp", [base, hx(sgn[0] * s1), dec(E), dec(bigprec(ndigits(s1, base))),
                             hx(sgn[1] * s2), dec(E2), dec(bigprec(ndigits(s2, base)))])
    # ---- a float out of with_base::<10>() (exact integer, possibly more digits than its precision)
    #      against decimal floats around it
    P10 = {10: 3, 20: 6, 30: 9, 40: 12, 50: 15, 64: 19, 100: 30}
    for _ in range(120 if quick else 3000):
        pa = rng.choice(list(P10))
        s = rng.getrandbits(pa) | (1 << (pa - 1)) | 1
        ea = rng.choice([0, 1, 5, 10, 20, 30, 38])
        v = s << ea
        r = rng.random()
        if r < 0.3:
            sb, eb = 1, rng.choice([digits10(v) - 1, digits10(v), P10[pa] + 1, P10[pa] + 2, 3, 5])
        elif r < 0.6:
            sb, eb = v + rng.choice([-1, 0, 1]), 0
        else:
            sb, eb = rng.randrange(1, 10 ** rng.randrange(1, 6)), rng.randrange(0, digits10(v) + 3)
        if rng.random() < 0.3:
            s, sb = -s, -sb
        yield Case("f.basecmp", [hx(s), dec(ea), dec(pa), dec(P10[pa]), hx(sb), dec(eb)])
    # ---- results that keep the spare digit (a - b of equal signs: p+1 significant digits, flagged Exact)
    #      compared with values at the exponent thresholds of the precision shortcut (case 4) and next to r
    for _ in range(300 if quick else 9000):
        B = rng.choice([2, 10, 10, 16])
        p = rng.choice([1, 2, 3, 4, 6, 9])
        sa = rng.randrange(B ** (p - 1), B ** p)
        sb = rng.randrange(1, B)
        D = sa * B - sb                                    # exact difference of sa*B^1 and sb*B^0
        sign = -1 if rng.random() < 0.4 else 1
        dD = 0
        t = D
        while t:
            t //= B; dD += 1
        r = rng.random()
        if r < 0.45:
            sc, ec = rng.choice([1, 1, B - 1, rng.randrange(1, B)]), rng.choice([p - 1, p, p, p + 1, dD - 1, dD])
        elif r < 0.75:
            sc, ec = D + rng.choice([-1, 0, 1]), 0
        else:
            sc, ec = rng.randrange(1, B ** rng.randrange(1, p + 2)), rng.randrange(0, p + 3)
        yield Case("f.subcmp", [B, hx(sign * sa), dec(1), hx(sign * sb), dec(0), dec(p), hx(sign * D), dec(0),
                                hx(sign * sc), dec(ec), dec(0)])
    # ---- invariant digits <= precision + 1 after single operations and chains (incl. operands that are
    #      themselves p+1-digit results: addsub / subsub / submul)
    for _ in range(600 if quick else 20000):
        base = rng.choice([2, 10, 10, 16])
        p = rng.choice([1, 2, 3, 4, 5, 8, 12, 20])

        def opnd():
            nd = rng.randrange(1, p + 1)
            s = rng.choice([rng.randrange(base ** (nd - 1), base ** nd), base ** nd - 1, base ** (nd - 1)])
            if rng.random() < 0.5:
                s = -s
            return s, rng.choice([0, 0, 1, -1, 2, -2, p, p + 1, -p, -p - 1, rng.randrange(-8, 8)])
        sa, ea = opnd(); sb, eb = opnd()
        op = rng.choice(["add", "sub", "sub", "mul", "div", "div", "sqr", "cubic", "sqrt", "addsub", "submul", "subsub"])
        if op == "sqrt":
            sa = abs(sa)
        yield Case("f.fits", [base, op, hx(sa), dec(ea), dec(p), hx(sb), dec(eb), dec(p)])
    # ---- floats converted from a power base to its root base (convert_base shortcut `B = NewB^k`):
    #      significands 2^j * odd (even but not divisible by the source base), odd, multiples of the source
    #      base, zero; the result must be the normalised representation, ==/cmp Equal to the direct one
    PAIRS = [(16, 2), (16, 2), (8, 2), (4, 2), (16, 4), (9, 3), (27, 3), (100, 10)]
    for _ in range(400 if quick else 12000):
        S, D = rng.choice(PAIRS)
        odd = rng.choice([1, 3, 5, 0x12345, rng.getrandbits(rng.choice([8, 30, 70, 140])) | 1])
        r = rng.random()
        if r < 0.55:
            sg = odd * D ** rng.randrange(1, 8)          # divisible by the target base, maybe not by the source base
        elif r < 0.7:
            sg = odd
        elif r < 0.8:
            sg = odd * S ** rng.randrange(1, 3)
        elif r < 0.85:
            sg = 0
        else:
            sg = rng.getrandbits(rng.choice([5, 20, 64, 130])) + 1
        if rng.random() < 0.4:
            sg = -sg
        yield Case("f.viabase", [S, D, hx(sg), dec(rng.choice([0, 1, -1, 2, -2, 5, -7, rng.randrange(-20, 20)]))])
    for S, D in set(PAIRS):
        for sg in (2, 6, 4, 12, D, 2 * D, D * D, S // D if S // D > 1 else 2):
            yield Case("f.viabase", [S, D, hx(sg), dec(1)]); yield Case("f.viabase", [S, D, hx(-sg), dec(-3)])
    # ---- exact zeros of every origin (literal, default, from_parts(0,k), a-a, 0*a, -0, parsed; precision 0
    #      and > 0) through every producer in its by-value / by-reference / compound-assignment forms
    #      (<< >> <<= >>=, * *=, + - += -= with zero, neg, abs, / /=, sqr, cubic, sqrt, powi, trunc…round,
    #      clone(_from), with_precision / with_rounding / with_base): each result must be the canonical zero
    #      (exponent 0), == / cmp Equal to ZERO both ways, strictly between -1 and 1, same numeric hash
    ZTAGS = ["2", "2d", "10", "10c", "16", "3"]
    for tag in ZTAGS:
        for p in (0, 1, 2, 4, 5, 9, 40):
            for x, k in ((1, 1), (-1, -9), (123, 4), ((1 << 88) + 1, 0), (1000, -2), (0, 3)):
                yield Case("f.zero", [tag, dec(p), hx(x), dec(k)])
    for _ in range(60 if quick else 3000):
        x = rng.choice([1, 3, 10, 16, rng.getrandbits(rng.choice([4, 30, 64, 65, 130, 200])) + 1])
        if rng.random() < 0.5:
            x = -x
        yield Case("f.zero", [rng.choice(ZTAGS), dec(rng.choice([0, 0, 1, 2, 3, 7, 19, 20, 64, 100])), hx(x),
                              dec(rng.choice([0, 1, -1, 5, -7, 63, -64, 1000, -1000, rng.randrange(-300, 300)]))])
    # ---- one value rounded ONCE through every route: owning repr_round (with_precision, sub(0,-x), convert_int) and
    #      borrowing repr_round_ref (Context::add(&0,&x), add(&x,&0), sub(&x,&0), powi(x,1), powf(x,1)); then the
    #      producers that pre-shrink an operand by reference (mul/sqr/cubic/div/inv/sqrt/powi/exp/ln).  Input classes
    #      from the branches of repr_round(_ref) / round_fract: unlimited precision, digits <= p (clone), digits > p
    #      with kept digits ending in zero digits (NoOp must still normalise), all-max kept digits (carry makes B^p),
    #      exact ties / tie+-1 / tiny / all-max discarded part, both signs, second operand shorter / longer than
    #      2p, 3p and rhs.digits+p (the pre-shrink thresholds)
    CTAGS = ["2Z", "2E", "2A", "10H", "10H", "10E", "10D", "10U", "10Z", "16Z", "16H", "3U"]
    for _ in range(500 if quick else 40000):
        tag = rng.choice(CTAGS)
        B = int(tag[:-1])
        pp = rng.choice([0, 1, 2, 3, 3, 4, 5, 7, 12, 19, 20, 40])
        kd = pp if pp else rng.choice([1, 3, 8])
        r = rng.random()
        if r < 0.35 and kd >= 2:
            z = rng.randrange(1, kd)                                  # kept digits end in z zero digits
            K = rng.randrange(B ** (kd - z - 1), B ** (kd - z)) * B ** z
        elif r < 0.5:
            K = B ** kd - 1                                            # every rounding up carries into a new digit
        elif r < 0.6:
            K = B ** (kd - 1)
        else:
            K = rng.randrange(B ** (kd - 1), B ** kd)
        k = rng.choice([0, 1, 1, 2, 3, 5, 17, 40])                   # discarded digits
        if k == 0:
            L = 0
        else:
            half = (B ** k) // 2
            L = rng.choice([1, B ** k - 1, half, half + 1, max(half - 1, 1), rng.randrange(1, B ** k),
                            rng.randrange(1, B) * B ** (k - 1), B ** (k - 1) + 1])
        sx = K * B ** k + L
        if rng.random() < 0.45:
            sx = -sx
        if rng.random() < 0.04:
            sx = 0
        ex = rng.choice([0, 0, 1, -1, -4, 3, 17, -17, 39, -40, 200, -200, rng.randrange(-30, 30)])
        ny = rng.choice([1, 2, max(pp, 1), 2 * pp + 1, 3 * pp + 2, kd + k + pp + 1, rng.randrange(1, 3 * pp + 8)])
        sy = rng.choice([rng.randrange(B ** (ny - 1), B ** ny), B ** ny - 1, B ** (ny - 1) + 1, 1])
        if rng.random() < 0.4:
            sy = -sy
        if rng.random() < 0.03:
            sy = 0
        yield Case("f.ctx", [tag, hx(sx), dec(ex), dec(pp), hx(sy), dec(rng.choice([0, 1, -1, 5, -9, ex, -ex]))])
    for tag, sx, ex, pp in (("10H", 12049, -4, 3), ("2Z", 0b10100001, 0, 4), ("10U", 99951, 0, 2), ("16Z", 0x1200f, -2, 3),
                            ("10E", 1250, 0, 2), ("10E", 1350, 0, 2), ("3U", 3 ** 5 * 7 + 1, 0, 2), ("2E", 0b110001, 3, 2)):
        yield Case("f.ctx", [tag, hx(sx), dec(ex), dec(pp), hx(7), dec(0)])
        yield Case("f.ctx", [tag, hx(-sx), dec(-ex), dec(pp), hx(-7001), dec(-2)])
    # ---- the same float / rational by several routes
    for _ in range(200 if quick else 6000):
        nd = rng.choice([1, 2, 3, 9, 19, 20, 38, 39, 40, 60])
        s = rng.randrange(10 ** (nd - 1), 10 ** nd) if rng.random() < 0.9 else 0
        if rng.random() < 0.3:
            s *= 10 ** rng.randrange(1, 5)
        if rng.random() < 0.5:
            s = -s
        yield Case("f.routes", [hx(s), dec(rng.choice([0, 0, 1, -1, 7, -7, 30, -30, rng.randrange(-50, 50)]))])
    for _ in range(200 if quick else 6000):
        n = mag(rng, rng.choice([0, 1, 1, 2, 3]), rng.choice(MAG_PATTERNS)) if rng.random() < 0.6 else rng.randrange(0, 1000)
        d = mag(rng, rng.choice([1, 1, 2, 3]), rng.choice(MAG_PATTERNS)) if rng.random() < 0.6 else rng.randrange(1, 1000)
        if rng.random() < 0.4 and n:
            g = rng.choice([2, 3, 6, 1 << 64, (1 << 64) - 1])
            n, d = n * g, d * g
        yield Case("q.routes", [hx(-n if rng.random() < 0.5 else n), hx(d)])
    # ---- rationals: Relaxed as given (not reduced) and RBig (reduced)
    for _ in range(900 if quick else 30000):
        def frac():
            n = mag(rng, rng.choice([0, 1, 1, 1, 2, 3]), rng.choice(MAG_PATTERNS))
            d = mag(rng, rng.choice([1, 1, 1, 2, 3]), rng.choice(MAG_PATTERNS))
            if rng.random() < 0.4:
                n, d = rng.randrange(0, 50), rng.randrange(1, 50)
            return n, d
        n1, d1 = frac()
        r = rng.random()
        if r < 0.3:
            k = rng.choice([1, 2, 3, 6, 7, 1 << 64, (1 << 64) + 1])
            n2, d2 = n1 * k, d1 * k                      # the same value, not reduced
        elif r < 0.5:
            k = rng.choice([1, 2, 3, 7])
            n2, d2 = n1 * k + rng.choice([-1, 1]), d1 * k  # a near neighbour
            n2 = max(n2, 0)
        elif r < 0.6:
            # numerators/denominators whose bit lengths differ by exactly the shortcut thresholds
            sh = rng.choice([1, 2, 3])
            n2, d2 = (n1 << sh) + rng.choice([0, 1]), d1 + rng.choice([0, 1])
        elif r < 0.68:
            n2, d2 = n1, d1 + rng.choice([1, 2, d1])          # same numerator, different denominator
        elif r < 0.76:
            n2, d2 = n1 + rng.choice([1, 2, n1]), d1          # same denominator, different numerator
        else:
            n2, d2 = frac()
        s1 = -1 if rng.random() < 0.4 else 1
        s2 = -1 if rng.random() < 0.4 else 1
        yield Case("q.cmp", [hx(s1 * n1), hx(d1), hx(s2 * n2), hx(d2)])


def nontrivial(c):
    import re
    if c.op == "c.hist":
        return len(c.args[0]) > 60
    if c.op in ("c.routes", "ci.routes", "c.cmp", "cu.cmp", "c.hashfeed", "c.ext"):
        return any(re.fullmatch(r"-?[0-9a-f]+", a) and len(a.lstrip("-")) > 16 for a in c.args)
    return True


RULE = ("integers: values of exactly 0..6,9 (thorough ..100) words in the C09 bit patterns plus values at 2^64, 2^128, 2^192 +- {0,1,2,2^63}; "
        "`c.routes/ci.routes` build each value by 40 (UBig) / 26 (IBig) routes — from_words (also with leading zero words), parsing in "
        "radix 10/16/36, clone, clone_from onto inline and heap targets, x+y-y with y of 1/2/3/5 words, (x<<k)>>k for k in {1,64,65,128,129}, "
        "x*y/y, le/be bytes, clone_from onto a 100-word and onto an equal-length heap target, sqrt(x^2), cbrt(x^3), radix-7 text, gcd(3x,5x), |0, ^y^y, & ones, split_bits and rejoin, set_bit+clear_bit far above, clear_high_bits, IBig round trips, "
        "u128/i128 conversion, ones(n), pow(1), carry into a new top word and back, gcd(x,x), zeros produced from negative operands — and "
        "require through the hook `repr_info` that every result is inline iff <= 2 words with no leading zero word (and zero is +0), and "
        "that all results are pairwise ==, cmp Equal, partial_cmp Equal and feed the same bytes to a recording Hasher; `c.cmp/cu.cmp`: "
        "pairs (equal, +-1, +-2^64, +-2^128, one flipped bit in any word, independent) x all sign pairs, each operand produced by a random "
        "route; `c.hist`: random programs (5-14 instructions of the history theorem's instruction set, operands aimed at the inline/heap boundary, results fed back; also programs ending in DivideByZero) — every register printed, all pairs cross-checked for ==/cmp/hash vs value; `c.ones`: n at all boundaries; `c.hashfeed`: the exact byte stream. floats: same-base pairs (bases 2, 10, 16; different "
        "rounding modes; precisions from digits to digits+50; infinities, zeros, trailing-zero significands, exponent gaps at the "
        "thresholds of the precision/digits shortcuts); `f.basecmp`: binary floats converted by with_base::<10>() (exact integers, "
        "possibly with more digits than their new precision) against decimal neighbours; rationals: Relaxed as given (non-reduced "
        "multiples, neighbours, bit-length shortcut thresholds) and the reduced RBig; `f.routes` / `q.routes`: one decimal float / "
        "one rational built by 16 / 15 routes (trailing-zero significands, precision changes incl. unlimited, +0, *1, shifts, "
        "parsing, integer conversion, rounding-mode change; non-reduced and signed parts, arithmetic round trips, parsing, "
        "Relaxed->canonicalize) whose representations must be the normalised / reduced one and pairwise ==, cmp Equal (and, for "
        "RBig, hash-identical). `f.subcmp`: differences of equal-signed operands that keep the spare (p+1-st) digit, compared with values at the exponent thresholds of the precision shortcut and with neighbours; `f.viabase`: floats of base 16/8/4/9/27/100 with significands 2^j*odd, odd, multiples of the base, zero, converted exactly to the root base (with_base_and_precision, with_base, to_binary) — normalised, ==, cmp Equal to from_parts in the target base; every float the harness receives back is checked for normalisation (`!unnormalized` marker). `f.ctx`: one value `s*B^e` of ANY digit count rounded ONCE to p digits through every single-rounding route — owning (with_precision, Context::sub(0,-x), convert_int) and borrowing (Context::add(&0,&x), add(&x,&0), sub(&x,&0), powi(x,1), powf(x,1)) — all results must be the representation the model computes (reprRound), normalised, pairwise ==, cmp Equal, same numeric hash; then Context::mul/sqr/cubic/add/sub/div/inv/sqrt/powi(2,5,-3)/exp/ln on operands LONGER than the precision (the by-reference pre-shrink runs): normalised, <= p+1 digits, ==/cmp Equal to the rebuilt copy; classes: unlimited precision, digits <= p, kept digits ending in zero digits, all-max kept digits (carry), ties / tie+-1 / tiny / all-max discarded part, 11 (base, mode) pairs incl. base 3, second operand around the 2p / 3p / rhs.digits+p thresholds. `f.cmp` also compares through `Ord/PartialEq for Repr<B>` (no precisions). `c.hist` instruction set extended by gcd, sqrt, nth_root (n in 0..130), from_str_radix (radix 2..36, sign, underscores, leading zeros, malformed text ending the history), from_le/be_bytes (UBig and two-complement IBig; zero / sign-extension padding across word boundaries; top byte exactly 0x80; random byte strings) and byte round trips. `f.zero`: exact zeros of every origin (literal, default, from_parts(0,k), a-a, 0*a, -0, parsed; unlimited and limited precision; bases 2/10/16/3, five rounding modes) through every FBig producer in by-value / by-reference / compound-assignment form (shifts, mul, add/sub of zero, neg, abs, div, sqr, cubic, sqrt, powi, trunc..round, clone_from, with_precision/rounding/base) — each result must be significand 0 exponent 0, ==/cmp Equal to ZERO both ways, strictly between -1 and 1, same numeric hash feed. `c.hist` str instruction (round 5, E2): every byte 0x00..0x7f (and 4 multi-byte characters) substituted or inserted at the first / middle / last position of a valid text, radix 2..36. `c.ext` (round 5, E1): IBig/UBig >> n (by value and by reference), clear_high_bits, split_bits, clear_bit, nth_root(n >= bit_len) for n = 0, 1, W-1..W+1, 2W-1..2W+1, around the bit length, 2^31, 2^32 (+-k), 2^63, usize::MAX-k (k <= 130) on values of 0..6 words, both signs: canonical layout (repr_info), both ownership forms equal, ==/cmp/hash equal to the value parsed from text. `f.norm` (round 5): Repr::new vs from_parts vs from_parts_const on k*B^j for 28 bases (2; powers of two with 2..63 bits per digit and trailing zero bits of every residue; one-word bases up to 2^64-1 through UBig::remove with multiplicities 0..300), cofactors sharing a proper divisor with the base, both signs, zero, exponents 0, +-1, +-2^31, +-2^32 (+-k), isize::MIN, and result exponent isize::MAX - t for t around the digit count. `f.cmp` extreme class (round 5, E1): exponents within a few digit counts of isize::MAX / at isize::MIN / around +-2^31, +-2^32, precisions 2^31, 2^32 +- k, 2^63 -+ k, usize::MAX - k, equal values / neighbours / rescaled / independent, all sign pairs. `f.from` (round 6): f32 / f64 bit patterns through FBig::try_from (two rounding-mode types) and Repr::try_from — exponent field 0 (zero, subnormals), 1, 2, around the bias, bias+mantissa bits, largest finite, all ones (infinities, NaNs); mantissas 0, 1, 2^k, 2^k-1, high k bits set, random with k trailing zero bits for EVERY k, all ones; both signs: normalised, precision = bit length of the mantissa (0 for +-0.0), digits <= precision+1, ==/cmp Equal to from_parts of the same pair, infinities ==/cmp Equal to the constants and above/below a finite value. Non-trivial := an integer operand above one word, "
        "every float/rational case; distinct := distinct (op,args) lines.")

REFINED = [
    "cmp_same_len, cmp_in_place, Ord for TypedReprRef (Small < Large shortcut), Ord for IBig",
    "PartialEq / Hash for Repr via as_sign_slice (the hash feed: sign, length prefix, words)",
    "canonical form is unique: Canon a, Canon b, equal values => a = b (hence == / hash / cmp Equal agree)",
    "histories: every register produced by any finite program over {const, clone, neg, abs, not, sqr, pow, shl, shr, add, sub, "
    "mul, div, rem, and, or, xor, ones} is canonical and holds the Int-level value; ==/cmp/hash of any two of them follow the value",
    "producers of canonical form: from_buffer, ofNat, ones, & | ^ and_not, add_one/sub_one, shl, shr, clear_high_bits, "
    "split_bits, IBig sign tables, Not, IBig shl",
    "float: repr_cmp_same_base (all 6 cases, any digit estimator that is an upper bound), Repr::normalize, PartialEq for FBig",
    "rational: repr_cmp, repr_eq (bit-length filters + cross multiplication), structural RBig ==, Hash for RBig (injective feed)",
    "float producers return the canonical (normalised) representation and at most p+1 digits (repr_round, add, sub, mul, sqr, cubic, repr_div)",
    "round 4: Context::div incl. its by-reference pre-shrink of the dividend, inv, sqrt, powi (exponent >= 2: mirrored binary "
    "exponentiation at the working precision; negative exponent: reversed context + reciprocal), convert_int / From<IBig> / "
    "from_parts, the parser's significand assembly (int*B^fd + fract, precision = digit characters): <= p+1 (constructors: <= p) "
    "digits and normalised, for operands of any length (float_results_fit_more, float_sources_fit)",
    "round 4: FLOAT history theorem — every register of any finite program over from_parts, convert_int, with_precision, neg, "
    "clone, Context add/sub/mul/sqr/cubic/div/inv/sqrt/powi(+-) at any limited precision per instruction and the operator product "
    "is normalised, finite and has <= precision+1 digits; hence cmp of ANY two registers = order of the values, Equal <=> == <=> "
    "identical representation (float_history, float_history_cmp)",
    "round 4: history instruction set extended by gcd (C12's mirrored kernels), sqrt, nth_root (C12), from_str_radix (C07's mirrored "
    "parser), from_le/be_bytes unsigned and two's complement (C07's mirrored decoders), to_*_bytes -> from_*_bytes round trips; "
    "the interpreter hrunX is what the driver executes for `c.hist`",
    "round 5: Repr::<B>::normalize (= Repr::new) REGENERATED from float/src/repr.rs (Tie A, Gen/FloatNorm.lean: the `B == 2`, "
    "power-of-two and UBig::remove arms; remove = C12's mirrored squaring-tower `removeRepr`), executed by the driver (`f.norm`, "
    "operand of `f.ctx`) and proved equal, for every base >= 2 and every input, to the C05 hand model FRepr.normalize and to "
    "C03's FRepr.new; none of its three `.unwrap()` can meet None (normalize_is_model, normalize_is_repr_new, "
    "normalize_unwraps_are_some, float_normalize_regenerated)",
    "round 5: FBig::from_parts_const (the const constructor behind static_fbig!/static_dbig!: its own power-of-two arm and "
    "`while significand % B == 0` loop) mirrored (Model/Int/FloatConst.lean), executed by the driver in `f.norm`, proved to "
    "return exactly Repr::normalize's representation for every base >= 2 and every double-word significand, with at most "
    "precision+1 digits for the precision its checked_mul loop infers (from_parts_const_normalized, from_parts_const_fits)",
    "round 5: rational histories — ==, cmp, Hash of ANY two registers produced by any finite program of C04's instruction set "
    "(RBig and Relaxed) follow the values: C04's history invariant composed with ratio_cmp / relaxed_eq / rbig_eq / "
    "rbig_hash_follows_value (Props/C05Link.rational_history_eq_cmp_hash)",
    "round 6: repr_cmp_same_base follows /repo ee43486 (precisions clamped to isize::MAX, saturating sums): regenerated text, hand "
    "model and theorems carry the clamp; the translator's reading of saturating_add proved sound (saturating_add_reading_sound)",
    "round 6: float cmp IS the total order of the rational values signif*B^exp (Props/C05Order: float_spec_is_value_order, "
    "float_spec_infinities_at_ends, float_cmp_is_value_order, float_cmp_trans, float_cmp_swap; float_history_value_order: for any two "
    "registers of any float history cmp decides <,=,> of the ℚ values and == is equality of the values; infinities included: one order "
    "-inf = ⊥ < ℚ < ⊤ = +inf (FRepr.xval; float_spec_is_extended_value_order, float_spec_trans, float_cmp_is_extended_value_order))",
    "round 7: float_history_value_order no longer needs precisions <= isize::MAX: for any two registers of any float history, of ANY "
    "precisions (also >= 2^63, e.g. with_precision(usize::MAX)), with at most 2^63 digits, cmp decides <,=,> of the ℚ values and == is "
    "equality of the values (float_history_value_order_any_precision); cmp is transitive and swap-symmetric on any three registers of a "
    "history (float_history_cmp_total_order)",
    "round 7: link to C11 — every .ok result of C11's mirrored Context::exp / exp_m1 / ln / ln_1p / powf bodies (Model/Trans/Series: "
    "expFull, lnFull, powfBody; executed against the real code by C11's driver) at a limited precision p has at most p+1 digits, for "
    "every base >= 2, mode, estimator, operand and number of series terms: the working precisions are > p and never decrease along the "
    "series loops, so the closing with_precision(p) always rounds (or the path ends in powi at p / an exact shortcut) "
    "(Proofs/Int/FloatTrans; Props/C05Trans.float_transcendental_results_fit); hence cmp of any two such results of any two precisions "
    "<= isize::MAX is the order of the exact values (float_cmp_of_transcendental_results)",
    "round 8: link to C08 — every .ok result of C08's mirrored Context::convert_base (Model/Text/Float.convertBase = with_base / "
    "with_base_and_precision / to_decimal / to_binary on every path but ln/exp; executed against the real code by C08's driver) at a "
    "precision p >= 1 is a good register: canonical (FCanon), finite, <= p+1 digits of the NEW base, for any two bases >= 2, mode, "
    "operand (Props/C05Base.float_with_base_results_good); hence cmp of any two such results (any source bases, precisions <= "
    "isize::MAX) decides <,=,> of the exact values and == <=> Equal (float_cmp_of_with_base_results; good_pair_value_order for any two "
    "good registers), and any float history started from with_base results keeps the invariant (float_history_from_with_base_results)",
    "round 6: TryFrom<f32/f64> for FBig<R,2> / Repr<2> is an instruction of the float history (`fromFloat`: Repr::new(man, exp), "
    "precision = bit length of the mantissa, 0 for +-0.0), executed by the driver op `f.from` on C06's mirrored decode",
]
FRONTIER = [
    "history theorem covers: const, fromWords (ANY raw word buffer -> from_buffer + sign: from_words, chunk decoders, "
    "from_parts), fromUnsigned/fromSigned (From<uN>/From<iN>), from_str_radix, from_le/be_bytes (UBig, IBig), byte round trips, "
    "clone, neg, abs, !, sqr, pow, <<, >>, + - * / %, div_euclid, rem_euclid, & | ^, ones, gcd, sqrt, nth_root, set_bit, "
    "clear_bit, clear_high_bits, split_bits, next_power_of_two; NOT in the instruction set (covered by the multi-route "
    "correspondence through the repr_info hook and by the WF/Canon theorems of their owning properties): ConstDivisor division "
    "(C02 proves WF), gcd_ext coefficients / sqrt_rem / cbrt (C12), TryFrom<f32/f64> (C06), from_static_words (macro-only, "
    "asserted precondition, C20), modular residues (C13), clone_from on the ledger model (C17). The new instructions compute "
    "the VALUE with the owning property's mirrored kernels and assemble the representation by ofNat/sOfInt (= from_buffer/"
    "from_word/from_dword + with_sign); inside sqrt the multi-word kernel is C12's contract-level `sqrtRemKernelFrontier`",
    "float producers: digits <= precision+1 is proved for repr_round(_ref)/with_precision, add, sub, mul, sqr, cubic, repr_div, "
    "Context::div (given sound digits_ub/digits_lb estimates), inv, sqrt, powi, convert_int, from_parts, parser assembly, "
    "TryFrom<f32/f64> (round 6: history instruction `fromFloat`, executed by the driver op `f.from` on C06's mirrored `decode`); exp / exp_m1 / ln / "
    "ln_1p / powf (round 7: proved about C11's mirrored bodies, Props/C05Trans.float_transcendental_results_fit — not instructions of "
    "float_history, and normalisation (FCanon) of their results is not proved: it holds by repr_round/powi's Repr::new, sampled by "
    "`f.ctx`/`f.fits`); with_base / with_base_and_precision (round 8: proved about C08's mirrored `convertBase`, "
    "Props/C05Base.float_with_base_results_good — every return that does not go through ln/exp, p >= 1, is canonical, finite and has "
    "<= p+1 digits of the new base (fix 02e179b); not an instruction of float_history, but its results are admissible INITIAL registers: "
    "float_history_from_with_base_results); the ln/exp branch of convert_base (|exponent| above the small-exponent threshold, bases not "
    "powers of one another) is not mirrored by C08 and has no theorem: sampled by f.viabase / f.basecmp only",
    "FBig::from_parts_const (own normaliser + precision-inference loop on a double word) is hand-mirrored "
    "(Model/Int/FloatConst.lean; a const-fn loop over DoubleWord is outside the typed translator's subset: Tie B only, `f.norm` "
    "prints the inferred precision); proved: its representation = Repr::normalize for every base and double word "
    "(from_parts_const_normalized) and |significand| < B^(precision+1) for the precision it infers, any min_precision "
    "(from_parts_const_fits; the real loop returns precision = digits - 1 when B^digits >= 2^128, e.g. 2*10^38+1 -> 38 — inside "
    "the one-spare-digit slack of float_cmp, contrary to its doc comment `the lowest k such that significand <= base^k`)",
    "exponent / precision arithmetic in isize/usize: every float theorem is over unbounded Int exponents and Nat precisions. "
    "repr_cmp_same_base's sums were repaired in /repo ee43486 (saturating, precision clamped to isize::MAX; the clamp is in the "
    "regenerated text, in the hand model `cmpCase4` and in the hypothesis of float_cmp: `|signif| < B^(min p isize::MAX + 1)`; "
    "float_cmp_of_small_precision / float_history_cmp_small give the unclamped form for p <= isize::MAX); `saturating_add` is read "
    "as the exact Int sum: the same decision for every `x > y.saturating_add(n)` with x, y in isize and n >= 0 "
    "(Props/GenFloatCmp.saturating_add_reading_sound; also driven by the f.cmp extreme classes); "
    "`Repr::normalize`'s own `exponent += shift` overflow (exponent within `shift` of isize::MAX: value not representable) is not driven",
    "c.hist shift / bit-index arguments are driven up to ~3000 only: the spec side of the history interpreter computes `a / 2^n` "
    "literally (n >= 2^32 is not executable); counts up to usize::MAX on the same producers are driven by C09's ops (model "
    "robust for every usize) and the producer theorems (`producers_canonical`, history theorems) hold for every Nat count",
    "clause-by-clause (round 5 review): UBig/IBig ==, cmp, Equal<=>==, Hash: eq_iff_value_eq, ubig_cmp/ibig_cmp, cmp_equal_iff_eq, "
    "hash_follows_value + history_eq_cmp_hash (all producers of the instruction set); FBig incl. infinities: float_cmp (under "
    "digits <= precision+1, which float_history gives for the modelled producers), float_eq_iff_cmp_equal, "
    "float_cmp_equal_iff_eq; FBig implements no Hash; RBig/Relaxed: ratio_cmp, relaxed_eq, rbig_eq, rbig_hash_follows_value, "
    "ratio_cmp_equal_iff_eq + C05Link.rational_history_eq_cmp_hash. cmp of floats produced by exp/ln/powf: float_cmp_of_transcendental_results "
    "(round 7, about C11's mirrored bodies; cmp = specFCmp, the order of the values; `Equal <=> ==` for them would also need their "
    "normalisation, not proved). cmp of floats produced by with_base: float_cmp_of_with_base_results (round 8, about C08's mirrored "
    "convert_base: cmp decides <,=,> of the exact values and == <=> Equal for any two results of any source bases / modes / precisions "
    "<= isize::MAX; Clause WITHOUT a theorem: results of convert_base's ln/exp branch, sampled by f.viabase / f.basecmp only); "
    "`cmp is the total order of the values` for floats: specFCmp = order of the rational values signif*B^exp in ℚ with the "
    "infinities at the ends (Props/C05Order.float_spec_is_value_order, float_spec_infinities_at_ends; as ONE order on ⊥ < ℚ < ⊤: "
    "float_spec_is_extended_value_order, float_spec_trans, float_cmp_is_extended_value_order), the code's comparison "
    "decides <,=,> of the values and is transitive and swap-symmetric (float_cmp_is_value_order, float_cmp_trans, float_cmp_swap) "
    "— on the invariant's domain (finite operands with digits <= min(p, isize::MAX)+1), not outside it; for the registers of a float "
    "history at ANY precisions (round 7: float_history_value_order_any_precision, float_history_cmp_total_order; only `<= 2^63 digits` is "
    "assumed, the Nat/usize gap); `PartialOrd` consistency "
    "(`partial_cmp == Some(cmp)`, `<` etc.) is checked by the harness, derived impls not modelled",
    "AbsOrd/AbsEq and cross-type comparisons are C14",
]
EXPLANATION = ("Theorems: integers — cmp of canonical values = order of values; a value has exactly one canonical representation, so "
               "== (slice compare), the recorded hash feed and cmp==Equal coincide with value equality; 20 producers keep the canonical "
               "form; history theorem: every value produced by an arbitrary finite program of ring/division/bit/shift operations, "
               "constructors and clones is canonical and carries the Int-level value, so ==/cmp/hash follow the value whichever "
               "operations produced the operands; the 2-word heap value of the old ones(128) is the proved counterexample without "
               "Canon. Floats — repr_cmp_same_base "
               "= order of signif*B^exp with infinities at the ends under `digits <= precision+1` (sharp: counterexample at p+2 digits), "
               "for every upper-bound digit estimator; every modelled arithmetic producer returns <= p+1 digits for operands of any "
               "length (so chains keep the invariant), the spare digit does occur (1230-1=1229 exact at p=3); normalize canonical; "
               "== <=> cmp Equal. Rationals — "
               "repr_cmp / repr_eq = cross-multiplication order/equality for non-reduced fractions; RBig structural == on reduced ones.")
ASSUMPTIONS = ["derive(Hash)/slice hashing of core feed (isize discriminant, usize length prefix, word bytes) as observed on this host",
               "the f32 estimate `digits_ub` of the real code is an upper bound of the digit count (the model takes the estimator as a "
               "parameter with exactly this hypothesis; the driver instantiates it with the exact count)",
               "exponents are unbounded Int and precisions unbounded Nat in the model; the real comparison (since /repo ee43486) clamps each "
               "precision to isize::MAX and uses saturating sums, which over Int is the exact sum of the clamped precision — the model and the "
               "regenerated text carry the clamp (`min p isize::MAX`), so the float theorems need `digits <= min(p, isize::MAX) + 1`: "
               "beyond `digits <= p + 1` that is 'at most 2^63 digits', true of every significand in a 64-bit address space; "
               "driven at the extremes by f.cmp / f.norm (no finding left)"]

THEOREMS = ["Dashu.Props.C05." + n for n in [
    "ubig_cmp", "ibig_cmp", "canonical_form_unique", "eq_iff_value_eq", "cmp_equal_iff_eq", "hash_follows_value", "cmp_swap",
    "cmp_wrong_without_canon", "producers_canonical", "signed_producers_canonical", "float_cmp",
    "float_cmp_needs_precision_bound", "float_normalize", "float_eq_iff_cmp_equal", "ratio_cmp", "relaxed_eq", "rbig_eq",
    "ratio_cmp_equal_iff_eq", "history_canonical", "history_values", "history_eq_cmp_hash",
    "float_results_fit", "float_cmp_of_results", "float_spare_digit_occurs", "rbig_hash_follows_value", "float_results_canonical",
    "float_results_fit_more", "float_sources_fit", "float_cmp_equal_iff_eq", "float_history", "float_history_cmp",
    "float_history_cmp_small", "float_cmp_of_small_precision",
    "float_normalize_regenerated", "float_new_is_normalize"]]
THEOREMS += ["Dashu.Props.GenFloatNorm." + n for n in [
    "normalize_is_model", "normalize_is_repr_new", "repr_new_eq_normalize", "normalize_unwraps_are_some", "removeRepr_eq_removeAll"]]
THEOREMS += ["Dashu.Props.C05Link.rational_history_eq_cmp_hash"]
THEOREMS += ["Dashu.Props.C05." + n for n in ["float_spec_is_value_order", "float_spec_infinities_at_ends", "float_cmp_is_value_order",
                                               "float_cmp_trans", "float_cmp_swap", "float_history_value_order",
                                               "float_spec_is_extended_value_order", "float_spec_trans",
                                               "float_cmp_is_extended_value_order",
                                               "float_history_value_order_any_precision", "float_history_cmp_total_order"]]
THEOREMS += ["Dashu.Props.C05.float_transcendental_results_fit", "Dashu.Props.C05.float_cmp_of_transcendental_results"]
THEOREMS += ["Dashu.Props.C05." + n for n in ["float_with_base_results_good", "good_pair_value_order", "float_cmp_of_with_base_results",
                                               "float_history_from_with_base_results"]]
THEOREMS += ["Dashu.Props.C05.from_parts_const_normalized", "Dashu.Props.C05.constStrip_eq_removeAll",
             "Dashu.Props.C05.from_parts_const_fits", "Dashu.Props.C05.constDigits_spec"]

LEVEL_TEXT = ("Machine-checked Lean 4 theorems that (integers, every word size and length) comparison of canonical values is the order "
              "of the values and the canonical representation of a value is unique — so ==, the sequence fed to a Hasher and "
              "cmp==Equal all coincide with value equality — with the bit/shift-layer producers proved to return canonical form and a "
              "proved counterexample for the non-canonical value the old ones(128) built; (floats) repr_cmp_same_base equals the order of "
              "the exact values for all precisions/rounding modes given digits <= precision+1 — which the modelled producers (repr_round "
              "and its borrowing twin, add, sub, mul, sqr, cubic, div incl. its pre-shrink, inv, sqrt, powi, convert_int, from_parts, the parser) "
              "are proved to guarantee, also along arbitrary finite programs of these operations (float history theorem) — with a proved counterexample at precision+2, normalize is canonical and == <=> cmp Equal; (rationals) repr_cmp/repr_eq equal cross-"
              "multiplication order/equality on non-reduced fractions and RBig's structural == is value equality on reduced ones. The "
              "model is tied to /repo on every run by differential execution; integer values are additionally built through 40 (UBig) / "
              "26 (IBig) independent routes whose results must be canonical (repr_info hook), pairwise ==, cmp Equal and hash-identical; "
              "float values through 8-11 single-rounding routes (owning and borrowing) per case. History theorem: every value produced by any "
              "finite program over 50 instructions (constructors, parser, byte decoders, ring/division/bit/shift operations, gcd, roots, "
              "clones) is canonical, so ==/cmp/hash follow the value whichever operations produced the operands. Round 5: Repr::normalize is "
              "regenerated from the source on every run and proved equal to both hand models for every base and input (its remove arm is "
              "C12's mirrored algorithm); for rationals ==/cmp/Hash of any two registers of any finite program follow the values (link to "
              "C04's history invariant). Exponent/precision arithmetic is unbounded in the theorems; the comparison's clamp of the precisions "
              "to isize::MAX (fix ee43486 of the isize overflow found in round 5) is part of the regenerated text, the model and the hypothesis. "
              "Round 7: the results of C11's mirrored exp / exp_m1 / ln / ln_1p / powf bodies are proved to fit precision+1 digits, so cmp of "
              "any two of them is the order of the values (link to C11); the value-order theorem for float histories holds at ANY precisions "
              "(only <= 2^63 digits assumed) and cmp is transitive / swap-symmetric on the registers of a history. "
              "Round 8: every result of C08's mirrored convert_base (with_base / with_base_and_precision, all paths but ln/exp) is proved "
              "canonical, finite and within precision+1 digits of the new base, so cmp / == of any two of them, and of anything a float "
              "history computes from them, follow the values (link to C08).")
LEVEL_NOTE = ("Trusted: Lean kernel; axioms propext/Classical.choice/Quot.sound; correspondence harness + generators (sampling) for the "
              "tie model<->code and for the claim that *every* producer yields canonical form (proved here only for the producers listed "
              "in refined_kernels); the digit-estimate hypothesis. Repaired during this work: floats leaving with_base/convert_base "
              "carried more digits than their precision and were mis-ordered (fix 02e179b).")
TECHNIQUE = "Lean 4 theorems (uniqueness of the canonical form; comparison = order of values) + differential correspondence incl. multi-route histories through the repr_info hook"
