"""C14 — cross-type numeric comparison and hashing agree with exact values (DESIGN §8 C14).

Number arguments (see harness/src/ops_cross.rs):
  n:<[-]hex>:<U|I> | f:<base>:<signif hex>:<exp dec>:<prec dec> | q:<num>/<den>:<R|X> | p:<type>:<value>
"""
import struct
from fractions import Fraction
from vlib.core import Case
from vlib.gens import hx, nat_pattern, PATTERNS

GROUP = "cross"
LEAN_PROPS = "Dashu.Props.C14"
LEAN_AUDIT = "Dashu.Audit.C14"
# Tie A, typed translator: float/src/cmp.rs and rational/src/cmp.rs regenerated and proved equal to `Model/Cross/Ord.lean`
USES_GEN = True
GEN_PROPS = ["Dashu.Props.GenFloatCmp", "Dashu.Props.GenRatCmp", "Dashu.Props.C14Link", "Dashu.Props.C14EstNoStd", "Dashu.Props.C14I128", "Dashu.Props.C14Shl", "Dashu.Props.C14Mul"]
GEN_AUDIT = ["Dashu.Audit.GenFloatCmp", "Dashu.Audit.GenRatCmp", "Dashu.Audit.C14Ext"]

M127 = (1 << 127) - 1
UTYPES = [("u8", 8), ("u16", 16), ("u32", 32), ("u64", 64), ("u128", 128), ("usize", 64)]
ITYPES = [("i8", 8), ("i16", 16), ("i32", 32), ("i64", 64), ("i128", 128), ("isize", 64)]

# ----------------------------------------------------------------------------- rendering a value in every type

def ndigits(B, n):
    n = abs(n); k = 0
    while n:
        n //= B; k += 1
    return k

def normalize(B, s, e):
    if s == 0:
        return 0, e
    while s % B == 0:
        s //= B; e += 1
    return s, e

def fenc(B, s, e, prec=None, rng=None):
    """FBig argument; prec None -> 0 or >= digits of the normalised significand"""
    if prec is None:
        if s == 0:
            dg = 1
        elif abs(s).bit_length() > 3000:
            dg = None                      # large: unlimited precision (avoids a quadratic digit count here)
        else:
            ns, _ = normalize(B, s, e)
            dg = ndigits(B, ns)
        prec = 0 if (dg is None or rng is None or rng.random() < 0.3) else dg + rng.choice([0, 0, 1, 3, 10])
    return "f:%d:%s:%d:%d" % (B, hx(s), e, prec)

def f64_bits(x):
    return "%x" % struct.unpack(">Q", struct.pack(">d", x))[0]

def f32_bits(x):
    return "%x" % struct.unpack(">I", struct.pack(">f", x))[0]

def as_f64(v):
    """hex bits if the Fraction v is exactly an f64"""
    try:
        x = float(v)
    except OverflowError:
        return None
    if x in (float("inf"), float("-inf")) or Fraction(x) != v:
        return None
    return f64_bits(x)

def as_f32(v):
    try:
        x = float(v)
        y = struct.unpack(">f", struct.pack(">f", x))[0]
    except (OverflowError, struct.error):
        return None
    if y in (float("inf"), float("-inf")) or Fraction(y) != v:
        return None
    return f32_bits(y)

def _val2(d):
    k = 0
    while d % 2 == 0:
        d //= 2; k += 1
    return k, d

def float_reps(v, rng):
    """FBig renderings of the Fraction v in bases 2, 10, 16 (when it is a B-adic fraction)"""
    out = []
    n, d = v.numerator, v.denominator
    a2, rest = _val2(d)
    a5 = 0
    while rest % 5 == 0:
        rest //= 5; a5 += 1
    for B in (2, 10, 16):
        if B == 10:
            if rest != 1:
                continue
            k = max(a2, a5)
        else:
            if rest != 1 or a5 != 0:
                continue
            k = a2 if B == 2 else (a2 + 3) // 4
        s = n * B ** k // d
        if s == 0:
            out.append(fenc(B, 0, 0, rng=rng))
            continue
        j = rng.choice([0, 0, 0, 1, 2, 7])          # un-normalised input: Repr::new strips it again
        out.append(fenc(B, s * B ** j, -k - j, rng=rng))
    return out

def reps(v, rng, big=True):
    """every protocol rendering of the exact value v (a Fraction)"""
    out = []
    n, d = v.numerator, v.denominator
    if d == 1:
        if n >= 0:
            out.append("n:%s:U" % hx(n))
            for t, b in UTYPES:
                if n < (1 << b):
                    out.append("p:%s:%s" % (t, hx(n)))
        out.append("n:%s:I" % hx(n))
        for t, b in ITYPES:
            if -(1 << (b - 1)) <= n < (1 << (b - 1)):
                out.append("p:%s:%s" % (t, hx(n)))
    out += float_reps(v, rng)
    out.append("q:%s/%s:R" % (hx(n), hx(d)))
    c = rng.choice([3, 5, 7, 9, 15, 1 << 64 | 1, 6, 10, 12])
    out.append("q:%s/%s:R" % (hx(n * c), hx(d * c)))
    out.append("q:%s/%s:X" % (hx(n), hx(d)))
    out.append("q:%s/%s:X" % (hx(n * c), hx(d * c)))
    b = as_f64(v)
    if b is not None:
        out.append("p:f64:" + b)
        if v == 0:
            out.append("p:f64:8000000000000000")
    b = as_f32(v)
    if b is not None:
        out.append("p:f32:" + b)
        if v == 0:
            out.append("p:f32:80000000")
    return out

def kind(a):
    t = a.split(":")
    if t[0] == "n":
        return t[2]
    if t[0] == "f":
        return "F" + t[1]
    if t[0] == "q":
        return t[2]
    return "pf" if t[1] in ("f32", "f64") else ("pu" if t[1].startswith("u") else "ps")

def has_numord(a, b):
    ka, kb = kind(a), kind(b)
    if ka.startswith("p") and kb.startswith("p"):
        return False
    if ka == kb and ka in ("R", "X"):
        return False
    return True

def has_absord(a, b):
    ka, kb = kind(a), kind(b)
    if ka.startswith("p") or kb.startswith("p"):
        return a.split(":")[1] == b.split(":")[1] and ka == kb and ka in ("ps", "pf")
    if ka.startswith("F") and kb.startswith("F"):
        return ka == kb
    return True

def has_ordcmp(a, b):
    ka, kb = kind(a), kind(b)
    return ka == kb and not ka.startswith("p")

def pair_cases(a, b, rng, ops=None):
    """the cases for one ordered pair of renderings"""
    if has_numord(a, b):
        yield Case("numcmp", [a, b])
        if rng.random() < 0.25:
            yield Case("numeq", [a, b])
    if has_absord(a, b) and "nan" not in (a, b):
        if not (kind(a) == "pf" and (is_nan(a) or is_nan(b))):
            yield Case("abscmp", [a, b])
    if has_ordcmp(a, b) and rng.random() < 0.5:
        yield Case("ordcmp", [a, b])
    if rng.random() < 0.5:
        yield Case("hasheq", [a, b])

def is_nan(a):
    t = a.split(":")
    if t[0] != "p" or t[1] not in ("f32", "f64"):
        return False
    bits = int(t[2], 16)
    if t[1] == "f32":
        return (bits >> 23) & 0xff == 0xff and bits & 0x7fffff != 0
    return (bits >> 52) & 0x7ff == 0x7ff and bits & ((1 << 52) - 1) != 0

# ----------------------------------------------------------------------------- value families

SPECIAL_F = ["p:f64:7ff0000000000000", "p:f64:fff0000000000000", "p:f64:7ff8000000000000", "p:f64:fff8000000000001",
             "p:f64:8000000000000000", "p:f64:0", "p:f64:1", "p:f64:8000000000000001", "p:f64:7fefffffffffffff",
             "p:f64:ffefffffffffffff", "p:f64:10000000000000", "p:f64:fffffffffffff",
             "p:f32:7f800000", "p:f32:ff800000", "p:f32:7fc00000", "p:f32:ffc00001", "p:f32:80000000", "p:f32:0",
             "p:f32:1", "p:f32:80000001", "p:f32:7f7fffff", "p:f32:ff7fffff", "p:f32:800000", "p:f32:7fffff"]
INF_F = ["f:2:0:1:0", "f:2:0:-1:0", "f:10:0:1:5", "f:10:0:-1:5", "f:16:0:1:1", "f:16:0:-1:0"]
ZEROS = ["n:0:U", "n:0:I", "f:2:0:0:0", "f:10:0:0:3", "f:16:0:0:1", "q:0/1:R", "q:0/5:X", "p:u8:0", "p:i64:0", "p:u128:0",
         "p:i128:0", "p:f64:0", "p:f64:8000000000000000", "p:f32:0", "p:f32:80000000"]

def base_values(rng, tier):
    vals = [Fraction(i) for i in range(-4, 5)]
    vals += [Fraction(5, 2), Fraction(-5, 2), Fraction(1, 10), Fraction(1, 3), Fraction(-1, 3), Fraction(3, 4),
             Fraction(1, 2), Fraction(1, 4), Fraction(1, 8), Fraction(-1, 2), Fraction(1, 1 << 40), Fraction(7, 1 << 200)]
    for b in (7, 8, 15, 16, 24, 31, 32, 53, 63, 64, 100, 126, 127, 128, 129, 1023, 1024, 1076, 1077, 1078, 1100):
        for dlt in (-1, 0, 1):
            vals.append(Fraction((1 << b) + dlt))
            vals.append(Fraction(-(1 << b) + dlt))
    vals += [Fraction(M127), Fraction(-M127), Fraction(2 * M127), Fraction(2 * M127 + 1), Fraction(3 * M127),
             Fraction(M127 * M127), Fraction(M127 + 1), Fraction(M127 - 1), Fraction(1, M127), Fraction(5, M127),
             Fraction(M127, 3), Fraction(-M127, 1 << 10)]
    # float range boundaries
    vals += [Fraction((1 << 128) - (1 << 104)), Fraction((1 << 1024) - (1 << 971)), Fraction(1, 1 << 149),
             Fraction(1, 1 << 150), Fraction(1, 1 << 1074), Fraction(1, 1 << 1075), Fraction(3, 1 << 1074),
             Fraction(1, 1 << 126), Fraction((1 << 24) - 1, 1 << 149), Fraction(1 << 24, 1), Fraction((1 << 24) + 1),
             Fraction((1 << 53) + 1), Fraction(1 << 53)]
    n = 60 if tier == "quick" else 2500
    for _ in range(n):
        r = rng.random()
        if r < 0.25:        # integers of every size class
            v = nat_pattern(rng, rng.choice([1, 1, 2, 2, 3, 4, 17, 18, 40]), rng.choice(PATTERNS))
            vals.append(Fraction(v if rng.random() < 0.5 else -v))
        elif r < 0.45:      # dyadic
            m = rng.getrandbits(rng.choice([3, 10, 24, 53, 64, 100, 300])) | 1
            k = rng.choice([1, 2, 5, 23, 52, 64, 149, 200, 1074, 1100])
            vals.append(Fraction(m if rng.random() < 0.5 else -m, 1 << k))
        elif r < 0.65:      # decimal
            m = rng.getrandbits(rng.choice([3, 10, 30, 64, 100])) | 1
            k = rng.choice([1, 2, 3, 10, 25, 60])
            vals.append(Fraction(m if rng.random() < 0.5 else -m, 10 ** k))
        elif r < 0.75:      # exact doubles
            x = struct.unpack(">d", struct.pack(">Q", rng.getrandbits(64)))[0]
            if x == x and x not in (float("inf"), float("-inf")):
                vals.append(Fraction(x))
        elif r < 0.8:       # exact singles incl. subnormals
            x = struct.unpack(">f", struct.pack(">I", rng.getrandbits(32) & rng.choice([0xffffffff, 0x807fffff, 0x80ffffff])))[0]
            if x == x and x not in (float("inf"), float("-inf")):
                vals.append(Fraction(x))
        else:               # generic rationals
            a = rng.getrandbits(rng.choice([5, 30, 64, 128, 200])) + 1
            b = rng.getrandbits(rng.choice([5, 30, 64, 128, 200])) + 1
            vals.append(Fraction(a if rng.random() < 0.5 else -a, b))
    return vals

def neighbours(v, rng):
    """values adjacent to v: +-1 in the numerator over a (possibly inflated) denominator, +-1 ulp"""
    n, d = v.numerator, v.denominator
    out = []
    K = rng.choice([1, 1, 2 ** 10, 2 ** 64, 2 ** 200, 10 ** 5, 10 ** 30, 16 ** 9, 3 ** 20])
    for dl in (-1, 1):
        out.append(Fraction(n * K + dl, d * K))
    if d == 1:
        out.append(v + rng.choice([-1, 1]))
    try:
        x = float(v)
        if x == x and abs(x) != float("inf") and Fraction(x) == v:
            bits = struct.unpack(">Q", struct.pack(">d", x))[0]
            for nb in (bits + 1, bits - 1):
                if 0 <= nb < (1 << 64):
                    y = struct.unpack(">d", struct.pack(">Q", nb))[0]
                    if y == y and abs(y) != float("inf"):
                        out.append(Fraction(y))
    except OverflowError:
        pass
    return out

# ----------------------------------------------------------------------------- generator

def gen_equal_adjacent(rng, tier):
    per = 6 if tier == "quick" else 14
    for v in base_values(rng, tier):
        rs = reps(v, rng)
        # equal across representations
        for _ in range(per):
            a, b = rng.choice(rs), rng.choice(rs)
            yield from pair_cases(a, b, rng)
        # adjacent
        for w in neighbours(v, rng):
            ws = reps(w, rng)
            for _ in range(2 if tier == "quick" else 5):
                a, b = rng.choice(rs), rng.choice(ws)
                if rng.random() < 0.5:
                    a, b = b, a
                yield from pair_cases(a, b, rng)
        # sign flips / magnitudes (AbsOrd with negative operands)
        ns = reps(-v, rng)
        for _ in range(3):
            a, b = rng.choice(rs), rng.choice(ns)
            yield from pair_cases(a, b, rng)

def gen_far(rng, tier):
    vals = base_values(rng, tier)
    n = 400 if tier == "quick" else 40000
    for _ in range(n):
        v, w = rng.choice(vals), rng.choice(vals)
        a, b = rng.choice(reps(v, rng)), rng.choice(reps(w, rng))
        yield from pair_cases(a, b, rng)

def gen_special(rng, tier):
    vals = base_values(rng, tier)
    others = ZEROS + INF_F + SPECIAL_F
    for s in SPECIAL_F + INF_F + ZEROS:
        for o in others:
            yield from pair_cases(s, o, rng)
            yield from pair_cases(o, s, rng)
        for _ in range(10 if tier == "quick" else 60):
            o = rng.choice(reps(rng.choice(vals), rng))
            yield from pair_cases(s, o, rng)
            yield from pair_cases(o, s, rng)
    # every number hashed on its own (the fed sequence)
    seen = set()
    for v in vals:
        for r in reps(v, rng):
            if r not in seen and rng.random() < (0.4 if tier == "quick" else 1.0):
                seen.add(r)
                yield Case("numhash", [r])
    for s in SPECIAL_F + INF_F + ZEROS:
        yield Case("numhash", [s])
    # FloatEncoding::decode of the model against the real one
    for s in SPECIAL_F:
        yield Case("fdecode", [s])
    for _ in range(300 if tier == "quick" else 20000):
        if rng.random() < 0.5:
            yield Case("fdecode", ["p:f64:%x" % (rng.getrandbits(64) & rng.choice([(1 << 64) - 1, 0x800fffffffffffff, 0xfff0000000000000 | rng.getrandbits(52)]))])
        else:
            yield Case("fdecode", ["p:f32:%x" % (rng.getrandbits(32) & rng.choice([0xffffffff, 0x807fffff, 0xff800000 | rng.getrandbits(23)]))])
    # primitive AbsOrd / AbsEq incl. iN::MIN
    for t, b in ITYPES:
        xs = [-(1 << (b - 1)), -(1 << (b - 1)) + 1, (1 << (b - 1)) - 1, 0, 1, -1, 5, -5]
        for x in xs:
            for y in xs:
                yield Case("abscmp", ["p:%s:%s" % (t, hx(x)), "p:%s:%s" % (t, hx(y))])
                yield Case("abseq", ["p:%s:%s" % (t, hx(x)), "p:%s:%s" % (t, hx(y))])

def gen_hash_corner(rng, tier):
    """denominators that are multiples of M = 2^127 - 1; reduced (RBig) vs non-reduced (Relaxed)"""
    n = 40 if tier == "quick" else 3000
    for _ in range(n):
        a = rng.choice([1, 2, 3, 5, -1, -7, rng.getrandbits(64) + 1, M127, -M127, M127 * 3, rng.getrandbits(200) + 1])
        b = rng.choice([1, 1, 3, 5, 8, rng.getrandbits(64) | 1, 10 ** 6])
        k = rng.choice([M127, M127, 3 * M127, M127 * M127, M127 << 5])
        xs = ["q:%s/%s:X" % (hx(a * k), hx(b * k)), "q:%s/%s:R" % (hx(a * k), hx(b * k)),
              "q:%s/%s:R" % (hx(a), hx(b * k)), "q:%s/%s:X" % (hx(a), hx(b * k)), "q:%s/%s:X" % (hx(a), hx(b))]
        xs += reps(Fraction(a, b), rng)
        for _ in range(4):
            x, y = rng.choice(xs), rng.choice(xs)
            yield Case("hasheq", [x, y])
            yield Case("numhash", [x])
            if has_numord(x, y):
                yield Case("numeq", [x, y])

def gen_slack(rng, tier):
    """|log2 x - log2 y| inside / just outside the f32 filter's slack: x and y = x (1 + 2^-k)"""
    Ls = [60, 130, 1000, 5000] + ([20000, 70000] if tier == "quick" else [20000, 70000, 300000, 1 << 20, 1 << 22])
    ks = [3, 8, 12, 16, 18, 20, 21, 22, 23, 24, 25, 26, 28, 32, 40]
    reps_n = 2 if tier == "quick" else 16
    for L in Ls:
        for k in ks:
            if k >= L:
                continue
            for _ in range(reps_n):
                x = rng.getrandbits(L) | (1 << (L - 1))
                if rng.random() < 0.3:
                    x = 1 << (L - 1)
                y = x + (x >> k) + rng.choice([0, 0, 1, -1])
                sx = rng.choice([1, 1, -1]); sy = sx if rng.random() < 0.8 else -sx
                def render(v, sg):
                    r = rng.random()
                    if r < 0.2 and sg > 0:
                        return "n:%s:U" % hx(v)
                    if r < 0.4:
                        return "n:%s:I" % hx(sg * v)
                    if r < 0.6:
                        e = rng.choice([0, -5, -L, 7])
                        return fenc(2, sg * v, e, rng=rng) if e == 0 else fenc(2, sg * v, e, rng=rng)
                    if r < 0.7:
                        return fenc(16, sg * v, rng.choice([0, -3, 2]), rng=rng)
                    if r < 0.8:
                        return fenc(10, sg * v, rng.choice([0, -4, 1]), rng=rng)
                    dd = rng.getrandbits(rng.choice([1, 20, 64, 200])) + 1
                    return "q:%s/%s:%s" % (hx(sg * v * dd), hx(dd), rng.choice("RX"))
                def expo(a):
                    t = a.split(":")
                    return (t[0], t[1], int(t[3])) if t[0] == "f" else None
                a, b = render(x, sx), render(y, sy)
                ea, eb = expo(a), expo(b)
                if ea and eb and (ea[1] != eb[1] or ea[2] != eb[2]):
                    # keep the pair adjacent: same scaling on both sides
                    b = fenc(int(ea[1]), sy * y, ea[2], rng=rng)
                elif (ea is None) != (eb is None):
                    f = ea or eb
                    if f[2] != 0:
                        # rescale the float side back to exponent 0 so the values stay adjacent
                        if ea: a = fenc(int(f[1]), sx * x, 0, rng=rng)
                        else: b = fenc(int(f[1]), sy * y, 0, rng=rng)
                if rng.random() < 0.5:
                    a, b = b, a
                yield from pair_cases(a, b, rng)

def gen_huge(rng, tier):
    """huge exponents: far apart (must be answered by the estimate alone) and materialisable ones against an
    integer of the same size"""
    big_e = [10 ** 7, 10 ** 9, 10 ** 12, 10 ** 15, 1 << 40, (1 << 62) // 5]
    smalls = ["n:5:U", "n:-5:I", "q:5/3:R", "q:-7/9:X", "p:u8:7", "p:i64:-9", "f:2:3:5:0", "f:10:-7:3:0", "f:16:1:-9:4",
              "n:%s:U" % hx(1 << 4000), "q:%s/%s:R" % (hx((1 << 3000) + 1), hx(3))]
    for e in big_e:
        for B in (2, 10, 16):
            for sg in (1, -1):
                for ee in (e, -e):
                    x = fenc(B, sg * rng.choice([1, 3, 7, 123457]), ee, rng=rng)
                    for s in rng.sample(smalls, 4):
                        yield from pair_cases(x, s, rng)
                        yield from pair_cases(s, x, rng)
                    # float vs float, far apart in log2 (factor 2 in the exponent)
                    B2 = rng.choice([2, 10, 16])
                    y = fenc(B2, rng.choice([1, -1, 5]), ee // 3, rng=rng)
                    yield Case("numcmp", [x, y])
                    yield Case("numcmp", [y, x])
                    yield Case("numhash", [x])
    # materialisable: 10^E as FBig<10> against the integer 10^E + delta (UBig / IBig / FBig<2> / RBig)
    Es = [1000, 10000] + ([100000] if tier == "quick" else [100000, 1000000])
    for E in Es:
        p = 10 ** E
        for dl in (0, 1, -1):
            v = p + dl
            x = fenc(10, 1, E, rng=rng)
            for y in ("n:%s:U" % hx(v), "n:%s:I" % hx(v), fenc(2, v, 0, prec=0), "q:%s/1:R" % hx(v)):
                yield Case("numcmp", [x, y])
                yield Case("numcmp", [y, x])
            if E <= 10000:
                yield Case("abscmp", [fenc(10, -1, E, rng=rng), "n:%s:I" % hx(-v)])
        # 10^-E against 1/(10^E + delta)
        if E <= 100000:
            for dl in (0, 1, -1):
                yield Case("numcmp", [fenc(10, 1, -E, rng=rng), "q:1/%s:R" % hx(p + dl)])
                yield Case("numcmp", ["q:1/%s:X" % hx(p + dl), fenc(10, 1, -E, rng=rng)])
        # base 2 vs base 10 vs base 16 near-equal: 2^k ~ 10^E
        k = (p.bit_length() - 1)
        yield Case("numcmp", [fenc(2, 1, k, rng=rng), fenc(10, 1, E, rng=rng)])
        yield Case("numcmp", [fenc(10, 1, E, rng=rng), fenc(2, 1, k + 1, rng=rng)])
        yield Case("numcmp", [fenc(16, 1, (k + 3) // 4, rng=rng), fenc(10, 1, E, rng=rng)])

def gen_same_base(rng, tier):
    """AbsOrd / Ord of two FBigs of one base: the exponent+precision and exponent+digits shortcuts"""
    n = 300 if tier == "quick" else 20000
    for _ in range(n):
        B = rng.choice([2, 10, 16])
        d1 = rng.choice([1, 2, 5, 20, 60]); d2 = rng.choice([1, 2, 5, 20, 60])
        s1 = rng.randrange(B ** (d1 - 1), B ** d1) | 1
        s2 = rng.randrange(B ** (d2 - 1), B ** d2) | 1
        if B == 10 and s1 % 5 == 0: s1 += 2
        if B == 10 and s2 % 5 == 0: s2 += 2
        e1 = rng.choice([0, -3, 5, -50, 40])
        # exponents around the shortcut boundaries e1 > e2 + prec2 / e2 + digits2
        e2 = e1 - d2 + rng.choice([-2, -1, 0, 1, 2]) if rng.random() < 0.6 else e1 + d1 + rng.choice([-2, -1, 0, 1, 2])
        p1 = rng.choice([0, d1, d1 + 1, d1 + 4]); p2 = rng.choice([0, d2, d2 + 1, d2 + 4])
        a = fenc(B, s1 * rng.choice([1, -1]), e1, prec=p1)
        b = fenc(B, s2 * rng.choice([1, -1]), e2, prec=p2)
        yield Case("abscmp", [a, b])
        yield Case("ordcmp", [a, b])
        if rng.random() < 0.3:
            yield Case("numcmp", [a, b])

def gen_encl(rng, tier):
    """the enclosure hypothesis of the theorems, checked on the REAL f32 estimator (`log2_bounds`) of every
    big-number kind: values of every family, bit lengths up to 2^20, exponents where `e as f32` rounds"""
    def ok(a):
        t = a.split(":")
        if t[0] == "p":
            return False
        return not (t[0] == "f" and _ival(t[2]) == 0 and int(t[3]) != 0)
    seen = set()
    for v in base_values(rng, tier):
        for r in reps(v, rng):
            if ok(r) and r not in seen:
                seen.add(r)
                yield Case("log2encl", [r])
    Ls = [24, 25, 63, 64, 65, 127, 128, 129, 1000, 4097, 1 << 16, (1 << 16) + 1] + ([1 << 20] if tier == "thorough" else [])
    for L in Ls:
        for pat in ("pow2", "pow2m1", "pow2p1", "rand", "top24", "top24m"):
            if pat == "pow2": x = 1 << (L - 1)
            elif pat == "pow2m1": x = (1 << L) - 1
            elif pat == "pow2p1": x = (1 << (L - 1)) + 1
            elif pat == "top24": x = ((rng.getrandbits(24) | (1 << 23)) << max(L - 24, 0)) if L >= 24 else 1 << (L - 1)
            elif pat == "top24m": x = (((rng.getrandbits(24) | (1 << 23)) + 1) << max(L - 24, 0)) - 1 if L >= 24 else 1 << (L - 1)
            else: x = rng.getrandbits(L) | (1 << (L - 1))
            yield Case("log2encl", ["n:%s:U" % hx(x)])
            yield Case("log2encl", ["n:%s:I" % hx(-x)])
            y = rng.getrandbits(max(L // 2, 2)) | 1
            yield Case("log2encl", ["q:%s/%s:R" % (hx(x), hx(y))])
            yield Case("log2encl", ["q:%s/%s:X" % (hx(-y), hx(x))])
            if L <= 4097:
                for B in (2, 10, 16):
                    yield Case("log2encl", [fenc(B, x, rng.choice([0, 3, -7, 1000, -1000]), prec=0)])
    # rational bounds are differences of two f32 bounds: an exact (power-of-two) part against a tight one, in a larger binade
    for _ in range(300 if tier == "quick" else 4000):
        k = rng.randrange(2, 128)
        d = rng.randrange(3, 1 << rng.choice([3, 7, 12, 20, 24])) | 1
        a, b = (1 << k, d) if rng.random() < 0.5 else (d, 1 << k)
        yield Case("log2encl", ["q:%s/%s:%s" % (hx(a * rng.choice([1, -1])), hx(b), rng.choice("RX"))])
    es = [0, 1, -1, 100, -100, 10 ** 6, -10 ** 6, (1 << 24) - 1, 1 << 24, (1 << 24) + 1, (1 << 24) + 3, (1 << 25) + 2, (1 << 25) + 6,
          (1 << 26) + 4, (1 << 26) + 12, (1 << 27) + 8, 10 ** 9, 10 ** 12 + 1, 10 ** 15 + 7, (1 << 40) + (1 << 16), (1 << 62) + 12345]
    n = 4 if tier == "quick" else 40
    for e in es:
        for sg in (1, -1):
            for B in (2, 10, 16):
                for _ in range(n):
                    s = rng.choice([1, 3, 7, 9, 999, (1 << 24) - 1, (1 << 24) + 1, rng.getrandbits(64) | 1, rng.getrandbits(200) | 1])
                    if B == 10 and s % 5 == 0:
                        s += 2
                    ee = sg * e + rng.choice([0, 0, 1, -1, 2, 5])
                    yield Case("log2encl", [fenc(B, s * rng.choice([1, -1]), ee, prec=0)])

def gen_estimator_edge(rng, tier):
    """exponents beyond 2^24, where `exponent as f32` rounds (the enclosure failed there by less than an ulp before
    fix 378134e): pairs of floats in power-of-two bases whose log2 differ by a few units, compared exactly"""
    n = 150 if tier == "quick" else 8000
    for _ in range(n):
        base = rng.choice([1 << 24, 1 << 25, 1 << 25, 1 << 26])
        e1 = -(base + rng.randrange(-40, 41))
        s1 = rng.randrange(1, 2000, 2)
        B2 = rng.choice([2, 2, 16])
        # log2 y within +-3 of log2 x
        s2 = rng.randrange(1, 2000, 2)
        t = e1 + s1.bit_length() - s2.bit_length() + rng.randrange(-3, 4)
        if B2 == 16:
            e2 = t // 4
        else:
            e2 = t
        sg = rng.choice([1, 1, -1])
        x = fenc(2, sg * s1, e1, prec=0)
        y = fenc(B2, sg * s2, e2, prec=0)
        if rng.random() < 0.5:
            x, y = y, x
        yield Case("numcmp", [x, y])
        if rng.random() < 0.2:
            yield Case("log2encl", [x])

def gen_overflow(rng, tier):
    """|exponent| * bit_len(B) around isize::MAX against f32/f64 (overflowed isize before fix 318bce3)"""
    for B, bl in ((2, 2), (10, 4), (16, 5)):
        lim = (1 << 63) // bl
        for e in (lim - 2, lim - 1, lim, lim + 1, lim + 1000, (1 << 62) + 5, (1 << 63) - 1):
            for sg in (1, -1):
                for f in ("p:f64:4004000000000000", "p:f32:40200000", "p:f64:c004000000000000", "p:f64:7fefffffffffffff", "p:f32:1"):
                    x = fenc(B, rng.choice([1, -1, 3, -7]), sg * e, prec=0)
                    yield Case("numcmp", [x, f])
                    yield Case("numcmp", [f, x])


ISZ_MAX = (1 << 63) - 1
USZ_MAX = (1 << 64) - 1

def _e1_values(rng, tier):
    """ROUND4 addendum E1: the machine-integer values for an isize exponent / usize precision"""
    ks = [0, 1, 2, 63, 64, 127, 129, 130] if tier == "quick" else list(range(0, 131))
    pos = [0, 1, 63, 64, 65, 128, 1 << 31, (1 << 32) - 1, 1 << 32] + [(1 << 32) + k for k in rng.sample(range(1, 130), 3 if tier == "quick" else 20)]
    pos += [1 << 62, (1 << 63) - 1 - 200] + [ISZ_MAX - k for k in ks]
    return pos

def gen_extreme(rng, tier):
    """E1: every isize exponent / usize precision of an FBig operand at the machine extremes (0, 1, W-1, W, W+1, 2W, 2^31,
    2^32-1, 2^32, 2^32+k, 2^62, isize::MAX-k, isize::MIN+k; precisions up to usize::MAX-k), through every op.  Pairs whose
    exact comparison would have to materialise B^|e| (both exponents huge and the values within the estimator's slack) are NOT
    generated: the real code hangs / runs out of memory there (reported, see reports/round5/C14.md)."""
    pos = _e1_values(rng, tier)
    exps = pos + [-e for e in pos if e] + [-(1 << 63), -(1 << 63) + 1]
    small = ["n:5:U", "n:-5:I", "q:5/3:R", "q:-5/3:X", "p:f64:4004000000000000", "p:f32:c0a00000", "p:u8:7", "p:i64:-9"]
    for B in (2, 10, 16):
        O = 10 if B == 2 else 2
        for e in exps:
            s = rng.choice([1, 3, -3, 7, -123457])
            x = "f:%d:%s:%d:0" % (B, hx(s), e)
            yield Case("numhash", [x])
            ys = rng.sample(small, 3 if tier == "quick" else len(small)) + ["f:%d:7:0:0" % B, "f:%d:-7:%d:0" % (O, e // 3)]
            for y in ys:
                yield Case("numcmp", [x, y]) if rng.random() < 0.5 else Case("numcmp", [y, x])
            for y in ("n:5:U", "n:-5:I", "q:5/3:R", "f:%d:7:0:0" % B, "f:%d:7:%d:0" % (B, e), "f:%d:-7:%d:3" % (B, e)):
                yield Case("abscmp", [x, y]) if rng.random() < 0.5 else Case("abscmp", [y, x])
            for y in ("f:%d:7:0:0" % B, "f:%d:7:%d:0" % (B, e), "f:%d:7:%d:5" % (B, -e if e != -(1 << 63) else 5), "f:%d:-7:%d:0" % (B, e - 1 if e > -(1 << 63) else e + 1)):
                yield Case("ordcmp", [x, y]) if rng.random() < 0.5 else Case("ordcmp", [y, x])
            if abs(e) < (1 << 62):
                yield Case("log2encl", [x])
        # precisions (usize): the exponent+precision shortcut of repr_cmp_same_base casts the precision to isize
        precs = [1, 63, 64, 65, 128, 1 << 31, (1 << 32) - 1, 1 << 32, (1 << 32) + 5, 1 << 62, ISZ_MAX - 1, ISZ_MAX, ISZ_MAX + 1, ISZ_MAX + 2]
        precs += [USZ_MAX - k for k in ([0, 1, 2, 63, 64, 130] if tier == "quick" else range(0, 131))]
        for p in precs:
            for (s1, e1, s2, e2) in ((1, 0, 5, 0), (7, 3, 5, 0), (-3, -2, -3, -2), (9, 0, 1, 1), (1, 5, 99, 4)):
                if ndigits(B, s1) > p or ndigits(B, s2) > p:
                    continue
                a = "f:%d:%s:%d:%d" % (B, hx(s1), e1, p)
                b = "f:%d:%s:%d:%d" % (B, hx(s2), e2, rng.choice([p, 10, 0]))
                for op in ("ordcmp", "abscmp", "numcmp", "numeq"):
                    yield Case(op, [a, b]); yield Case(op, [b, a])
                yield Case("hasheq", [a, b])

def gen_all_magnitudes(rng, tier):
    """E2: boundary classes for k of EVERY bit length: 2^b + d (d in -1,0,1) for every b <= 200 (quick: one rendering pair per
    b and d; thorough: several), B^e + d for B in 10, 16, 3 and every e with B^e < 2^200, each against the exact power rendered in
    another type (f32/f64 where exact, FBig of base 2/10/16, RBig, UBig/IBig, primitive integers where they fit)"""
    reps_n = 1 if tier == "quick" else 6
    def emit(v, w):
        rv, rw = reps(Fraction(v), rng), reps(Fraction(w), rng)
        for _ in range(reps_n):
            a, b = rng.choice(rv), rng.choice(rw)
            if rng.random() < 0.5:
                a, b = b, a
            yield from pair_cases(a, b, rng)
    for b in range(0, 201):
        for d in (-1, 0, 1):
            for sg in ((1, -1) if tier == "thorough" else (rng.choice([1, -1]),)):
                yield from emit(sg * (1 << b), sg * ((1 << b) + d))
    for B in (10, 16, 3):
        e = 0
        while B ** e < (1 << 200):
            for d in (-1, 0, 1):
                sg = rng.choice([1, -1])
                yield from emit(sg * B ** e, sg * (B ** e + d))
                if e and B != 3:
                    # the power as an FBig with an explicit exponent (un-normalised significand 1) against the neighbour as an integer
                    x = fenc(B, sg, e, rng=rng)
                    y = rng.choice(["n:%s:I" % hx(sg * (B ** e + d)), "q:%s/1:%s" % (hx(sg * (B ** e + d)), rng.choice("RX"))])
                    yield Case("numcmp", [x, y]); yield Case("abscmp", [y, x]); yield Case("hasheq", [x, y])
            e += 1
    # negative powers: B^-e against 1/(B^e + d)
    for B in (2, 10, 16):
        for e in range(1, 60 if tier == "quick" else 160):
            for d in (-1, 0, 1):
                if B ** e + d <= 0:
                    continue
                x = fenc(B, 1, -e, rng=rng)
                y = "q:1/%s:%s" % (hx(B ** e + d), rng.choice("RX"))
                yield Case("numcmp", [x, y]) if rng.random() < 0.5 else Case("numcmp", [y, x])
                yield Case("hasheq", [x, y])

def generate(rng, tier):
    yield Case("implset", [])        # the impl set the tables were transcribed from is still the one in /repo
    yield from gen_special(rng, tier)
    yield from gen_encl(rng, tier)
    yield from gen_overflow(rng, tier)
    yield from gen_extreme(rng, tier)
    yield from gen_all_magnitudes(rng, tier)
    yield from gen_estimator_edge(rng, tier)
    yield from gen_equal_adjacent(rng, tier)
    yield from gen_far(rng, tier)
    yield from gen_hash_corner(rng, tier)
    yield from gen_slack(rng, tier)
    yield from gen_same_base(rng, tier)
    yield from gen_huge(rng, tier)

def nontrivial(c):
    if len(c.args) < 2:
        return True
    return kind(c.args[0]) != kind(c.args[1])

# ----------------------------------------------------------------------------- helpers

def _ival(s):
    return -int(s[1:], 16) if s.startswith("-") else int(s, 16)


# ----------------------------------------------------------------------------- known-finding input classes

def _fp(a):
    """(B, significand, exponent, precision, digits) of a finite non-zero `f:` argument after normalisation, else None"""
    t = a.split(":")
    if t[0] != "f":
        return None
    B, sg, e, p = int(t[1]), _ival(t[2]), int(t[3]), int(t[4])
    if sg == 0:
        return None
    sg, e = normalize(B, sg, e)
    return (B, sg, e, p, ndigits(B, sg))

# ----------------------------------------------------------------------------- texts

REFINED = [
    "float/src/cmp.rs repr_cmp_ubig::<B,false>, repr_cmp_ibig::<B,false> (sign -> log2-bound filter -> exact scaling), for every sound oracle",
    "float/src/cmp.rs repr_cmp_same_base::<B,ABS> (Ord / AbsOrd for FBig: infinities, signs, zeros, exponent+precision shortcut with the precisions clamped to "
    "isize::MAX as in /repo ee43486 (isizeMax; PrecOK is stated for the clamped precision), exponent+digits shortcut, aligned exact step); the saturating_add of "
    "cases 4/5 is the exact Int sum in the model, proved decision-equal for isize-range exponents (saturating_shortcut_exact)",
    "float/src/cmp.rs repr_cmp_ubig/ibig::<B,true> (AbsOrd FBig x UBig/IBig, any signs)",
    "float/src/third_party/num_order.rs NumOrd<Repr<B2>> for Repr<B1> (any two bases), NumOrd<f32/f64> for Repr<B> (bit-length bounds in i128: the text with every i128 operation in two's complement is proved equal to the Int model for every isize exponent, Word base, significand below 2^64 bits and decoded f32/f64 -- Props/C14I128.repr_num_ord_float_i128: no i128 operation overflows)",
    "integer/src/third_party/num_order.rs NumOrd between UBig/IBig and each other, all primitive integers, f32/f64",
    "rational/src/cmp.rs repr_cmp::<ABS>, repr_eq::<ABS>, repr_cmp_ubig/ibig::<ABS>, with_float::repr_cmp_fbig::<B,ABS>",
    "rational/src/third_party/num_order.rs NumOrd<f32/f64> for Repr, the dispatch table of all implemented pairs",
    "FloatEncoding::decode as used by the comparisons (bit pattern -> NaN / +-inf / man*2^exp; range lemma decode_inRange)",
    "NumHash for UBig, IBig, Repr<B>/FBig, rational Repr (RBig, Relaxed), and num-order's impls for every primitive integer and f32/f64: "
    "each feeds hashQ(value) = +-(|n| mod M)(d mod M)^-1 in Z/M, M = 2^127-1 proved prime; rational Repr first cancels a common factor M; full: equal values feed the same i128",
    "base/src/sign.rs AbsOrd for iN (unsigned_abs)",
    "num-modular FixedMersenneInt<127,1> = ReducedInt<u128, FixedMersenne<127,1>>: reduce_single (fold loop), reduce_double (udouble variant, two unrolled "
    "folds: proved sufficient and overflow-free on products of residues), mul, sqr, binary pow with its 1/2 shortcuts, inv via u128::invm (extended Euclid) "
    "-- mirrored and proved = arithmetic mod 2^127-1; the NumHash impls re-expressed through them (numHashFeedM, what the driver runs) never hit the unwrap "
    "and equal the arithmetic description",
    "NumHash at the infinities (FBig +-inf vs f32/f64 +-inf feed 0)",
    "the driver's oracles (bit-length bounds with a 1/1024-precise rational enclosure of log2 B; never-filter) satisfy the enclosure hypothesis",
    "integer/src/cmp.rs Ord for UBig / IBig, AbsOrd (4 impls), AbsEq (4 impls) and integer/src/third_party/num_order.rs NumOrd between UBig and IBig: "
    "executed through C05's mirrored cmp_same_len / cmp_in_place / Ord for TypedReprRef / Ord for IBig on the canonical word representation "
    "(Model/Cross/IntOrd.lean, what the driver runs for every integer x integer entry with operands up to 2^17 bits; beyond that the proved-equal value-level "
    "table, because C05's representation builder natWords is quadratic) and proved equal to the value-level tables for every word size "
    "by importing C05's ubig_cmp / ibig_cmp (Props/C14Link: num_partial_cmp_mirrored, abs_cmp_mirrored, ord_cmp_mirrored, num_ord_exact_words ...); "
    "every `compare l r` of an exact step is linked the same way (exact_step_is_mirrored_cmp)",
    "the `<<` inside the exact steps (float/src/utils.rs shl_digits arms `2 => value << exp`, `b.is_power_of_two() => value << exp * trailing_zeros`; the `* 2^n` "
    "scalings against decoded f32/f64): the model's x * 2^n / shlDigits 2^k x n is proved equal, for every word size, to C09's mirrored Shl<usize> for IBig "
    "(integer/src/shift_ops.rs, ibigShl) on the canonical representation by importing C09's ibig_shl_exact, and 'shift, then Ord / abs_cmp' to the composition of "
    "C09's shift and C05's mirrored cmp (Props/C14Shl: shl_mirrored, shl_digits_base2/pow2_mirrored, exact_step_shl_cmp_mirrored, exact_step_shl_abs_cmp_mirrored)",
    "the `*` inside the exact steps of the rational comparisons (rational/src/cmp.rs: the cross products n1*d2 / n2*d1 of repr_cmp::<ABS> and repr_eq::<ABS>, "
    "`rhs * &lhs.denominator` of repr_cmp_ubig/ibig::<ABS>, `significand * &lhs.denominator` then `<<=` of with_float::repr_cmp_fbig for power-of-two bases and of "
    "NumOrd<f32/f64> for Repr): the model's x * y is proved equal, for every word size >= 4 bits, to C01's mirrored impl_ibig_mul (integer/src/mul_ops.rs, ibigMul, "
    "refined in C01 down to the schoolbook / Karatsuba / Toom-3 word loops) on canonical representations by importing C01's i_mul_exact (a UBig denominator enters as "
    "the Positive magnitude), and 'multiply crosswise (shift), then cmp / abs_cmp / eq' to the composition of C01's product, C09's shift and C05's mirrored cmp "
    "(Props/C14Mul: mul_mirrored, ratio_cross_cmp_mirrored, ratio_cross_eq_mirrored, ratio_int_cmp_mirrored, mul_shl_mirrored, ratio_float_step_mirrored)",
    "the no_std (table) log2_bounds estimators of integers and rationals: base/src/math/log.rs no_std impls for u8 / u16 / u32..u128, "
    "integer/src/log.rs log2_bounds_large, rational/src/repr.rs log2_bounds — mirrored over Rat with the binary32 operations (round-to-nearest, "
    "next_down, next_up) as parameters (Model/Cross/EstNoStd.lean) and PROVED to satisfy the enclosure hypothesis for all inputs, word sizes >= 32, "
    "under the IEEE facts F32.Ax, without any assumption about libm (Props/C14EstNoStd: nat_encloses, rat_encloses, large_encloses, ...); the instance with "
    "exact arithmetic is the driver's third oracle (table_oracle_sound), run on every comparison",
]
FRONTIER = [
    "UBig::pow / IBig::pow and the `*` by such a power on big integers inside the exact steps (shl_digits arms for base 10 and non-power-of-two bases, the 5^n "
    "factor, `*= UBig::from_word(B).pow(exp)` of with_float::repr_cmp_fbig): used at their value (* B^n); owned by C04/C01 (mirrored and proved there, the pow not "
    "linked here by import). The `<<` of those steps (x * 2^n, shl_digits for bases 2 and 2^k) IS linked to C09's mirrored Shl<usize> for IBig (Props/C14Shl), the "
    "ratio cross products and `int * denominator` products to C01's mirrored impl_ibig_mul (Props/C14Mul, word size >= 4 bits) and the comparisons that follow to "
    "C05 (Props/C14Link); the driver still evaluates shift and product at their value (proved equal)",
    "num-modular u128::mulm inside invm (a*b mod m through udouble) used at its value; machine u128 sums of FixedMersenne are Nat sums (proved overflow-free on residues)",
    "the std-path f32 estimators (libm log2f inside u8..u128 log2_bounds) and Repr<B>::log2_bounds / digits_ub of the float crate in both paths: a PARAMETER of the "
    "theorems; the enclosure hypothesis is checked on the real code per generated input by the harness op log2encl (certified integer interval arithmetic), "
    "not proved. Reason: log2f cannot be specified; the float estimator computes its bounds in f64 and casts to f32 before the outward step, which needs a "
    "grid-level model of binary32/binary64 double rounding (the relative-error facts of F32.Ax, enough for the integer and rational estimators, do not carry it)",
    "machine-integer width of the isize/usize exponent and precision arithmetic: the model is over unbounded Int/Nat. Since /repo ee43486 / a11f448 the code is total "
    "there (cmp.rs saturating sums + precision clamp: clamp mirrored, saturation proved decision-equal to the exact sum for isize exponents; num_order.rs "
    "rem_euclid / unsigned_abs = Int emod / natAbs); the i128 bit-length sums of NumOrd<f32/f64> for Repr<B> are proved overflow-free (Props/C14I128); the extremes are driven by gen_extreme, "
    "no failing class is left (the two round-5 findings are `fixed:` lines, their witnesses run first)",
    "NumOrd between two FBigs whose exponents are both huge and whose values lie within the estimator's slack: the code's exact step materialises B^|e| (hang / "
    "OutOfMemory from |e| ~ 2^31); no executable model can run these either, they are not generated; the theorems (unbounded Int) still give the answer",
    "Tie A covers float/src/cmp.rs and rational/src/cmp.rs (GenFloatCmp, GenRatCmp); the three third_party/num_order.rs files are hand-mirrored and tied by "
    "differential execution plus the `implset` digest of their impl headers (a typed-translator target for the macro bodies was not added this round)",
]
RULE = ("values drawn from families {small integers, boundaries of every primitive integer type, f32/f64 range boundaries (2^24, 2^53, max, least "
        "subnormal, 2^1024, bit lengths 1077/1078), multiples and neighbours of M = 2^127-1, integers of 1..40 words in 11 bit patterns, dyadic, "
        "decimal, exact f32/f64 incl. subnormals, generic rationals}; each value is RENDERED IN EVERY TYPE THAT CAN HOLD IT (UBig, IBig, 12 primitive "
        "integer types, FBig in bases 2/10/16 incl. un-normalised inputs and precision 0 / exact / larger, RBig, non-reduced Relaxed, f32, f64); cases "
        "= pairs of renderings of (a) the same value, (b) adjacent values (+-1 in the numerator over inflated denominators, +-1 ulp), (c) negated "
        "values (AbsOrd), (d) unrelated values; plus zeros, +-0.0, +-inf, NaN of every kind against everything; pairs x, x(1+2^-k) for bit lengths "
        "60..2^20 and k around the f32 resolution 16..26 (inside / just outside the filter's slack); exponents up to 10^15 and 2^62 far apart (must "
        "not be materialised) and 10^(10^3..10^6) against the integer of the same size +-1; same-base FBig pairs around the exponent+precision and "
        "exponent+digits shortcut boundaries; denominators that are multiples of M (reduced RBig vs non-reduced Relaxed); exponents beyond 2^24 "
        "where `exponent as f32` rounds; |exponent|*bit_len(B) around isize::MAX; iN::MIN magnitudes; E1: FBig exponents at every machine extreme (0, 1, 63..65, 128, "
        "2^31, 2^32-1, 2^32, 2^32+k, 2^62, isize::MAX-k for k <= 130, the negatives, isize::MIN, isize::MIN+1) and precisions (.., 2^62, isize::MAX-1..+2, usize::MAX-k) "
        "in bases 2/10/16 through every op; E2: 2^b + d (d in -1,0,1) for EVERY b <= 200 and B^e + d for B in 10, 16, 3 and every e below 2^200, and B^-e against "
        "1/(B^e + d), each against the exact power rendered in another type. Ops: numcmp (num_partial_cmp + num_cmp, "
        "num_eq/ne/lt/le/gt/ge must agree; FBig also through Repr<B> and with a different rounding-mode type), numeq, abscmp, abseq, ordcmp, numhash "
        "(recorded Hasher::write calls), hasheq, log2encl (enclosure hypothesis on the real estimator, decided exactly), fdecode, implset. Non-trivial := the two arguments are of "
        "different kinds; distinct := distinct (op,args) lines.")
EXPLANATION = ("Theorems (all inputs, no size bounds; for EVERY estimator satisfying the enclosure hypothesis lb <= log2|x| <= ub): each mirrored "
               "comparison function (sign -> log2-bound filter -> exact comparison after scaling) returns the order of the exact rationals, NaN "
               "incomparable, -0.0 = 0, infinities at the ends, i.e. the estimate path and the exact path cannot disagree; the whole dispatch table of "
               "implemented NumOrd / AbsOrd pairs is covered by FULL theorems (num_ord_exact, num_eq_exact, abs_ord_exact, ord_exact). NumHash: every "
               "impl feeds hashQ(value) in Z/(2^127-1) (prime, proved by Lucas-Lehmer), hence equal values of any two types feed the same i128 "
               "(num_hash_value, full: non-reduced Relaxed included). The model mirrors /repo after the nine C14 fix commits (incl. ee43486 float cmp clamp, a11f448 NumHash at isize::MIN); the pre-fix code is kept "
               "as a separate model only for labelled as-is statements (prefix_*) of the repaired defects. The driver runs the model with a bit-length "
               "oracle, a never-filtering oracle and the no_std table estimator with exact arithmetic as a third oracle (all three proved sound) and against the "
               "specification on every case; big-integer comparisons run through C05's mirrored word-level cmp (Props/C14Link). The enclosure hypothesis itself "
               "is proved for the no_std integer and rational estimators under IEEE-754 facts only (Props/C14EstNoStd).")
ASSUMPTIONS = [
    "the real f32 estimators satisfy the enclosure hypothesis on the compared inputs (checked per generated input by `log2encl`, incl. exponents beyond 2^24 where it failed before fix 378134e)",
    "big-integer Ord, shifts, products and powers compute their mathematical values (C01/C05/C09)",
    "Hasher::write_i128 forwards 16 native-endian bytes to write (observed by the recording hasher); u128::mulm computes a*b mod m",
    "FBig operands respect their constructors' invariants: significand 0 only with exponent 0 / +-1, digits <= precision (+1) when the precision is limited",
    "a significand has at most 2^63 digits (PrecOK for a precision above isize::MAX, which repr_cmp_same_base clamps: no Repr in memory has more); exponents are isize "
    "(the saturating sums then decide as the exact sums); exact steps fit in memory",
    "Props/C14EstNoStd: the IEEE-754 binary32 facts F32.Ax (next_down/next_up outward, round-to-nearest returns a neighbour, relative error <= 2^-24 in the normal "
    "range, k*2^-j exact for k < 2^24); word size >= 32",
]
LEVEL_TEXT = ("Machine-checked Lean 4 theorems, for all inputs and for every estimate oracle satisfying the enclosure hypothesis, that the mirrored "
              "NumOrd / AbsOrd code of all implemented type pairs returns the order of the exact rationals (NaN incomparable) and that NumHash of "
              "numerically equal numbers of any two types feeds the same i128 (value in Z/(2^127-1), M proved prime); all property theorems are full. "
              "The hand-written model is tied to /repo on every run by differential execution of model and real code over pairs rendered in every "
              "type, adjacent values, filter-slack pairs, huge exponents, specials; the enclosure hypothesis is additionally checked on the real "
              "estimator for every generated operand, and the impl set of the anchored files is re-derived from source.")
LEVEL_NOTE = ("Trusted: Lean kernel; axioms propext/Classical.choice/Quot.sound (Mathlib reals are used only to STATE log2 enclosure); the "
              "correspondence harness and generators (sampling) for the tie model<->code; the f32 estimators enter only through the enclosure "
              "hypothesis, which is tested per operand with certified integer interval arithmetic, not proved for the std path and the float estimator (proved for the no_std integer/rational estimators under F32.Ax); big-integer shifts/products/powers "
              "and num-modular mulm are used at their specifications by the driver (frontier list; the shifts and the rational cross products are proved equal to C09's / C01's mirrored code, Props/C14Shl, Props/C14Mul); big-integer Ord/AbsOrd/AbsEq are C05's mirrored code (linked by theorem).")
THEOREMS = ["Dashu.Props.C14." + n for n in (
    "spec_lt spec_eq spec_gt float_value_rat abs_value_rat enclosure_is_log2 "
    "filter_sound coarse_sound noFilter_sound float_cmp_ubig float_cmp_ibig float_cmp_float "
    "ratio_cmp_ubig ratio_cmp_ibig ratio_cmp_float ratio_cmp_ratio ratio_eq_ratio num_ord_exact "
    "num_eq_exact num_ord_oracle_independent ubig_cmp_prim_float ibig_cmp_prim_float float_cmp_prim_float ratio_cmp_prim_float "
    "decoded_in_range abs_ord_exact float_abs_cmp_ubig float_abs_cmp_ibig prim_abs_cmp float_abs_cmp_same_base saturating_shortcut_exact precision_clamp_id "
    "ord_exact ratio_abs_cmp_ratio ratio_abs_cmp_float mersenne127_prime num_hash_value num_hash_inf "
    "mersenne_reduce_single mersenne_reduce_double mersenne_mul mersenne_pow mersenne_inv num_hash_mirrored "
    "num_hash_value_mirrored hash_is_function_of_value rat_hash_eq_body prefix_num_ord_zero prefix_num_ord_inf prefix_abs_ord_ubig "
    "prefix_abs_ord_ibig prefix_num_hash_corner prefix_num_hash_value_weak ").split()] + ["Dashu.Props.C14Link." + n for n in (
    "ubig_ord_mirrored ibig_ord_mirrored ibig_ord_any_repr ubig_ord_any_repr int_abs_ord_mirrored int_abs_eq_mirrored "
    "ubig_cmp_ibig_mirrored ibig_cmp_ubig_mirrored num_partial_cmp_mirrored num_eq_mirrored abs_cmp_mirrored ord_cmp_mirrored "
    "num_ord_exact_words abs_ord_exact_words ord_exact_words exact_step_is_mirrored_cmp").split()] + ["Dashu.Props.C14EstNoStd." + n for n in (
    "u8_encloses prim_encloses large_encloses nat_encloses rat_encloses oracle_sound_of_float_part exact_arithmetic_meets_ax "
    "table_oracle_sound num_ord_exact_table_path").split()] + ["Dashu.Props.C14I128." + n for n in (
    "wrapI128_id decode_small mul_range repr_num_ord_float_i128 repr_num_ord_float_i128_decode").split()] + ["Dashu.Props.C14Shl." + n for n in (
    "shl_mirrored shl_digits_base2_mirrored shl_digits_pow2_mirrored exact_step_shl_cmp_mirrored exact_step_shl_abs_cmp_mirrored").split()] + ["Dashu.Props.C14Mul." + n for n in (
    "ubig_operand_positive mul_mirrored ratio_cross_cmp_mirrored ratio_cross_eq_mirrored ratio_int_cmp_mirrored mul_shl_mirrored ratio_float_step_mirrored").split()]
TECHNIQUE = "Lean 4 theorems over an executable mirrored model with estimate-oracle parameters + differential correspondence model vs real code"
JOBS = 14
READY = True
