"""C17 — the hand-managed integer storage is memory-safe and keeps its invariants (DESIGN §8 C17, PARTIAL)."""
import os, shutil, subprocess, tempfile, time
from vlib.core import Case, ROOT, HARNESS, ENV, log
from vlib.gens import *

GROUP = "mem"
LEAN_PROPS = "Dashu.Props.C17"
LEAN_AUDIT = "Dashu.Audit.C17"
GEN_PROPS = ["Dashu.Props.C17Link"]     # link theorems to C12 (gcd / gcd_ext kernels of the skeletons, no-panic) and C07 (DigitWriter)
GEN_AUDIT = ["Dashu.Audit.C17Link"]
USES_GEN = True          # Buffer::default_capacity / max_compact_capacity are regenerated (Dashu.Gen.Misc)
JOBS = 12
READY = True

P = "Dashu.Props.C17."
THEOREMS = [P + t for t in [
    "replay_every_event_safe", "history_keeps_invariant", "history_safe", "history_no_ub", "no_leak", "no_leak_total",
    "from_buffer_canonical", "clone_from_correct", "clone_correct", "ones_canonical", "with_sign_canonical",
    "capacity_policy", "ensure_capacity_exact_breaks_max", "ones_prefix_not_canonical",
    "unsafe_buffer_rs_97", "unsafe_buffer_rs_111_470", "unsafe_buffer_rs_148", "unsafe_buffer_rs_209",
    "unsafe_buffer_rs_235", "unsafe_buffer_rs_266", "unsafe_buffer_rs_293", "unsafe_buffer_rs_307",
    "unsafe_buffer_rs_341", "unsafe_buffer_rs_358", "unsafe_buffer_rs_376", "unsafe_buffer_rs_391",
    "unsafe_buffer_rs_408", "unsafe_buffer_rs_440", "unsafe_buffer_rs_456", "unsafe_buffer_rs_482_490",
    "unsafe_repr_rs_333_433_487", "unsafe_repr_rs_356", "unsafe_repr_rs_191", "unsafe_repr_rs_164_231",
    "unsafe_repr_rs_547", "unsafe_repr_rs_504_519", "unsafe_repr_rs_new_unchecked",
    "bump_slice_inside", "bump_writes_inside", "bump_slices_disjoint",
    "unsafe_repr_rs_290", "static_clone_correct", "static_clone_from_correct", "static_register_readonly", "unsafe_repr_rs_209", "unsafe_convert_rs_563_695", "unsafe_shift_rs_57", "unsafe_shift_rs_57_needs_nonempty", "unsafe_primitive_rs_66", "unsafe_primitive_rs_66_needs_two", "unsafe_primitive_rs_82", "unsafe_primitive_rs_96", "invariant_says_canonical", "arithmetic_histories_keep_invariant", "skeleton_ops_ok",
    "unsafe_buffer_rs_438_zeroize", "unsafe_repr_rs_253_zeroize",
    "skeleton_ops_ok_round4", "array_layout_spec", "add_max_layout_valid", "unsafe_memory_rs_43_70", "add_layout_serves_bump",
    "add_layout_words", "pow_word_base_never_resizes", "pow_dword_base_never_resizes",
    "skeleton_ops_ok_round4b", "skeleton_ops_ok_sqrt_rem", "max_layout_serves_each", "skeleton_ops_ok_ibig_bits",
    "skeleton_ops_ok_round5", "gcd_skeleton_value_is_c12_loop", "sqrt_leftover_is_kernel_state",
    "scratch_formulas_regenerated", "memory_end_does_not_wrap",
    "skeleton_ops_ok_round6", "euclid_fix_sub_no_panic",
    "div_skeletons_panic_only_on_zero_divisor", "div_panic_spec_unfold",
    "addsub_skeletons_panic_arms", "sub_underflow_arm_unfold", "sub_skeleton_panics_iff_negative",
    "bit_shift_skeletons_panic_arms"]] + [
    "Dashu.Props.C17Link." + t for t in ["gcd_skeleton_kernel_is_c12", "rawToAscii_ascii", "digit_writer_all_writes_in_bounds",
                                         "digit_writer_write_keeps_len",
                                         "gcd_large_skeleton_no_panic", "gcd_skeleton_panics_only_on_zero_zero",
                                         "gcd_ext_skeleton_kernel_is_c12", "gcd_ext_large_skeletons_no_panic",
                                         "gcd_ext_skeleton_panics_only_on_zero_zero",
                                         "mixed_gcd_skeleton_panics_only_on_zero_zero"]]

REFINED = [
    "buffer.rs: allocate_raw(97) deallocate_raw(111) reallocate_raw(148) push(209) push_repeat(235) push_zeros_front(266) "
    "push_slice(293) pop_zeros(307) erase_front(341) lowest_dword(358) lowest_dword_mut(376) clone_from_slice(391) "
    "into_boxed_slice(408) Clone::clone(440) Clone::clone_from(456) Drop(470) Deref/DerefMut(482,490) + the safe wrappers "
    "allocate/allocate_exact/reallocate/ensure_capacity(_exact)/shrink_to_fit/push_resizing/truncate/From<&[Word]>",
    "repr.rs: from_word(270) from_dword(281) with_sign(136) neg(441) from_buffer(333) into_buffer(356,376) into_typed(191,198) "
    "as_sign_slice/as_sign_typed(231,164) ones(433) Clone::clone(468,487) Clone::clone_from(498,504,519,531) Drop(547)",
    "repr.rs from_static_words(290) as a read-only register kind (static-backed values: clone, clone_from FROM them, views; "
    "never a target), into_sign_typed(209); convert.rs as_ibig/as_ubig(563,695) as identity moves",
    "shift.rs shr_in_place_one_word(57); primitive.rs lowest_dword(66) highest_dword(82) split_hi_word(96): per-block bounds "
    "obligations with and without debug assertions + counterexamples showing the caller-side hypothesis is needed",
    "storage skeletons of UBig + - * / % << >> sqr from_le/be_bytes and IBig + - * (sign glue: into_sign_typed/as_sign_typed, add vs "
    "sub_signed by sign pair, with_sign) in all ownership forms (add_ops.rs/mul_ops.rs/div_ops.rs/shift_ops.rs/convert.rs): exact "
    "sequence of allocate/into()/ensure_capacity/push*/erase_front/from_buffer/drops, kernels abstracted to one overwrite",
    "round 4 storage skeletons (Model/Mem/Arith2.lean, tied by the exact allocator event stream): DivRem::div_rem of UBig in all four "
    "forms (div_ops.rs div_rem_dword / div_rem_large_dword / div_rem_large: div_rem_in_lhs with its scratch block, remainder copied "
    "into the RHS buffer, erase_front leaves the quotient in the LHS buffer, from_buffer(lhs) then from_buffer(rhs)); UBig & | ^ in "
    "all four forms (bits.rs bitand_large truncate, bitor/bitxor_large ensure_capacity + push_slice of the longer tail, "
    "*_large_dword through lowest_dword(_mut), commutative rv arms); UBig::pow (pow.rs: factor-2 removal shr/pow/shl incl. the "
    "checked_mul overflow panic and shl_large's in-place test on the REAL capacity, exp 0/1/2 shortcuts, pow_word_base and "
    "pow_dword_base with the single result buffer doubled by push_zeros(len) and the add_layout scratch block, pow_large_base's "
    "chain of square_large / mul_large results with the old value dropped after each assignment)",
    "round 4 storage skeletons, second batch (Model/Mem/Arith3.lean, same tie): UBig set_bit / clear_bit / clear_high_bits / split_bits "
    "/ next_power_of_two (bits.rs TypedRepr methods behind `self.0 = mem::take(self).into_repr().f(n)`: with_bit_large grows the "
    "value's own buffer by ensure_capacity + push_zeros + push, clear_high_bits_large truncates, next_power_of_two_large "
    "push_resizing(1), split_bits = shr_large_ref + clear_high_bits_large), IBig / % div_rem << >> pow as sign glue over the UBig "
    "skeletons (into_sign_typed / as_sign_typed, with_sign; negative >> = shift, negate, by-value subtraction of the rounding bit); "
    "IBig & | ^ for all sign pairs (impl_ibig_bitand/bitor/bitxor: sub_one in place or in a copy, the crate-internal and_not in four "
    "forms, a final ! = add_one with push_resizing(1)); "
    "UBig::sqrt_rem (root_ops.rs sqrt_rem_large(words, false): shl_large_ref(..).into_buffer() work copy, fresh root buffer, "
    "max_layout(sqr, div) scratch block, remainder left in the truncated copy); the compound assignments op= / <<= / >>= "
    "(impl_binop_assign_by_taking = mem::take + the by-value form) are driven as forms av / ar / a against the vv / vr / v skeletons",
    "round 5 storage skeletons on C12's mirrored kernels (Model/Mem/Arith4.lean, same tie: exact allocator event stream): "
    "UBig::sqrt() (root_ops.rs sqrt_rem_large(words, true).0: Repr::from_buffer is called on the RAW 2n-word work buffer — low half = "
    "low words of the kernel's remainder, high half = what root::sqrt_rem leaves at its top level: a_hi = q^2 plus the q_top flag, "
    "or the untouched input words for n = 2 — computed by sqrtLeftover from C12's sqrtRemRec / kDiv; the second Repr is dropped "
    "after the scratch block); Gcd::gcd of UBig and of IBig in all four forms (gcd_ops.rs: by-value operands are only read, "
    "gcd_large copies both, the copy that ends up holding the result is selected by the `swapped` flag of lehmer.rs gcd_in_place = "
    "C12's lehmerGcdLoop with the flag tracked, truncate + from_buffer, scratch block mul::memory_requirement_up_to(rhs_len, "
    "rhs_len/2) freed before the other copy; gcd_large_dword, the dword arm, the (0,0) panic); ExtendedGcd::gcd_ext of UBig in all "
    "four forms (gcd_ext_dword; gcd_ext_large_dword dividing and rebuilding |b| in the by-value buffer or in a copy; "
    "gcd_ext_large: by-value large operands ARE the work buffers, gcd left in the smaller operand's buffer, |b| in the larger "
    "one's, |a| = (rhs*|b| -+ g)/lhs copied out of the scratch slice into a fresh buffer with the overflow word pushed, or "
    "Repr::zero() when the residue is shorter than lhs; scratch = add(clone, max(gcd_ext, post)); result order swapped back); "
    "values from C12's gcdExtSmall / lehmerExtKernel / xgcdPrimWide; IBig gcd_ext and the mixed UBig/IBig operand pairs of gcd / "
    "gcd_ext in all four forms (fragMixedGcd: into_sign_repr / into_repr glue, coefficients multiplied by the operand signs = "
    "with_sign, no storage event); `!IBig` / `!&IBig` as public operators (fragNot: add_one / sub_one in the operand's own buffer by "
    "value, in a copy by reference, push_resizing(1) on carry); UBig div_euclid / rem_euclid / div_rem_euclid (forward to the "
    "div / rem / div_rem repr functions) and DivRemAssign::div_rem_assign (mem::take + div_rem, forms av / ar) driven against the "
    "div / rem / div_rem skeletons",
    "round 6 storage skeletons (Model/Mem/Arith5.lean, same tie: exact allocator event stream): IBig's Euclidean division family — "
    "DivEuclid::div_euclid, RemEuclid::rem_euclid (-> UBig), DivRemEuclid::div_rem_euclid (-> (IBig, UBig)) of IBig in all four "
    "ownership forms and sign pairs (div_ops.rs impl_ibig_div_euclid / impl_ibig_rem_euclid / impl_ibig_divrem_euclid: the UBig "
    "div_rem / % skeleton on the magnitudes — with the divisor only BORROWED (`mag1.as_ref()`) when the dividend is negative, "
    "whatever the form; for a non-zero remainder `q.into_typed().add_one()` (add_dword / add_large_one in the quotient's own buffer, "
    "push_resizing(1) on carry) and the by-value subtraction `mag1 - r.into_typed()` (the UBig - UBig skeleton with the divisor as "
    "LEFT operand: sub_large in the divisor's buffer by value, sub_large_ref_val growing the remainder's buffer by reference, "
    "sub_large_dword); the unused remainder of div_euclid and an unused by-value divisor are dropped at the end of the block, also "
    "when division by zero unwinds); theorem euclid_fix_sub_no_panic: the subtraction's panic_negative_ubig arm is dead; "
    "IBig DivRemAssign::div_rem_assign (mem::take + div_rem, forms av / ar) driven against the IBig div_rem skeleton; "
    "primitive-operand forms `UBig op u64|u128` / `&UBig op u64|u128` for + - * / | ^ (helper_macros.rs impl_binop_with_primitive: "
    "`self.op(UBig::from(rhs)).try_into().unwrap()`) driven against the by-value-rhs skeletons with an inline right operand",
    "memory.rs:58 MemoryAllocation::memory(): `start.wrapping_add(layout.size())` does not wrap (theorem memory_end_does_not_wrap; "
    "the one allocator fact used — the block lies inside the address space — is an explicit hypothesis)",
    "fmt/digit_writer.rs DigitWriter::{write, flush} (the only hand-indexed byte buffer of the formatting path and its "
    "`unsafe { str::from_utf8_unchecked }`): linked by theorem to C07's mirrored writer (Props/C17Link "
    "digit_writer_all_writes_in_bounds, digit_writer_write_keeps_len) — for EVERY sequence of writes no slice range leaves "
    "[u8; BUFFER_LEN] and every byte reaching from_utf8_unchecked is 7-bit ASCII",
    "scratch-block sizes of the mul / sqr / div / sqrt / gcd / gcd_ext skeletons = the formulas regenerated from /repo "
    "(Dashu.Gen.Scratch incl. the new lehmer / gcd / gcd_large / gcd_ext_large targets; theorem scratch_formulas_regenerated, Tie A)",
    "memory.rs array_layout / add_layout / max_layout / zero_layout and MemoryAllocation::new / Drop (36-50, 66-72): size/alignment "
    "arithmetic over core::alloc::Layout's documented behaviour (Model/Mem/Layout.lean) — validity closure, the allocate_too_much arm "
    "of new is dead for every valid layout, GlobalAlloc contract of alloc/dealloc, add_layout exactly sufficient and aligned for the "
    "two nested bump requests that consume it, max_layout sufficient for either consumer alone (theorems; observed only through the "
    "scratch sizes in the event streams)",
    "zeroize feature: Buffer::as_full_slice(438)+Zeroize, Repr::as_full_slice(253)+Zeroize — theorem only (harness is built "
    "without the feature)",
    "capacity policy default_capacity / max_compact_capacity (regenerated from source, Tie A)",
    "memory.rs: try_find_memory_for_slice(165) allocate_slice_initialize(155) and the element writes (86,104,129,135) — "
    "tied by correspondence through the memory_split hook (mem.bump: offsets, lengths, out-of-memory point)"]
FRONTIER = [
    "NOT modelled: len/is_zero/is_one union reads "
    "(87,393,407: no memory access outside the struct), "
    "unsafe impl Send/Sync (buffer.rs:35,38; repr.rs:62,65: a type-system claim, no executable content), Memory's Debug "
    "offset_from(27) (debug formatting only)",
    "NOT modelled: arch/*/add.rs intrinsics (safe code: `core::arch` add-with-carry intrinsics on values, no pointer; owned by C19's "
    "Gen/ArchAdd tie)",
    "arithmetic skeletons NOT mirrored op by op: nth_root for n >= 3 (a Newton loop over the PUBLIC operations pow / div / mul / "
    "add whose skeletons are mirrored; its primitive-operand forms `x * usize`, `/ usize` are the same macro as the u64 / u128 forms "
    "driven since round 6, but the loop itself is not mirrored), "
    "the remaining primitive-operand forms (`primitive op UBig`, `% primitive` returning a primitive, signed primitives, IBig "
    "with primitives, op= primitive: all `<$t>::from(primitive)` + the mirrored operator), to_*_bytes (a Vec<u8>, not a word "
    "buffer) and parsing/printing; they are covered by the general theorem only through their final Repr::from_buffer / from_dword "
    "(any history of Buffer ops followed by from_buffer is canonical) and by the value-level exploration",
    "gcd / gcd_ext / sqrt skeletons: that lehmer.rs / root.rs stay inside the slices they are handed (`x[..y.len()]`, `t0[..qt1_len]`, "
    "`a[2*split..]`) is bounds-CHECKED slice code, not a ledger fact; C12 owns the buffer-length claims (Props/C12 LehmerBuf*); here "
    "only the Buffer/Repr storage calls around the kernels are mirrored",
    "Rust-level UB that is not a ledger fact (aliasing/provenance, transmute validity, alignment, reads of uninitialised "
    "[len,cap)) — outside any executable Lean model; Miri is supporting evidence",
    "pow_word_base / pow_dword_base: that the single result buffer never reallocates (`// actually never resize`) is proved for the "
    "word and dword bases as a bound on the tracked length (pow_word_base_never_resizes, pow_dword_base_never_resizes; not as a total-correctness statement about the op sequence) and observed (no realloc event in the "
    "compared streams); pow_word_base's power-of-two arms (set_bit) are unreachable from UBig::pow and not modelled",
    "that a storage skeleton never hits an internal assert / model-panic arm is PROVED only for: Gcd::gcd and ExtendedGcd::gcd_ext of "
    "UBig, IBig and the mixed UBig/IBig pairs, all forms, any operand words (round 7, Props/C17Link gcd_skeleton_panics_only_on_zero_zero, "
    "gcd_ext_skeleton_panics_only_on_zero_zero, mixed_gcd_skeleton_panics_only_on_zero_zero: the only panic is the documented gcd(0, 0); "
    "link to C12's gcdPrim_spec / lehmerGcd_correct / xgcdPrimWide_spec / gcdExtSmall_spec / lehmerExt_correct; gcd_ext_large's kernel "
    "lehmerExtKernel totalises C12's lehmerExt — gcd_ext_skeleton_kernel_is_c12 shows that arm dead for 0 < rhs < lhs, i.e. for canonical "
    "large operands; for NON-canonical zero operands of > 2 words the model uses the totalised value, a state the real code cannot be in), "
    "the division skeletons UBig / % div_rem and IBig div_euclid / rem_euclid / div_rem_euclid (round 7, Props/C17 "
    "div_skeletons_panic_only_on_zero_divisor, lemmas in Proofs/Mem/DivPanic.lean: only divideByZero, never for a non-zero divisor, always "
    "for an inline zero divisor; all forms, signs, operand words), "
    "the Euclidean fix-up subtraction (euclid_fix_sub_no_panic), the pow result-buffer length bound, and (round 8, Props/C17, lemmas in "
    "Proofs/Mem/AddSubPanic.lean; all forms, signs, ANY operand words) UBig + UBig, IBig + IBig, IBig - IBig: no panic arm; UBig - UBig: only "
    "panic_negative_ubig, exactly under the branch conditions subUnderflowArm (addsub_skeletons_panic_arms, sub_underflow_arm_unfold) "
    "and, for operands stored with the length of their value, iff a < b as values (sub_skeleton_panics_iff_negative); UBig & | ^, and_not, "
    ">>: no panic arm; UBig << n: only allocTooMuch and none when n / W + len + 3 <= MAX_CAPACITY (bit_shift_skeletons_panic_arms). "
    "Still observed in the compared streams only, not proved: sqrt / sqrt_rem, pow (its allocation arm through the final <<), mul / sqr, "
    "the IBig bit operations and IBig shifts (sign glue over the proved UBig skeletons plus fSubOne / fNot / fAddOne), set_bit / clear_bit / "
    "split_bits and the other usize-argument bit functions",
    "allocation failure (null from alloc/realloc) is not modelled: the allocator is assumed to succeed",
    "value-level histories of the public API (mem.val) are EXPLORATION: values against Int arithmetic and the layout invariant "
    "observed through repr_info after every step; the kernels between Repr and Buffer (add/mul/div/shift/...) are other "
    "properties' models"]
RULE = ("mem.buf: typed histories of 1..40 operations over 8 registers (empty | Buffer | IBig) generated with a Python mirror of "
        "(len, cap, words) so that sizes are drawn RELATIVE to the current state: n in {0,1,2,3, len-1,len,len+1, cap-1,cap,cap+1, "
        "max_compact(len)+-1, free space +-1}; all BufferHandle methods, from_buffer/into_buffer round trips, UBig/IBig "
        "clone/clone_from between every size relation (inline<-inline, inline<-heap, heap<-inline, heap<-heap reuse / too small / "
        "too large), sign flips, ones(n) around W, 2W, 3W; ~4% of histories end in a deliberately failing assert; fixed histories "
        "for the capacity quirks (allocate_exact(1|2) + push_resizing, ensure_capacity_exact). Compared after EVERY op: (len, cap, "
        "words) or (signed capacity, len, words) of the target register and the exact allocator event stream (alloc/realloc/"
        "dealloc sizes in words, in order) seen by a counting global allocator; at the end all registers are dropped: events, "
        "live allocations = 0, double frees = 0. mem.val: histories of 1..40 public IBig/UBig operations over 8 registers, "
        "generated with Python-tracked values so that magnitudes cross 0/1/2/3 words and the reallocation thresholds in both "
        "directions (x op= &x.clone(), clone_from larger/smaller/equal, words/bytes round trips, shifts, mul/sqr/pow, div/rem/gcd "
        "through the scratch bump allocator, sub to zero, ones, take/swap/drop); after every step value + layout invariant of every "
        "live register; at the end live bytes/pointers back to the start and no double free. "
        "mem.arith (one public operation in one ownership form; result layout + exact allocator events + drops against the storage "
        "skeleton): operand lengths 0..40 (thorough 60, scratch classes up to 800) words x patterns x forms per operation; round 5: "
        "`!IBig` (all-ones carries, powers of two losing a word), sqrt (7 patterns, roots with zero low half, q_top, k^2-1/k^2/k^2+1 for k of every bit length), gcd/gcd_ext of UBig, IBig and mixed pairs (coprime, common "
        "factor of 1..4 words, divides, equal, +-1, shifted, Fibonacci pairs, (0,0), scratch and double-word-guess thresholds); "
        "round 6: IBig div_euclid / rem_euclid / div_rem_euclid (4 forms x sign pairs x lengths 0..17 (thorough 40) on both sides; "
        "remainder 0 / 1 / |b|-1 / random under a negative dividend, quotient 2^(64k)-1 so that add_one carries out of the inline form "
        "or into a new word, |a| < |b| with cancelling high words, zero divisor in every form and sign, divide-and-conquer sizes), "
        "IBig div_rem_assign, `UBig / &UBig op u64 / u128` for + - * / | ^ (primitives at 0, 1, 2, 2^64-2..2^64+1, 2^127, 2^128-2, 2^128-1, "
        "the low words of the lhs and their complement: carry into a new word, borrow to fewer words, underflow, x0, /0); "
        "E1 extremes: every usize argument of shl/shr/ishl/ishr/set_bit/clear_bit/clear_high_bits/split_bits/pow at 0, 1, W-1..2W, "
        "2^31, 2^32-1, 2^32, 2^32+k, 2^63, usize::MAX-k (growth operations only where the result is small or the request exceeds "
        "MAX_CAPACITY: the documented allocation panic is compared). mem.policy: default/max_compact "
        "capacity at n in size classes up to MAX_CAPACITY. mem.miri: the same history interpreter under `cargo +nightly miri` "
        "(permissive provenance), a fixed set in quick, fixed + seeded in thorough; any Miri error or leak = violation. "
        "Non-trivial := a mem.buf history with >= 1 allocator event beyond the first allocation, or a mem.val history with a "
        ">= 3-word value; distinct := distinct case lines.")
EXPLANATION = ("PROVED (Lean, all histories by induction over the op list, all MAX_CAPACITY, all W>0): pool/ledger invariant kept by "
               "every op (history_keeps_invariant); every read/write hits a live id below its capacity and every free/realloc "
               "names a live id with its current capacity, including the events before a panic (history_safe, "
               "replay_every_event_safe); no transmute/inline-copy UB point reached (history_no_ub); dropping every register "
               "leaves an empty ledger (no_leak); from_buffer canonical incl. compactness; clone_from equal/canonical/independent "
               "for all size relations; ones canonical; capacity policy chain on the regenerated formulas; one obligation per "
               "modelled unsafe block (unsafe_<file>_<line>); bump-allocator slices aligned, inside, pairwise disjoint; memory.rs layout "
               "arithmetic valid, MemoryAllocation::new's too-much arm dead, add_layout sufficient for its consumers; the pow result "
               "buffer's length bound; scratch sizes = regenerated formulas; the gcd skeleton's kernel = C12's loop and always "
               "returns the gcd, so the gcd skeletons (UBig, IBig, all forms, any operand words) panic only on the documented gcd(0, 0) (gcd_skeleton_panics_only_on_zero_zero), likewise gcd_ext and the mixed UBig/IBig pairs (gcd_ext_skeleton_panics_only_on_zero_zero, mixed_gcd_skeleton_panics_only_on_zero_zero; kernel = C12's lehmerExt, gcd_ext_skeleton_kernel_is_c12); the division skeletons (UBig / % div_rem, IBig Euclidean family) panic only with divideByZero and only on a zero divisor (div_skeletons_panic_only_on_zero_divisor); the add / sub skeletons: UBig + and IBig + - have no panic arm, UBig - UBig only panic_negative_ubig and — operands without a leading zero word — iff a < b (addsub_skeletons_panic_arms, sub_skeleton_panics_iff_negative); UBig & | ^ and_not >> none, << only the allocation panic (bit_shift_skeletons_panic_arms); DigitWriter in bounds + ASCII for all write sequences (link to C07). "
               "static-backed values read-only; shift.rs/primitive.rs block obligations; every mirrored public operation (see REFINED) is a history over the "
               "proved op alphabet, so canonical results incl. the compactness bound hold after arithmetic whatever the kernels write "
               "(arithmetic_histories_keep_invariant, invariant_says_canonical). "
               "VALIDATED by correspondence: mem.buf traces (state + allocator event stream, exact), mem.arith (public op vs storage "
               "skeleton: result layout + allocator events + drops, exact) and mem.policy. "
               "EXPLORED: mem.val public-API histories (values, layout invariants, leak/double-free counters). "
               "SUPPORT: mem.miri histories under Miri. See op_histogram for the counts of each kind.")
ASSUMPTIONS = ["the global allocator never fails and honours the GlobalAlloc contract",
               "Buffer and Repr have the same layout (const_assert_eq in repr.rs, compile-time)",
               "usize = Word (MAX_CAPACITY = (2^W - 1) / W in the driver)",
               "debug build semantics: debug_assert! is a panic branch of the model (release builds skip them)"]
LEVEL_TEXT = ("Machine-checked Lean 4 theorems over an executable ledger model of buffer.rs and the storage part of repr.rs: for "
              "ALL finite histories of Buffer/Repr operations over a register pool (induction over the history; no bound on "
              "length, sizes or word values) every raw-pointer access is inside a live allocation, every free/realloc names a live "
              "allocation with its current capacity (no double free / use after free), nothing leaks, and after every operation "
              "values of <= 2 words are inline, larger ones own a buffer with non-zero top word and capacity within "
              "max_compact_capacity, and zero is never negative. The model is tied to /repo on every run by (A) regenerating the "
              "capacity-policy formulas from buffer.rs and (B) differential execution: the real Buffer (through the dashu_verif "
              "BufferHandle hook) and UBig/IBig run the same histories under a counting global allocator and must show the same "
              "state and the same allocator event stream after every operation. Public operations enter the theorems as storage "
              "skeletons (the exact sequence of Buffer/Repr calls, word-level kernels abstracted to an arbitrary overwrite) that are "
              "compared with the real allocator event stream: UBig + - * / % div_rem & | ^ << >> sqr pow, set_bit/clear_bit/"
              "clear_high_bits/split_bits/next_power_of_two, sqrt_rem, sqrt, gcd, gcd_ext, from_le/be_bytes, IBig + - * / % div_rem & | ^ ! << >> pow gcd gcd_ext, mixed UBig/IBig gcd / gcd_ext, all ownership "
              "forms incl. the compound assignments; where the storage events depend on the state a number-theory kernel leaves in "
              "the buffers (sqrt's raw work buffer, which operand copy holds the gcd, the lengths of the Bezout coefficients) that state "
              "is computed by property C12's mirrored kernels, and the kernel used is proved to be C12's (value component of the "
              "flag-tracking Lehmer loop = lehmerGcdLoop; it always returns the gcd). The scratch-block sizes are the formulas "
              "regenerated from source (theorem). fmt/digit_writer.rs's byte buffer and from_utf8_unchecked are covered by a link "
              "theorem to C07's mirrored writer (all write sequences). "
              "memory.rs layout arithmetic (array_layout/add_layout/max_layout, MemoryAllocation::new/Drop) is proved valid, its "
              "allocate_too_much arm dead, add_layout sufficient for its two bump consumers. PARTIAL: Rust-level UB beyond "
              "bounds/lifetime (aliasing, transmute validity, uninitialised reads) is not decided by proof; nth_root (n >= 3), parsing/printing, "
              "and the primitive-operand forms other than `UBig op u64|u128` are covered only through their final from_buffer and explored by "
              "value-level histories with invariant checks and by Miri runs of the same histories; that a skeleton never hits an "
              "internal assert is observed, not proved (except: the gcd and gcd_ext skeletons of UBig / IBig / mixed pairs panic only on the "
              "documented gcd(0, 0) — theorems gcd_skeleton_panics_only_on_zero_zero, gcd_ext_skeleton_panics_only_on_zero_zero, "
              "mixed_gcd_skeleton_panics_only_on_zero_zero by link to C12's kernels —, the division skeletons of UBig and IBig's Euclidean family panic only with "
              "divideByZero and only for a zero divisor (div_skeletons_panic_only_on_zero_divisor), the Euclidean fix-up subtraction, the pow "
              "result-buffer length bound, and — round 8 — UBig + / IBig + - have no panic arm, UBig - UBig panics only with "
              "panic_negative_ubig and, for operands without a leading zero word, iff a < b (addsub_skeletons_panic_arms, "
              "sub_skeleton_panics_iff_negative), UBig & | ^ and_not >> have none and << only the documented allocation panic "
              "(bit_shift_skeletons_panic_arms)).")
LEVEL_NOTE = ("Trusted: Lean kernel; axioms propext/Classical.choice/Quot.sound; vlib/extract.py for the two policy formulas; the "
              "harness incl. its counting allocator, the history generators (sampling) for the tie model<->code; Miri (support "
              "only). Not modelled: zeroize paths, Send/Sync impls, allocation failure; MemoryAllocation::new/Drop only as the scratch "
              "alloc/free events of the mul skeleton; the memory.rs bump-splitting theorems are tied through the memory_split hook for "
              "16-aligned blocks only; the Layout arithmetic of memory.rs is a transcription of core::alloc::Layout's documented behaviour (std is trusted). "
              "sqr::MAX_LEN_SIMPLE, the mul/div thresholds and the capacity policy are regenerated from source (Dashu.Gen, Tie A). ensure_capacity_exact(c) needs c <= MAX_CAPACITY for the invariant (hypothesis Op.Ok; counterexample "
              "theorem ensure_capacity_exact_breaks_max) — its only caller passes an existing buffer's length.")
TECHNIQUE = ("Lean 4 program logic (Hoare triples over an event-emitting monad + independent trace checker), induction over "
             "histories; differential correspondence incl. allocator event streams; Miri as support")

W = 64
MAXCAP = ((1 << 64) - 1) // 64
R = 8


def _policy_consts():
    """(divisor, offset) of default_capacity and max_compact_capacity read from the REGENERATED Lean text, so that the
    steering mirror follows the source (it only steers; the Lean model decides)"""
    import re
    try:
        txt = open(os.path.join(ROOT, "lean", "Dashu", "Gen", "Misc.lean")).read()
        out = []
        for name in ("default_capacity", "max_compact_capacity"):
            m = re.search(r"def %s .*?div_ num_words \((\d+)\)\)\) \((\d+)\)\)" % name, txt, re.S)
            out.append((int(m.group(1)), int(m.group(2))))
        return out
    except Exception:
        return [(8, 2), (4, 4)]


def dc(n):
    (d, o), _ = _policy_consts_cached()
    return min(n + n // d + o, MAXCAP)


def mc(n):
    _, (d, o) = _policy_consts_cached()
    return min(n + n // d + o, MAXCAP)


_PC = []


def _policy_consts_cached():
    if not _PC:
        _PC.append(_policy_consts())
    return _PC[0]


def nontrivial(c):
    if c.op == "mem.buf":
        heavy = sum(1 for t in c.args if t.split(":")[0] in ("ensure", "ensurex", "shrink", "pushr", "cfs", "cfsf", "bclone",
                                                             "bclonefrom", "rclone", "rclonefrom", "tou", "tob", "boxed"))
        return heavy >= 1 and len(c.args) >= 3
    if c.op == "mem.val":
        return any(t.startswith("set:") and len(t.split(":")[2].lstrip("-")) > 32 for t in c.args) or \
            any(t.split(":")[0] in ("shl", "ones", "mul", "sqr", "pow", "selfmul") for t in c.args)
    if c.op == "mem.arith":
        return any(len(a) > 32 for a in c.args[2:])
    return c.op in ("mem.policy", "mem.miri", "mem.bump")


# ------------------------------------------------------------------ property-level judge (drift vs violation)

def _tok_view(tok):
    """projection of one step token onto what the PROPERTY fixes, plus whether the layout invariant holds for it.
    returns (view, ok): capacities and allocator events are internal choices (dropped from the view) but must
    satisfy len <= cap (buffers) / the canonical-form clauses (values)."""
    import re
    if tok.startswith("!"):
        return ("panic", tok.split("|")[0]), True
    body = tok.split("|")[0]
    if body == "e":
        return ("e",), True
    if "&" in body:
        # (quotient & remainder) of div_rem: both must satisfy the layout clauses
        parts = [_tok_view(x) for x in body.split("&")]
        return ("pair",) + tuple(v for v, _ in parts), all(ok for _, ok in parts)
    m = re.fullmatch(r"b(\d+)/(\d+)/(.*)", body)
    if m:
        ln, cap, ws = int(m.group(1)), int(m.group(2)), m.group(3)
        return ("b", ln, ws), (ln <= cap and cap > 0 and cap <= MAXCAP)
    m = re.fullmatch(r"([rs])(-?)(\d+)/(\d+)/(.*)", body)
    if m:
        kind, neg, cap, ln, ws = m.group(1), m.group(2) == "-", int(m.group(3)), int(m.group(4)), m.group(5)
        words = [] if ws == "-" else ws.split(",")
        ok = len(words) == ln and cap >= 1
        if ln <= 2:
            ok = ok and cap <= 2 and (cap == 2) == (ln == 2)
        else:
            ok = ok and cap > 2 and ln <= cap <= mc(ln) and cap <= MAXCAP
        if words:
            ok = ok and words[-1] != "0"
        if ln == 0:
            ok = ok and not neg
        return (kind, neg, ln, ws), ok
    return ("?", tok), False


def _tail_ok(tok):
    import re
    m = re.search(r"live=(\d+):dfree=(\d+)", tok)
    return bool(m) and m.group(1) == "0" and m.group(2) == "0" and "!" not in tok.split("live=")[1]


def judge(c, impl, model):
    """called by ./check on a disagreement that no finding matches.  "holds" = the implementation's answer differs
    from the model's only in observables the property does not fix (capacities, allocator event stream, the exact
    point where an internal `assert!` of the crate-private Buffer API fires, bump-allocator padding) AND the
    implementation's own answer satisfies every clause of the property on this input: the correspondence has
    drifted (the model no longer mirrors the code), no failing input."""
    try:
        if not impl.startswith("ok ") or not model.startswith("ok "):
            return None
        it, mt = impl[3:].split(" "), model[3:].split(" ")
        if c.op in ("mem.buf", "mem.arith"):
            if not it or not it[-1].startswith("end:") or not _tail_ok(it[-1]):
                return None
            isteps, msteps = it[:-1], mt[:-1]
            for k, tok in enumerate(isteps):
                v, ok = _tok_view(tok)
                if not ok:
                    return None
                if v[0] == "panic":
                    if c.op == "mem.arith" or v[1] != "!assert":
                        # documented panics of the public API must agree exactly
                        if k >= len(msteps) or _tok_view(msteps[k])[0] != v:
                            return None
                    break
                if k < len(msteps):
                    mv, _ = _tok_view(msteps[k])
                    if mv[0] == "panic":
                        if mv[1] != "!assert" or c.op == "mem.arith":
                            return None
                        # the model's internal assert fired where the code had room: the rest is the code's own
                        # history; keep checking its invariants only
                        msteps = []
                        continue
                    if mv != v:
                        return None
            return "holds"
        if c.op == "mem.policy":
            n = int(c.args[0][2:])
            d, m, mx = (int(x) for x in it)
            return "holds" if (n <= d <= m <= mx) else None
        if c.op == "mem.bump":
            total = int(c.args[0][2:])
            reqs = [(1 << int(t.split(":")[0]), int(t.split(":")[1])) for t in c.args[1:]]
            pos = 0
            for k, tok in enumerate(it):
                if tok.startswith("rem:") or tok.startswith("nomem@"):
                    if tok.startswith("nomem@") and not any(t.startswith("nomem@") for t in mt):
                        return None
                    break
                off, ln = (int(x) for x in tok.split(","))
                size, cnt = reqs[k]
                if off % size or ln != size * cnt or off < pos or off + ln > total:
                    return None
                pos = off + ln
            return "holds"
    except Exception:
        return None
    return None


# ------------------------------------------------------------------ buffer-level histories

def _w(rng):
    return rng.choice([0, 0, 1, (1 << 64) - 1, 1 << 63, rng.getrandbits(64), rng.getrandbits(8)])


def _ws(rng, n, topzero=None):
    ws = [_w(rng) for _ in range(n)]
    if n and topzero is True:
        ws[-1] = 0
    if n and topzero is False and ws[-1] == 0:
        ws[-1] = 1
    return ws


def _fw(ws):
    return ",".join("%x" % w for w in ws) if ws else "-"


class BufMirror:
    """Python mirror of (kind, words, cap, neg) per register — used ONLY to choose interesting sizes
    (relative to len/cap/thresholds) and well-typed operations; it decides nothing."""

    def __init__(self):
        self.r = [None] * R          # None | ['b', ws, cap] | ['r', ws, cap, neg]   (cap<=2: inline)

    def kinds(self, k):
        return [i for i in range(R) if self.r[i] is not None and self.r[i][0] == k]

    def from_buffer(self, ws, cap):
        while ws and ws[-1] == 0:
            ws = ws[:-1]
        if len(ws) <= 2:
            return ['r', ws, len(ws) if len(ws) == 2 else 1, False]
        if cap > mc(len(ws)):
            cap = dc(len(ws))
        return ['r', ws, cap, False]

    def rel_sizes(self, ws, cap):
        l = len(ws)
        s = {0, 1, 2, 3, l, l + 1, max(l - 1, 0), cap, cap + 1, max(cap - 1, 0), max(cap - l, 0), max(cap - l, 0) + 1,
             max(cap - l - 1, 0), mc(l), mc(l) + 1, dc(l), 2 * cap + 3, l + 9, l + 17}
        return sorted(x for x in s if x <= 400)


def buf_history(rng, nsteps, fail_p=0.04):
    m = BufMirror()
    toks = []
    for _ in range(nsteps):
        k = rng.randrange(R)
        cur = m.r[k]
        if cur is None:
            c = rng.choice(["alloc", "alloc", "allocx", "fromw", "fromw", "word", "dword", "ones", "bclone", "rclone", "fromw3",
                            "heapval", "heapval", "roomy", "static", "bview", "tightval"])
            if c == "alloc":
                n = rng.choice([0, 0, 1, 2, 3, 4, 5, 6, 7, 8, 9, 15, 16, 17, 30, 100, 200])
                toks.append("alloc:%d:%d" % (k, n)); m.r[k] = ['b', [], dc(n)]
            elif c == "allocx":
                n = rng.choice([1, 1, 2, 2, 3, 4, 5, 8, 20, 100])
                toks.append("allocx:%d:%d" % (k, n)); m.r[k] = ['b', [], n]
            elif c in ("fromw", "fromw3"):
                n = rng.choice([0, 1, 2, 3, 3, 4, 5, 8, 9, 13, 20, 40]) if c == "fromw" else rng.choice([3, 4, 5])
                ws = _ws(rng, n, topzero=rng.choice([None, None, True, False]))
                toks.append("fromw:%d:%s" % (k, _fw(ws))); m.r[k] = ['b', ws, dc(n)]
            elif c == "heapval":
                # a heap-allocated value right away (>= 3 words, non-zero top word)
                n = rng.choice([3, 3, 4, 5, 6, 7, 8, 9, 12, 16, 17, 24, 33, 45])
                ws = _ws(rng, n, topzero=False)
                toks.append("fromw:%d:%s" % (k, _fw(ws))); toks.append("tou:%d" % k)
                m.r[k] = m.from_buffer(ws, dc(n))
            elif c == "static":
                n = rng.choice([0, 1, 2, 3, 3, 4, 5, 8, 20])
                bad = rng.random() < fail_p
                ws = _ws(rng, n, topzero=(True if (bad and n >= 2) else False))
                neg = rng.choice([0, 1])
                toks.append("static:%d:%s:%d" % (k, _fw(ws), neg))
                if n >= 2 and ws[-1] == 0:
                    return toks                   # assert repr.rs:295 / 301
                if n <= 2:
                    m.r[k] = ['r', ws, 2 if n == 2 else 1, bool(neg) and bool(ws)]
                else:
                    m.r[k] = ['s', ws, n, bool(neg)]
            elif c == "bview":
                js = [j for j in range(R) if m.r[j] is not None and j != k]
                if not js:
                    continue
                j = rng.choice(js)
                sw = list(m.r[j][1])
                toks.append("bview:%d:%d" % (k, j)); m.r[k] = ['b', sw, dc(len(sw))]
            elif c == "tightval":
                # a heap value whose capacity equals its length (smallest heap capacity 3 included)
                n = rng.choice([3, 3, 3, 4, 5, 8])
                ws = _ws(rng, n, topzero=False)
                toks.append("allocx:%d:%d" % (k, n)); toks.append("pushs:%d:%s" % (k, _fw(ws))); toks.append("tou:%d" % k)
                m.r[k] = ['r', ws, n, False]
            elif c == "roomy":
                # a buffer with much more room than max_compact_capacity(len): from_buffer must shrink it
                n = rng.choice([20, 40, 100, 200])
                ws = _ws(rng, rng.choice([3, 4, 5, 8]), topzero=False)
                toks.append("alloc:%d:%d" % (k, n)); toks.append("pushs:%d:%s" % (k, _fw(ws)))
                m.r[k] = ['b', ws, dc(n)]
            elif c == "word":
                w = _w(rng)
                toks.append("word:%d:%x" % (k, w)); m.r[k] = ['r', [w] if w else [], 1, False]
            elif c == "dword":
                lo, hi = _w(rng), _w(rng)
                toks.append("dword:%d:%x:%x" % (k, lo, hi))
                ws = [lo, hi] if hi else ([lo] if lo else [])
                m.r[k] = ['r', ws, 2 if hi else 1, False]
            elif c == "ones":
                n = rng.choice([0, 1, 63, 64, 65, 127, 128, 129, 191, 192, 193, 255, 256, 257, 500, 640, 1000])
                toks.append("ones:%d:%d" % (k, n))
                q, h = divmod(n, 64)
                ws = [(1 << 64) - 1] * q + ([(1 << h) - 1] if h else [])
                m.r[k] = ['r', ws, (dc(q + 1) if n > 128 else (2 if n > 64 else 1)), False]
            elif c == "bclone":
                js = [j for j in m.kinds('b') if j != k]
                if not js:
                    continue
                j = rng.choice(js)
                toks.append("bclone:%d:%d" % (k, j)); m.r[k] = ['b', list(m.r[j][1]), dc(len(m.r[j][1]))]
            else:
                js = [j for j in m.kinds('r') + m.kinds('s') if j != k]
                if not js:
                    continue
                j = rng.choice(js)
                s = m.r[j]
                toks.append("rclone:%d:%d" % (k, j))
                m.r[k] = ['r', list(s[1]), s[2] if s[2] <= 2 else dc(len(s[1])), s[3]]
        elif cur[0] == 'b':
            _, ws, cap = cur
            l = len(ws)
            fail = rng.random() < fail_p
            c = rng.choice(["ensure", "ensure", "ensurex", "shrink", "push", "pushr", "pushr", "zeros", "zerosf", "pushs",
                            "pushsf", "popz", "trunc", "erase", "deref", "cfs", "cfs", "cfsf", "bclonefrom", "bclonefrom",
                            "boxed", "tou", "tou", "drop", "pusht", "over", "over"])
            rel = m.rel_sizes(ws, cap)
            if c == "ensure":
                n = rng.choice(rel)
                toks.append("ensure:%d:%d" % (k, n))
                if n > cap and n > 2:
                    cur[2] = dc(n)
            elif c == "ensurex":
                n = rng.choice(rel)
                toks.append("ensurex:%d:%d" % (k, n))
                if n > cap and n > 2:
                    cur[2] = n
            elif c == "shrink":
                toks.append("shrink:%d" % k)
                if cap > mc(l):
                    cur[2] = dc(l)
            elif c == "push":
                if l >= cap and not fail:
                    continue
                w = _w(rng)
                toks.append("push:%d:%x" % (k, w))
                if l >= cap:
                    return toks
                ws.append(w)
            elif c == "pushr":
                w = _w(rng)
                toks.append("pushr:%d:%x" % (k, w))
                if w:
                    if l + 1 > cap and l + 1 > 2:
                        cur[2] = dc(l + 1)
                    if l >= cur[2]:
                        return toks          # capacity<=2 quirk: ensure_capacity does nothing, push asserts
                    ws.append(w)
            elif c in ("zeros", "zerosf"):
                free = cap - l
                n = rng.choice([x for x in (0, 1, 2, free, max(free - 1, 0)) if x <= free] + ([free + 1] if fail else []))
                if n > 300:
                    continue
                toks.append("%s:%d:%d" % (c, k, n))
                if n > free:
                    return toks
                cur[1] = ws + [0] * n if c == "zeros" else [0] * n + ws
            elif c == "pushs":
                free = cap - l
                n = rng.choice([0, 1, 2, 3, free, max(free - 1, 0)] + ([free + 1] if fail else []))
                if n > 300 or (n > free and not fail):
                    continue
                nw = _ws(rng, n)
                toks.append("pushs:%d:%s" % (k, _fw(nw)))
                if n > free:
                    return toks
                cur[1] = ws + nw
            elif c in ("pushsf", "cfsf"):
                js = [j for j in range(R) if m.r[j] is not None and j != k]
                if not js:
                    continue
                j = rng.choice(js)
                sw = list(m.r[j][1])
                if c == "pushsf":
                    if len(sw) > cap - l and not fail:
                        continue
                    toks.append("pushsf:%d:%d" % (k, j))
                    if len(sw) > cap - l:
                        return toks
                    cur[1] = ws + sw
                else:
                    toks.append("cfsf:%d:%d" % (k, j))
                    if cap >= len(sw):
                        cur[1] = sw
                    else:
                        cur[1] = sw; cur[2] = dc(len(sw))
            elif c == "pusht":
                js = [j for j in range(R) if m.r[j] is not None and j != k]
                if not js:
                    continue
                j = rng.choice(js)
                sw = list(m.r[j][1])
                lo = rng.choice([x for x in (0, 1, 2, len(sw) - 1, len(sw)) if 0 <= x <= len(sw)] + ([len(sw) + 1] if fail else []))
                if lo <= len(sw) and len(sw) - lo > cap - l and not fail:
                    continue
                toks.append("pusht:%d:%d:%d" % (k, j, lo))
                if lo > len(sw) or len(sw) - lo > cap - l:
                    return toks
                cur[1] = ws + sw[lo:]
            elif c == "over":
                nw = _ws(rng, l)
                toks.append("over:%d:%s" % (k, _fw(nw)))
                cur[1] = nw
            elif c == "popz":
                toks.append("popz:%d" % k)
                while ws and ws[-1] == 0:
                    ws.pop()
            elif c == "trunc":
                n = rng.choice([x for x in (0, 1, 2, 3, l, max(l - 1, 0)) if x <= l] + ([l + 1] if fail else []))
                toks.append("trunc:%d:%d" % (k, n))
                if n > l:
                    return toks
                cur[1] = ws[:n]
            elif c == "erase":
                n = rng.choice([x for x in (0, 1, 2, l, max(l - 1, 0)) if x <= l] + ([l + 1] if fail else []))
                toks.append("erase:%d:%d" % (k, n))
                if n > l:
                    return toks
                cur[1] = ws[n:]
            elif c == "deref":
                toks.append("deref:%d" % k)
            elif c == "cfs":
                n = rng.choice([x for x in rel if x <= 120])
                nw = _ws(rng, n)
                toks.append("cfs:%d:%s" % (k, _fw(nw)))
                cur[1] = nw
                if cap < n:
                    cur[2] = dc(n)
            elif c == "bclonefrom":
                js = [j for j in m.kinds('b') if j != k]
                if not js:
                    continue
                j = rng.choice(js)
                sw = list(m.r[j][1])
                toks.append("bclonefrom:%d:%d" % (k, j))
                cur[1] = sw
                if not (cap >= len(sw) and cap <= mc(len(sw))):
                    cur[2] = dc(len(sw))
            elif c == "boxed":
                toks.append("boxed:%d" % k); m.r[k] = None
            elif c == "tou":
                toks.append("tou:%d" % k); m.r[k] = m.from_buffer(list(ws), cap)
            else:
                toks.append("drop:%d" % k); m.r[k] = None
        elif cur[0] == 's':
            c = rng.choice(["asslice", "asslice", "drop"])
            if c == "asslice":
                toks.append("asslice:%d" % k)
            else:
                toks.append("drop:%d" % k); m.r[k] = None
        else:
            _, ws, cap, neg = cur
            c = rng.choice(["tob", "tob", "rclonefrom", "rclonefrom", "rclonefrom", "sign", "neg", "asslice", "drop", "ist"])
            if c == "tob":
                if neg:
                    toks.append("sign:%d:0" % k)
                toks.append("tob:%d" % k)
                m.r[k] = ['b', list(ws), cap if cap > 2 else dc(cap)]
            elif c == "ist":
                toks.append("ist:%d" % k)
                if cap <= 2:
                    cur[3] = False
                else:
                    m.r[k] = ['b', list(ws), cap]
            elif c == "rclonefrom":
                js = [j for j in m.kinds('r') + m.kinds('s') if j != k]
                if not js:
                    continue
                j = rng.choice(js)
                s = m.r[j]
                toks.append("rclonefrom:%d:%d" % (k, j))
                sl = len(s[1])
                if s[2] <= 2:
                    m.r[k] = ['r', list(s[1]), s[2], s[3]]
                elif cap < sl or cap > mc(sl):
                    m.r[k] = ['r', list(s[1]), dc(sl), s[3]]
                else:
                    m.r[k] = ['r', list(s[1]), cap, s[3]]
            elif c == "sign":
                s = rng.choice([0, 1])
                toks.append("sign:%d:%d" % (k, s))
                if ws:
                    cur[3] = bool(s)
            elif c == "neg":
                toks.append("neg:%d" % k)
                if ws:
                    cur[3] = not neg
            elif c == "asslice":
                toks.append("asslice:%d" % k)
            else:
                toks.append("drop:%d" % k); m.r[k] = None
    return toks


FIXED_BUF = [
    # capacity <= 2 quirk: ensure_capacity(2) does nothing on a capacity-1 buffer, push then asserts
    "allocx:0:1 push:0:1 pushr:0:2",
    "allocx:0:2 push:0:1 push:0:2 pushr:0:3 tou:0",
    "allocx:0:1 ensurex:0:2 push:0:1 push:0:2",
    "allocx:0:0",
    # requests beyond MAX_CAPACITY: the documented allocation panic, before any allocator call
    "alloc:0:%d" % (MAXCAP + 1),
    "allocx:0:%d" % (MAXCAP + 1),
    "alloc:0:3 push:0:1 ensure:0:%d" % (MAXCAP + 1),
    "alloc:0:3 pushs:0:1,2,3 ensure:0:%d drop:0" % (1 << 63),
    # from_buffer: trimmed to 0/1/2 words -> inline + dealloc; >= 3 -> shrink_to_fit
    "fromw:0:0,0,0 tou:0 fromw:1:5,0,0 tou:1 fromw:2:5,6,0,0 tou:2 fromw:3:5,6,7,0,0,0 tou:3",
    "alloc:0:100 push:0:1 push:0:2 push:0:3 tou:0 tob:0 zerosf:0:2 erase:0:1 boxed:0",
    "alloc:0:0 boxed:0 alloc:1:3 push:1:1 boxed:1",
    # clone_from: every size relation
    "word:0:7 word:1:9 rclonefrom:0:1 fromw:2:1,2,3,4 tou:2 rclonefrom:0:2 rclonefrom:1:0 word:3:0 rclonefrom:0:3",
    # heap<-heap: too large (cap 47 vs 5 words), reuse (cap 7 vs 3 words), too small (cap 5 vs 40 words)
    "fromw:0:1,2,3 tou:0 fromw:1:1,2,3,4,5 tou:1 fromw:2:1,2,3,4,5,6,7,8,9,a,b,c,d,e,f,10,11,12,13,14,15,16,17,18,19,1a,1b,1c,1d,1e,1f,20,21,22,23,24,25,26,27,28 tou:2 rclone:3:2 rclonefrom:2:1 rclonefrom:1:0 "
    "rclonefrom:0:3 neg:0 rclonefrom:1:0 sign:1:0",
    "ones:0:128 ones:1:129 ones:2:192 ones:3:193 ones:4:64 ones:5:65 rclonefrom:1:0 rclonefrom:0:3",
    # static-backed values (from_static_words): clone allocates, clone_from from a static, views, forget
    "static:0:1,2,3:0 static:1:5,6,7,8,9:1 static:2:7:1 static:3:-:1 static:4:1,2:0 rclone:5:0 rclonefrom:5:1 "
    "rclonefrom:2:0 asslice:1 bview:6:1 pusht:6:0:1 drop:0 rclonefrom:5:2",
    # the smallest heap capacity (3): drop, clone_from out of / into it, into_buffer round trip
    "allocx:0:3 pushs:0:1,2,3 tou:0 drop:0",
    "allocx:0:3 pushs:0:1,2,3 tou:0 word:1:7 rclonefrom:0:1 allocx:2:3 pushs:2:4,5,6 tou:2 rclone:3:2 rclonefrom:2:3 tob:2 tou:2",
    "static:0:1,0:0",
    "static:0:1,2,0:1",
    "static:0:0:1 fromw:1:1,2,3 tou:1 ist:1 over:1:9,9,9 tou:1 neg:1 ist:1 tou:1",
    "fromw:0:1,2,3 fromw:1:4,5,6,7,8,9,a,b,c bclonefrom:0:1 bclonefrom:1:0 alloc:2:200 bclonefrom:2:0 cfsf:2:1 pushsf:2:0",
]


def buf_cases(rng, tier):
    for h in FIXED_BUF:
        yield Case("mem.buf", h.split(" "))
    n = 2500 if tier == "quick" else 150000
    for i in range(n):
        steps = rng.choice([3, 6, 10, 16, 25, 40])
        toks = buf_history(rng, steps)
        if toks:
            yield Case("mem.buf", toks)


# ------------------------------------------------------------------ value-level histories

def _tdiv(a, b):
    q = abs(a) // abs(b)
    return q if (a < 0) == (b < 0) else -q


def _words(v):
    return (abs(v).bit_length() + 63) // 64


def _val(rng, big):
    cls = rng.choice([0, 1, 1, 2, 2, 3, 3, 3, 4, 5, 8, 9] + ([24, 25, 33, 60] if big else [12]))
    v = nat_pattern(rng, cls, rng.choice(PATTERNS)) if cls else 0
    return -v if rng.random() < 0.35 else v


def val_history(rng, nsteps, maxbits):
    vals = [None] * R
    toks = []

    def some(exc=None):
        js = [j for j in range(R) if vals[j] is not None and j != exc]
        return rng.choice(js) if js else None

    for _ in range(nsteps):
        k = rng.randrange(R)
        c = rng.choice(["set", "set", "clone", "clonefrom", "clonefrom", "add", "sub", "sub", "mul", "div", "rem", "gcd",
                        "addm", "subm", "mulm", "divm", "remm", "adda", "suba", "mula", "selfadd", "selfsub", "selfmul", "selfaddv", "sqr",
                        "pow", "shl", "shr", "shr", "neg", "abs", "ones", "words", "bytes", "bytesbe", "parts", "take",
                        "swap", "drop", "cancel", "grow", "sclone", "sadd", "smul"])
        x = vals[k]
        if c == "set":
            v = _val(rng, maxbits > 4000)
            toks.append("set:%d:%s" % (k, hx(v))); vals[k] = v
        elif c == "ones":
            n = rng.choice([0, 1, 63, 64, 65, 127, 128, 129, 191, 192, 193, 256, 500])
            toks.append("ones:%d:%d" % (k, n)); vals[k] = (1 << n) - 1
        elif c in ("clone", "sqr"):
            a = some()
            if a is None or (c == "sqr" and abs(vals[a]).bit_length() * 2 > maxbits):
                continue
            toks.append("%s:%d:%d" % (c, k, a)); vals[k] = vals[a] if c == "clone" else vals[a] * vals[a]
        elif c == "pow":
            a = some()
            e = rng.choice([0, 1, 2, 3, 5])
            if a is None or abs(vals[a]).bit_length() * e > maxbits:
                continue
            toks.append("pow:%d:%d:%d" % (k, a, e)); vals[k] = vals[a] ** e
        elif c in ("clonefrom", "adda", "suba", "mula", "swap"):
            if x is None:
                continue
            a = some(k)
            if a is None:
                continue
            y = vals[a]
            if c == "mula" and abs(x).bit_length() + abs(y).bit_length() > maxbits:
                continue
            toks.append("%s:%d:%d" % (c, k, a))
            if c == "clonefrom":
                vals[k] = y
            elif c == "adda":
                vals[k] = x + y
            elif c == "suba":
                vals[k] = x - y
            elif c == "mula":
                vals[k] = x * y
            else:
                vals[k], vals[a] = y, x
        elif c == "take":
            a = some(k)
            if a is None:
                continue
            toks.append("take:%d:%d" % (k, a)); vals[k] = vals[a]; vals[a] = 0
        elif c in ("add", "sub", "mul", "div", "rem", "gcd"):
            a, b = some(), some()
            if a is None:
                continue
            xa, xb = vals[a], vals[b]
            if c == "mul" and abs(xa).bit_length() + abs(xb).bit_length() > maxbits:
                continue
            if c in ("div", "rem") and xb == 0 and rng.random() < 0.9:
                continue
            if c == "gcd" and xa == 0 and xb == 0 and rng.random() < 0.9:
                continue
            toks.append("%s:%d:%d:%d" % (c, k, a, b))
            if (c in ("div", "rem") and xb == 0) or (c == "gcd" and xa == 0 and xb == 0):
                return toks
            if c == "add":
                vals[k] = xa + xb
            elif c == "sub":
                vals[k] = xa - xb
            elif c == "mul":
                vals[k] = xa * xb
            elif c == "div":
                vals[k] = _tdiv(xa, xb)
            elif c == "rem":
                vals[k] = xa - xb * _tdiv(xa, xb)
            else:
                import math
                vals[k] = math.gcd(xa, xb)
        elif c in ("addm", "subm", "mulm", "divm", "remm"):
            a = some()
            if a is None:
                continue
            b = some(a)
            if b is None:
                continue
            xa, xb = vals[a], vals[b]
            if c == "mulm" and abs(xa).bit_length() + abs(xb).bit_length() > maxbits:
                continue
            if c in ("divm", "remm") and xb == 0:
                continue
            toks.append("%s:%d:%d:%d" % (c, k, a, b))
            vals[a] = None
            vals[k] = {"addm": lambda: xa + xb, "subm": lambda: xa - xb, "mulm": lambda: xa * xb,
                       "divm": lambda: _tdiv(xa, xb), "remm": lambda: xa - xb * _tdiv(xa, xb)}[c]()
        elif c in ("shl", "shr"):
            if x is None:
                continue
            bl = abs(x).bit_length()
            if c == "shl":
                n = rng.choice([0, 1, 7, 63, 64, 65, 128, 129, 200, 1000])
                if bl + n > maxbits:
                    continue
                vals[k] = x << n
            else:
                # land just above / on / below the 2-word boundary, or anywhere
                n = rng.choice([0, 1, 63, 64, 65, 128, max(bl - 129, 0), max(bl - 128, 0), max(bl - 127, 0), max(bl - 64, 0),
                                max(bl - 1, 0), bl, bl + 1, 1000])
                vals[k] = x >> n
            toks.append("%s:%d:%d" % (c, k, n))
        elif c == "cancel":
            # x - (x - small): falls from many words to <= 2 (borrow chains), as a register pair
            if x is None:
                continue
            j = rng.randrange(R)
            if j == k:
                continue
            d = rng.choice([0, 1, (1 << 64) - 1, 1 << 64, (1 << 128) - 1, 1 << 128])
            toks.append("set:%d:%s" % (j, hx(x - d))); vals[j] = x - d
            toks.append("suba:%d:%d" % (k, j)); vals[k] = d
        elif c == "grow":
            # inline value pushed over the boundary by one add
            if x is None:
                continue
            j = rng.randrange(R)
            if j == k:
                continue
            t = rng.choice([(1 << 128) - 1, 1 << 128, (1 << 192) - 1, (1 << 64) - 1])
            toks.append("set:%d:%s" % (j, hx(t - x))); vals[j] = t - x
            toks.append("adda:%d:%d" % (k, j)); vals[k] = t
            toks.append("adda:%d:%d" % (k, j)); vals[k] = 2 * t - x
        elif c == "drop":
            toks.append("drop:%d" % k); vals[k] = None
        elif c in ("sclone", "sadd", "smul"):
            i = rng.randrange(4)
            sv = STATIC_VALS[i]
            if c != "sclone" and x is None:
                continue
            toks.append("%s:%d:%d" % (c, k, i))
            vals[k] = sv if c == "sclone" else (x + sv if c == "sadd" else x * sv)
        else:
            if x is None:
                continue
            if c == "selfmul" and 2 * abs(x).bit_length() > maxbits:
                continue
            toks.append("%s:%d" % (c, k))
            if c in ("selfadd", "selfaddv"):
                vals[k] = 2 * x
            elif c == "selfsub":
                vals[k] = 0
            elif c == "selfmul":
                vals[k] = x * x
            elif c == "neg":
                vals[k] = -x
            elif c == "abs":
                vals[k] = abs(x)
    return toks


STATIC_VALS = [7, 5 + 9 * 2 ** 64, 1 + 2 * 2 ** 64 + 3 * 2 ** 128, (2 ** 64 - 1) + 2 ** 256]

FIXED_VAL = [
    "sclone:0:0 sclone:1:1 sclone:2:2 sclone:3:3 sadd:2:3 smul:3:2 set:4:-1 sadd:4:2 smul:4:3 clonefrom:0:3 drop:3",
    "set:0:ffffffffffffffffffffffffffffffff set:1:1 add:2:0:1 sub:3:2:1 selfsub:2 shl:0:70 shr:0:200 drop:1",
    "set:0:123456789abcdef0123456789abcdef0123456789abcdef set:1:-1 clonefrom:1:0 clonefrom:0:1 set:2:5 clonefrom:0:2 clonefrom:2:1",
    "ones:0:128 ones:1:129 ones:2:127 sub:3:1:0 sub:4:0:2 clonefrom:1:0 words:0 bytes:1 bytesbe:2 parts:3",
    "set:0:10000000000000000000000000000000000000000 selfmul:0 selfmul:0 selfmul:0 sqr:1:0 div:2:1:0 rem:3:1:0 gcd:4:1:0 "
    "shr:1:5000 selfsub:0 take:5:2 swap:5:3 drop:5",
    "set:0:-ffffffffffffffffffffffffffffffffffffffffffffffff set:1:ffffffffffffffffffffffffffffffffffffffffffffffff adda:0:1 "
    "neg:1 abs:1 addm:2:1:0 set:4:-3 mulm:3:2:4",
    "set:0:7 set:1:0 div:2:0:1",
]


def tight_cases(rng, tier):
    """values whose buffer is FULL (len == capacity: obtained by clone_from into a reusable buffer of exactly
    src_len words) consumed by by-value operations that need one more word (carry of +, *, the quotient carry of
    /, the carry of <<): the growth must go through push_resizing / ensure_capacity, never a bare push"""
    for l in [3, 4, 5, 6, 8, 9, 12, 16, 17, 24, 33]:
        c = dc(l)
        ones = (1 << (64 * c)) - 1
        base = ["set:0:%s" % hx(nat_pattern(rng, l, "random")), "set:1:%s" % hx(ones), "clonefrom:0:1"]
        divisors = [3, (1 << 64) - 1, (1 << 64) + 5, (1 << 127) + 1, nat_pattern(rng, 3, "random"),
                    nat_pattern(rng, max(c - 1, 3), "random"), nat_pattern(rng, c, "random"), (1 << (64 * c - 1))]
        for d in divisors:
            for op in ("divm", "remm"):
                yield Case("mem.val", base + ["set:2:%s" % hx(d), "%s:3:0:2" % op, "drop:3"])
        for tail in (["set:2:1", "adda:0:2"], ["set:2:1", "addm:3:0:2"], ["set:2:3", "mula:0:2"], ["shl:0:1"], ["shl:0:64"],
                     ["selfadd:0"], ["set:2:%s" % hx(ones), "adda:0:2"], ["set:2:%s" % hx((1 << 128) - 1), "mulm:3:0:2"],
                     ["neg:0", "set:2:-1", "adda:0:2"], ["sadd:0:2"], ["smul:0:1"]):
            yield Case("mem.val", base + tail)


def val_cases(rng, tier):
    for h in FIXED_VAL:
        yield Case("mem.val", h.split(" "))
    yield from tight_cases(rng, tier)
    n = 2500 if tier == "quick" else 120000
    for i in range(n):
        toks = val_history(rng, rng.choice([4, 8, 15, 25, 40]), 6000 if tier == "quick" else 30000)
        if toks:
            yield Case("mem.val", toks)


# ------------------------------------------------------------------ policy

def policy_cases(rng, tier):
    ns = list(range(0, 70)) + [100, 1000, 4095, 4096, 1 << 20, (1 << 31) - 1, 1 << 32, MAXCAP // 2, MAXCAP - 10 ** 17,
                                 (MAXCAP * 8) // 9 - 3, (MAXCAP * 8) // 9, (MAXCAP * 8) // 9 + 3, (MAXCAP * 4) // 5 - 4,
                                 (MAXCAP * 4) // 5, (MAXCAP * 4) // 5 + 4, MAXCAP - 5, MAXCAP - 4, MAXCAP - 3, MAXCAP - 2,
                                 MAXCAP - 1, MAXCAP]
    for _ in range(100 if tier == "quick" else 2000):
        ns.append(rng.randrange(0, MAXCAP + 1) >> rng.randrange(0, 58))
    for n in ns:
        yield Case("mem.policy", ["d:%d" % n])


# ------------------------------------------------------------------ Miri (support)

MIRI_NOTE = {}


def _harness_dir():
    """the harness manifest directory ./check built from: the shadow manifest of core.cargo_build when the check
    runs against a scratch copy of /repo (VERIF_REPO), else the harness itself"""
    from vlib import core
    import hashlib
    if core.REPO != "/repo":
        tag = hashlib.sha1(core.REPO.encode()).hexdigest()[:10]
        d = os.path.join(core.CACHE, "harness-alt-" + tag)
        if os.path.isdir(d):
            return d
    return HARNESS


def _miri_run(tdir, hists, timeout):
    """one Miri invocation over `hists` (list of (kind, toks)); returns per-history verdicts"""
    args = [k + ";" + ";".join(t) for k, t in hists]
    env = dict(ENV)
    env.update({"MIRIFLAGS": "-Zmiri-permissive-provenance", "CARGO_TARGET_DIR": tdir, "RUSTFLAGS": "--cfg dashu_verif"})
    try:
        p = subprocess.run(["cargo", "+nightly", "miri", "run", "--offline", "--bin", "miri_hist", "--"] + args,
                           cwd=_harness_dir(), env=env, stdout=subprocess.PIPE, stderr=subprocess.PIPE, text=True, timeout=timeout)
    except subprocess.TimeoutExpired:
        return None, "timeout"
    done = set()
    for line in p.stdout.splitlines():
        sp = line.split(" ", 1)
        if sp[0].isdigit():
            done.add(int(sp[0]))
    verdicts = {}
    for i in range(len(hists)):
        verdicts[i] = "clean" if i in done else None
    if p.returncode != 0:
        missing = [i for i in range(len(hists)) if i not in done]
        err = " ".join(l for l in p.stderr.splitlines() if "error" in l.lower())[:200].replace(" ", "_") or "rc=%d" % p.returncode
        if missing:
            verdicts[missing[0]] = "ub(" + err + ")"
        else:
            # everything ran, Miri complained at exit (leak): attribute by running one by one
            for i, h in enumerate(hists):
                v, _ = _miri_run(tdir, [h], timeout)
                verdicts[i] = (v or {}).get(0) or "ub(" + err + ")"
    return verdicts, p.stderr[-300:]


def miri_cases(rng, tier):
    if os.environ.get("VERIF_NO_MIRI"):
        MIRI_NOTE["skipped"] = "VERIF_NO_MIRI set"
        return
    t0 = time.time()
    try:
        pv = subprocess.run(["cargo", "+nightly", "miri", "--version"], cwd=HARNESS, env=ENV, stdout=subprocess.PIPE,
                            stderr=subprocess.PIPE, text=True, timeout=120)
        if pv.returncode != 0:
            MIRI_NOTE["skipped"] = "cargo +nightly miri not available"
            log("C17: Miri not available, support runs skipped")
            return
    except Exception as e:
        MIRI_NOTE["skipped"] = "cargo +nightly miri not available: %r" % e
        return
    hists = [("buf", h.split(" ")) for h in FIXED_BUF[1:3] + FIXED_BUF[4:9]] + [("val", h.split(" ")) for h in FIXED_VAL[:5]]
    hists += [("buf", h.split(" ")) for h in FIXED_BUF if h.startswith("static:")]
    B3 = (1 << 192) - 1
    hists += [("arith", ["add", "vv", hx(B3), hx(B3)]), ("arith", ["sub", "rv", hx(1 << 200), hx(B3)]),
              ("arith", ["sub", "rr", hx(B3), hx(1 << 200)]), ("arith", ["mul", "vr", hx(B3), hx((1 << 70) + 1)]),
              ("arith", ["shl", "v", hx(B3), "d:200"]), ("arith", ["shr", "r", hx(B3 << 70), "d:130"]),
              # round 4: div_rem in the operand buffers, | growing the shorter by-value buffer, set_bit beyond the capacity,
              # negative >> with a rounding carry, pow on the single result buffer, sqrt_rem, a compound assignment
              ("arith", ["divrem", "vv", hx((B3 << 64) + 12345), hx(B3 - 99)]), ("arith", ["or", "vr", hx(B3), hx(1 << 600)]),
              ("arith", ["setbit", "v", hx(B3), "d:448"]), ("arith", ["ishr", "v", hx(-((1 << 197) - 1)), "d:5"]),
              ("arith", ["pow", "r", hx((1 << 64) + 1), "d:5"]), ("arith", ["pow", "r", hx(3 << 70), "d:90"]),
              ("arith", ["sqrtrem", "r", hx((B3 << 128) + 7), "d:0"]), ("arith", ["xor", "av", hx(B3), hx(B3)]),
              # round 5: sqrt() on the raw work buffer, gcd in the operand copies, gcd_ext with by-value work buffers, the
              # copied scratch slices and the residue division
              ("arith", ["sqrt", "r", hx((B3 << 128) + 7), "d:0"]), ("arith", ["sqrt", "r", hx((1 << 320) + 5), "d:0"]),
              ("arith", ["gcd", "vr", hx(B3 * 0x10000000000000000000000000000000f), hx(B3 * 3)]),
              ("arith", ["igcd", "rv", hx(-(B3 << 70)), hx((1 << 300) + 12345)]),
              ("arith", ["gcdext", "vv", hx((B3 << 64) + 12345), hx(B3 - 99)]),
              ("arith", ["gcdext", "rr", hx(B3 - 99), hx((B3 << 64) * (B3 - 99))]),
              ("arith", ["gcdext", "rv", hx(12345), hx((B3 << 64) + 77)]),
              ("arith", ["igcdext", "vr", hx(-((B3 << 64) + 12345)), hx(-(B3 - 99))]), ("arith", ["inot", "v", hx(B3), "d:0"]),
              ("arith", ["inot", "r", hx(-(1 << 192)), "d:0"])]
    if tier == "thorough":
        for _ in range(700):
            hists.append(("buf", buf_history(rng, rng.choice([6, 12, 25]))))
        for _ in range(700):
            hists.append(("val", val_history(rng, rng.choice([6, 12, 25]), 4000)))
        ar = [c for c in arith_cases(rng, "quick") if sum(len(a) for a in c.args) < 400]
        for c in rng.sample(ar, min(600, len(ar))):
            hists.append(("arith", list(c.args)))

        def _miri_ok(c):
            if sum(len(a) for a in c.args) >= 300:
                return False
            if c.args[0] in ("pow", "ipow"):
                return int(c.args[3][2:]) <= 48
            if c.args[0] in ("setbit", "ishl", "shl"):
                return int(c.args[3][2:]) <= 4096
            return True
        ar4 = [c for c in list(with_assign_forms(rng, round4_cases(rng, "quick"))) + list(with_assign_forms(rng, round4b_cases(rng, "quick")))
               + list(sqrt_cases(rng, "quick")) + list(with_assign_forms(rng, ibit_cases(rng, "quick")))
               + list(round5_cases(rng, "quick")) if _miri_ok(c)]
        for c in rng.sample(ar4, min(700, len(ar4))):
            hists.append(("arith", list(c.args)))
        hists = [h for h in hists if h[1]]
    # the Miri build of dashu-int + harness dominates the quick tier on a loaded machine: keep its target directory warm
    # for the unchanged /repo (cargo's fingerprints rebuild what changed); scratch copies of /repo (trial runs) get a
    # throw-away directory
    from vlib import core as _core
    warm = _core.REPO == "/repo"
    tdir = os.path.join(_core.CACHE, "miri-alt-c17") if warm else tempfile.mkdtemp(prefix="verif-miri-")
    os.makedirs(tdir, exist_ok=True)
    try:
        # first (small) invocation builds; later chunks run in parallel on the warm target dir
        csz = 7 if tier == "quick" else 60
        first = 1 if warm else 4     # the first invocation (re)builds; with a warm directory it only has to notice that
        chunks = [hists[:first]] + [hists[i:i + csz] for i in range(first, len(hists), csz)]
        results = []
        v, err = _miri_run(tdir, chunks[0], 900)
        if warm and (v is None or any(x is None or str(x).startswith("ub(") for x in v.values())):
            # a stale or damaged warm target directory must never be reported as a finding: rebuild from scratch once
            shutil.rmtree(tdir, ignore_errors=True)
            os.makedirs(tdir, exist_ok=True)
            v, err = _miri_run(tdir, chunks[0], 900)
        if v is None or all(x is None for x in v.values()):
            MIRI_NOTE["skipped"] = "miri unavailable or build failed: %s" % (err or "")[-200:]
            log("C17: Miri run skipped (%s)" % MIRI_NOTE["skipped"][:120])
            return
        results.append((chunks[0], v))
        from concurrent.futures import ThreadPoolExecutor
        with ThreadPoolExecutor(max_workers=6 if tier == "thorough" else 7) as ex:
            # Miri is supporting evidence: on a heavily loaded machine the thorough sample is cut at a wall-clock budget (chunks not
            # started by then are not run; the count is recorded) so that the tier stays within its time limit
            budget = float(os.environ.get("VERIF_MIRI_BUDGET", "0")) or (10 ** 9 if tier == "quick" else 1000.0)
            skipped = [0]

            def _chunk(c):
                if time.time() - t0 > budget:
                    return None
                return _miri_run(tdir, c, 3000)
            for ch, res in zip(chunks[1:], ex.map(_chunk, chunks[1:])):
                if res is None:
                    skipped[0] += len(ch)
                    continue
                v, err = res
                results.append((ch, v or {}))
            if skipped[0]:
                MIRI_NOTE["not_run_time_budget"] = skipped[0]
                log("C17: Miri time budget reached, %d histories not run" % skipped[0])
        for ch, v in results:
            pending = False
            for i, (kind, toks) in enumerate(ch):
                verdict = v.get(i)
                if verdict is None:
                    # not reached because an earlier history of the chunk aborted Miri: rerun alone
                    vv, _ = _miri_run(tdir, [(kind, toks)], 900)
                    verdict = (vv or {}).get(0) or "ub(unknown)"
                yield Case("mem.miri", [verdict, kind] + toks)
        MIRI_NOTE["histories"] = len(hists)
        MIRI_NOTE["seconds"] = round(time.time() - t0, 1)
    finally:
        if not warm:
            shutil.rmtree(tdir, ignore_errors=True)


def clone_from_ladder(rng, tier):
    """clone_from for every destination/source size relation around the reuse window
    src_len <= cap(dest) <= max_compact_capacity(src_len): destinations 1.0x .. 2x+2 longer than the source
    (and shorter), as value-level histories (layout invariant incl. compactness checked after the call) and as
    buffer-level histories (exact capacity + allocator events compared with the model)"""
    srcs = [3, 4, 5, 6, 8, 10, 13, 16, 20, 24, 32, 40, 64] if tier == "quick" else list(range(3, 70)) + [100, 128, 200]
    for sl in srcs:
        for dl in sorted(set(list(range(max(sl - 3, 0), 2 * sl + 3)) + [3 * sl, 4 * sl + 1])):
            src = nat_pattern(rng, sl, "random")
            dst = nat_pattern(rng, dl, "random") if dl else 0
            sg = rng.choice(["", "-"])
            yield Case("mem.val", ["set:0:%s" % hx(dst), "set:1:%s%s" % (sg, hx(src)), "clonefrom:0:1", "clonefrom:1:0",
                                   "selfadd:0", "drop:1"])
            sw = [(src >> (64 * i)) & ((1 << 64) - 1) for i in range(sl)]
            dw = [(dst >> (64 * i)) & ((1 << 64) - 1) for i in range(dl)]
            yield Case("mem.buf", ["fromw:0:%s" % _fw(dw), "tou:0", "fromw:1:%s" % _fw(sw), "tou:1", "rclonefrom:0:1",
                                   "asslice:0", "drop:1"])
            # destination with the largest capacity a canonical value can have (cap = max_compact(len)):
            # built by cloning INTO a reusable bigger buffer first
            if dl >= 3:
                b = max(x for x in range(dl, mc(dl) + 1) if dc(x) <= mc(dl))   # dc(b) is the largest reusable capacity
                if b <= 400:
                    yield Case("mem.buf", ["fromw:0:%s" % _fw([1] * b), "tou:0", "fromw:2:%s" % _fw(dw), "tou:2",
                                           "rclonefrom:0:2", "fromw:1:%s" % _fw(sw), "tou:1", "rclonefrom:0:1", "drop:2"])
                    yield Case("mem.val", ["set:0:%s" % hx((1 << (64 * b)) - 1), "set:2:%s" % hx(dst), "clonefrom:0:2",
                                           "set:1:%s%s" % (sg, hx(src)), "clonefrom:0:1", "suba:0:1"])


def arith_cases(rng, tier):
    """mem.arith: ONE public UBig operation in ONE ownership form; real allocator event stream, result layout and
    drop events against the storage skeleton of Model/Mem/Arith.lean"""
    B = 1 << 64
    lens = [0, 1, 2, 3, 4, 5, 6, 8, 9, 12, 17, 24, 25, 40]
    forms = ["rr", "rv", "vr", "vv"]

    def operand(n, pat):
        return nat_pattern(rng, n, pat) if n else 0

    reps = 1 if tier == "quick" else 6
    for _ in range(reps):
        for la in lens:
            for lb in lens:
                for f in forms:
                    pa = rng.choice(["ones", "random", "random", "topone", "zero"])
                    pb = rng.choice(["ones", "random", "one", "pow2"])
                    a, b = operand(la, pa), operand(lb, pb)
                    yield Case("mem.arith", ["add", f, hx(a), hx(b)])
                    # subtraction: ordered, equal (cancels to zero), one apart, small remainder, negative
                    for (x, y) in ((max(a, b), min(a, b)), (a, a), (a, max(a - 1, 0)), (a, max(a - (B - 1), 0)), (min(a, b), max(a, b))):
                        if rng.random() < (0.5 if tier == "quick" else 1.0):
                            yield Case("mem.arith", ["sub", f, hx(x), hx(y)])
                    if True:
                        bb = b if rng.random() < 0.8 or not lb else 1 << (64 * lb - rng.choice([1, 7, 64]))
                        yield Case("mem.arith", ["div", f, hx(a), hx(bb)])
                        yield Case("mem.arith", ["rem", f, hx(a), hx(bb)])
                        if la >= lb and lb and rng.random() < 0.3:
                            yield Case("mem.arith", [rng.choice(["div", "rem"]), f, hx(a), hx(a >> rng.choice([0, 1, 64]))])
                    if la + lb <= 70:
                        yield Case("mem.arith", ["mul", f, hx(a), hx(b)])
                        if rng.random() < 0.15:
                            yield Case("mem.arith", ["mul", f, hx(a), hx(a)])      # square_large
    # carries that add a word, on every form
    for n in [1, 2, 3, 4, 8, 9, 16, 17]:
        for f in forms:
            yield Case("mem.arith", ["add", f, hx((1 << (64 * n)) - 1), hx(1)])
            yield Case("mem.arith", ["add", f, hx(1), hx((1 << (64 * n)) - 1)])
            yield Case("mem.arith", ["add", f, hx((1 << (64 * n)) - 1), hx((1 << (64 * n)) - 1)])
            yield Case("mem.arith", ["mul", f, hx((1 << (64 * n)) - 1), hx(B - 1)])
            yield Case("mem.arith", ["mul", f, hx((1 << (64 * n)) - 1), hx(B * B - 1)])
            yield Case("mem.arith", ["mul", f, hx((1 << (64 * n)) - 1), hx(1 << 70)])
            yield Case("mem.arith", ["mul", f, hx((1 << (64 * n)) - 1), hx(0)])
            yield Case("mem.arith", ["mul", f, hx(1), hx((1 << (64 * n)) - 1)])
    # scratch block of mul_large / square_large around the simple/Karatsuba/Toom-3 thresholds
    # divide-and-conquer scratch block of div/rem: rhs > 32 words and lhs - rhs > 32 words
    dbig = [(66, 33), (65, 33), (70, 33), (100, 40), (140, 70), (200, 100)] + ([(300, 150), (600, 300), (700, 34)] if tier == "thorough" else [])
    for (la, lb) in dbig:
        for f in forms:
            a, b = operand(la, "random"), operand(lb, rng.choice(["random", "highbit"]))
            yield Case("mem.arith", ["div", f, hx(a), hx(b)])
            yield Case("mem.arith", ["rem", f, hx(a), hx(b)])
    big = [(24, 24), (24, 25), (25, 25), (25, 40), (30, 30), (31, 31), (30, 100), (100, 100)]
    if tier == "thorough":
        big += [(192, 192), (192, 193), (193, 193), (200, 300), (192, 500), (400, 400)]
    for (la, lb) in big:
        for f in forms:
            a, b = operand(la, "random"), operand(lb, "random")
            yield Case("mem.arith", ["mul", f, hx(a), hx(b)])
            yield Case("mem.arith", ["mul", f, hx(b), hx(a)])
            yield Case("mem.arith", ["mul", f, hx(a), hx(a)])
    # UBig::sqr(&self) incl. the scratch block above sqr::MAX_LEN_SIMPLE
    for la in [0, 1, 2, 2, 3, 4, 5, 9, 24, 25, 30, 31, 40] + ([100, 192, 193, 250] if tier == "thorough" else [100]):
        for _ in range(reps):
            yield Case("mem.arith", ["sqr", "r", hx(operand(la, rng.choice(["random", "ones", "zero"]))), "0"])
    # IBig + - * : sign glue (into_sign_typed / as_sign_typed, add or sub_signed by sign pair, with_sign)
    slens = [0, 1, 2, 3, 4, 5, 9, 17] if tier == "quick" else lens
    for la in slens:
        for lb in slens:
            for f in forms:
                for op in ("iadd", "isub", "imul"):
                    sa, sb = rng.choice([1, -1]), rng.choice([1, -1])
                    a, b = operand(la, rng.choice(["random", "ones"])), operand(lb, rng.choice(["random", "one"]))
                    r = rng.random()
                    if r < 0.2:
                        b = a
                    elif r < 0.35 and a:
                        b = a - rng.choice([1, (1 << 64) - 1])
                    if op == "imul" and la + lb > 70:
                        continue
                    yield Case("mem.arith", [op, f, hx(sa * a), hx(sb * abs(b))])
    # UBig::from_le_bytes / from_be_bytes: byte lengths around the 2-word fast path and word boundaries,
    # values filling all / fewer words than the byte length (high zero bytes -> high zero words)
    for nb in [0, 1, 7, 8, 9, 15, 16, 17, 23, 24, 25, 31, 32, 33, 40, 64, 65, 100, 257, 800]:
        for f in ("le", "be"):
            for bits in sorted(x for x in {0, 1, 8 * nb, max(8 * nb - 7, 0), max(8 * nb - 64, 0), max(8 * nb - 130, 0)} if x <= 8 * nb):
                v = rng.getrandbits(bits) if bits else 0
                yield Case("mem.arith", ["frombytes", f, hx(v), "d:%d" % nb])
    for la in lens:
        for _ in range(reps):
            a = operand(la, rng.choice(["ones", "random", "one", "pow2", "highbit"]))
            ns = {0, 1, 63, 64, 65, 127, 128, 129, 191, 192, 200, 1000, 64 * la, 64 * la - 1, 64 * la + 1,
                  max(64 * la - 128, 0), max(64 * la - 129, 0), max(64 * la - 127, 0),
                  64 * (1 + la // 8), 64 * (2 + la // 8), 64 * (la // 8), 64 * (1 + la // 8) + 63}
            for n in sorted(x for x in ns if x >= 0):
                for f in ("v", "r"):
                    yield Case("mem.arith", ["shl", f, hx(a), "d:%d" % n])
                    yield Case("mem.arith", ["shr", f, hx(a), "d:%d" % n])


def round4_cases(rng, tier):
    """mem.arith, round 4: DivRem::div_rem (both results built in the operand buffers), & | ^ with buffer reuse
    (truncate / lowest_dword(_mut) / ensure_capacity + push_slice of the longer tail), UBig::pow (factor-2 removal,
    exp 0/1/2 shortcuts, word / dword / large base; the one result buffer that must never reallocate)"""
    B = 1 << 64
    forms = ["rr", "rv", "vr", "vv"]

    def operand(n, pat):
        return nat_pattern(rng, n, pat) if n else 0

    lens = [0, 1, 2, 3, 4, 5, 9, 17, 40] if tier == "quick" else [0, 1, 2, 3, 4, 5, 6, 8, 9, 12, 17, 24, 25, 40]
    reps = 1 if tier == "quick" else 5
    for _ in range(reps):
        for la in lens:
            for lb in lens:
                for f in forms:
                    a = operand(la, rng.choice(["ones", "random", "random", "topone"]))
                    b = operand(lb, rng.choice(["ones", "random", "one", "pow2", "highbit"]))
                    # div_rem: general, divisor zero (only the small arm can be zero), exact multiple, equal, lhs shorter
                    yield Case("mem.arith", ["divrem", f, hx(a), hx(b)])
                    r = rng.random()
                    if r < 0.15:
                        yield Case("mem.arith", ["divrem", f, hx(a), hx(0)])
                    elif r < 0.3 and b:
                        yield Case("mem.arith", ["divrem", f, hx(a - a % b), hx(b)])          # remainder 0
                    elif r < 0.45:
                        yield Case("mem.arith", ["divrem", f, hx(a), hx(a >> rng.choice([0, 1, 64, 65]))])
                    elif r < 0.55 and b:
                        yield Case("mem.arith", ["divrem", f, hx(a // b * b + rng.choice([0, 1, b - 1])), hx(b)])
                    # bit operations
                    for op in ("and", "or", "xor"):
                        if rng.random() < (0.6 if tier == "quick" else 1.0):
                            yield Case("mem.arith", [op, f, hx(a), hx(b)])
                    r = rng.random()
                    m = min(la, lb)
                    if r < 0.2:
                        yield Case("mem.arith", ["xor", f, hx(a), hx(a)])                     # cancels to zero: dealloc
                    elif r < 0.4 and la >= 3:
                        # high parts cancel / are masked away: the result falls to <= 2 words (or to fewer words)
                        k = rng.choice([0, 1, 2, 3, max(la - 1, 0)])
                        low = a & ((1 << (64 * k)) - 1)
                        yield Case("mem.arith", ["xor", f, hx(a), hx(a ^ low ^ rng.getrandbits(64 * k) if k else a)])
                        yield Case("mem.arith", ["and", f, hx(a), hx((1 << (64 * k)) - 1 if k else 0)])
                        yield Case("mem.arith", ["and", f, hx((1 << (64 * la - 1))), hx(((1 << (64 * max(lb, 3))) - 1) >> 1)])
                    elif r < 0.5 and m >= 3:
                        # disjoint bits: `&` gives 0 from two large operands
                        mask = int("55" * (8 * m), 16)
                        yield Case("mem.arith", ["and", f, hx(a & mask | (1 << (64 * la - 1))), hx((b & (mask << 1)) | (1 << (64 * lb - 2)))])
    # UBig's Euclidean division family (forwards to the same repr functions) and DivRemAssign (mem::take + div_rem, the
    # quotient replaces the lhs): lengths across the inline boundary, zero divisor, exact multiples
    for la in lens:
        for lb in lens:
            a = operand(la, rng.choice(["ones", "random", "topone"]))
            b = operand(lb, rng.choice(["random", "one", "pow2", "highbit"]))
            if rng.random() < 0.2 and b:
                a = a - a % b
            for op in ("divremeuc", "diveuc", "remeuc"):
                if tier == "thorough" or rng.random() < 0.5:
                    yield Case("mem.arith", [op, rng.choice(forms), hx(a), hx(b)])
            yield Case("mem.arith", ["divremassign", rng.choice(["av", "ar"]), hx(a), hx(b)])
    for f in forms:
        yield Case("mem.arith", ["divremeuc", f, hx(operand(4, "random")), hx(0)])
        yield Case("mem.arith", ["remeuc", f, hx(operand(4, "random")), hx(0)])
    yield Case("mem.arith", ["divremassign", "av", hx(operand(4, "random")), hx(0)])
    yield Case("mem.arith", ["divremassign", "ar", hx(operand(70, "random")), hx(operand(34, "random"))])
    # divide-and-conquer scratch block inside div_rem_in_lhs
    for (la, lb) in [(66, 33), (70, 33), (100, 40)] + ([(140, 70), (300, 150)] if tier == "thorough" else []):
        for f in forms:
            yield Case("mem.arith", ["divrem", f, hx(operand(la, "random")), hx(operand(lb, rng.choice(["random", "highbit"])))])
    # `|`/`^` where the by-value (reused) buffer is the SHORTER one and must grow: capacity steps
    for (la, lb) in [(3, 4), (3, 5), (3, 6), (3, 40), (4, 7), (8, 12), (8, 13), (16, 21), (16, 22), (17, 200)]:
        for op in ("or", "xor"):
            a, b = operand(la, "random"), operand(lb, "random")
            yield Case("mem.arith", [op, "vr", hx(a), hx(b)])
            yield Case("mem.arith", [op, "rv", hx(b), hx(a)])
            yield Case("mem.arith", [op, "vv", hx(a), hx(b)])
            yield Case("mem.arith", [op, "vv", hx(b), hx(a)])
    # pow
    small_bases = [0, 1, 2, 3, 5, 7, 10, 12, 255, 256, 1 << 31, (1 << 32) - 1, (1 << 32) + 1, (1 << 63) + 1, B - 1,
                   3 << 62, B + 1, B * B - 1, (B + 1) << 7, 3 * (1 << 70), 1 << 100, 1 << 127]
    exps = [0, 1, 2, 3, 4, 5, 6, 7, 8, 9, 15, 16, 17, 31, 32, 39, 40, 41, 63, 64, 79, 80, 81, 100, 120, 127, 128, 160, 200, 255, 256,
            257, 400, 1000]
    lim = 40000 if tier == "quick" else 400000
    for a in small_bases:
        for e in exps:
            if max(a.bit_length(), 1) * e <= lim:
                yield Case("mem.arith", ["pow", "r", hx(a), "d:%d" % e])
    for la in [3, 4, 5, 9, 17] + ([30, 31, 40] if tier == "thorough" else []):
        for pat in ("random", "ones", "pow2", "topone"):
            a = operand(la, pat)
            for sh in (0, 1, 64, 70):
                for e in [0, 1, 2, 3, 4, 5, 6, 7, 8, 11, 12, 16] + ([33, 40] if tier == "thorough" else []):
                    v = (a | 1) << sh if pat != "pow2" else a << sh
                    if v.bit_length() * e <= lim:
                        yield Case("mem.arith", ["pow", "r", hx(v), "d:%d" % e])
    for _ in range(150 if tier == "quick" else 3000):
        a = rng.choice([rng.getrandbits(rng.choice([8, 20, 33, 64])) | 1, rng.getrandbits(rng.choice([65, 100, 128])) | (1 << 64) | 1,
                        nat_pattern(rng, rng.choice([3, 4, 6]), "random")]) << rng.choice([0, 0, 1, 5, 64])
        e = rng.choice([3, 5, 9, 17, 33, 65, 77, 90, 130, 200, 333, 500, rng.randrange(3, 300)])
        if max(a.bit_length(), 1) * e <= lim:
            yield Case("mem.arith", ["pow", "r", hx(a), "d:%d" % e])
    # `exp.checked_mul(shift)` overflowing usize: the documented allocation panic, AFTER shr and pow have run
    yield Case("mem.arith", ["pow", "r", hx(4), "d:%d" % (1 << 63)])
    yield Case("mem.arith", ["pow", "r", hx(1 << 200), "d:%d" % (1 << 60)])
    yield Case("mem.arith", ["pow", "r", hx(1), "d:%d" % ((1 << 64) - 1)])
    yield Case("mem.arith", ["pow", "r", hx(0), "d:%d" % ((1 << 64) - 1)])


def round4b_cases(rng, tier):
    """mem.arith, round 4 (second batch): the in-place bit methods of UBig (set_bit / clear_bit / clear_high_bits /
    split_bits / next_power_of_two: the value's own buffer grows, is truncated or gets a carry word) and the IBig sign glue
    over the UBig skeletons (/ % div_rem << >> pow; a negative >> is a shift followed by a by-value subtraction)"""
    forms = ["rr", "rv", "vr", "vv"]

    def operand(n, pat):
        return nat_pattern(rng, n, pat) if n else 0

    lens = [0, 1, 2, 3, 4, 5, 9, 17] if tier == "quick" else [0, 1, 2, 3, 4, 5, 6, 8, 9, 12, 17, 24, 40]
    reps = 1 if tier == "quick" else 4
    for _ in range(reps):
        for la in lens:
            for pat in ("random", "ones", "pow2", "topone"):
                a = operand(la, pat)
                cap = dc(la) if la > 2 else la
                ns = {0, 1, 63, 64, 65, 127, 128, 129, 130, 191, 192, max(64 * la - 1, 0), 64 * la, 64 * la + 1, max(64 * la - 64, 0),
                      max(64 * la - 65, 0), max(64 * cap - 1, 0), 64 * cap, 64 * cap + 1, 64 * (la + 20), max(a.bit_length() - 1, 0),
                      a.bit_length(), rng.randrange(0, 64 * la + 70)}
                for n in sorted(ns):
                    for op in ("setbit", "clearbit", "clearhigh", "splitbits"):
                        if rng.random() < (0.5 if tier == "quick" else 1.0):
                            yield Case("mem.arith", [op, "v", hx(a), "d:%d" % n])
                yield Case("mem.arith", ["nextpow2", "v", hx(a), "d:0"])
                yield Case("mem.arith", ["nextpow2", "v", hx(a + 1), "d:0"])
                yield Case("mem.arith", ["nextpow2", "v", hx(max(a - 1, 0)), "d:0"])
                # IBig shifts
                for sg in (1, -1):
                    sh = {0, 1, 63, 64, 65, 128, max(64 * la - 1, 0), 64 * la, 64 * la + 5, max(64 * la - 128, 0), max(64 * la - 129, 0),
                          max(a.bit_length() - 1, 0), a.bit_length(), 200}
                    for n in sorted(sh):
                        for f in ("v", "r"):
                            if rng.random() < (0.5 if tier == "quick" else 1.0):
                                yield Case("mem.arith", ["ishr", f, hx(sg * a), "d:%d" % n])
                            if rng.random() < (0.25 if tier == "quick" else 0.6):
                                yield Case("mem.arith", ["ishl", f, hx(sg * a), "d:%d" % n])
    # negative >> whose rounding carry adds a word / crosses the inline boundary: -(2^(64k+s) - 1) >> s = -(2^(64k))
    for k in (1, 2, 3, 4, 5, 8, 9):
        for s_ in (1, 5, 64, 70):
            for f in ("v", "r"):
                yield Case("mem.arith", ["ishr", f, hx(-((1 << (64 * k + s_)) - 1)), "d:%d" % s_])
                yield Case("mem.arith", ["ishr", f, hx(-(((1 << (64 * k)) - 1) << s_)), "d:%d" % s_])     # low bits zero: no carry
                yield Case("mem.arith", ["ishr", f, hx(-((1 << (64 * k + s_)) - 1)), "d:%d" % (64 * k + s_ + 3)])   # -> -1
    # IBig / % div_rem
    dl = [0, 1, 2, 3, 4, 9, 17] if tier == "quick" else [0, 1, 2, 3, 4, 5, 9, 17, 24, 40]
    for _ in range(reps):
        for la in dl:
            for lb in dl:
                for f in forms:
                    sa, sb = rng.choice([1, -1]), rng.choice([1, -1])
                    a = operand(la, rng.choice(["random", "ones", "topone"]))
                    b = operand(lb, rng.choice(["random", "one", "pow2", "highbit"]))
                    r = rng.random()
                    if r < 0.15 and b:
                        a = a - a % b
                    elif r < 0.25:
                        b = a
                    for op in ("idiv", "irem", "idivrem"):
                        if rng.random() < (0.6 if tier == "quick" else 1.0):
                            yield Case("mem.arith", [op, f, hx(sa * a), hx(sb * b)])
    for f in forms:
        yield Case("mem.arith", ["idivrem", f, hx(-operand(70, "random")), hx(operand(34, "random"))])
        yield Case("mem.arith", ["idiv", f, hx(-5), hx(0)])
        yield Case("mem.arith", ["irem", f, hx(-operand(4, "random")), hx(0)])
        yield Case("mem.arith", ["idivrem", f, hx(-operand(4, "random")), hx(0)])
    # IBig::pow
    for a in [0, 1, -1, 2, -2, -3, 7, -10, -12, -(1 << 64) + 1, -(1 << 64) - 1, -(3 << 70), -(1 << 100), -nat_pattern(rng, 3, "random") | 1,
              -(nat_pattern(rng, 4, "random") << 3)]:
        for e in [0, 1, 2, 3, 4, 5, 8, 9, 40, 41, 80, 81, 100]:
            if max(abs(a).bit_length(), 1) * e <= (40000 if tier == "quick" else 300000):
                yield Case("mem.arith", ["ipow", "r", hx(a), "d:%d" % e])


ASSIGNABLE = {"add", "sub", "mul", "div", "rem", "and", "or", "xor", "iadd", "isub", "imul", "idiv", "irem", "iand", "ior", "ixor"}


def with_assign_forms(rng, cases):
    """beside a by-value-lhs case also its compound-assignment form (`x op= y` = av, `x op= &y` = ar, `x <<= n` = a):
    impl_binop_assign_by_taking is `*self = mem::take(self) op rhs`, so the storage skeleton is the vv / vr / v one"""
    for c in cases:
        yield c
        if c.op == "mem.arith":
            o, f = c.args[0], c.args[1]
            if o in ASSIGNABLE and f in ("vv", "vr") and rng.random() < 0.35:
                yield Case("mem.arith", [o, "av" if f == "vv" else "ar"] + list(c.args[2:]))
            elif o in ("shl", "shr", "ishl", "ishr") and f == "v" and rng.random() < 0.35:
                yield Case("mem.arith", [o, "a"] + list(c.args[2:]))


def sqrt_cases(rng, tier):
    """UBig::sqrt_rem(&self): operand lengths odd/even (the shift adds a whole word for odd lengths), leading-zero count of
    the top word odd/even, perfect squares (remainder 0 -> inline), s^2 - 1 / s^2 + 2s (largest remainders: n+1 words),
    n = 2 (no scratch block) and lengths around the sqr/div scratch thresholds"""
    lens = [0, 1, 2, 3, 4, 5, 6, 7, 8, 9, 16, 17, 24, 25, 33, 40, 61, 62, 64, 65, 70] + ([100, 131, 200, 400] if tier == "thorough" else [])
    reps = 1 if tier == "quick" else 4
    for _ in range(reps):
        for la in lens:
            for pat in ("random", "ones", "pow2", "topone", "square", "squarem1", "squarep"):
                if pat in ("square", "squarem1", "squarep"):
                    h = nat_pattern(rng, (la + 1) // 2, "random") if la else 0
                    a = h * h + {"square": 0, "squarem1": -1, "squarep": 2 * h}[pat]
                    a = max(a, 0)
                else:
                    a = nat_pattern(rng, la, pat) if la else 0
                for sh in (0, rng.randrange(1, 64), rng.randrange(1, 64)):
                    yield Case("mem.arith", ["sqrtrem", "r", hx(a >> sh), "d:0"])


def ibit_cases(rng, tier):
    """IBig & | ^ over all sign pairs: sub_one on negative magnitudes (2^k -> k ones: loses a word / falls inline), and_not with
    a copied / reused lhs buffer, the final `!` (add_one: all-ones + 1 carries into a new word -> push_resizing)"""
    forms = ["rr", "rv", "vr", "vv"]
    lens = [0, 1, 2, 3, 4, 5, 9, 17] if tier == "quick" else [0, 1, 2, 3, 4, 5, 6, 8, 9, 12, 17, 24, 40]
    reps = 1 if tier == "quick" else 4

    def operand(n, pat):
        return nat_pattern(rng, n, pat) if n else 0

    for _ in range(reps):
        for la in lens:
            for lb in lens:
                for f in forms:
                    for (sa, sb) in ((1, 1), (1, -1), (-1, 1), (-1, -1)):
                        if tier == "quick" and rng.random() < 0.5:
                            continue
                        a = operand(la, rng.choice(["random", "ones", "pow2", "topone"]))
                        b = operand(lb, rng.choice(["random", "ones", "pow2", "one"]))
                        r = rng.random()
                        if r < 0.15:
                            b = a
                        elif r < 0.3:
                            b = a + 1          # -(a+1) = !a: `x op !x`
                        elif r < 0.4 and la:
                            a = 1 << (64 * la - rng.choice([0, 1]) * 64) if la > 1 else 1   # sub_one loses a word
                        op = rng.choice(["iand", "ior", "ixor"])
                        yield Case("mem.arith", [op, f, hx(sa * a), hx(sb * b)])
    # the final `!` carrying into a new word: magnitudes of all ones
    for k in (1, 2, 3, 4, 5, 8, 9):
        ones = (1 << (64 * k)) - 1
        for f in forms:
            yield Case("mem.arith", ["ior", f, hx(-(ones + 1)), hx(0)])                  # !(ones) = -(ones+1): stays
            yield Case("mem.arith", ["ixor", f, hx(ones), hx(-1)])                       # !(ones ^ 0) = -(ones + 1): carry
            yield Case("mem.arith", ["iand", f, hx(-(ones + 1)), hx(-(ones + 1))])       # !(ones | ones): carry
            yield Case("mem.arith", ["ior", f, hx(-(1 << (64 * k))), hx(-(1 << (64 * k)))])
            yield Case("mem.arith", ["iand", f, hx(ones << 64), hx(-(1 << 64))])


def round5_cases(rng, tier):
    """mem.arith, round 5: `UBig::sqrt()` (from_buffer on the raw work buffer: its high half is kernel state), `Gcd::gcd` of
    UBig / IBig (which operand copy holds the result = parity of the Lehmer swaps) and `ExtendedGcd::gcd_ext` of UBig (by-value
    large operands become work buffers; `|a|` copied out of the scratch block) in all ownership forms"""
    import math
    forms = ["rr", "rv", "vr", "vv"]
    B = 1 << 64

    def operand(n, pat):
        return nat_pattern(rng, n, pat) if n else 0

    # ---------------- sqrt
    lens = [0, 1, 2, 3, 4, 5, 6, 7, 8, 9, 16, 17, 24, 25, 33, 40, 61, 62, 64, 65, 70] + ([100, 131, 200, 400] if tier == "thorough" else [])
    reps = 1 if tier == "quick" else 4
    for _ in range(reps):
        for la in lens:
            for pat in ("random", "ones", "pow2", "topone", "square", "squarem1", "squarep"):
                if pat in ("square", "squarem1", "squarep"):
                    h = operand((la + 1) // 2, "random")
                    a = max(h * h + {"square": 0, "squarem1": -1, "squarep": 2 * h}[pat], 0)
                else:
                    a = operand(la, pat)
                for sh in (0, rng.randrange(1, 64), rng.randrange(1, 64)):
                    yield Case("mem.arith", ["sqrt", "r", hx(a >> sh), "d:0"])
            if la >= 3:
                n = (la + 1) // 2
                split = n // 2
                h = n - split
                # the root's low half is zero: q = 0, the high half of the work buffer is zero, from_buffer pops down to the
                # remainder (<= 2 words: freed on the spot; 3+ words: shrink realloc)
                s1 = operand(h, "random") | (1 << (64 * h - 1))
                s = s1 << (64 * split)
                for r in (0, 1, 5, B - 1, B, B * B - 1, B * B, operand(min(3, n), "random"), 2 * s):
                    if r <= 2 * s:
                        for sh in (0, 2, 64, 66):
                            yield Case("mem.arith", ["sqrt", "r", hx((s * s + r) >> sh), "d:0"])
                # q_top: r1 = 2*s1 at the top level (high part = (s1+1)^2 - 1): q = B, the squaring is skipped and the flag is
                # stored at word 2*split (n odd) or charged to the carry (n even: the whole high half stays zero)
                hi = (s1 + 1) * (s1 + 1) - 1
                for low in (0, 1, (1 << (128 * split)) - 1, rng.getrandbits(128 * split)):
                    for sh in (0, 64):
                        yield Case("mem.arith", ["sqrt", "r", hx(((hi << (128 * split)) | low) >> sh), "d:0"])
    # E2: k^2 - 1, k^2, k^2 + 1 for k of EVERY bit length (inline, 3-word boundary, multi-word)
    for bl in range(1, 331 if tier == "quick" else 1400):
        k = rng.getrandbits(bl) | (1 << (bl - 1))
        for d in (-1, 0, 1):
            if tier == "thorough" or rng.random() < 0.5:
                yield Case("mem.arith", ["sqrt", "r", hx(k * k + d), "d:0"])
        if bl % 7 == 0:
            yield Case("mem.arith", ["sqrtrem", "r", hx(k * k - 1), "d:0"])
            yield Case("mem.arith", ["sqrtrem", "r", hx(k * k + 2 * k), "d:0"])

    # ---------------- `!IBig` by value / by reference: all-ones magnitudes carry into a new word (push_resizing; 2 -> 3 words leaves
    # the inline form), negative powers of two lose a word by sub_one (3 -> 2 words falls back inline)
    for la in [0, 1, 2, 3, 4, 5, 8, 9, 16, 17, 40]:
        for pat in ("random", "ones", "pow2", "topone", "one"):
            for _ in range(reps):
                a = operand(la, pat)
                for v in {a, -a, -(a + 1), a + 1 if pat == "ones" else a, -(1 << (64 * la)) if la else 0, (1 << (64 * la)) - 1}:
                    for f in ("v", "r"):
                        yield Case("mem.arith", ["inot", f, hx(v), "d:0"])

    # ---------------- gcd / igcd / gcd_ext
    glens = [0, 1, 2, 3, 4, 5, 9, 17, 40] if tier == "quick" else [0, 1, 2, 3, 4, 5, 6, 8, 9, 12, 17, 24, 25, 40, 51, 60]

    def fib_pair(bits):
        x, y = 1, 1
        while y.bit_length() < bits:
            x, y = y, x + y
        return y, x

    for _ in range(reps):
        for la in glens:
            for lb in glens:
                for f in forms:
                    a = operand(la, rng.choice(["random", "random", "ones", "topone"]))
                    b = operand(lb, rng.choice(["random", "random", "pow2", "one", "highbit"]))
                    g = operand(rng.choice([1, 1, 2, 3, 4]), "random")
                    variants = [(a, b), (a * g, b * g)]
                    r = rng.random()
                    if r < 0.2:
                        variants.append((a * max(b, 1), b))                       # rhs divides lhs: g = rhs, b coefficient 1, a = 0
                    elif r < 0.35:
                        variants.append((a, a))                                   # equal
                    elif r < 0.5:
                        variants.append((a, a + rng.choice([1, -1, B]) if a > 1 else a))
                    elif r < 0.6:
                        variants.append((a << rng.choice([1, 64, 130]), b << rng.choice([0, 64, 200])))
                    elif r < 0.7 and la >= 1 and lb >= 1:
                        variants.append(fib_pair(64 * max(la, lb) - rng.randrange(0, 64)))   # quotients all 1: many Lehmer steps
                    elif r < 0.8:
                        variants.append((b, a))
                    for (x, y) in variants:
                        x, y = max(x, 0), max(y, 0)
                        if x == 0 and y == 0 and rng.random() < 0.8:
                            continue
                        for op in ("gcd", "gcdext"):
                            if tier == "thorough" or rng.random() < 0.6:
                                yield Case("mem.arith", [op, f, hx(x), hx(y)])
                        if rng.random() < 0.3:
                            yield Case("mem.arith", ["igcd", f, hx(rng.choice([1, -1]) * x), hx(rng.choice([1, -1]) * y)])
                        # IBig gcd_ext (coefficients multiplied by the operand signs) and the mixed UBig/IBig operand forms
                        if tier == "thorough" or rng.random() < 0.35:
                            sa, sb = rng.choice([1, -1]), rng.choice([1, -1])
                            mop = rng.choice(["igcdext", "igcdext", "gcd_ui", "gcd_iu", "gcdext_ui", "gcdext_iu"])
                            xa = x if mop.endswith("_ui") else sa * x
                            yb = y if mop.endswith("_iu") else sb * y
                            yield Case("mem.arith", [mop, f, hx(xa), hx(yb)])
    for f in forms:
        # (0, 0): the documented panic; 0 with a large value: the value itself (a copy / the moved buffer)
        for op in ("gcd", "gcdext", "igcd", "igcdext", "gcd_ui", "gcdext_iu"):
            yield Case("mem.arith", [op, f, hx(0), hx(0)])
            yield Case("mem.arith", [op, f, hx(0), hx(operand(4, "random"))])
            yield Case("mem.arith", [op, f, hx(operand(4, "random")), hx(0)])
            yield Case("mem.arith", [op, f, hx(1), hx(operand(5, "random"))])
            yield Case("mem.arith", [op, f, hx(operand(5, "random")), hx(B)])      # two-word rhs: *_dword arms
            yield Case("mem.arith", [op, f, hx(B * B - 1), hx(operand(5, "random"))])
        # gcd result of exactly 1, 2, 3 words from large operands (inline <-> heap boundary of the truncated copy)
        for gl in (1, 2, 3, 4):
            g = operand(gl, "random") | 1
            p, q = 0x10000000000000000000000000000000f, 0x1000000000000000000000000000000000000003d   # coprime cofactors
            for op in ("gcd", "gcdext"):
                yield Case("mem.arith", [op, f, hx(g * p * 3), hx(g * q)])
                yield Case("mem.arith", [op, f, hx(g * q), hx(g * p * 3)])
    # scratch blocks: gcd needs one when rhs_len/2 > mul THRESHOLD_SIMPLE (24); gcd_ext always; lhs >= 300 words takes the
    # double-word guess (MIN_DWORD_GUESS_LEN); Euclidean-step scratch (div) when the lengths differ by > 32
    big = [(60, 50), (52, 51), (100, 52), (90, 40), (301, 20), (305, 300)] + ([(400, 390), (800, 400), (330, 60)] if tier == "thorough" else [])
    for (la, lb) in big:
        for f in (forms if tier == "thorough" else [rng.choice(forms), rng.choice(forms)]):
            a, b = operand(la, "random"), operand(lb, "random")
            g = operand(rng.choice([1, 3]), "random")
            yield Case("mem.arith", ["gcd", f, hx(a * g), hx(b * g)])
            yield Case("mem.arith", ["gcd", f, hx(b), hx(a)])
            yield Case("mem.arith", ["gcdext", f, hx(a), hx(b * g)])
            yield Case("mem.arith", ["gcdext", f, hx(b * g), hx(a * g)])


def round6_cases(rng, tier):
    """mem.arith, round 6: IBig's Euclidean division family (div_ops.rs impl_ibig_div_euclid / rem_euclid / divrem_euclid): classes
    from the branch conditions — sign of the dividend x remainder zero / non-zero (second add_one on the quotient, by-value
    subtraction mag1 - r), sign of the divisor, operand lengths across the inline boundary in both positions, lhs shorter than
    rhs, quotient 2^(64k) - 1 (add_one carries: leaves the inline form for k = 2, push_resizing for k >= 3), remainder 1 and
    |b| - 1 (the subtraction borrows through / leaves one word: buffer released), small remainder of a large divisor
    (sub_large_dword), zero divisor in every form and sign (by-value divisor dropped by unwinding)"""
    forms = ["rr", "rv", "vr", "vv"]
    ops = ("idiveuc", "iremeuc", "idivremeuc")

    def operand(n, pat):
        return nat_pattern(rng, n, pat) if n else 0

    dl = [0, 1, 2, 3, 4, 5, 9, 17] if tier == "quick" else [0, 1, 2, 3, 4, 5, 6, 9, 12, 17, 24, 40]
    reps = 1 if tier == "quick" else 4
    for _ in range(reps):
        for la in dl:
            for lb in dl:
                for f in forms:
                    a = operand(la, rng.choice(["random", "ones", "topone"]))
                    b = operand(lb, rng.choice(["random", "random", "one", "pow2", "highbit", "ones"]))
                    r = rng.random()
                    if r < 0.2 and b:
                        a = a - a % b                                   # remainder 0: no fix-up, by-value divisor dropped
                    elif r < 0.3:
                        b = a
                    elif r < 0.4 and b:
                        a = a - a % b + rng.choice([1, b - 1])          # remainder 1 / |b| - 1
                    elif r < 0.5 and b > 1 and la >= lb:
                        # quotient 2^(64k) - 1, remainder non-zero: add_one carries into a new word
                        k = max(la - lb, 1)
                        a = ((1 << (64 * k)) - 1) * b + rng.randrange(1, b)
                    # the dividend's sign decides the path: negative three times out of four
                    sa = rng.choice([1, -1, -1, -1])
                    sb = rng.choice([1, -1])
                    for op in ops:
                        if rng.random() < (0.7 if tier == "quick" else 1.0):
                            yield Case("mem.arith", [op, f, hx(sa * a), hx(sb * b)])
    # directed: every form x divisor sign for the carry / borrow corners, k words
    for k in (1, 2, 3, 4, 8):
        for lb in (1, 2, 3, 5):
            b = operand(lb, "random") | 2
            for f in forms:
                sb = rng.choice([1, -1])
                q = (1 << (64 * k)) - 1
                for rm in (1, b - 1, b >> 1):
                    op = rng.choice(ops) if tier == "quick" else None
                    for o in ([op] if op else ops):
                        yield Case("mem.arith", [o, f, hx(-(q * b + rm)), hx(sb * b)])
                yield Case("mem.arith", [rng.choice(ops), f, hx(-(q * b)), hx(sb * b)])          # exact: no carry although q is all ones
    # |a| < |b| with a negative dividend: q = 0 -> -1 (or +1), r = |b| - |a| (high words cancel: buffer released / kept)
    for lb in (1, 2, 3, 4, 9):
        b = operand(lb, "random")
        for a in (1, b - 1, b >> 1, b >> 64, b - (b >> 64 if lb > 1 else 1), b & ((1 << 64) - 1) or 1):
            if 0 < a < b:
                for f in forms:
                    for o in ops:
                        if tier == "thorough" or rng.random() < 0.5:
                            yield Case("mem.arith", [o, f, hx(-a), hx(rng.choice([1, -1]) * b)])
    # DivRemAssign::div_rem_assign of IBig (mem::take + div_rem, the quotient replaces the lhs): sign pairs x lengths
    for la in dl:
        for lb in dl:
            a = operand(la, rng.choice(["random", "ones", "topone"]))
            b = operand(lb, rng.choice(["random", "one", "pow2", "highbit"]))
            if rng.random() < 0.2 and b:
                a = a - a % b
            yield Case("mem.arith", ["idivremassign", rng.choice(["av", "ar"]), hx(rng.choice([1, -1]) * a), hx(rng.choice([1, -1]) * b)])
    yield Case("mem.arith", ["idivremassign", "av", hx(-operand(4, "random")), hx(0)])
    yield Case("mem.arith", ["idivremassign", "ar", hx(-operand(70, "random")), hx(operand(34, "random"))])
    # UBig op primitive / &UBig op primitive (impl_binop_with_primitive: self.op(UBig::from(rhs))): u64 / u128 right operands at the
    # word boundaries x lhs lengths across the inline boundary; carry into a new word, borrow down to fewer words / to inline,
    # underflow panic, multiplication by 0 / 1 / a dword that fills the capacity, division by 0 / 1 / a divisor > lhs
    M64, M128 = (1 << 64) - 1, (1 << 128) - 1
    pl = [0, 1, 2, 3, 4, 5, 9, 17] if tier == "quick" else [0, 1, 2, 3, 4, 5, 6, 8, 9, 12, 17, 24, 40]
    for _ in range(reps):
        for la in pl:
            for pat in ("random", "ones", "pow2", "topone"):
                a = operand(la, pat)
                prims = [0, 1, 2, M64 - 1, M64, M64 + 1, M64 + 2, 1 << 127, M128 - 1, M128, rng.getrandbits(64) | 1,
                         rng.getrandbits(128) | (1 << 100), a & M64, a & M128, (a & M128) + 1, ((1 << (64 * la)) - a) & M128]
                for pv in sorted(set(x for x in prims if 0 <= x <= M128)):
                    for o in ("padd", "psub", "pmul", "pdiv", "por", "pxor"):
                        if rng.random() < (0.3 if tier == "quick" else 0.8):
                            wide = pv > M64 or rng.random() < 0.3
                            yield Case("mem.arith", [o, rng.choice("vr") + ("128" if wide else "64"), hx(a), hx(pv)])
    # zero divisor: every op, form, dividend sign and size
    for o in ops:
        for f in forms:
            for a in (0, 5, -5, operand(4, "random"), -operand(4, "random")):
                yield Case("mem.arith", [o, f, hx(a), hx(0)])
    # divide-and-conquer scratch block under the Euclidean fix-up
    for (la, lb) in [(70, 34), (66, 33)] + ([(140, 70), (300, 150)] if tier == "thorough" else []):
        for f in forms:
            yield Case("mem.arith", [rng.choice(ops), f, hx(-operand(la, "random")), hx(rng.choice([1, -1]) * operand(lb, "random"))])


def extreme_cases(rng, tier):
    """ROUND4 addendum E1: every usize argument of the mirrored public operations (shift counts, bit indices, bit counts,
    exponents) at 0, 1, W-1, W, W+1, 2W, 2^31, 2^32-1, 2^32, 2^32+k, 2^63, usize::MAX-k — on inline, 3-word and larger values.
    Where the result would need memory proportional to the argument the documented allocation panic is compared."""
    MAXU = (1 << 64) - 1
    ks = [0, 1, 2, 5, 62, 63, 64, 65, 66, 127, 128, 129]
    ns = [0, 1, 63, 64, 65, 128, 1 << 31, (1 << 32) - 1, 1 << 32, 1 << 63] + [(1 << 32) + k for k in ks] + [MAXU - k for k in ks]
    if tier == "thorough":
        ns += [(1 << 32) + k for k in range(130)] + [MAXU - k for k in range(131)] + [(1 << 63) + k for k in (1, 63, 64)]
    vals = [0, 1, (1 << 64) - 1, (1 << 127) + 5, nat_pattern(rng, 3, "random"), nat_pattern(rng, 3, "ones"), nat_pattern(rng, 4, "random"),
            nat_pattern(rng, 9, "random"), 1 << 192, (1 << 320) - 1]
    for n in sorted(set(ns)):
        for a in vals:
            for op in ("shr", "clearbit", "clearhigh", "splitbits"):
                forms = ("v", "r", "a") if op == "shr" else ("v",)
                for f in forms:
                    yield Case("mem.arith", [op, f, hx(a), "d:%d" % n])
            for f in ("v", "r"):
                yield Case("mem.arith", ["ishr", f, hx(-a), "d:%d" % n])
            # operations whose result grows with the argument: only where the result is small, or where the request exceeds
            # MAX_CAPACITY words (n >= usize::MAX - 63: n / 64 = MAX_CAPACITY) and the documented allocation panic is compared;
            # in between the real code would ask the allocator for up to 2^61 bytes (allocation failure is not modelled)
            grow_ok = n <= 128 or n >= MAXU - 63
            if a == 0 or grow_ok:
                for f in ("v", "r", "a"):
                    yield Case("mem.arith", ["shl", f, hx(a), "d:%d" % n])
                yield Case("mem.arith", ["ishl", "v", hx(-a), "d:%d" % n])
            if grow_ok:
                yield Case("mem.arith", ["setbit", "v", hx(a), "d:%d" % n])
            if a in (0, 1) or n <= 5:
                yield Case("mem.arith", ["pow", "r", hx(a), "d:%d" % n])
                yield Case("mem.arith", ["ipow", "r", hx(-a), "d:%d" % n])
        # base 2^k: `exp.checked_mul(shift)` overflowing usize is the documented panic; base 2 with exp >= usize::MAX - 63
        # reaches `Buffer::allocate(MAX_CAPACITY + 1)`
        if n >= MAXU - 63:
            yield Case("mem.arith", ["pow", "r", hx(2), "d:%d" % n])
        if n >= (1 << 58):
            yield Case("mem.arith", ["pow", "r", hx(1 << 64), "d:%d" % n])
            yield Case("mem.arith", ["ipow", "r", hx(-(1 << 70)), "d:%d" % n])


def bump_cases(rng, tier):
    """memory.rs bump allocator through the memory_split hook: nested allocate_slice_fill of u8..u128 slices from a
    16-aligned block; offsets/lengths and the out-of-memory point against Model/Mem/Memory.lean"""
    yield Case("mem.bump", ["d:64", "0:3", "3:2", "1:1", "4:1"])
    yield Case("mem.bump", ["d:0"])
    yield Case("mem.bump", ["d:0", "3:0", "0:0"])
    yield Case("mem.bump", ["d:0", "0:1"])
    # try_find_memory_for_slice: `n.checked_mul(size_of::<T>())?` and `slice_start.checked_add(size)?` returning None
    # (the request is reported as "not enough memory", no wrapped pointer arithmetic)
    for tot in (0, 64, 4096):
        yield Case("mem.bump", ["d:%d" % tot, "4:%d" % (1 << 60)])
        yield Case("mem.bump", ["d:%d" % tot, "3:%d" % (1 << 61)])
        yield Case("mem.bump", ["d:%d" % tot, "0:1", "1:%d" % ((1 << 63) + 5)])
        yield Case("mem.bump", ["d:%d" % tot, "0:%d" % ((1 << 64) - 1)])
        yield Case("mem.bump", ["d:%d" % tot, "2:%d" % ((1 << 62) - 1)])
    for _ in range(400 if tier == "quick" else 20000):
        tot = rng.choice([0, 1, 7, 8, 15, 16, 17, 31, 32, 33, 48, 64, 100, 128, 1000, 4096, rng.randrange(0, 300)])
        reqs = ["%d:%d" % (rng.randrange(5), rng.choice([0, 1, 1, 2, 3, 5, 8, 17, rng.randrange(0, 40)]))
                for _ in range(rng.randrange(0, 8))]
        yield Case("mem.bump", ["d:%d" % tot] + reqs)


def generate(rng, tier):
    yield from policy_cases(rng, tier)
    yield from bump_cases(rng, tier)
    yield from with_assign_forms(rng, arith_cases(rng, tier))
    yield from with_assign_forms(rng, round4_cases(rng, tier))
    yield from with_assign_forms(rng, round4b_cases(rng, tier))
    yield from sqrt_cases(rng, tier)
    yield from with_assign_forms(rng, ibit_cases(rng, tier))
    yield from round5_cases(rng, tier)
    yield from round6_cases(rng, tier)
    yield from extreme_cases(rng, tier)
    yield from clone_from_ladder(rng, tier)
    yield from buf_cases(rng, tier)
    yield from val_cases(rng, tier)
    yield from miri_cases(rng, tier)
