"""C12 — gcd, integer roots, integer logarithms, log2 bounds, remove (DESIGN §8 C12)."""
from vlib.core import Case
from vlib.gens import *

GROUP = "nt"
LEAN_PROPS = "Dashu.Props.C12"
LEAN_AUDIT = "Dashu.Audit.C12"
W = 64

def big(rng, tier, sizes=None):
    sizes = sizes or ([0, 1, 1, 2, 2, 3, 3, 4, 5, 6, 8, 12, 24, 33, 70] if tier == "quick"
                      else [0, 1, 2, 2, 3, 3, 4, 5, 7, 9, 16, 24, 25, 32, 33, 64, 70, 130, 299, 300, 301, 320])
    return nat_pattern(rng, rng.choice(sizes), rng.choice(PATTERNS))

def fib_pair(rng, nbits):
    a, b = 1, 1
    while b.bit_length() < nbits:
        a, b = b, a + b
    return b, a

def gcd_pair(rng, tier):
    """pairs built from the branches of gcd_ops.rs / lehmer.rs"""
    c = rng.random()
    if c < 0.06:
        return rng.choice([(0, 0), (0, big(rng, tier)), (big(rng, tier), 0)])
    if c < 0.12:
        a = big(rng, tier)
        return (a, a)                                              # equal operands
    if c < 0.22:                                                   # common factor g, cofactors of different size classes
        g = big(rng, tier, [1, 1, 2, 3, 4, 8]) or 1
        return (g * (big(rng, tier, [0, 1, 2, 3, 5, 9]) or 1), g * (big(rng, tier, [1, 1, 2, 3, 6]) or 1))
    if c < 0.32:                                                   # one divides the other, any length gap (post-processing a = 0)
        b = big(rng, tier, [1, 2, 3, 3, 4, 5]) or 3
        k = big(rng, tier, [0, 1, 2, 3, 4, 5, 7]) or 1
        return (b * k, b) if rng.random() < 0.5 else (b, b * k)
    if c < 0.40:                                                   # huge first quotient (> 2^63): Lehmer quotient overflow
        b = big(rng, tier, [2, 3, 3, 4, 6]) or 5
        q = rng.getrandbits(rng.choice([63, 64, 65, 128, 200])) | (1 << 62)
        r = rng.randrange(0, b)
        return (b * q + r, b)
    if c < 0.50:                                                   # all quotients 1 (worst case, longest cofactor growth)
        a, b = fib_pair(rng, rng.choice([60, 64, 65, 127, 128, 129, 192, 200, 640] + ([2000, 19300] if tier == "thorough" else [1500])))
        s = rng.choice([1, 1, 3, 1 << 64, (1 << 64) - 1])
        return (a * s, b * s)
    if c < 0.58:                                                   # powers of two / many trailing zero words
        return (1 << rng.choice([64, 128, 192, 200, 320, 448]), 1 << rng.choice([1, 64, 127, 128, 192, 256]))
    if c < 0.66:                                                   # top words equal / near-equal (guess fails: b == 0)
        a = big(rng, tier, [3, 4, 5, 8, 12])
        return (a, a - rng.choice([1, 2, 1 << 64, 1 << 70]) if a > (1 << 80) else a + 1)
    return (big(rng, tier), big(rng, tier))

def long_gcd_pairs(rng, tier):
    """Lehmer's double-word guess (`MIN_DWORD_GUESS_LEN` = 300 words) and `highest_(d)word_normalized`: operand
    lengths around the threshold, length gap 0..4 words (each arm of the alignment `match`), the larger
    operand's top word with 0 / 1 / many leading zero bits, as g*u, g*v with a small known g and as random pairs."""
    las = [299, 300, 301, 320] if tier == "quick" else [298, 299, 300, 301, 302, 320, 400]
    cnt = 60 if tier == "quick" else 1200
    for _ in range(cnt):
        la = rng.choice(las)
        gap = rng.choice([0, 1, 1, 2, 2, 2, 3, 4])
        lb = la - gap
        lz = rng.choice([0, 1, 1, 2, 7, 31, 32, 62, 63])
        g = rng.choice([1, 2, 3, 6, 1 << 64, (1 << 64) + 1, (1 << 130) - 1, rng.getrandbits(rng.choice([8, 64, 200])) | 1])
        gb = g.bit_length()
        abits = la * 64 - lz
        u = rng.getrandbits(abits - gb) | (1 << (abits - gb - 1))
        a = g * u
        # adjust so that a has exactly `abits` or abits+-1 bits (top-word leading zeros as chosen, roughly)
        bbits = lb * 64 - rng.choice([0, 1, 5, 33, 63])
        v = rng.getrandbits(max(2, bbits - gb)) | (1 << max(1, bbits - gb - 1))
        b = g * v
        r = rng.random()
        if r < 0.15:
            b = a - rng.choice([1, 1 << 64, 1 << 128, (1 << 64 * (la - 2))])      # equal top words: the guess fails
        elif r < 0.25:
            b = (a >> (64 * gap)) + rng.choice([0, 1, -1])                        # same leading digits, shifted by whole words
        if b <= 0:
            b = v
        yield (a, b)

def radicand(rng, tier, n):
    """perfect powers and perfect powers +-1, 0, 1, every normalisation shift of sqrt_rem_large"""
    c = rng.random()
    if c < 0.08:
        return rng.choice([0, 1, 2, 3])
    if n == 2 and c < 0.2:
        # sqrt_rem_large with n = 2 output words (3- or 4-word radicand) and a large normalisation shift: the low
        # two words of r + 2*s*s0 are then often smaller than s0^2 (s0 has up to 63 bits) and the subtraction
        # borrows into the top remainder word; also the same shape with 5 and 7 words
        words = rng.choice([3, 3, 3, 4, 5, 7])
        lz = rng.choice([33, 40, 48, 56, 60, 61, 62, 63])
        bits = words * 64 - lz
        v = (1 << (bits - 1)) | rng.getrandbits(rng.choice([1, 8, 40, 64, bits - 1]))
        return v
    if c < 0.45:
        base = big(rng, tier, [1, 1, 2, 2, 3, 4, 5, 9, 17, 35]) or 2
        if n > 40:
            base = rng.choice([1, 2, 3, 10, (1 << 64) - 1])
        return max(0, base ** n + rng.choice([-1, 0, 1]))
    if c < 0.75:
        # exact bit length control: words x leading zeros of the top word (shift parity, shift == 64, shift > 64)
        words = rng.choice([1, 2, 3, 3, 4, 5, 5, 6, 7, 8, 9, 16, 17, 33] if tier == "quick" else [1, 2, 3, 4, 5, 6, 7, 8, 9, 15, 16, 17, 48, 49, 70, 131])
        lz = rng.choice([0, 0, 1, 1, 2, 3, 31, 32, 33, 62, 63])
        bits = words * 64 - lz
        v = rng.getrandbits(bits) | (1 << (bits - 1))
        r = rng.random()
        if r < 0.2:
            v = (1 << bits) - 1
        elif r < 0.4:
            v = (1 << (bits - 1)) + rng.choice([0, 1, 12345])
        return v
    return big(rng, tier)

def tame_root_case(x, n):
    """(kept as a hook) no taming since /repo 440594f: nth_root starts from 2^ceil(bits/n)"""
    return x

def ilog_pair(rng, tier):
    bases = [2, 3, 4, 5, 7, 8, 10, 10, 16, 255, 256, 1000, (1 << 32) - 1, 1 << 32, (1 << 32) + 1, (1 << 63), (1 << 64) - 1,
             1 << 64, (1 << 64) + 1, 10 ** 19, 10 ** 20, 3 ** 45, (1 << 127) - 1, 1 << 127, (1 << 128) - 1, 1 << 128, (1 << 128) + 1,
             10 ** 40, (1 << 192) + 5, 1 << 200, 7 ** 100]
    b = rng.choice(bases)
    if rng.random() < 0.2:
        b = big(rng, tier, [1, 1, 2, 2, 3, 4]) or 2
    c = rng.random()
    if c < 0.06:
        x = rng.choice([0, 1, 2])
    elif c < 0.55 and b >= 2:
        maxe = max(1, (4500 if tier == "quick" else 9000) // max(1, b.bit_length()))
        e = rng.randrange(0, maxe + 1) if rng.random() < 0.7 else rng.choice([0, 1, 2, 3])
        x = max(0, b ** e + rng.choice([-1, 0, 1]))               # powers of the base +-1
    else:
        x = big(rng, tier)
    if rng.random() < 0.04:
        b = rng.choice([0, 1])
    return x, b

def remove_pair(rng, tier):
    f = rng.choice([2, 3, 4, 6, 8, 10, 12, 1 << 64, (1 << 64) + 1, 3 ** 50, 10 ** 19, (1 << 128) - 1, 1 << 130])
    if rng.random() < 0.2:
        f = big(rng, tier, [1, 1, 2, 3]) or 2
    if rng.random() < 0.05:
        f = rng.choice([0, 1])
    e = rng.choice([0, 0, 1, 2, 3, 4, 5, 6, 7, 8, 9, 15, 16, 17, 31, 33, 64, 100])
    if f.bit_length() * e > 6000:
        e = 6000 // max(1, f.bit_length())
    c = big(rng, tier, [0, 1, 1, 2, 3, 5]) if rng.random() < 0.9 else 0
    if rng.random() < 0.5 and c and f > 1:
        while c % f == 0:                                            # cofactor prime to the factor: exact multiplicity known
            c //= f
        c = c or 1
    return (c * f ** e if f > 0 else c), f

def prim_val(rng, bits):
    c = rng.random()
    if c < 0.15:
        return rng.choice([0, 1, 2, 3, (1 << bits) - 1, (1 << bits) - 2, 1 << (bits - 1), (1 << (bits - 1)) - 1, (1 << (bits // 2)) - 1, 1 << (bits // 2)])
    if c < 0.4:
        r = rng.choice([2, 3])
        s = rng.getrandbits(rng.randrange(1, bits // r + 1)) or 1
        return min((1 << bits) - 1, max(0, s ** r + rng.choice([-1, 0, 1])))
    return rng.getrandbits(rng.randrange(1, bits + 1))

def source_table():
    """LOG2_TAB of base/src/math/log.rs packed little-endian (ties the Lean table theorem to the source text)"""
    import re, os
    from vlib import core
    src = open(os.path.join(core.REPO, "base/src/math/log.rs")).read()
    m = re.search(r"const LOG2_TAB: \[u8; 128\] = \[(.*?)\];", src, re.S)
    if not m:
        return None
    vals = [int(x, 16) for x in re.findall(r"0x([0-9a-fA-F]{2})", m.group(1))]
    return sum(v << (8 * k) for k, v in enumerate(vals)) if len(vals) == 128 else None

def source_root_table(name, count):
    """RSQRT_TAB / RCBRT_TAB of base/src/ring/root.rs packed little-endian (ties the tables the mirrored primitive
    roots use to the source text on every run)"""
    import re, os
    from vlib import core
    src = open(os.path.join(core.REPO, "base/src/ring/root.rs")).read()
    m = re.search(r"const %s: \[u8; %d\] = \[(.*?)\];" % (name, count), src, re.S)
    if not m:
        return None
    vals = [int(x, 16) for x in re.findall(r"0x([0-9a-fA-F]{2})", m.group(1))]
    return sum(v << (8 * k) for k, v in enumerate(vals)) if len(vals) == count else None

def qtop_radicand(rng, n, depth=0):
    """radicand of 2n words whose high 2(n - n/2) words are t^2 + 2t = (t+1)^2 - 1 with a normalised t: the recursive
    call of root::sqrt_rem then returns r1 = 2*s1 (r1_top set), the division by s1 overflows (carry) and q_top = true
    (q = B): the rarest arm of the Karatsuba square root (q^2 not computed, q_top placed at word 2*split for odd n /
    charged to c for even n, always followed by the c < 0 repair with add_word_in_place(b[split..], 1)).  n = 2 is
    sqrt_rem_42's `q >> WORD_BITS > 0` arm.  depth > 0 nests the pattern in the high part as well."""
    split = n // 2
    h = n - split
    if n == 2:
        split, h = 1, 1
    if depth > 0 and h >= 2:
        t = isqrt_py(qtop_radicand(rng, h, depth - 1))
        t |= 1 << (64 * h - 1)
    else:
        t = rng.getrandbits(64 * h) | (1 << (64 * h - 1))
        if rng.random() < 0.2:
            t = (1 << (64 * h)) - 1 - rng.choice([0, 1, 2])
        elif rng.random() < 0.2:
            t = 1 << (64 * h - 1)
    hi = t * t + 2 * t
    lowbits = 128 * split
    low = rng.choice([0, (1 << lowbits) - 1, rng.getrandbits(lowbits), rng.getrandbits(lowbits) >> rng.randrange(0, lowbits)])
    return (hi << lowbits) | low

def isqrt_py(x):
    import math
    return math.isqrt(x)

def iroot_py(x, n):
    """floor of the n-th root (binary search on the bit length, exact)"""
    if x < 2:
        return x
    lo, hi = 0, 1 << (x.bit_length() // n + 1)
    while lo + 1 < hi:
        mid = (lo + hi) // 2
        if mid ** n <= x:
            lo = mid
        else:
            hi = mid
    return lo

def k_candidates(rng, j, extra, n=2):
    """integers of bit length exactly j: both ends and their neighbours, the quarter points, the roots k at which k^n
    crosses a power of two (k ~ 2^(j - i/n): the bit length of the RADICAND changes there — e.g. k ~ 2^26.5 is where
    k^2 leaves the 53 bits of an f64), `extra` random ones"""
    lo, hi = 1 << (j - 1), (1 << j) - 1
    ks = {lo, hi, min(hi, lo + 1), max(lo, hi - 1), lo + (hi - lo) // 4, lo + (hi - lo) // 2, lo + 3 * (hi - lo) // 4}
    for i in range(1, n):
        r = iroot_py(1 << (n * j - i), n)
        ks.update(k for k in (r - 1, r, r + 1) if lo <= k <= hi)
    for _ in range(extra):
        ks.add(rng.randrange(lo, hi + 1))
    return sorted(ks)

def power_sweep(rng, tier):
    """perfect powers and their neighbours over ALL magnitudes of the root (seeded-change miss, round 4: a std-only
    f64 fast path in the primitive sqrt_rem was wrong only for k^2 - 1 with 2^26 < k < 2^26.5 — far from the type's
    ends).  For every primitive width and for 1-/2-/3-word UBig/IBig: for EVERY bit length j of the root k (up to
    width/n) the roots {2^(j-1), 2^(j-1)+1, 2^j-2, 2^j-1, random j-bit} and the radicands k^n - 1, k^n, k^n + 1, through
    sqrt / sqrt_rem / cbrt / cbrt_rem / nth_root (the primitive ops run both the `_rem` and the plain form)."""
    q = tier == "quick"
    extra = 3 if q else 10
    for ty in ["u8", "u16", "u32", "u64", "u128"]:
        bits = int(ty[1:])
        for n, op in ((2, "p.sqrtrem"), (3, "p.cbrtrem")):
            for j in range(1, bits // n + 2):
                for k in k_candidates(rng, j, extra, n):
                    for d in (-1, 0, 1):
                        x = k ** n + d
                        if 0 <= x < (1 << bits):
                            yield Case(op, [ty, hx(x)])
    for n in [2, 3, 4, 5, 6, 7, 8, 9, 10, 11, 13, 16, 17, 31, 32, 33, 63, 64, 65]:
        for j in range(1, 192 // n + 2):
            for k in k_candidates(rng, j, extra, min(n, 4)):
                for d in (-1, 0, 1):
                    x = k ** n + d
                    if x < 0:
                        continue
                    ops = [("u.nthroot", [hx(x), dec(n)])]
                    if n == 2:
                        ops = [("u.sqrtrem", [hx(x)]), rng.choice([("u.sqrt", [hx(x)]), ("i.sqrt", [hx(x)]), ("u.nthroot", [hx(x), "d:2"]), ("i.nthroot", [hx(x), "d:2"])])]
                    elif n == 3:
                        sx = x if rng.random() < 0.5 else -x
                        ops = [("u.cbrtrem", [hx(x)]), rng.choice([("u.cbrt", [hx(x)]), ("i.cbrt", [hx(sx)]), ("u.nthroot", [hx(x), "d:3"]), ("i.nthroot", [hx(sx), "d:3"])])]
                    elif rng.random() < 0.3:
                        sx = -x if (n % 2 == 1 and rng.random() < 0.5) else x
                        ops.append(("i.nthroot", [hx(sx), dec(n)]))
                    for op, args in ops:
                        yield Case(op, args)

def ilog_sweep(rng, tier):
    """base^e - 1, base^e, base^e + 1 for EVERY e while the power stays below ~3 words (small bases) / ~10 words
    (word, double-word and multi-word bases): every boundary of the first-guess estimators of log_dword /
    log_word_base / log_large, not a sample of them"""
    bases = [2, 3, 4, 5, 6, 7, 8, 9, 10, 16, 36, 255, 256, 1000, 65535, 65536, (1 << 32) - 1, 1 << 32, (1 << 32) + 1, 10 ** 9,
             1 << 63, (1 << 64) - 1, 1 << 64, (1 << 64) + 1, 10 ** 19, 10 ** 20, (1 << 127) - 1, 1 << 127, (1 << 128) - 1,
             1 << 128, (1 << 128) + 1, 10 ** 40, (1 << 192) + 5]
    for b in bases:
        limit = 200 if b < (1 << 32) else 640
        e = 0
        while (b ** e).bit_length() <= limit:
            for d in (-1, 0, 1):
                x = b ** e + d
                if x >= 1:
                    if rng.random() < 0.8:
                        yield Case("u.ilog", [hx(x), hx(b)])
                    else:
                        yield Case("i.ilog", [hx(signed(rng, x)), hx(b)])
            e += 1

def echo_cases(inner, nostd):
    """log2_bounds promises an enclosure, not bit patterns: run the harness over `inner` = [(op, args)] first and
    wrap each answer into an echo case `lb <answer> <op> <args…>` (registered std build) or `ns …` (harness built
    WITHOUT the `std` feature, where dashu-base uses the LOG2_TAB estimator).  The registered harness echoes the
    answer; the model checks with exact integer arithmetic that the reported bounds enclose the true logarithm."""
    import os, tempfile, shutil
    from vlib import core
    tag = "ns" if nostd else "lb"
    if not inner:
        return []
    # core.cargo_build honours VERIF_REPO (trial runs against a scratch copy of /repo)
    if nostd:
        rc, out, bindir, _ = core.cargo_build(features="", target_sub="harness-target-nostd", bins=["exec_nt"])
    else:
        rc, out, bindir, _ = core.cargo_build(bins=["exec_nt"])
    exe = os.path.join(bindir, "exec_nt")
    if rc != 0 or not os.path.exists(exe):
        # the libraries no longer build in this configuration: make it visible as a disagreement
        return [Case(tag, ["build-failed", inner[0][0]] + list(inner[0][1]))]
    d = tempfile.mkdtemp(prefix="verif-echo-")
    try:
        path = os.path.join(d, "cases.txt")
        core.write_cases(path, [Case(op, args) for op, args in inner])
        res = core.run_side(exe, path, len(inner), 120, tag)
    finally:
        shutil.rmtree(d, ignore_errors=True)
    out = []
    for i, (op, args) in enumerate(inner):
        ans = res.get(i, "missing").replace(" ", "~")
        out.append(Case(tag, [ans, op] + [str(a) for a in args]))
    return out

def nostd_cases(inner):
    return echo_cases(inner, True)

def float_patterns(rng, tier):
    """f32/f64 bit patterns: specials, subnormals, every exponent x a few mantissas (quick: sampled exponents),
    mantissas next to powers of two, random"""
    q = tier == "quick"
    out = [("f32", b) for b in [0, 0x80000000, 0x7f800000, 0xff800000, 1, 2, 3, 0x7fffff, 0x800000, 0x800001,
                                0x3f800000, 0x3f800001, 0x3f7fffff, 0x7f7fffff, 0x40490fdb]]
    out += [("f64", b) for b in [0, 1 << 63, 0x7ff0000000000000, 0xfff0000000000000, 1, 2, 3, 0xfffffffffffff,
                                 0x10000000000000, 0x3ff0000000000000, 0x3ff0000000000001, 0x3fefffffffffffff,
                                 0x7fefffffffffffff, 0x400921fb54442d18]]
    exps32 = range(0, 255) if not q else rng.sample(range(0, 255), 40)
    for e in exps32:
        for m in [0, 1, 0x400000, 0x7fffff, rng.getrandbits(23)]:
            out.append(("f32", (rng.getrandbits(1) << 31) | (e << 23) | m))
    exps64 = (list(range(0, 2047, 3)) if not q else rng.sample(range(0, 2047), 40))
    for e in exps64:
        for m in [0, 1, 1 << 51, (1 << 52) - 1, rng.getrandbits(52), (rng.getrandbits(16) | 0x8000) << 36]:
            out.append(("f64", (rng.getrandbits(1) << 63) | (e << 52) | m))
    for _ in range(100 if q else 4000):
        out.append(("f32", rng.getrandbits(31) % 0x7f800000 | (rng.getrandbits(1) << 31)))
        out.append(("f64", rng.getrandbits(63) % 0x7ff0000000000000 | (rng.getrandbits(1) << 63)))
    return out

def nontrivial(c):
    import re
    return any(len(a.lstrip('-')) > 32 for a in c.args if re.fullmatch(r"-?[0-9a-f]+", a)) or c.op.startswith("p.")

def generate(rng, tier):
    q = tier == "quick"
    t = source_table()
    yield Case("tab.log2", [hx(t) if t is not None else "0"], nontrivial=False)
    for op, name, cnt in (("tab.rsqrt", "RSQRT_TAB", 96), ("tab.rcbrt", "RCBRT_TAB", 56)):
        t = source_root_table(name, cnt)
        yield Case(op, [hx(t) if t is not None else "0"], nontrivial=False)
    # ---- gcd / gcd_ext
    for i in range(700 if q else 14000):
        a, b = gcd_pair(rng, tier)
        if rng.random() < 0.5:
            a, b = b, a
        kind = rng.choice(["u", "u", "i", "ui", "iu"])
        op = rng.choice(["gcd", "gcdext", "gcdext"])
        sa = signed(rng, a) if kind in ("i", "iu") else a
        sb = signed(rng, b) if kind in ("i", "ui") else b
        yield Case("%s.%s" % (kind, op), [hx(sa), hx(sb)])
    for a, b in long_gcd_pairs(rng, tier):
        if rng.random() < 0.5:
            a, b = b, a
        kind = rng.choice(["u", "u", "i", "ui", "iu"])
        op = rng.choice(["gcd", "gcdext"])
        sa = signed(rng, a) if kind in ("i", "iu") else a
        sb = signed(rng, b) if kind in ("i", "ui") else b
        yield Case("%s.%s" % (kind, op), [hx(sa), hx(sb)])
    # ---- roots
    for i in range(700 if q else 14000):
        r = rng.random()
        if r < 0.35:
            x = radicand(rng, tier, 2)
            yield Case(rng.choice(["u.sqrt", "u.sqrtrem", "u.sqrtrem"]), [hx(x)])
        elif r < 0.55:
            x = radicand(rng, tier, 3)
            yield Case(rng.choice(["u.cbrt", "u.cbrtrem"]), [hx(x)])
        elif r < 0.8:
            n = rng.choice([0, 1, 2, 3, 4, 5, 6, 7, 8, 9, 10, 16, 17, 31, 63, 64, 65, 100, 127, 128, 129, 1000])
            x = radicand(rng, tier, n if n else 2)
            if rng.random() < 0.15:
                n = x.bit_length() + rng.choice([-1, 0, 1, 2])        # n around the bit length (the `bits <= n` shortcut)
                n = max(0, n)
            if x.bit_length() > 3000 and n > 2:
                x >>= x.bit_length() - 3000
            x = tame_root_case(x, n)
            yield Case("u.nthroot", [hx(x), dec(n)])
        elif r < 0.88:
            x = signed(rng, radicand(rng, tier, 2))
            yield Case("i.sqrt", [hx(x)])
        elif r < 0.94:
            x = signed(rng, radicand(rng, tier, 3))
            yield Case("i.cbrt", [hx(x)])
        else:
            n = rng.choice([0, 1, 2, 3, 4, 5, 7, 8, 64, 65])
            x = signed(rng, radicand(rng, tier, n if n else 3))
            if abs(x).bit_length() > 3000 and n > 2:
                x = (abs(x) >> (abs(x).bit_length() - 3000)) * (1 if x > 0 else -1)
            x = tame_root_case(abs(x), n) * (1 if x >= 0 else -1)
            yield Case("i.nthroot", [hx(x), dec(n)])
    # sqrt_rem_large, 3-word radicands just above 2^128: the maximal normalisation shift (126) and a 63-bit s0
    # (the borrow `c2` of the s0^2 subtraction can never occur — r + 2*s*s0 = s0^2 mod 2^shift — see mutants/C12)
    for i in range(40 if q else 800):
        bits = rng.choice([129, 129, 130])
        yield Case("u.sqrtrem", [hx((1 << (bits - 1)) | rng.getrandbits(bits - 1))])
    # Karatsuba square root, q_top arm (see qtop_radicand): every output length 2..12, 16, 17, 33 (even and odd n, the
    # `split == 1` product and sqr::sqr), plain / nested one level / cut to an odd word count or an even bit shift
    # (sqrt_rem_large's normalisation restores the pattern), and the same shape for the u128 primitive (hi u64 = t^2+2t)
    for i in range(120 if q else 2400):
        n = rng.choice([2, 2, 3, 3, 4, 5, 6, 7, 8, 9, 10, 11, 12, 16, 17, 33])
        x = qtop_radicand(rng, n, depth=rng.choice([0, 0, 1]))
        cut = rng.choice([0, 0, 0, 2, 62, 64, 126])
        x >>= cut
        yield Case(rng.choice(["u.sqrtrem", "u.sqrtrem", "u.sqrt", "i.sqrt"]), [hx(x)])
        if rng.random() < 0.3:
            yield Case("u.nthroot", [hx(x), dec(2)])
    for i in range(60 if q else 1200):
        t = rng.getrandbits(32) | (1 << 31)
        if rng.random() < 0.2:
            t = (1 << 32) - 1 - rng.choice([0, 1])
        hi = t * t + 2 * t
        x = (hi << 64) | rng.choice([0, (1 << 64) - 1, rng.getrandbits(64), rng.getrandbits(33)])
        x >>= rng.choice([0, 0, 2, 4, 30])
        yield Case("u.sqrtrem", [hx(x)])
        yield Case("p.sqrtrem", ["u128", hx(x)])
        lo = max(0, min(x - 8, (1 << 127) - 1 - 64))
        yield Case("p.sqrtrange", ["u128", dec(lo), dec(lo + 16)])
    # guard cases for the O(n^2) Newton descent fixed in /repo 440594f (degree large, bit length ~1.6 n):
    # with the old start value 2^floor(bits/n) these need ~0.4 n^2 steps (n = 1000: > 10 min) and show up as `hang`
    for n in ([100, 500, 1000] if q else [100, 300, 500, 1000, 1500, 2000]):
        bits = int(1.6 * n) - rng.randrange(0, 3)
        yield Case("u.nthroot", [hx((1 << (bits - 1)) + rng.getrandbits(bits - 2)), dec(n)])
        yield Case("i.nthroot", [hx(-((1 << (bits - 1)) + rng.getrandbits(bits - 2))), dec(n + 1 - n % 2)])
    # ---- E1: extreme values of the only machine-integer parameter of the property's public ops, `nth_root(n: usize)`:
    # n at and around every power-of-two boundary of usize (2^16, 2^31, 2^32, 2^63, usize::MAX) x radicands {0, 1, 2, 3,
    # one word, word boundary, 3 words, ~3000 bits} x {UBig, IBig of both signs (odd n: negative root, even n: panic)}
    # (`bits <= n` shortcut with n far above every bit length; `n as u32`-style truncations would show up here)
    ext_n = [(1 << 16) - 1, 1 << 16, (1 << 31) - 1, 1 << 31, (1 << 31) + 1, (1 << 32) - 1, 1 << 32, (1 << 32) + 1, (1 << 32) + 2,
             (1 << 32) + 3, (1 << 33) + 5, (1 << 63) - 1, 1 << 63, (1 << 63) + 1, (1 << 64) - 2, (1 << 64) - 1]
    ext_x = [0, 1, 2, 3, 8, (1 << 63) + 5, (1 << 64) - 1, 1 << 64, (1 << 128) - 1, (1 << 191) + 12345]
    for n in ext_n:
        xs = ext_x + [rng.getrandbits(3000) | (1 << 2999), nat_pattern(rng, rng.choice([1, 2, 3, 5]), rng.choice(PATTERNS))]
        for x in (xs if not q else rng.sample(xs, 5) + [0, 1]):
            yield Case("u.nthroot", [hx(x), dec(n)])
            yield Case("i.nthroot", [hx(signed(rng, x)), dec(n)])
    # ---- perfect powers +-1 over every magnitude of the root, every width; base^e +-1 for every e
    for c in power_sweep(rng, tier):
        yield c
    for c in ilog_sweep(rng, tier):
        yield c
    # ---- ilog / remove
    for i in range(500 if q else 9000):
        x, b = ilog_pair(rng, tier)
        if rng.random() < 0.8:
            yield Case("u.ilog", [hx(x), hx(b)])
        else:
            yield Case("i.ilog", [hx(signed(rng, x)), hx(b)])
    for i in range(250 if q else 5000):
        x, f = remove_pair(rng, tier)
        yield Case("u.remove", [hx(x), hx(f)])
    # ---- log2 bounds (std build): integers, floats, rationals, primitives — through echo cases (enclosure only)
    std_inner = [("q.log2b", ["d", "100000"]), ("q.log2b", [hx(1 << 100), "3"]), ("q.log2b", [hx(1 << 100), "ffffff"]),
                 ("q.log2b", ["3", "4"]), ("q.log2b", ["0", "5"]), ("q.log2b", ["-7", "2"])]
    for i in range(260 if q else 6000):
        r = rng.random()
        if r < 0.3:
            x = big(rng, tier)
            if rng.random() < 0.3:
                x = rng.choice([0, 1, 2, 3, 5, 6, 7, (1 << 24) - 1, 1 << 24, (1 << 24) + 1, (1 << 25) - 1, (1 << 64) - 1, 1 << 64, (1 << 128) - 1, 1 << 128, (1 << 128) + 1])
            if rng.random() < 0.5:
                std_inner.append(("u.log2b", [hx(x)]))
            else:
                std_inner.append(("i.log2b", [hx(signed(rng, x))]))
        elif r < 0.5:
            s = signed(rng, big(rng, tier, [0, 1, 1, 2, 3, 5, 9]))
            e = rng.choice([0, 1, -1, 2, -2, 10, -10, 100, -100, 1000, -1000, 30000, -30000]) if rng.random() < 0.5 else rng.randrange(-400, 400)
            if rng.random() < 0.3 and s:
                # values close to 1: significand ~ B^(-e)
                e = -rng.randrange(1, 300)
                B = 2 if rng.random() < 0.5 else 10
                s = B ** (-e) + rng.choice([1, -1, 3, 12345, -98765]) * rng.choice([1, B ** max(0, -e - 8)])
                std_inner.append(("f%d.log2b" % B, [hx(s), dec(e)]))
                continue
            std_inner.append((rng.choice(["f2.log2b", "f10.log2b"]), [hx(s), dec(e)]))
        elif r < 0.75:
            n = signed(rng, big(rng, tier, [0, 1, 1, 2, 3, 5, 9, 20]))
            d = big(rng, tier, [1, 1, 2, 3, 5, 9, 20]) or 1
            c = rng.random()
            if c < 0.25:
                n = 1 << rng.choice([1, 10, 100, 200, 1000])             # exact numerator bound, no slack
            elif c < 0.4:
                d = 1 << rng.choice([1, 10, 100, 200, 1000])
            elif c < 0.5:
                n = d + rng.choice([1, -1])                                # ratio next to 1
            std_inner.append(("q.log2b", [hx(n), hx(d)]))
        else:
            ty = rng.choice(["u8", "u16", "u32", "u64", "u128"])
            std_inner.append(("p.log2b", [ty, hx(prim_val(rng, int(ty[1:])))]))
    # ---- primitive floats by bit pattern (std build; NaN is rejected by an assertion and not generated)
    for ty, bits in float_patterns(rng, tier):
        std_inner.append(("p.flog2b", [ty, "%x" % bits]))
    # ---- primitives of dashu_base
    for i in range(300 if q else 6000):
        ty = rng.choice(["u8", "u16", "u32", "u64", "u64", "u128", "u128"])
        bits = int(ty[1:])
        r = rng.random()
        if r < 0.25:
            yield Case("p.sqrtrem", [ty, hx(prim_val(rng, bits))])
        elif r < 0.5:
            yield Case("p.cbrtrem", [ty, hx(prim_val(rng, bits))])
        else:
            a, b = prim_val(rng, bits), prim_val(rng, bits)
            c = rng.random()
            if c < 0.15:
                a, b = fib_pair(rng, bits - 1)
            elif c < 0.3:
                g = rng.getrandbits(rng.randrange(1, bits // 2)) or 1
                a, b = g * (rng.getrandbits(bits // 2 - 1) or 1), g * (rng.getrandbits(bits // 2 - 1) or 1)
            elif c < 0.4:
                a, b = (1 << bits) - 1, rng.choice([1, 2, 3, (1 << bits) - 2, (1 << (bits - 1))])
            if rng.random() < 0.5:
                a, b = b, a
            yield Case(rng.choice(["p.gcd", "p.gcdext"]), [ty, hx(a), hx(b)])
    # dense runs of the primitive roots of the wider types (table + Newton kernels have per-width constants): the first
    # 512 values, runs across perfect squares / cubes and their neighbours, runs at random offsets and at the type maximum
    for ty in ["u32", "u64", "u128"]:
        bits = int(ty[1:])
        starts = [0, 256]
        for _ in range(6 if q else 60):
            k2 = rng.getrandbits(rng.randrange(2, bits // 2 + 1)) or 3
            k3 = rng.getrandbits(rng.randrange(2, bits // 3 + 1)) or 3
            starts += [max(0, k2 * k2 - 32), max(0, k3 ** 3 - 32), rng.getrandbits(rng.randrange(8, bits + 1))]
        starts += [(1 << bits) - 64, (1 << (bits - 1)) - 32, (1 << (bits - 2)) - 32, (1 << (bits - 3)) - 32]
        for lo in starts:
            top = min(1 << bits, (1 << 127) - 1)    # the protocol's d: numbers are parsed as i128 by the harness
            lo = min(lo, top - 64)
            n = 256 if lo < 512 else 64
            n = min(n, top - lo)
            yield Case("p.sqrtrange", [ty, dec(lo), dec(lo + n)])
            yield Case("p.cbrtrange", [ty, dec(lo), dec(lo + n)])
    # exhaustive sweeps: u8 always, u16 in thorough (quick: a seeded sample of blocks)
    for lo in range(0, 256, 64):
        yield Case("p.sqrtrange", ["u8", dec(lo), dec(lo + 64)])
        yield Case("p.cbrtrange", ["u8", dec(lo), dec(lo + 64)])
        std_inner.append(("p.log2brange", ["u8", dec(lo), dec(lo + 64)]))
    rows8 = range(256) if not q else rng.sample(range(256), 24)
    for a in rows8:
        yield Case("p.gcdrow", ["u8", dec(a), dec(0), dec(256)])
    blocks = list(range(0, 65536, 256))
    for lo in (blocks if not q else rng.sample(blocks, 10) + [0, 65280]):
        yield Case("p.sqrtrange", ["u16", dec(lo), dec(lo + 256)])
        yield Case("p.cbrtrange", ["u16", dec(lo), dec(lo + 256)])
        std_inner.append(("p.log2brange", ["u16", dec(lo), dec(lo + 256)]))
    for c in echo_cases(std_inner, False):
        yield c
    # ---- the no_std build (table estimator log2_fp8 / ceil_log2_fp8): all u8, u16 blocks, wider types, UBig
    inner = []
    for lo in range(0, 256, 64):
        inner.append(("p.log2brange", ["u8", dec(lo), dec(lo + 64)]))
    for lo in (blocks if not q else rng.sample(blocks, 12) + [0, 256, 65280]):
        inner.append(("p.log2brange", ["u16", dec(lo), dec(lo + 256)]))
    for i in range(150 if q else 4000):
        ty = rng.choice(["u32", "u64", "u128"])
        bits = int(ty[1:])
        v = prim_val(rng, bits)
        c = rng.random()
        if c < 0.3:       # top 16 bits at a table boundary, low bits all ones / zero (the ceiling must cover them)
            hi = rng.choice([0x8000, 0x8001, 0xffff, 0xff00, 0x8080, rng.randrange(0x8000, 0x10000)])
            sh = rng.randrange(1, bits - 15)
            v = (hi << sh) | rng.choice([0, (1 << sh) - 1, rng.getrandbits(sh)])
        inner.append(("p.log2b", [ty, hx(v)]))
    for i in range(60 if q else 1500):
        inner.append(("u.log2b", [hx(big(rng, tier))]))
    for ty, bits in float_patterns(rng, tier):
        inner.append(("p.flog2b", [ty, "%x" % bits]))
    for c in nostd_cases(inner):
        yield c
    if not q:
        for a in rng.sample(range(65536), 300) + [0, 1, 2, 65535, 32768, 255, 256]:
            lo = rng.choice(blocks)
            yield Case("p.gcdrow", ["u16", dec(a), dec(lo), dec(lo + 256)])

REFINED = ["gcd_ops.rs dispatch (gcd / gcd_ext over inline/heap operands) and IBig sign handling", "gcd_large_dword",
           "gcd::gcd_in_place = lehmer::gcd_in_place: the whole multi-word loop (highest_word_normalized / highest_dword_normalized alignment, lehmer_guess / lehmer_guess_dword, Euclidean fallback, lehmer_step, final word / dword gcd) returns and returns the gcd (lehmer_gcd_correct, gcd_spec)",
           "lehmer::gcd_ext_in_place: the whole multi-word loop with cofactor tracking (t0 += q*t1 on the Euclidean fallback, lehmer_ext_step, swapped flag as sign, final div_by_word + single-word gcd_ext, |b| = |cx|*t0 + |cy|*t1) returns and meets g = gcd, lhs | g - rhs*b (lehmer_gcd_ext_correct, gcd_ext_spec)",
           "lehmer::gcd_ext_in_place buffer-length claims: t1*x + t0*y = lhs through every Euclidean / Lehmer step for WHATEVER quotients the guess commits (only det = 1 is used), hence t0, t1 <= lhs; a committed Lehmer step leaves both combined values strictly positive, so y = 0 arises only from a Euclidean step; cofactor bounds |s|*g <= b, |t|*g <= a of the primitive gcd_ext; the returned |b| satisfies |b|*g <= lhs resp. |b| <= lhs at EVERY exit — the lhs_len(+1)-word buffers suffice and the debug_assert_zero! carries are zero (gcd_ext_cofactors_fit_partial, gcd_ext_prim_cofactor_bounds, gcd_ext_b_fits_partial, gcd_ext_b_fits)",
           "lehmer::gcd_ext_in_place main loop, EVERY iteration (round 6): lehmerExtStep = one pass through the while body; the executed loop is its iteration and returns the state at the head of the first iteration at which y has at most one word (gcd_ext_loop_is_iteration); at the head of every iteration reached from (lhs, rhs, 0, 1), rhs <= lhs: t1*x + t0*y = lhs, y <= x, and while y > 0 both t0, t1 < 2^(W*lhs_len) — the operands and results of every lehmer_ext_step / add_signed_mul call fit the reserved words (gcd_ext_every_iteration_fits)",
           "lehmer::gcd_ext_in_place Euclidean fallback, EVERY iteration (round 6): q = x / y >= 1, t1 >= 1 (the coefficient never vanishes), t0 + q*t1 <= lhs < 2^(W*lhs_len), and q.len() + t1_len <= lhs_len + 1 — the slice t0[..qt1_len] handed to mul::add_signed_mul lies inside the reserved lhs_len + 1 words and the carry store t0[qt1_len] is in range (gcd_ext_euclid_slice_fits); with q_top > 0 (quotient of q_lo.len() + 1 words) q_lo.len() + t1_len <= lhs_len, so add_mul_word_in_place gets exactly t1_len destination words (gcd_ext_euclid_qtop_slice_fits)",
           "lehmer::lehmer_step zip loop at the word level (round 6; Model/NT/LehmerStepWords.lean lehmerStepWords: signed double-word accumulations a*x_i - b*y_i + x_carry, d*y_i - c*x_i + y_carry, split_signed_dword, signed carry words): for the committed cofactors (<= SignedWord::MAX), word operands with y not longer than x and signed-word incoming carries no accumulation leaves [-2^(2W-1), 2^(2W-1)), lengths kept, results are words, outgoing carries are signed words, x'[..n] + 2^(W*n)*x_carry = a*x[..n] - b*y, y' + 2^(W*n)*y_carry = d*y - c*x[..n] (lehmer_step_words_spec); not driven (pub(crate) fn) — TIE A instead: both split_signed_dword(...) accumulation expressions regenerated, every other token of lehmer_step pinned, fails closed (lehmer_step_words_regenerated); the x_top fix-up after the loop (pinned as text) is mirrored in Model/NT/LehmerStepFull.lean lehmerStepFull with both debug_assert_eq!s as failures: for operands of equal length, resp. x one word longer, and results with 0 <= a*X - b*Y <= X, 0 <= d*Y - c*X < 2^(W*y.len()), a >= 1, the function returns exactly the two results — y_carry = c*x_top, the fix-up is one word with zero carry, and with no carry left the untouched top word is already right (lehmer_step_full_eqlen, lehmer_step_full_longer); a committed guess supplies all of these value hypotheses (lehmer_step_committed_values; round 7: d*y - c*x <= y at every state of lehmer_guess — it starts at y and each second half round subtracts q*(a*x - b*y) >= 0 — lehmer_step_committed_y_le, so d*Y - c*X <= Y < 2^(W*y.len()), the function's own debug_assert_eq!(y_carry, c * x_top)); hence NO value hypothesis is left: for word operands with Y <= X, y of more than one significant word and a committed guess computed from the operands, lehmerStepFull returns a*X - b*Y, d*Y - c*X exactly, lengths kept, both positive, sum <= X, new y <= Y, for both operand shapes (lehmer_step_full_committed_eqlen, lehmer_step_full_committed_longer); round 8: the SHAPE hypothesis is derived too — for y <= x with y two or more significant words shorter than x both estimators return (1, 0, 0, 1) (the aligned part of y is 0 or the first quotient is >= 2^W > COEFF_LIMIT: lehmer_guess_gap_fails), so a committed guess happens only with x.len() - y.len() in {0, 1} on the trimmed slices, the function's first debug_assert! (lehmer_commit_shape); for trimmed word slices (non-zero top words), Y <= X, y of more than one word and the committed guess computed from them, lehmerStepFull returns both combined values with NO shape and NO value hypothesis (lehmer_step_full_committed_trimmed)",
           "lehmer::lehmer_ext_step word loop (round 6; Model/NT/LehmerWords.lean lehmerExtStepWords: zip/take(len) loop, two double-word accumulations a*x_i + b*y_i + carry, split_dword): for word operands and cofactors with a + b, c + d < 2^W no accumulation overflows, lengths kept, words beyond len untouched, carries are words, x'[..len] + 2^(W*len)*x_carry = a*x[..len] + b*y[..len] (lehmer_ext_step_words_spec); the committed cofactors are <= SignedWord::MAX (lehmer_cofactors_le_signed_max: the debug_asserts of lehmer_ext_step hold); inside gcd_ext_in_place at EVERY iteration where the guess commits, for any buffers holding t0, t1 in their first len words: the loop returns a*t0 + b*t1, c*t0 + d*t1 and a non-zero carry word implies len < lhs_len, so t[tmax_len] = carry and the new length tmax_len + 1 stay within lhs_len words (gcd_ext_lehmer_ext_step_words_fit); TIE A: the two split_dword(...) accumulation expressions are regenerated from integer/src/gcd/lehmer.rs and every other token of lehmer_ext_step is pinned, fails closed (lehmer_ext_step_words_regenerated; mutants/C12/m24.diff)",
           "gcd::gcd_ext_word / gcd_ext_dword (coefficient recovery |b| = q*|t| + |s|)", "gcd_ext_large post-processing (one product + exact division)",
           "base ring/gcd.rs unchecked_gcd_ext (Euclid with cofactors)", "base ring/gcd.rs Gcd::gcd + unchecked_gcd (binary gcd with the one-division shortcut; (a|b).trailing_zeros() = min proved)",
           "base ring/gcd.rs two-width unchecked_gcd_ext of u128 (full-width Euclid, half-width loop, recombined cofactors)", "lehmer_guess / lehmer_step cofactor matrix (determinant 1 => gcd preserved; committed cofactors never make a step negative; every iteration decreases x+y)",
           "nth_root Newton iteration (up then down) and its stopping rule", "sqrt_rem_large normalisation / de-normalisation of root and remainder",
           "integer/src/root.rs sqrt_rem (Zimmermann's Karatsuba square root): the recursion mirrored statement by statement on slice values with every carry (r1_top + sub_in_place, div_rem_in_place by s1, the shifted-in quotient bit r1_top ^ carry, q_top, the parity repair, q^2 with q_top placed at word 2*split or charged to c, sub_in_place, the c < 0 repair with add_word_in_place / add_mul_word_in_place / sub_one_in_place) — executed by the driver, proved for every n >= 2 and every normalised 2n-word value: s^2 + r = a, r <= 2s, r = r_lo + carry*2^(W n) (sqrt_rem_karatsuba_correct; arithmetic core zimmermann_step); div_rem_in_place and sqr enter at their value (C02, C01)",
           "integer/src/root.rs sqrt_rem_42 (word-assembled r0 = (r1*B + b1)/2, q >= B reduction, u << 1 | (a[1] & 1), overflowing_sub / overflowing_add carries): mirrored, executed, proved on every normalised 4-word value for every word size >= 2 (sqrt_rem_42_correct)",
           "sqrt_rem_large over the mirrored kernel = sqrt_rem_large over the specification on every operand above two words (sqrt_rem_kernel_eq_spec, sqrt_rem_mirrored_spec, nth_root_mirrored_eq)",
           "base ring/root.rs fix_sqrt_error! / fix_cbrt_error! (the correction loops every table/Newton routine ends in): sound for every width and every start value (fix_sqrt_error_sound, fix_cbrt_error_sound)",
           "base ring/root.rs normalized_sqrt_rem / normalized_cbrt_rem of u16, u32, u64 (RSQRT_TAB / RCBRT_TAB lookup, Newton steps in wrapping/checked u16/u32 arithmetic, saturating_mul), u128 normalized_sqrt_rem (Karatsuba step over the u64 routine, operands bit-packed with KBITS = 32, q >= B reduction, wrapping_sub / overflowing_add carries), u128 normalized_cbrt_rem (B = 2^22 cube-root step over the u64 routine: both branches of the high part, div_rem by 3*c1^2, signed remainder, `while r < 0` descent) and the sqrt_rem / cbrt_rem / sqrt / cbrt wrappers (even / multiple-of-3 normalising shift, de-normalisation, remainder recomputation) of u8..u128: mirrored with checked arithmetic, executed by the driver; SOUND on every value of every type u8..u128 — whatever is returned without arithmetic overflow is the floor root and the remainder (prim_sqrt_rem_sound, prim_cbrt_rem_sound incl. u128 since round 5, cbrt_karatsuba_step); u8, u16 and (round 5) u32 also TOTAL and exact on every value: no + - * of the table / Newton stages overflows and every estimate is an under-estimate (prim_root_u8_total, prim_root_u16_total by kernel evaluation of every value; prim_root_u32_total by an interval argument — the cube-root estimate reads only the top 16 bits, in the square root the low 16 bits enter only through b = wmul32_hi(self, r^3) >> 11 (at most two values per top half) and e = self - s^2, and a checker decides a whole operand interval at once; the kernel evaluates it for the 49152 + 57344 normalised top halves); prim_sqrt_u32_exact",
           "TIE A (round 5): RSQRT_TAB, RCBRT_TAB, LOG2_TAB, the table index offsets (- 32, - 8), the under-estimate margins ((s - 1) as u8, s -= 4, r - 10, s -= 10, r - 1) and KBITS of the two u128 steps are regenerated from base/src/ring/root.rs / base/src/math/log.rs on every run (vlib/extract_roottabs.py -> Gen/RootTables.lean); root_tables_regenerated proves the model's tables equal to them and every estimate stage of the model (u16, u32, u64; sqrt and cbrt) equal to the same stage over the regenerated table / offset / margin — a change of a table entry or margin in the source breaks the build of Props/C12 (tables are additionally compared at run time: tab.rsqrt, tab.rcbrt, tab.log2)",
           "TIE A (round 6): every shift amount, mask width and small multiplier of the two u128 steps (u128::normalized_sqrt_rem: >> u64::BITS, << (KBITS - 1), >> (KBITS + 1), q >> KBITS, q -= 1, << KBITS, << (KBITS + 1), mask KBITS + 1, >> (KBITS - 1), << u64::BITS; u128::normalized_cbrt_rem: leading_zeros() > 0, >> 63, c >>= 1, a >> 3, pow(3), >> 66, << KBITS, >> (2 * KBITS), mask KBITS, 3 * c1.pow(2), << (2 * KBITS), mask 2 * KBITS, (3 * c1) << KBITS, q.pow(2), the descent r += 3 * (c - 1) * c + 1; c -= 1) is regenerated from its own statement (vlib/extract_roottabs.py, evaluated with that function's KBITS; one statement shape each, fails closed); normSqrtU128 / normCbrtU128 / cbrtDownLoop of the model equal the same routines over the regenerated amounts (root_u128_steps_regenerated; mutants/C12/m23.diff)",
           "log_dword / log_word_base / log_large correction loops for any admissible first guess", "UBig::remove (squaring tower up, then down)",
           "IBig::nth_root / sqrt / cbrt sign rules and panics",
           "no_std table estimator log2_fp8 / ceil_log2_fp8 over all u16, the u8 powering cases and the top-16-bit + shift lifting to wider integers (integer-level enclosure theorems by kernel evaluation)"]
FRONTIER = ["lehmer_step at the word level: every value hypothesis is derived from the committed guess (round 7) and so is the slice shape (round 8: a committed guess implies x.len() - y.len() in {0, 1} on trimmed slices — lehmer_guess_gap_fails, lehmer_commit_shape, lehmer_step_full_committed_trimmed; the function's first debug_assert! is no longer assumed); what is left: the word mirrors of lehmer_step / lehmer_ext_step are not driven (private fns), tied by Tie A and by theorem to the executed value-level loops; that the slices gcd_in_place holds at the loop head ARE trimmed (trim_leading_zeros after every step; the value-level loop works on numbers, where trimming is implicit) is read off the code, not mirrored at the slice level",
            "gcd_ext_in_place buffer-length claims, what is left: lehmer_ext_step is mirrored at the word level and proved (round 6); the mirror is NOT executed by the driver (a private fn without a harness entry): it is tied to /repo by Tie A (accumulation expressions regenerated, the rest of the function text pinned, lehmer_ext_step_words_regenerated) and to the executed value-level loop by theorem (its result IS a*t0 + b*t1, c*t0 + d*t1); the word loops of mul::add_signed_mul / add_mul_word_in_place on the Euclidean fallback (t0 += q*t1) stay at value level (they are C01's kernels; proved at every iteration since round 6: the slice t0[..q_lo.len() + t1_len] lies inside the lhs_len + 1 words, t0 + q*t1 <= lhs, t1 >= 1 — gcd_ext_euclid_slice_fits; on the q_top > 0 arm q_lo.len() + t1_len <= lhs_len, the min never cuts the destination below t1_len words — gcd_ext_euclid_qtop_slice_fits; the partial sums of the kernels are not separately bounded)",
            "base ring/root.rs u64 Newton estimate stages (sqrt: three Newton steps on 1/sqrt(n) with s -= 10; cbrt: two steps with r - 1): TOTALITY (no arithmetic overflow, i.e. the estimate is an under-estimate that fits) is proved for u8, u16, u32 (prim_root_u32_total, round 5) but NOT for the two u64 routines (u128 is proved total RELATIVE to them, see the end of this entry): the interval argument used for u32 needs one kernel evaluation per value of the top half (2^32 of them for u64), and a coarser subdivision does not work because the safety margin (10 units in 2^32) is far below what interval arithmetic over a block of operands can resolve — it needs the analytic error recurrence of the Newton steps (quadratic convergence with the truncation errors of each wmul32_hi), which is not done. The routines are mirrored and executed with checked arithmetic (an overflow would print as `panic ArithmeticOverflow` and disagree with the real code), and their answers are proved to be the floor root whenever they answer (prim_sqrt_rem_sound, prim_cbrt_rem_sound, all widths incl. u128). The u128 SQUARE-root step is proved to add no overflow of its own (prim_sqrt_u128_total_of_u64, round 5: u += s1, q*q, s -= 1 stay in range and the remainder carry after the c < 0 repair is never negative), so `sqrt_rem_driver_spec_u64` states sqrt_rem exactly as the driver runs it for the 64-bit word with ONE hypothesis: <u64>::normalized_sqrt_rem answers on normalised operands. Likewise the u128 CUBE-root step (prim_cbrt_u128_total_of_u64, round 5: every checked operation and both `as i128` casts in range, q <= B + 7, the `while r < 0` descent ends within 8 steps on normalised operands): u64::cbrt_rem and u128::cbrt_rem answer everywhere if <u64>::normalized_cbrt_rem answers on normalised operands. What is left as hypothesis is exactly: the two u64 Newton routines (normSqrtU64, normCbrtU64) do not overflow on normalised u64 operands",
            "f32 log2 first guesses of ilog: a parameter with the hypothesis the code asserts (base^est <= x)",
            "log2_bounds (std build, libm log2f): no theorem; the harness echoes the implementation's own bounds and the driver decides lb <= log2(x) <= ub exactly (certified interval squaring / exact powering) on every call — bit patterns are NOT compared, so a different valid estimator is accepted",
            "f32 arithmetic of the estimators (x/256, + shift, next_up/next_down, *(1 +- 2^-22)): covered by the per-call enclosure check only"]
RULE = ("gcd pairs from {0/0, one zero, equal, common factor x cofactor size classes, one divides the other with any length gap, first "
        "quotient > 2^63, Fibonacci pairs (all quotients 1) up to 19300 bits, powers of two / long zero tails, near-equal top words, random "
        "0..320 words; around Lehmer's double-word-guess threshold: 298..302/320/400 words x length gap 0..4 words x 0/1/many leading zero "
        "bits of the top word, as g*u, g*v with known g, near-equal and word-shifted pairs} x {UBig, IBig, mixed} x {gcd, gcd_ext}; radicands {0,1,perfect powers, perfect powers +-1, every (word count, "
        "leading-zero count) class of sqrt_rem_large incl. shift = 64 and > 64; Karatsuba q_top class: high 2(n - n/2) words = t^2 + 2t with normalised t "
        "(r1 = 2*s1, r1_top and quotient carry both set, q = B) for n in 2..12, 16, 17, 33, plain / nested / cut to odd word counts and even bit shifts; the same shape "
        "(hi u64 = t^2 + 2t) for the u128 primitive} x n in {0..10, 16, 63..65, 127..129, 1000, bit length +-1}; "
        "perfect-power sweep: for every primitive width u8..u128 and for 1-/2-/3-word UBig/IBig, for EVERY bit length j of the root k (1..width/n) the roots {2^(j-1), 2^(j-1)+1, 2^j-2, 2^j-1, quarter points, the k ~ 2^(j-i/n) at which k^n crosses a power of two (+-1), random j-bit} and the radicands k^n-1, k^n, k^n+1 through sqrt/sqrt_rem/cbrt/cbrt_rem/nth_root (n in 2..11, 13, 16, 17, 31..33, 63..65); "
        "ilog over bases {2, 2^k, 10, word, dword, multi-word} x {0, 1, base^e, base^e +-1, random} and base^e-1, base^e, base^e+1 for EVERY e below 200 bits (small bases) / 640 bits (word and larger bases); remove with known multiplicity; "
        "log2_bounds of UBig/IBig/FBig<2>/DBig/RBig/Relaxed/u8..u128 incl. values next to 1 and exact powers of two, f32/f64 by bit pattern "
        "(specials, subnormals, sampled/all exponents x boundary mantissas); the same through a harness built WITHOUT the std feature "
        "(table estimator: all u8, u16 blocks, u32..u128 with top-16-bit boundary patterns, UBig, f32/f64); primitives: "
        "E1: nth_root(n: usize) with n at / around 2^16, 2^31, 2^32, 2^63, usize::MAX x radicands {0, 1, 2, 3, 8, word / dword / 3-word boundaries, ~3000 bits} x UBig / IBig of both signs; exhaustive u8 (sqrt, cbrt, log2 bounds, gcd rows) and u16 (all in thorough, sampled blocks in quick), boundary + random above; RSQRT_TAB / RCBRT_TAB / LOG2_TAB read from the source text. "
        "Non-trivial := an operand above two words or a primitive sweep; distinct := distinct (op,args) lines.")
EXPLANATION = ("Lean theorems: gcd dispatch = Nat.gcd with the GcdZeroZero panic; Bezout identity of gcd_ext through word/dword recovery and the "
               "multi-word post-processing (exact division); the mirrored Lehmer loops gcd_in_place and gcd_ext_in_place always return and are "
               "correct (no assumed kernel in gcd or gcd_ext): cofactor matrix has determinant 1, committed steps never go negative, x+y decreases, "
               "coefficients satisfy x = -+t0*rhs, y = +-t1*rhs (mod lhs); Newton nth_root ends at the floor root; Zimmermann's Karatsuba square root "
               "(sqrt_rem, sqrt_rem_42) mirrored with all carries returns root, remainder and remainder carry on every normalised input, so sqrt_rem_large over it "
               "equals sqrt_rem_large over the floor square root; sqrt_rem_large de-normalisation is exact; the primitive table/Newton roots are sound for every width (fix loops; the u128 Karatsuba square-root and B = 2^22 cube-root steps) and, for u8/u16/u32, total (never overflow); their tables and margins are the regenerated ones; "
               "gcd_ext_in_place buffer claims at EVERY iteration of the main loop (t1*x + t0*y = lhs, coefficients below 2^(W*lhs_len), the Euclidean slice t0[..q.len()+t1_len] inside the buffer, lehmer_ext_step mirrored at the word level: no double-word overflow, non-zero carry only with room left; its accumulations and the u128 root step shift amounts regenerated from the source); "
               "ilog correction loops end at floor(log) for any admissible first guess; remove returns the exact multiplicity. "
               "log2_bounds enclosure is decided exactly per call by certified interval squaring / exact powering in the driver.")
ASSUMPTIONS = ["mul/div/pow of UBig used inside nth_root, ilog and remove, and div_rem_in_place / sqr inside root::sqrt_rem, are exact (C01, C02)",
               "the u64 Newton estimates (normalized_sqrt_rem, normalized_cbrt_rem of u64) of dashu-base never overflow on normalised operands (all primitive roots u8..u128 are proved sound; totality is proved for u8, u16, u32, and for both u128 steps and all wrappers relative to the u64 routines; an overflow would show as a correspondence disagreement and everything returned is checked against the floor-root relation per call)"]
LEVEL_TEXT = ("Machine-checked Lean 4 theorems over an executable model of gcd/gcd_ext dispatch and Bezout recovery, the Lehmer cofactor "
              "step and the complete multi-word Lehmer loops (gcd and extended gcd, proved to return and to be correct), the Newton nth-root iteration, "
              "Zimmermann's Karatsuba square root sqrt_rem / sqrt_rem_42 mirrored with every carry and proved for all lengths, sqrt_rem_large (de)normalisation, "
              "the primitive table/Newton roots and wrappers (sound for u8..u128 incl. the u128 cube-root step, total for u8/u16/u32; tables, margins and every shift amount of the u128 steps regenerated from the source, Tie A), the coefficient-buffer claims of gcd_ext_in_place at every iteration incl. the word loop of lehmer_ext_step (mirrored, accumulations regenerated; not driven: a private fn), the ilog correction loops and remove; "
              "totality (no overflow) of the two u64 Newton routines is mirrored and executed but not proved; the u128 square- and cube-root steps and all wrappers are proved to add no overflow of their own. The model is "
              "tied to /repo on every run by differential execution over structured operands (perfect powers +-1, size-class "
              "boundaries, quotient overflow, the Karatsuba q = B arm, exhaustive u8/u16) and by reading the lookup tables from the source; log2 bounds are echoed from the implementation and their enclosure of the true "
              "logarithm is decided with exact integer arithmetic on every call.")
LEVEL_NOTE = ("Trusted: Lean kernel; axioms propext/Classical.choice/Quot.sound; correspondence harness + generators (sampling); frontier "
              "kernels listed in evidence are specified, not verified; the libm-based f32 log2 estimator (std build) is not the subject of "
              "a theorem — the implementation's own bounds are echoed and their enclosure is decided exactly per sampled input; the no_std table "
              "estimator has integer-level enclosure theorems (all u16, u8 powering, wide-integer lifting) and is run through a harness "
              "built without the std feature; f32 rounding of the estimators is executed, not proved.")
TECHNIQUE = "Lean 4 refinement/termination proofs (fuel + bound theorems) + differential correspondence + exact per-call enclosure checks"
THEOREMS = ["Dashu.Props.C12." + t for t in ["gcd_prim_spec", "trailing_zeros_or", "gcd_spec", "gcd_int_spec", "gcd_spec_frontier", "gcd_ext_prim_spec", "gcd_ext_prim_wide_spec", "gcd_ext_bezout", "lehmer_gcd_ext_correct", "gcd_ext_spec", "gcd_ext_bezout_driver", "lehmer_guess_det",
            "lehmer_step_preserves_gcd", "lehmer_step_nonneg", "lehmer_gcd_sound", "lehmer_gcd_correct", "sqrt_rem_spec", "nth_root_spec", "cbrt_rem_spec", "ibig_root_spec", "ilog_spec", "remove_spec",
            "log2_table_sound", "log2_u8_table_sound", "log2_wide_table_sound", "nth_root_zero_asIs_counterexample", "sqrt_rem_asIs_counterexample", "ibig_cbrt_asIs_counterexample",
            "ilog_zero_asIs_counterexample", "gcd_ext_post_precondition_counterexample",
            "zimmermann_step", "sqrt_rem_42_correct", "sqrt_rem_karatsuba_correct", "sqrt_rem_kernel_eq_spec", "sqrt_rem_mirrored_spec", "nth_root_mirrored_eq",
            "fix_sqrt_error_sound", "fix_cbrt_error_sound", "prim_sqrt_rem_sound", "prim_cbrt_rem_sound", "prim_root_u8_total", "prim_root_u16_total", "prim_exact_of_total", "sqrt_rem_driver_spec", "prim_root_u32_total", "prim_sqrt_u32_exact", "cbrt_karatsuba_step", "root_tables_regenerated", "root_u128_steps_regenerated", "prim_sqrt_u128_total_of_u64", "sqrt_rem_driver_spec_u64", "prim_cbrt_u128_total_of_u64", "gcd_ext_cofactors_fit_partial", "gcd_ext_prim_cofactor_bounds", "gcd_ext_b_fits_partial", "gcd_ext_b_fits", "gcd_ext_loop_is_iteration", "gcd_ext_every_iteration_fits", "lehmer_ext_step_words_spec", "lehmer_cofactors_le_signed_max", "gcd_ext_lehmer_ext_step_words_fit", "lehmer_ext_step_words_regenerated", "gcd_ext_euclid_slice_fits", "gcd_ext_euclid_qtop_slice_fits", "lehmer_step_words_spec", "lehmer_step_words_regenerated", "lehmer_step_committed_values", "lehmer_step_full_eqlen", "lehmer_step_full_longer", "lehmer_step_committed_y_le", "lehmer_step_full_committed_longer", "lehmer_step_full_committed_eqlen", "lehmer_guess_gap_fails", "lehmer_commit_shape", "lehmer_step_full_committed_trimmed"]]
USES_GEN = True
READY = True
