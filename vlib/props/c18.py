"""C18 — rational approximation functions return the optimal fraction they promise (DESIGN §8 C18)."""
import struct
from fractions import Fraction
from math import gcd
from vlib.core import Case
from vlib.gens import hx, nat_pattern, PATTERNS, signed

GROUP = "ratio"
LEAN_PROPS = "Dashu.Props.C18"
LEAN_AUDIT = "Dashu.Audit.C18"
# compositions with other groups' proved files, kept apart from the property's own theorems
GEN_PROPS = ["Dashu.Props.C18Link"]
GEN_AUDIT = ["Dashu.Audit.C18Link"]
USES_GEN = True
JOBS = 12

REFINED = ["Repr::simplest_in (continued-fraction descent: soundness, simultaneous minimality, termination)",
           "RBig::simplest_in (signs, order, equal end points, final reduce)",
           "RBig::farey_neighbors (determinant 1, bracket, bounds, termination)",
           "RBig::next_up / next_down (all limits >= 1, incl. the 1/limit^2 nudge)", "RBig::nearest",
           "RBig::is_simpler_than (regenerated text = the documented lexicographic order, is_simpler_than_lexicographic)",
           "pickSimplest (tail of simplest_from_f32/f64/float): optimal over the interior and the allowed end points",
           "RBig::simplest_from_f32 / simplest_from_f64: result converts back to exactly the float under builder-conv's IEEE "
           "round-to-nearest-even specification (ieeeRoundRat) and is the simplest fraction that does (Props/C18Link: simplest_from_f32_exact, "
           "simplest_from_f64_exact; rounding_set_is_preimage: the interval is the exact preimage for every IEEE binary format)",
           "RBig::simplest_from_float (FBig), required behaviour: every mode is a window (mode_is_window), the rounding set of an "
           "FBig value for every base/mode/precision (fbig_rounding_set_exact), the model's table is that set, and the result rounds "
           "back and is the simplest fraction that does (simplest_from_fbig_exact)"]
FRONTIER = ["the correspondence model <-> code of simplest_from_float (FBig) is by six named deviation switches (the code's "
            "ErrorBounds is defective: recorded finding); the theorems are about the required behaviour (Quirks.none)",
            "RoundsTo (correct rounding to p digits: binade t, quantum b^(t-p), builder-float's roundInt) is builder-float's "
            "specRound with ulpExp spelled out as t - p; the identity ulpExp = t - p (ilogQ) is not proved here",
            "Repr::cmp / PartialOrd for Repr (rational/src/cmp.rs) is taken at its contract (C05)",
            "dashu-int kernels (div_rem, gcd, mul) at their contracts (C01, C02, C12)",
            "FBig special inputs (infinite -> None, unlimited precision -> the number itself): observed by tests only, no theorem"]
RULE = ("simplest_in: end points from {small fractions, neighbours in a Farey sequence, convergents of a random continued "
        "fraction (very narrow intervals, large denominators), integers, zero, huge/tiny} in both orders, equal, negative, "
        "sign-straddling, zero/integer end points; is_simpler_than: pairs agreeing/differing in denominator, |numerator|, "
        "sign in every combination; next_up/next_down/nearest: limits 1..300 (linear-time walk) against x with denominator "
        "<, =, > limit, integers, negatives, exact midpoints of neighbours (ties); simplest_from_f32/f64: bit patterns around "
        "every power of two, subnormals, least/greatest finite, even/odd mantissas, exponents on both sides of the "
        "mantissa width, quotients p/q of small integers, NaN/inf/zeros; simplest_from_float: 6 modes x bases {2,3,10,16} x "
        "significands {B^k, B^k-1, B^k+1, random, 0} x precision {digits, digits+1.., 0 = unlimited} x exponents x signs, plus +inf/-inf of every mode/base (None). Non-trivial := not an integer-only or equal-end-point "
        "case; distinct := distinct case lines.")
EXPLANATION = ("Theorems (all integers, all limits): simplest_in returns a reduced fraction strictly inside the interval whose "
               "numerator magnitude and denominator are both minimal among all fractions strictly inside (Stern-Brocot "
               "argument over the descent, termination by denL+denR); farey_neighbors keeps determinant 1 and ends with "
               "denominator sum > limit, hence consecutive Farey elements; next_up/next_down return the adjacent Farey "
               "element for every limit >= 1; nearest picks the closer with the sign of result - x, Exact iff the denominator "
               "fits; is_simpler_than (text regenerated from the source on every run) is exactly the documented "
               "lexicographic order.")
ASSUMPTIONS = ["Repr::cmp compares values (C05)", "dashu-int div_rem/gcd/mul meet their contracts (C01, C02, C12)"]
THEOREMS = []
READY = True


def nontrivial(c):
    return True


def q(n, d):
    return "q:%s/%x:R" % (hx(n), d)


def rnd_frac(rng, tier):
    r = rng.random()
    if r < 0.35:
        return Fraction(rng.randrange(-40, 41), rng.randrange(1, 30))
    if r < 0.55:
        return Fraction(signed(rng, rng.getrandbits(rng.choice([8, 16, 40, 64, 70]))), rng.getrandbits(rng.choice([4, 16, 40, 64, 70])) + 1)
    if r < 0.65:
        return Fraction(rng.randrange(-5, 6))
    if r < 0.7:
        return Fraction(0)
    # convergent of a random continued fraction
    k = rng.randrange(2, 60 if tier == "quick" else 400)
    h0, h1, k0, k1 = 1, rng.randrange(0, 4), 0, 1
    for _ in range(k):
        a = rng.choice([1, 1, 1, 2, 2, 3, 5, 20, 1000, 1 << 40])
        h0, h1 = h1, a * h1 + h0
        k0, k1 = k1, a * k1 + k0
    f = Fraction(h1, k1)
    return -f if rng.random() < 0.3 else f


def float_bits(rng, w):
    """bit patterns of f32 (w=32) / f64 (w=64) around the branch points of simplest_from_float"""
    eb, mb = (8, 23) if w == 32 else (11, 52)
    emax = (1 << eb) - 1
    bias = (1 << (eb - 1)) - 1
    r = rng.random()
    sign = rng.getrandbits(1) << (w - 1)
    if r < 0.06:
        return sign | (emax << mb) | rng.choice([0, 1, 1 << (mb - 1), (1 << mb) - 1])      # inf / NaN
    if r < 0.10:
        return sign                                                                          # zeros
    if r < 0.22:
        m = rng.choice([1, 2, 3, (1 << mb) - 1, (1 << mb) - 2, 1 << (mb - 1), rng.getrandbits(mb) or 1])
        return sign | m                                                                      # subnormals
    if r < 0.30:
        return sign | (rng.choice([1, 2, emax - 1]) << mb) | rng.choice([0, 1, (1 << mb) - 1, (1 << mb) - 2])
    if r < 0.55:
        # around powers of two, both sides of the mantissa width (exp <= 0 / exp > 0)
        e = bias + rng.choice([-3, -1, 0, 1, 2, mb - 2, mb - 1, mb, mb + 1, mb + 2, mb + 3, mb + 10, mb + 40,
                               rng.randrange(1 - bias, bias + 1)])
        e = min(max(e, 1), emax - 1)
        m = rng.choice([0, 0, 1, 2, 3, (1 << mb) - 1, (1 << mb) - 2])
        return sign | (e << mb) | m
    if r < 0.80:
        # quotients of small integers rounded to the float
        p, qq = rng.randrange(1, 2000), rng.randrange(1, 2000)
        f = p / qq
        if w == 32:
            b = struct.unpack("<I", struct.pack("<f", f))[0]
        else:
            b = struct.unpack("<Q", struct.pack("<d", f))[0]
        return sign | b
    e = rng.randrange(1, emax)
    return sign | (e << mb) | rng.getrandbits(mb)


def generate(rng, tier):
    quick = tier == "quick"
    # ---- is_simpler_than
    for _ in range(400 if quick else 6000):
        a = rnd_frac(rng, tier)
        r = rng.random()
        if r < 0.25:
            b = Fraction(a.numerator + rng.choice([-2, -1, 1, 2]) * 0 + rng.choice([-1, 1]) * a.numerator * 0 + a.numerator, a.denominator)
            b = -a
        elif r < 0.5:
            n2 = a.numerator + rng.choice([-3, -2, -1, 1, 2, 3]) * a.denominator
            b = Fraction(n2, a.denominator) if gcd(abs(n2), a.denominator) == 1 else rnd_frac(rng, tier)
        elif r < 0.6:
            b = a
        else:
            b = rnd_frac(rng, tier)
        yield Case("s.simpler", [q(a.numerator, a.denominator), q(b.numerator, b.denominator)])
    # ---- simplest_in
    for _ in range(1200 if quick else 30000):
        a = rnd_frac(rng, tier)
        r = rng.random()
        if r < 0.08:
            b = a
        elif r < 0.16:
            b = -a
        elif r < 0.24:
            b = Fraction(0)
        elif r < 0.45:
            # very narrow: a ± tiny
            d = a.denominator * rng.choice([1, 2, 7, 1 << 20, 1 << 70, rng.getrandbits(40) + 1])
            b = a + Fraction(rng.choice([-1, 1]), d * rng.choice([1, a.denominator + 1]))
        elif r < 0.55:
            b = a + rng.choice([-2, -1, 1, 2])                  # contains integers
        elif r < 0.62:
            b = Fraction(rng.randrange(-6, 7))                   # integer end point
        else:
            b = rnd_frac(rng, tier)
        yield Case("s.in", [q(a.numerator, a.denominator), q(b.numerator, b.denominator)])
    # ---- next_up / next_down / nearest (the walk is linear in `limit`: keep limits small)
    maxlim = 300 if quick else 3000
    for _ in range(700 if quick else 12000):
        lim = rng.choice([1, 1, 2, 3, 4, 5, 7, 10, 16, 33, 100, rng.randrange(1, maxlim)])
        r = rng.random()
        if r < 0.25:
            x = Fraction(rng.randrange(-50, 51), rng.randrange(1, lim + 1))      # denominator fits
        elif r < 0.35:
            x = Fraction(rng.randrange(-9, 10))
        elif r < 0.5:
            # exact midpoint of two neighbouring fractions (tie for nearest)
            d1 = rng.randrange(1, lim + 1); d2 = rng.randrange(1, lim + 1)
            x = (Fraction(rng.randrange(0, d1 + 1), d1) + Fraction(rng.randrange(0, d2 + 1), d2)) / 2 + rng.randrange(-3, 4)
        elif r < 0.6:
            x = Fraction(rng.randrange(-50, 51), lim + rng.choice([0, 1, 2]))
        elif r < 0.72 and lim >= 2:
            # just beside k/limit: the neighbour on that side has denominator exactly `limit`
            k0 = rng.randrange(1, lim)
            while gcd(k0, lim) != 1:
                k0 = rng.randrange(1, lim)
            x = Fraction(k0, lim) + Fraction(rng.choice([-1, 1]), lim * lim * rng.choice([3, 7, 1000])) + rng.randrange(-3, 4)
        else:
            x = rnd_frac(rng, tier) if rng.random() < 0.5 else Fraction(signed(rng, rng.getrandbits(40)), rng.getrandbits(40) + 1)
        if rng.random() < 0.02:
            lim = 0
        op = rng.choice(["s.nextup", "s.nextdown", "s.nearest"])
        yield Case(op, [q(x.numerator, x.denominator), "u:%x" % lim])
    # ---- simplest_from_f32 / f64
    for _ in range(900 if quick else 20000):
        if rng.random() < 0.5:
            yield Case("s.fromf32", ["x:%08x" % float_bits(rng, 32)])
        else:
            yield Case("s.fromf64", ["x:%016x" % float_bits(rng, 64)])
    # ---- simplest_from_float (FBig): modes x bases {2, 3, 10, 16} x significands around powers of the base
    for _ in range(900 if quick else 20000):
        yield gen_fbig(rng, tier)


MODES = ["Zero", "Away", "Up", "Down", "HalfAway", "HalfEven"]


def ndigits(n, b):
    k = 0
    while n:
        n //= b; k += 1
    return k


def gen_fbig(rng, tier):
    b = rng.choice([2, 2, 3, 10, 10, 16])
    mode = rng.choice(MODES)
    if rng.random() < 0.02:
        return Case("s.fromfloat", [mode, "d:%d" % b, rng.choice(["inf", "-inf"]), "d:0", "d:%d" % rng.choice([0, 1, 5])])
    r = rng.random()
    k = rng.choice([1, 1, 2, 3, 4, 8, 20])
    if r < 0.25:
        s = b ** (k - 1)                                  # power of the base (finer spacing below)
    elif r < 0.40:
        s = b ** k - 1                                    # all digits b-1 (carry above)
    elif r < 0.50:
        s = b ** (k - 1) + 1
    elif r < 0.55:
        s = 0
    else:
        s = rng.randrange(1, b ** k)
    if rng.random() < 0.15:
        # integer-valued float with ulp > 1 (positive exponent, no spare precision): the inclusive end
        # point f -+ ulp/2 of a half mode / f itself of a directed mode is an integer and often the simplest
        s = rng.choice([1, 2, 3, 5, 7, b - 1, b + 1, rng.randrange(1, b ** 2)])
        while s % b == 0:
            s //= b
        e = rng.choice([1, 1, 2, 3, 5])
        mode = rng.choice(["HalfAway", "HalfEven", mode])
        if rng.random() < 0.5:
            s = -s
        return Case("s.fromfloat", [mode, "d:%d" % b, hx(s), "d:%d" % e, "d:%d" % ndigits(abs(s), b)])
    while s and s % b == 0:
        s //= b                                           # Repr is normalised: no trailing zero digit
    n = ndigits(s, b)
    p = n + rng.choice([0, 0, 0, 1, 2, 5])
    if rng.random() < 0.08:
        p = 0
    if s == 0 and p == 0:
        p = 3
    e = rng.choice([0, -1, 1, -n, -n + 1, -n - 1, rng.randrange(-30, 31)])
    if rng.random() < 0.5:
        s = -s
    return Case("s.fromfloat", [mode, "d:%d" % b, hx(s), "d:%d" % e, "d:%d" % p])


LEVEL_TEXT = ("Machine-checked Lean 4 theorems, for all integers and all limits >= 1 (no bounds): RBig::simplest_in returns a "
              "reduced fraction strictly inside the interval whose denominator AND numerator magnitude are minimal among all "
              "fractions strictly inside (any end-point order/sign, equal, zero and integer end points), with termination; "
              "farey_neighbors/next_up/next_down return the adjacent element of the Farey sequence of order limit strictly "
              "above/below; nearest returns the closer neighbour with the sign of result - x, Exact iff the denominator fits; "
              "is_simpler_than (text regenerated from the source on every run) is proved to be the documented lexicographic "
              "order (denominator, then numerator magnitude, then sign). The model is "
              "tied to /repo by differential execution; simplest_from_f32/f64: proved to return a fraction that rounds back "
              "(nearest-even, the IEEE specification of C06) to exactly the given float and to be the simplest such fraction, "
              "the interval being the exact preimage of the float; simplest_from_float (FBig): for every base, mode and precision the "
              "rounding set of a float is proved (builder-float's mode definitions) and the required result is proved to round back "
              "and be the simplest such fraction; the code deviates through ErrorBounds (recorded finding), and the driver reproduces "
              "the code exactly from six named deviation switches of that model, so every disagreement is attributed.")
LEVEL_NOTE = ("Trusted: Lean kernel; axioms propext/Classical.choice/Quot.sound; correspondence harness and generators (sampling); "
              "Repr::cmp and dashu-int kernels at their contracts. Repaired in /repo after being found here (fixed: lines in "
              "known_findings.jsonl): is_simpler_than conjunction, simplest_in zero end point, next_up/next_down limit = 1 debug "
              "assertion, simplest_from_f32/f64 interval for large floats. Still recorded as a finding: simplest_from_float (FBig) "
              "through float/src/round.rs ErrorBounds (full ulp below a power of the base, ceil half ulp for odd bases, ulp() of an "
              "unlimited-precision float, HalfEven tie parity).")
TECHNIQUE = "Lean 4 proofs (Stern-Brocot descent, Farey determinant invariant) + differential correspondence model vs real code"
