"""C18 — rational approximation functions return the optimal fraction they promise (DESIGN §8 C18)."""
import struct
from fractions import Fraction
from math import gcd
from vlib.core import Case
from vlib.gens import hx, nat_pattern, PATTERNS, signed

GROUP = "ratio"
LEAN_PROPS = "Dashu.Props.C18"
LEAN_AUDIT = "Dashu.Audit.C18"
# compositions with other groups' proved files, kept apart from the property's own theorems
GEN_PROPS = ["Dashu.Props.C18Link", "Dashu.Props.C18Gen", "Dashu.Props.C18Kernels", "Dashu.Props.C18KernelsCmp", "Dashu.Props.C18KernelsFarey"]
GEN_AUDIT = ["Dashu.Audit.C18Link", "Dashu.Audit.C18Gen", "Dashu.Audit.C18Kernels", "Dashu.Audit.C18KernelsCmp", "Dashu.Audit.C18KernelsFarey"]
USES_GEN = True
JOBS = 12

REFINED = ["Repr::simplest_in (continued-fraction descent: soundness, simultaneous minimality, termination)",
           "RBig::simplest_in (signs, order, equal end points, final reduce)",
           "RBig::farey_neighbors (determinant 1, bracket, bounds, termination)",
           "RBig::next_up / next_down (all limits >= 1, incl. the 1/limit^2 nudge and the early return for an integer with "
           "limit 1, mirrored: next_up_down_limit_one_int)", "RBig::nearest",
           "RBig::is_simpler_than (regenerated text = the documented lexicographic order, is_simpler_than_lexicographic)",
           "pickSimplest (tail of simplest_from_f32/f64/float): optimal over the interior and the allowed end points; equal to the "
           "regenerated end-point selection of simplest_from_float (Props/C18Gen.pick_is_skeleton)",
           "RBig::simplest_from_f32 / simplest_from_f64: result converts back to exactly the float under builder-conv's IEEE "
           "round-to-nearest-even specification (ieeeRoundRat) and is the simplest fraction that does (Props/C18Link: simplest_from_f32_exact, "
           "simplest_from_f64_exact; rounding_set_is_preimage: the interval is the exact preimage for every IEEE binary format)",
           "RBig::simplest_from_float (FBig), required behaviour: every mode is a window (mode_is_window), the rounding set of an "
           "FBig value for every base/mode/precision (fbig_rounding_set_exact), the model's table is that set, and the result rounds "
           "back and is the simplest fraction that does (simplest_from_fbig_exact)",
           "RoundsTo = builder-float's specRound (C03): ilogQ is floor(log_B), ulpExp = binade - precision "
           "(Props/C18Link: ulpExp_is_binade_minus_precision, rounds_to_is_spec_round, simplest_from_fbig_spec_round)",
           "RBig::simplest_from_float entry point (rbigSimplestFromFloat, executed by the driver for every case): None iff the float "
           "is infinite, zero -> 0, unlimited precision -> the number itself for EVERY mode and every switch setting (code = required since the "
           "round-6 repair proposed_fixes/c18-simplest-from-float-unlimited.diff: simplest_from_fbig_none_iff_infinite, "
           "simplest_from_fbig_unlimited); equal to the regenerated early-return skeleton incl. the `f.precision() == 0` return "
           "(Props/C18Gen.entry_is_skeleton, unlimited_path_is_exact — the latter is false for a source without that return)",
           "float/src/round.rs ErrorBounds (all six modes) and the half-ulp formula, Tie A: regenerated decision tables "
           "(Gen/ErrorBounds.lean, vlib/extract_errorbounds.py) proved equal to the code side of the model for every base, mode, sign, "
           "parity (Props/C18Gen: code_rounding_set_is_error_bounds, error_bounds_unlimited); since round 6 ALSO driven directly: op eb.bounds calls "
           "<R as ErrorBounds>::error_bounds(&f) and compares L, R, incl_L, incl_R with errorBoundsFBig, whose code side is proved to be "
           "the regenerated table for positive and negative floats (error_bounds_model_is_tables, error_bounds_model_unlimited) and whose "
           "required side is proved to be the two ends + flags of the rounding set (Props/C18.error_bounds_required_is_rounding_set)",
           "impl_simplest_from_float! (simplest_from_f32/f64), Tie A: below / center / above / shifts / parity test regenerated from "
           "the macro body and proved equal to the model's roundingInterval and parity rule for every format "
           "(Props/C18Gen: rounding_interval_is_macro, min_exp_f32_f64, ends_allowed_is_mantissa_parity)",
           "IBig::div_rem of the descent = C02's mirrored and proved division, gcd of every reduce = C12's proved gcd, for every word "
           "size (Props/C18Kernels: descent_div_rem_is_proved_kernel, reduce_gcd_is_proved_kernel, reduce_over_proved_gcd)",
           "the WHOLE loop of Repr::simplest_in over the proved word-level kernels (round 7): simplestLoopW = the loop text with every "
           "div_rem / * / + / - going through C02's ibigDivRem and C01's ibigMul / ibigAdd / ibigSub on canonical representations, "
           "proved equal to the model's Int loop for every word size >= 4, state, fuel and ownership form "
           "(Props/C18Kernels.descent_over_proved_kernels), hence terminating with the fraction of minimal numerator and denominator "
           "(kernel_descent_optimal)",
           "the exit test `num_l < den_l` of that loop (round 8): PartialOrd/Ord for IBig through C05's mirrored integer/src/cmp.rs "
           "(ibigOrdW: sign match, TypedReprRef::cmp, cmp_same_len / cmp_in_place) on canonical representations is `<` on the values for "
           "every word size (Props/C18KernelsCmp.ltW_eq, via C14Link.ibig_ord_mirrored); simplestLoopWC = the loop with EVERY operation "
           "(div_rem, *, +, -, <) on the proved word-level kernels = the model's loop (descent_with_cmp_over_proved_kernels), optimal "
           "(kernel_descent_with_cmp_optimal)",
           "the loop of RBig::farey_neighbors over the proved kernels (round 8): fareyLoopW = the loop text with the mediant "
           "`&left.numerator + &right.numerator` (IBig, C01 ibigAdd), `&left.denominator + &right.denominator` (UBig, C01 TRepr.add) and both "
           "tests `&next.denominator > limit` (Ord for UBig, C05's mirrored cmp) on canonical representations, proved equal to the model's "
           "fareyLoop for every word size >= 4, target, limit, fuel, bracket, ownership form (Props/C18KernelsFarey.farey_over_proved_kernels)",
           "where the code's error bounds ARE the rounding set (even base, significand not a power of the base, HalfEven parity "
           "condition): code_set_is_rounding_set_on_class, code_optimal_on_class — the complement of the recorded finding as a theorem",
           "Repr::cmp used by the model (cmpQ) = the regenerated repr_cmp of rational/src/cmp.rs (Props/C18Link.cmpQ_is_regenerated_repr_cmp, "
           "composition with Props/GenRatCmp and C14's ratReprCmp_spec)"]
FRONTIER = ["the correspondence model <-> code of simplest_from_float (FBig) is by THREE named deviation switches (uniformUlp, ceilHalf, "
            "oddIncl: the code's ErrorBounds is defective, recorded finding; each switch is tied to the regenerated "
            "source table by Props/C18Gen); the optimality theorems are about the required behaviour (Quirks.none)",
            "an FBig whose significand has more digits than its context precision (constructible with FBig::from_repr only) is "
            "outside the statement: no number rounds to it at that precision (model: malformed input, never generated)",
            "precisions / exponents beyond a few thousand digits are not driven: RBig materialises B^|exponent| and the model "
            "B^(precision - digits), memory proportional to the argument; at precision >= 2^63 the code itself breaks (FBig::ulp casts the precision to isize, "
            "float/src/fbig.rs:402; `precision + 1` overflows at usize::MAX, dashu_float.rs:198): reported, not driven",
            "next_up / next_down / an inexact nearest with limits beyond ~3000 are not driven: farey_neighbors is linear in limit "
            "(theorems cover every limit); nearest with multi-word limits is driven on its Exact arm",
            "IBig multiplication / addition / shifts inside the INTERVAL CONSTRUCTION (roundingInterval, scaleQ / powQ of the FBig path, "
            "the additions / multiplications of next_up / next_down / nearest around farey_neighbors: R.add, R.sub, addSubInt) are Lean Int arithmetic "
            "(contract of C01; the mediant additions and denominator tests of the farey_neighbors loop itself are linked since round 8, "
            "Props/C18KernelsFarey.farey_over_proved_kernels; C04Link.ring_contracts_are_proved_kernels is the composition for the same operations); the descent "
            "loop itself (div_rem, *, +, -, and since round 8 its exit test `num_l < den_l`) and the gcd are linked by theorem "
            "(Props/C18Kernels: descent_over_proved_kernels; Props/C18KernelsCmp: descent_with_cmp_over_proved_kernels)"]
RULE = ("simplest_in: end points from {small fractions, neighbours in a Farey sequence, convergents of a random continued "
        "fraction (very narrow intervals, large denominators), integers, zero, huge/tiny, numerators/denominators of EVERY bit "
        "length 1..200 and 2^j, 2^j+-1 at word/double-word boundaries} in both orders, equal, negative, "
        "sign-straddling, zero/integer end points; is_simpler_than: pairs agreeing/differing in denominator, |numerator|, "
        "sign in every combination; next_up/next_down/nearest: limits 1..300 (linear-time walk) against x with denominator "
        "<, =, > limit, integers, negatives, exact midpoints of neighbours (ties), integers with limit 1 (early return), limit 0 "
        "(panic); nearest with limits 2^31..2^200 (one to four words, 2^32+-k, 2^64+-k) on the Exact arm; "
        "simplest_from_f32/f64: EVERY exponent field of f32 and (thorough) of f64 with mantissas 0, 1, max, max-1; mantissas "
        "2^j, 2^j+-1 for every j at random exponents; bit patterns around "
        "every power of two, subnormals, least/greatest finite, even/odd mantissas, exponents on both sides of the "
        "mantissa width, quotients p/q of small integers, NaN/inf/zeros; simplest_from_float: 6 modes x bases "
        "{2,3,4,5,7,8,10,16,36,100,255} x significands {B^k, B^k-1, B^k+1, ~B^k/2, random, 0} for k of every length 1..40 "
        "(thorough 1..150) x precision {digits, digits+1, +2, +62..66, +127..129, up to +300 (thorough +1500), 0 = unlimited (8% of every significand class, plus a DIRECTED grid: every mode x every base x {one digit, two digits, B^k-1, B^k+1, B^k/2 and neighbours, random}, both signs)} x "
        "exponents {0, +-1, around -digits, -precision, +-64, +-128, +-300 (thorough +-2000)} x signs, plus +inf/-inf of every "
        "mode/base with context precision 0 .. usize::MAX (None); eb.bounds (ErrorBounds::error_bounds directly): the same finite float classes, "
        "every mode/base, limited and unlimited precision. Non-trivial := not an integer-only or equal-end-point "
        "case; distinct := distinct case lines.")
EXPLANATION = ("Theorems (all integers, all limits): simplest_in returns a reduced fraction strictly inside the interval whose "
               "numerator magnitude and denominator are both minimal among all fractions strictly inside (Stern-Brocot "
               "argument over the descent, termination by denL+denR); farey_neighbors keeps determinant 1 and ends with "
               "denominator sum > limit, hence consecutive Farey elements; next_up/next_down return the adjacent Farey "
               "element for every limit >= 1; nearest picks the closer with the sign of result - x, Exact iff the denominator "
               "fits; is_simpler_than (text regenerated from the source on every run) is exactly the documented "
               "lexicographic order.")
ASSUMPTIONS = ["dashu-int mul/add/shift meet their contracts (C01) outside the descent loop; the descent loop (div_rem, mul, add, sub) and gcd are linked to C01/C02/C12 by theorem"]
THEOREMS = []
READY = True


def nontrivial(c):
    return True


def q(n, d):
    return "q:%s/%x:R" % (hx(n), d)


def rnd_frac(rng, tier):
    r = rng.random()
    if r < 0.35:
        return Fraction(rng.randrange(-40, 41), rng.randrange(1, 30))
    if r < 0.55:
        return Fraction(signed(rng, rng.getrandbits(rng.choice([8, 16, 40, 64, 70]))), rng.getrandbits(rng.choice([4, 16, 40, 64, 70])) + 1)
    if r < 0.65:
        return Fraction(rng.randrange(-5, 6))
    if r < 0.7:
        return Fraction(0)
    if r < 0.78:
        # (E2) numerator / denominator of EVERY bit length, and the boundary values 2^j, 2^j +- 1 (word and
        # double-word boundaries of the dashu-int kernels underneath included: j = 63, 64, 65, 127, 128, 129)
        def mag():
            j = rng.choice([rng.randrange(1, 200), 31, 32, 63, 64, 65, 127, 128, 129])
            return max(1, rng.choice([(1 << j) - 1, 1 << j, (1 << j) + 1, rng.getrandbits(j) | (1 << (j - 1))]))
        return Fraction(signed(rng, mag()), mag())
    # convergent of a random continued fraction
    k = rng.randrange(2, 60 if tier == "quick" else 400)
    h0, h1, k0, k1 = 1, rng.randrange(0, 4), 0, 1
    for _ in range(k):
        a = rng.choice([1, 1, 1, 2, 2, 3, 5, 20, 1000, 1 << 40])
        h0, h1 = h1, a * h1 + h0
        k0, k1 = k1, a * k1 + k0
    f = Fraction(h1, k1)
    return -f if rng.random() < 0.3 else f


def float_bits(rng, w):
    """bit patterns of f32 (w=32) / f64 (w=64) around the branch points of simplest_from_float"""
    eb, mb = (8, 23) if w == 32 else (11, 52)
    emax = (1 << eb) - 1
    bias = (1 << (eb - 1)) - 1
    r = rng.random()
    sign = rng.getrandbits(1) << (w - 1)
    if r < 0.06:
        return sign | (emax << mb) | rng.choice([0, 1, 1 << (mb - 1), (1 << mb) - 1])      # inf / NaN
    if r < 0.10:
        return sign                                                                          # zeros
    if r < 0.22:
        m = rng.choice([1, 2, 3, (1 << mb) - 1, (1 << mb) - 2, 1 << (mb - 1), rng.getrandbits(mb) or 1])
        return sign | m                                                                      # subnormals
    if r < 0.30:
        return sign | (rng.choice([1, 2, emax - 1]) << mb) | rng.choice([0, 1, (1 << mb) - 1, (1 << mb) - 2])
    if r < 0.55:
        # around powers of two, both sides of the mantissa width (exp <= 0 / exp > 0)
        e = bias + rng.choice([-3, -1, 0, 1, 2, mb - 2, mb - 1, mb, mb + 1, mb + 2, mb + 3, mb + 10, mb + 40,
                               rng.randrange(1 - bias, bias + 1)])
        e = min(max(e, 1), emax - 1)
        m = rng.choice([0, 0, 1, 2, 3, (1 << mb) - 1, (1 << mb) - 2])
        return sign | (e << mb) | m
    if r < 0.80:
        # quotients of small integers rounded to the float
        p, qq = rng.randrange(1, 2000), rng.randrange(1, 2000)
        f = p / qq
        if w == 32:
            b = struct.unpack("<I", struct.pack("<f", f))[0]
        else:
            b = struct.unpack("<Q", struct.pack("<d", f))[0]
        return sign | b
    if r < 0.90:
        # (E2) mantissa 2^j - 1, 2^j, 2^j + 1 for EVERY j < mb at a uniformly random exponent (subnormals included)
        j = rng.randrange(0, mb + 1)
        m = rng.choice([(1 << j) - 1, 1 << j, (1 << j) + 1]) & ((1 << mb) - 1)
        return sign | (rng.randrange(0, emax) << mb) | m
    e = rng.randrange(1, emax)
    return sign | (e << mb) | rng.getrandbits(mb)


def float_sweep(rng, tier):
    """(E1/E2) EVERY exponent field value of f32 (quick: a stride of f64's, thorough: all 2048) with the mantissas
    0 (power of two: the half-width gap below), 1, all-ones (carry into the next binade); both parities"""
    for e in range(0, 256):
        for m in (0, 1, (1 << 23) - 1, (1 << 23) - 2):
            yield Case("s.fromf32", ["x:%08x" % ((rng.getrandbits(1) << 31) | (e << 23) | m)])
    step = 1 if tier != "quick" else 16
    off = rng.randrange(step)
    for e in list(range(off, 2048, step)) + [0, 1, 2, 2045, 2046, 2047, 1023, 1022, 1024, 1075, 1076, 1074]:
        for m in (0, 1, (1 << 52) - 1, (1 << 52) - 2):
            yield Case("s.fromf64", ["x:%016x" % ((rng.getrandbits(1) << 63) | (e << 52) | m)])


BIG_LIMITS = [1 << 31, (1 << 32) - 1, 1 << 32, (1 << 32) + 1, 1 << 63, (1 << 64) - 1, 1 << 64, (1 << 64) + 1,
              (1 << 127) + 1, 1 << 128, (1 << 128) + 1, 1 << 200]


def gen_big_limit(rng, tier):
    """(E1) `nearest` with a limit far beyond what the linear Farey walk can serve: only the `Exact` arm
    (denominator <= limit) is reachable cheaply — limits of one, two, three and four words, denominators of every bit
    length below them, the boundary denominator = limit exactly.  (next_up / next_down / an inexact nearest with such a
    limit need time proportional to the limit: not drivable.)"""
    lim = rng.choice(BIG_LIMITS) + rng.choice([0, 0, rng.randrange(0, 130)])
    r = rng.random()
    if r < 0.3:
        d = lim
    elif r < 0.5:
        d = max(1, lim - rng.randrange(1, 130))
    else:
        d = max(1, rng.getrandbits(rng.randrange(1, lim.bit_length())))
    n = signed(rng, rng.getrandbits(rng.randrange(1, 260)))
    x = Fraction(n, d)
    return Case("s.nearest", [q(x.numerator, x.denominator), "u:%x" % lim])


def generate(rng, tier):
    quick = tier == "quick"
    # ---- is_simpler_than
    for _ in range(400 if quick else 6000):
        a = rnd_frac(rng, tier)
        r = rng.random()
        if r < 0.25:
            b = Fraction(a.numerator + rng.choice([-2, -1, 1, 2]) * 0 + rng.choice([-1, 1]) * a.numerator * 0 + a.numerator, a.denominator)
            b = -a
        elif r < 0.5:
            n2 = a.numerator + rng.choice([-3, -2, -1, 1, 2, 3]) * a.denominator
            b = Fraction(n2, a.denominator) if gcd(abs(n2), a.denominator) == 1 else rnd_frac(rng, tier)
        elif r < 0.6:
            b = a
        else:
            b = rnd_frac(rng, tier)
        yield Case("s.simpler", [q(a.numerator, a.denominator), q(b.numerator, b.denominator)])
    # ---- simplest_in
    for _ in range(1200 if quick else 30000):
        a = rnd_frac(rng, tier)
        r = rng.random()
        if r < 0.08:
            b = a
        elif r < 0.16:
            b = -a
        elif r < 0.24:
            b = Fraction(0)
        elif r < 0.45:
            # very narrow: a ± tiny
            d = a.denominator * rng.choice([1, 2, 7, 1 << 20, 1 << 70, rng.getrandbits(40) + 1])
            b = a + Fraction(rng.choice([-1, 1]), d * rng.choice([1, a.denominator + 1]))
        elif r < 0.55:
            b = a + rng.choice([-2, -1, 1, 2])                  # contains integers
        elif r < 0.62:
            b = Fraction(rng.randrange(-6, 7))                   # integer end point
        else:
            b = rnd_frac(rng, tier)
        yield Case("s.in", [q(a.numerator, a.denominator), q(b.numerator, b.denominator)])
    # ---- next_up / next_down / nearest (the walk is linear in `limit`: keep limits small)
    maxlim = 300 if quick else 3000
    for _ in range(700 if quick else 12000):
        lim = rng.choice([1, 1, 2, 3, 4, 5, 7, 10, 16, 33, 100, rng.randrange(1, maxlim)])
        r = rng.random()
        if r < 0.25:
            x = Fraction(rng.randrange(-50, 51), rng.randrange(1, lim + 1))      # denominator fits
        elif r < 0.35:
            x = Fraction(rng.randrange(-9, 10))
        elif r < 0.5:
            # exact midpoint of two neighbouring fractions (tie for nearest)
            d1 = rng.randrange(1, lim + 1); d2 = rng.randrange(1, lim + 1)
            x = (Fraction(rng.randrange(0, d1 + 1), d1) + Fraction(rng.randrange(0, d2 + 1), d2)) / 2 + rng.randrange(-3, 4)
        elif r < 0.6:
            x = Fraction(rng.randrange(-50, 51), lim + rng.choice([0, 1, 2]))
        elif r < 0.72 and lim >= 2:
            # just beside k/limit: the neighbour on that side has denominator exactly `limit`
            k0 = rng.randrange(1, lim)
            while gcd(k0, lim) != 1:
                k0 = rng.randrange(1, lim)
            x = Fraction(k0, lim) + Fraction(rng.choice([-1, 1]), lim * lim * rng.choice([3, 7, 1000])) + rng.randrange(-3, 4)
        else:
            x = rnd_frac(rng, tier) if rng.random() < 0.5 else Fraction(signed(rng, rng.getrandbits(40)), rng.getrandbits(40) + 1)
        if rng.random() < 0.02:
            lim = 0
        op = rng.choice(["s.nextup", "s.nextdown", "s.nearest"])
        yield Case(op, [q(x.numerator, x.denominator), "u:%x" % lim])
    # ---- simplest_from_f32 / f64
    for _ in range(900 if quick else 20000):
        if rng.random() < 0.5:
            yield Case("s.fromf32", ["x:%08x" % float_bits(rng, 32)])
        else:
            yield Case("s.fromf64", ["x:%016x" % float_bits(rng, 64)])
    for c in float_sweep(rng, tier):
        yield c
    # ---- (E1) nearest with multi-word limits (Exact arm), next_up/next_down of an integer with limit 1 (early return)
    for _ in range(120 if quick else 3000):
        yield gen_big_limit(rng, tier)
    for _ in range(40 if quick else 400):
        x = signed(rng, rng.choice([0, 1, 2, rng.getrandbits(rng.randrange(1, 140))]))
        yield Case(rng.choice(["s.nextup", "s.nextdown", "s.nearest"]), [q(x, 1), "u:1"])
    # ---- simplest_from_float (FBig): modes x bases {2, 3, 10, 16} x significands around powers of the base
    for _ in range(900 if quick else 20000):
        yield gen_fbig(rng, tier)
    # ---- the same over all driven bases, significands B^k, B^k +- 1 of EVERY length, large precisions / exponents,
    #      infinities carried by a context of any precision
    for _ in range(900 if quick else 20000):
        yield gen_fbig2(rng, tier)
    # ---- (round 6) DIRECTED: unlimited precision (context precision 0) — every mode x every driven base x significands of
    #      one digit / two digits / B^k - 1 (carry when cut to fewer digits) / exact half B^k/2 and its neighbours (ties) /
    #      B^k + 1 / random, both signs: the result must be the number itself (class of the defect repaired by 39e9a8a:
    #      any arithmetic on the float inside simplest_from_float that rounds to a finite context)
    for c in unlimited_grid(rng, tier):
        yield c
    # ---- (round 6) ErrorBounds::error_bounds called directly (op eb.bounds): the same float classes as simplest_from_float
    #      (both generators: significands around powers of the base, every base/mode, precision digits+k and 0), finite only
    for _ in range(700 if quick else 12000):
        c = gen_fbig2(rng, tier) if rng.random() < 0.6 else gen_fbig(rng, tier)
        if c.args[2] in ("inf", "-inf", "0", "-0"):
            continue
        yield Case("eb.bounds", list(c.args))
    for c in unlimited_grid(rng, tier):
        if rng.random() < 0.3:
            yield Case("eb.bounds", list(c.args))


MODES = ["Zero", "Away", "Up", "Down", "HalfAway", "HalfEven"]


def unlimited_grid(rng, tier):
    quick = tier == "quick"
    for mode in MODES:
        for b in ALL_BASES:
            ks = [2, rng.randrange(3, 12)] if quick else [2, 3, rng.randrange(4, 12), rng.randrange(12, 60)]
            sigs = [rng.randrange(1, b), b + 1, b * rng.randrange(1, b) + rng.randrange(1, b)]
            for k in ks:
                half = (b ** k) // 2
                sigs += [b ** k - 1, b ** k + 1, half, half + 1, max(half - 1, 1), rng.randrange(b ** (k - 1), b ** k)]
            for s0 in sigs:
                while s0 % b == 0:
                    s0 //= b
                e = rng.choice([0, 0, 1, -1, -ndigits(s0, b), rng.randrange(-20, 21)])
                yield Case("s.fromfloat", [mode, "d:%d" % b, hx(s0 if rng.random() < 0.5 else -s0), "d:%d" % e, "d:0"])


def ndigits(n, b):
    k = 0
    while n:
        n //= b; k += 1
    return k


def gen_fbig(rng, tier):
    b = rng.choice([2, 2, 3, 10, 10, 16])
    mode = rng.choice(MODES)
    if rng.random() < 0.02:
        return Case("s.fromfloat", [mode, "d:%d" % b, rng.choice(["inf", "-inf"]), "d:0", "d:%d" % rng.choice([0, 1, 5])])
    r = rng.random()
    k = rng.choice([1, 1, 2, 3, 4, 8, 20])
    if r < 0.25:
        s = b ** (k - 1)                                  # power of the base (finer spacing below)
    elif r < 0.40:
        s = b ** k - 1                                    # all digits b-1 (carry above)
    elif r < 0.50:
        s = b ** (k - 1) + 1
    elif r < 0.55:
        s = 0
    else:
        s = rng.randrange(1, b ** k)
    if rng.random() < 0.15:
        # integer-valued float with ulp > 1 (positive exponent, no spare precision): the inclusive end
        # point f -+ ulp/2 of a half mode / f itself of a directed mode is an integer and often the simplest
        s = rng.choice([1, 2, 3, 5, 7, b - 1, b + 1, rng.randrange(1, b ** 2)])
        while s % b == 0:
            s //= b
        e = rng.choice([1, 1, 2, 3, 5])
        mode = rng.choice(["HalfAway", "HalfEven", mode])
        if rng.random() < 0.5:
            s = -s
        return Case("s.fromfloat", [mode, "d:%d" % b, hx(s), "d:%d" % e, "d:%d" % ndigits(abs(s), b)])
    while s and s % b == 0:
        s //= b                                           # Repr is normalised: no trailing zero digit
    n = ndigits(s, b)
    p = n + rng.choice([0, 0, 0, 1, 2, 5])
    if rng.random() < 0.08:
        p = 0
    if s == 0 and p == 0:
        p = 3
    e = rng.choice([0, -1, 1, -n, -n + 1, -n - 1, rng.randrange(-30, 31)])
    if rng.random() < 0.5:
        s = -s
    return Case("s.fromfloat", [mode, "d:%d" % b, hx(s), "d:%d" % e, "d:%d" % p])


ALL_BASES = [2, 3, 4, 5, 7, 8, 10, 16, 36, 100, 255]


def gen_fbig2(rng, tier):
    """(E1/E2) all driven bases (odd bases 3, 5, 7, 255: the half-ulp ceiling; powers of two; 36, 100), significands
    B^k - 1, B^k, B^k + 1, B^k/2-ish ties for k of EVERY length up to kmax, precision = digits + {0, 1, 2, 62..66, 127..129,
    a few hundred} and 0 (unlimited), exponents 0, +-1, around -digits, and large (+-64, +-300, thorough +-2000: the
    value B^|exp| is materialised, so not more), infinities with every precision"""
    quick = tier == "quick"
    b = rng.choice(ALL_BASES)
    mode = rng.choice(MODES)
    if rng.random() < 0.03:
        return Case("s.fromfloat", [mode, "d:%d" % b, rng.choice(["inf", "-inf"]), "d:0",
                                    "d:%d" % rng.choice([0, 1, 2, 5, 64, 1000, (1 << 32) + 1, (1 << 63) - 1, (1 << 64) - 1])])
    kmax = 40 if quick else 150
    k = rng.randrange(1, kmax + 1)
    r = rng.random()
    if r < 0.2:
        s = b ** k
    elif r < 0.4:
        s = b ** k - 1
    elif r < 0.55:
        s = b ** k + 1
    elif r < 0.65:
        s = (b ** k) // 2 + rng.choice([-1, 0, 1])             # around half of the next power
    elif r < 0.75:
        s = rng.choice([1, 2, b - 1, b + 1, b // 2, b // 2 + 1])
    else:
        s = rng.randrange(1, b ** k)
    s = max(s, 1)
    while s % b == 0:
        s //= b
    n = ndigits(s, b)
    p = n + rng.choice([0, 0, 0, 1, 1, 2, 5, 62, 63, 64, 65, 66, 127, 128, 129, rng.randrange(0, 300 if quick else 1500)])
    if rng.random() < 0.08:
        p = 0
    big = [64, -64, 65, -65, 128, -128, 300, -300] + ([] if quick else [1000, -1000, 2000, -2000])
    e = rng.choice([0, -1, 1, -n, -n + 1, -n - 1, -p, 1 - p, rng.randrange(-30, 31), rng.choice(big)])
    if rng.random() < 0.5:
        s = -s
    return Case("s.fromfloat", [mode, "d:%d" % b, hx(s), "d:%d" % e, "d:%d" % p])


LEVEL_TEXT = ("Machine-checked Lean 4 theorems, for all integers and all limits >= 1 (no bounds): RBig::simplest_in returns a "
              "reduced fraction strictly inside the interval whose denominator AND numerator magnitude are minimal among all "
              "fractions strictly inside (any end-point order/sign, equal, zero and integer end points), with termination; "
              "farey_neighbors/next_up/next_down return the adjacent element of the Farey sequence of order limit strictly "
              "above/below; nearest returns the closer neighbour with the sign of result - x, Exact iff the denominator fits; "
              "is_simpler_than (text regenerated from the source on every run) is proved to be the documented lexicographic "
              "order (denominator, then numerator magnitude, then sign). The model is "
              "tied to /repo by differential execution; simplest_from_f32/f64: proved to return a fraction that rounds back "
              "(nearest-even, the IEEE specification of C06) to exactly the given float and to be the simplest such fraction, "
              "the interval being the exact preimage of the float; simplest_from_float (FBig): for every base, mode and precision the "
              "rounding set of a float is proved (builder-float's mode definitions) and the required result is proved to round back "
              "and be the simplest such fraction; the code deviates through ErrorBounds (recorded finding), and the driver reproduces "
              "the code exactly from three named deviation switches of that model, so every disagreement is attributed; the code side "
              "of the model (error_bounds of all six modes, the half-ulp formula, the early returns and the end-point selection of "
              "simplest_from_float) is proved equal to tables regenerated from the source on every run (Props/C18Gen), the rounding "
              "relation is proved to be builder-float's specRound (Props/C18Link), and the special inputs (infinite -> None, zero, "
              "unlimited precision -> the number itself) are theorems about the function the driver executes.")
LEVEL_NOTE = ("Trusted: Lean kernel; axioms propext/Classical.choice/Quot.sound; correspondence harness and generators (sampling); "
              "dashu-int ring kernels at their contracts (div_rem / gcd linked to C02 / C12 by theorem). Repaired in /repo after being found here (fixed: lines in "
              "known_findings.jsonl): is_simpler_than conjunction, simplest_in zero end point, next_up/next_down limit = 1 debug "
              "assertion, simplest_from_f32/f64 interval for large floats. Still recorded as a finding: simplest_from_float (FBig) "
              "through float/src/round.rs ErrorBounds (full ulp below a power of the base, ceil half ulp for odd bases, HalfEven tie parity). "
              "Round 6: /repo 164990d (zero-operand float add rounds) made simplest_from_float round an unlimited-precision float to one digit; "
              "repaired by an early exact return, which also removes the ulp() panic of Away/Up/Down at precision 0 from this function.")
TECHNIQUE = "Lean 4 proofs (Stern-Brocot descent, Farey determinant invariant) + differential correspondence model vs real code"
