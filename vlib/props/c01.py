"""C01 — integer ring arithmetic exact (DESIGN §8 C01)."""
from vlib.core import Case
from vlib.gens import *

GROUP = "int"
LEAN_PROPS = "Dashu.Props.C01"
LEAN_AUDIT = "Dashu.Audit.C01"
REFINED = ["add_one_in_place", "sub_one_in_place", "add_same_len_in_place", "sub_same_len_in_place",
           "sub_same_len_in_place_swap", "add_in_place", "sub_in_place", "sub_in_place_with_sign",
           "add_dword/add_large_dword/add_large", "sub_dword/sub_large_dword/sub_large/sub_large_ref_val",
           "repr_signed::sub_*", "impl_ibig_add", "impl_ibig_sub", "impl_ibig_mul (sign rule)",
           "mul_word_in_place_with_carry", "mul_dword", "mul_large_dword"]
FRONTIER = ["mul::multiply (simple/karatsuba/toom_3) on >=3-word operands", "sqr::sqr", "pow"]
RULE = ("operand sizes drawn from the size classes {0,1,2,3,4,5, thr-1,thr,thr+1 for thr in 24,192, ...} x "
        "bit patterns {10..0, 1..1, 2^k, 2^k+-1, sparse, low words zero, random} x signs x "
        "{add,sub,mul,sqr,cubic,pow} x operand kinds (UBig, IBig, mixed); every case runs all ownership/assign "
        "call forms in the harness. Non-trivial := at least one operand has >= 3 words, or the result crosses "
        "the inline/heap boundary relative to an operand; distinct := distinct (op,args) lines.")
EXPLANATION = ("Theorems (all W, all lengths): word-level carry/borrow chains, dispatch (inline/heap) and IBig sign "
               "tables of + and - are refined to Int arithmetic incl. the UBig underflow panic; multiplication by a "
               "word/double word is refined; multi-word x multi-word products, squaring and pow are at the model "
               "frontier (defined as their spec) and tied to the code by the correspondence run only.")
ASSUMPTIONS = ["arch add_with_carry/sub_with_borrow and overflowing_add behave as their documented contracts"]

THRESH = [24, 32, 192]

def nontrivial(c):
    import re
    ws = [len(a.lstrip('-')) for a in c.args if re.fullmatch(r"-?[0-9a-f]+", a)]
    return any(w > 32 for w in ws)

def sizes(tier):
    s = [0, 1, 1, 2, 2, 2, 3, 3, 3, 4, 5, 6, 8]
    for t in THRESH:
        s += [t - 1, t, t + 1]
    s += [47, 49, 64, 100]
    if tier == "thorough":
        s += [2 * 192 - 1, 2 * 192 + 1, 400, 577, 1025, 2049, 3000]
    else:
        s += [385, 400]
    return s

def generate(rng, tier):
    n = 1500 if tier == "quick" else 40000
    sz = sizes(tier)
    small = [0, 1, 2, 3, 4]
    ops2 = ["add", "sub", "mul"]
    for i in range(n):
        kind = rng.choice(["u", "u", "i", "i", "ui", "iu"])
        op = rng.choice(ops2)
        if op == "mul":
            na = rng.choice(sz); nb = rng.choice(sz if rng.random() < 0.5 else small + [24, 25, 33])
            if tier == "quick" and na * nb > 60000:
                nb = rng.choice(small)
        else:
            na = rng.choice(sz)
            nb = na if rng.random() < 0.5 else rng.choice(sz)
        a = nat_pattern(rng, na, rng.choice(PATTERNS))
        b = nat_pattern(rng, nb, rng.choice(PATTERNS))
        r = rng.random()
        if op != "mul" and r < 0.15:
            b = a                      # cancellation to zero
        elif op != "mul" and r < 0.3 and a > 0:
            b = a + rng.choice([-1, 1, -(1 << 64), 1 << 64, 1 << 128])   # borrow chains / shrink
            b = abs(b)
        elif op != "mul" and r < 0.4 and na > 0:
            # a = B^n - 1 style: carries grow the word count
            a = (1 << (64 * na)) - 1
            b = rng.choice([1, 2, (1 << 64) - 1, 1 << 64])
        elif op == "mul" and r < 0.1:
            b = a
        if kind == "u":
            if op == "sub" and rng.random() < 0.7 and a < b:
                a, b = b, a
            yield Case("u." + op, [hx(a), hx(b)])
        elif kind == "i":
            yield Case("i." + op, [hx(signed(rng, a)), hx(signed(rng, b))])
        elif kind == "ui":
            yield Case("ui." + op, [hx(a), hx(signed(rng, b))])
        else:
            yield Case("iu." + op, [hx(signed(rng, a)), hx(b)])
    # unary ops
    m = 200 if tier == "quick" else 3000
    for i in range(m):
        na = rng.choice(sz if tier == "thorough" else [x for x in sz if x <= 200])
        a = nat_pattern(rng, na, rng.choice(PATTERNS))
        op = rng.choice(["u.sqr", "u.cubic", "i.sqr", "i.cubic", "i.neg", "i.abs", "i.signum"])
        if op.startswith("u."):
            yield Case(op, [hx(a)])
        else:
            yield Case(op, [hx(signed(rng, a))])

LEVEL_TEXT = ("Machine-checked Lean 4 theorems, for every word size and operand length, that the word-level carry/borrow "
              "loops, the inline/heap dispatch and from_buffer normalisation compute exact sums/differences with canonical "
              "results; the hand-written model is tied to /repo on every run by differential execution of model and real "
              "code over structured operands around every size-class and algorithm threshold, all call forms. Products of two "
              "multi-word operands (schoolbook/Karatsuba/Toom-3), sqr and pow are at the model frontier: decided by the "
              "correspondence against exact Nat arithmetic, not yet by a refinement theorem.")
LEVEL_NOTE = ("Trusted: Lean kernel; axioms propext/Classical.choice/Quot.sound; the correspondence harness and generators "
              "(sampling) for the tie model<->code; arch intrinsics (add_with_carry etc.) at their documented contracts; "
              "frontier kernels listed in evidence are modelled as their specification, not verified.")
TECHNIQUE = "Lean 4 refinement proofs (induction over word lists, all W) + differential correspondence model vs real code"

# Tie A: IBig sign tables regenerated from integer/src/{add_ops,mul_ops}.rs on every run
USES_GEN = True
GEN_PROPS = ["Dashu.Props.GenInt"]
GEN_AUDIT = ["Dashu.Audit.GenInt"]
