"""C01 — integer ring arithmetic exact (DESIGN §8 C01)."""
from vlib.core import Case
from vlib.gens import *

GROUP = "int"
LEAN_PROPS = "Dashu.Props.C01"
LEAN_AUDIT = "Dashu.Audit.C01"
REFINED = ["add_one_in_place", "sub_one_in_place", "add_word_in_place", "sub_word_in_place",
           "add_same_len_in_place", "sub_same_len_in_place", "sub_same_len_in_place_swap",
           "add_in_place", "sub_in_place (borrow <=> lhs < rhs)", "add_dword_in_place", "sub_dword_in_place",
           "sub_in_place_with_sign (value, sign, zeroed top words)",
           "Repr::from_buffer", "add_dword/add_large_dword/add_large",
           "sub_dword/sub_large_dword/sub_large/sub_large_ref_val (NegativeUBig iff a < b)",
           "repr_signed::sub_dword/sub_large/SubSigned (all forms)", "Repr::with_sign/neg, into_sign_repr",
           "impl_ibig_add", "impl_ibig_sub", "impl_ibig_mul (sign rule)",
           "mul_word_in_place_with_carry", "shl_in_place (as used by mul_large_dword)", "is_power_of_two",
           "mul_dword_in_place (incl. leftover word)", "mul_dword/mul_dword_spilled", "mul_large_dword",
           "TypedReprRef::sqr small arm / square_dword_spilled",
           "sqr::simple::square (triangular loop with c0, fused diagonal/doubling loop with c1,c2; the final carry "
           "bits are zero)", "sqr::sqr dispatch (MAX_LEN_SIMPLE), square_large, equal-operands shortcut of mul_large",
           "add_mul_word_same_len_in_place", "add_mul_word_in_place",
           "sub_mul_word_same_len_in_place (carry_plus_max: no underflow, fits DoubleWord)",
           "simple::add_mul_chunk / sub_mul_chunk / add_signed_mul_chunk",
           "add_signed_word_in_place / add_signed_same_len_in_place / add_signed_in_place",
           "helpers::add_signed_mul_split_into_chunks (signed carry at c[n] across chunks, remainder in either order)",
           "karatsuba::add_signed_mul_same_len (three products, carry_c0/carry_c1 placement) and karatsuba::add_signed_mul",
           "toom_3::add_signed_mul_same_len (five evaluations, interpolation t1/t2 with exact /6 and /2, 'never negative', "
           "carry_c0..carry_c3) and toom_3::add_signed_mul",
           "mul::add_signed_mul_same_len / mul::add_signed_mul dispatch (thresholds regenerated from source), "
           "simple::add_signed_mul, mul::multiply (asserted-zero carry is zero), mul_large for unequal operands",
           "scratch memory: memory.rs bump allocation (word counter) + memory_requirement_* of mul/karatsuba/toom_3/sqr + "
           "mul_large/square_large sizing: 'not enough memory allocated' unreachable for every operand size",
           "math::max_exp_in_word (k >= 1, base^k fits a word)", "pow binary loop (pow_word_base/pow_dword_base/pow_large_base)",
           "pow_word_base shortcuts (0,1,2,2^k) and word lifting", "TypedReprRef::pow shortcuts 0/1/2",
           "UBig::pow factor-2 removal", "IBig::pow sign rule",
           "pow_word_base/pow_dword_base with real buffers (what the driver runs): capacity assertions, scratch "
           "allocation, 'never resize', length bounds exp/wexp+1 and 2*exp; TypedReprRef::pow / UBig::pow / IBig::pow end to end",
           "composition: Toom-3's div_by_word_in_place(t1,6) / shr_in_place(t2,1) are exactly C02's mirrored kernels with "
           "remainder 0; UBig::pow/IBig::pow run through C09's mirrored trailing_zeros / >> / << (what the driver executes)"]
FRONTIER = ["Buffer MAX_CAPACITY clamping / allocation panics (C17) and the checked_add/checked_mul guards on huge exponents "
            "(C16); sqr::MAX_LEN_SIMPLE = 30 is a model constant, not regenerated from source"]
RULE = ("operand sizes drawn from the size classes {0,1,2,3,4,5, thr-1,thr,thr+1 for thr in 24,32,192, 385, 400, 1025, 2049...} x "
        "bit patterns {10..0, 1..1, 2^k, 2^k+-1, sparse, low words zero, random} x signs x "
        "{add,sub,mul,sqr,cubic,pow} x operand kinds (UBig, IBig, mixed); plus a deterministic block of carry/borrow chains "
        "that grow/shrink the word count across the 1/2/3/4-word boundaries for every sign combination and operand order; "
        "a block of products at (24|25) x (24|25|100|400), (192|193) x (192|193), 1024/1025 x 3/24/25 words (all-ones, random, "
        "patterned) with the equal-operand squaring shortcut; a block of operands built from runs of all-ones words "
        "(a = (B^n-1) + B^n(B^n-B^lo), b = B^n-B^j for n around every threshold) that drive the carry-propagation "
        "windows of Karatsuba / Toom-3 / chunk splitting to all-ones; pow: bases {0,1,2,2^k,3,10,B-1,B,B+1,2-word,3-word, bases "
        "with a factor 2^s} x exponents {0..5, around wexp and 2*wexp of max_exp_in_word, powers of two +-1, up to 200 "
        "(thorough: 1000)} bounded by result size (quick 2e5 bits, thorough 3e6 bits); every case runs all ownership/"
        "assign call forms in the harness. Non-trivial := at least one operand has >= 3 words; distinct := distinct "
        "(op,args) lines.")
EXPLANATION = ("Theorems (all W >= 1, all lengths, all signs): + and - are refined from the operator sign tables through the "
               "inline/heap dispatch (every ownership form) down to the word-level carry/borrow loops, incl. the UBig "
               "underflow panic (error iff a < b) and canonical results without negative zero; x by a word / double word "
               "(shift path for powers of two included) and schoolbook x (add_mul_word / sub_mul_word with the "
               "carry_plus_max trick, add_mul_chunk / sub_mul_chunk) are refined to exact products; pow = base^exp for "
               "UBig/IBig with the sign rule, over the mirrored control flow of pow.rs. mul::add_signed_mul is refined "
               "for all operand lengths through chunk splitting and the Karatsuba recursion (slice-window updates with "
               "signed carries; the algebraic identity is one linear_combination); Toom-3 (five evaluations, the two exact divisions, thirteen "
               "window updates) and squaring (sqr::simple::square and the dispatch to mul for > 30 words) are refined as "
               "well: no multiplication kernel is left at the model frontier. Found while stating the pow theorem and since repaired in /repo (fix: 099d251): "
               "`exp * shift` in UBig::pow/IBig::pow overflowed usize for base = 2^s, exp*s >= 2^64 (wrong value 1 in "
               "release builds); the corpus witness now agrees with the model (documented allocation panic).")
ASSUMPTIONS = ["arch add_with_carry/sub_with_borrow and overflowing_add behave as their documented contracts"]

THRESH = [24, 32, 192]

def nontrivial(c):
    import re
    ws = [len(a.lstrip('-')) for a in c.args if re.fullmatch(r"-?[0-9a-f]+", a)]
    return any(w > 32 for w in ws)

def sizes(tier):
    s = [0, 1, 1, 2, 2, 2, 3, 3, 3, 4, 5, 6, 8]
    for t in THRESH:
        s += [t - 1, t, t + 1]
    s += [47, 49, 64, 100]
    if tier == "thorough":
        s += [2 * 192 - 1, 2 * 192 + 1, 400, 577, 1025, 2049, 3000]
    else:
        s += [385, 400]
    return s

def generate(rng, tier):
    n = 1500 if tier == "quick" else 40000
    sz = sizes(tier)
    small = [0, 1, 2, 3, 4]
    ops2 = ["add", "sub", "mul"]
    for i in range(n):
        kind = rng.choice(["u", "u", "i", "i", "ui", "iu"])
        op = rng.choice(ops2)
        if op == "mul":
            na = rng.choice(sz); nb = rng.choice(sz if rng.random() < 0.5 else small + [24, 25, 33])
            if tier == "quick" and na * nb > 60000:
                nb = rng.choice(small)
        else:
            na = rng.choice(sz)
            nb = na if rng.random() < 0.5 else rng.choice(sz)
        a = nat_pattern(rng, na, rng.choice(PATTERNS))
        b = nat_pattern(rng, nb, rng.choice(PATTERNS))
        r = rng.random()
        if op != "mul" and r < 0.15:
            b = a                      # cancellation to zero
        elif op != "mul" and r < 0.3 and a > 0:
            b = a + rng.choice([-1, 1, -(1 << 64), 1 << 64, 1 << 128])   # borrow chains / shrink
            b = abs(b)
        elif op != "mul" and r < 0.4 and na > 0:
            # a = B^n - 1 style: carries grow the word count
            a = (1 << (64 * na)) - 1
            b = rng.choice([1, 2, (1 << 64) - 1, 1 << 64])
        elif op == "mul" and r < 0.1:
            b = a
        if kind == "u":
            if op == "sub" and rng.random() < 0.7 and a < b:
                a, b = b, a
            yield Case("u." + op, [hx(a), hx(b)])
        elif kind == "i":
            yield Case("i." + op, [hx(signed(rng, a)), hx(signed(rng, b))])
        elif kind == "ui":
            yield Case("ui." + op, [hx(a), hx(signed(rng, b))])
        else:
            yield Case("iu." + op, [hx(signed(rng, a)), hx(b)])
    # unary ops
    m = 200 if tier == "quick" else 3000
    for i in range(m):
        na = rng.choice(sz if tier == "thorough" else [x for x in sz if x <= 200])
        a = nat_pattern(rng, na, rng.choice(PATTERNS))
        op = rng.choice(["u.sqr", "u.cubic", "i.sqr", "i.cubic", "i.neg", "i.abs", "i.signum"])
        if op.startswith("u."):
            yield Case(op, [hx(a)])
        else:
            yield Case(op, [hx(signed(rng, a))])


def boundary_cases(rng, tier):
    """carry/borrow chains that grow or shrink the word count across the 1/2/3(/4)-word boundaries,
    every sign combination, both operators, UBig and IBig and mixed kinds"""
    B = 1 << 64
    A = [B - 1, B, B * B - 1, B * B, B * B + 1, B ** 3 - 1, B ** 3, B * B - B, B * B + B - 1,
         (B * B - 1) ^ (1 << 64), B ** 4 - 1]
    D = [0, 1, 2, B - 1, B, B + 1, B * B - 1, B * B, B ** 3 - 1]
    for a in A:
        for d in D + [a, a - 1, a + 1]:
            for sa in (1, -1):
                for sb in (1, -1):
                    for op in ("add", "sub"):
                        yield Case("i." + op, [hx(sa * a), hx(sb * d)])
                        yield Case("i." + op, [hx(sb * d), hx(sa * a)])
            for op in ("add", "sub"):
                yield Case("u." + op, [hx(a), hx(d)])
                yield Case("u." + op, [hx(d), hx(a)])
                yield Case("ui." + op, [hx(a), hx(-d)])
                yield Case("iu." + op, [hx(-a), hx(d)])

MUL_PAIRS_QUICK = [(24, 24), (24, 25), (25, 24), (25, 25), (3, 24), (24, 100), (25, 100), (24, 400),
                   (192, 192), (192, 193), (193, 192), (193, 193), (100, 193), (1025, 3), (1025, 24),
                   (1024, 24), (2049, 5), (1025, 25), (1100, 24), (2048, 3), (60, 25), (30, 30), (31, 31),
                   (26, 25), (49, 25), (75, 40), (200, 193)]
MUL_PAIRS_THOROUGH = [(1025, 1025), (1024, 1025), (2049, 24), (2049, 25), (2049, 192), (2049, 193),
                      (2049, 2049), (2048, 2049), (4097, 24), (3000, 1025), (577, 193), (386, 385)]

def mul_threshold_cases(rng, tier):
    pairs = MUL_PAIRS_QUICK + (MUL_PAIRS_THOROUGH if tier == "thorough" else [])
    reps = 1 if tier == "quick" else 3
    for (na, nb) in pairs:
        for _ in range(reps):
            for pa, pb in (("ones", "ones"), ("random", "random"), (rng.choice(PATTERNS), rng.choice(PATTERNS))):
                a = nat_pattern(rng, na, pa); b = nat_pattern(rng, nb, pb)
                yield Case("u.mul", [hx(a), hx(b)])
                yield Case("i.mul", [hx(signed(rng, a)), hx(signed(rng, b))])
        a = nat_pattern(rng, na, "random")
        yield Case("u.sqr", [hx(a)])

def mul_chunk_remainder_cases(rng, tier):
    """unbalanced products whose longer factor is k*n + r words (n = shorter length > THRESHOLD_SIMPLE):
    `helpers::add_signed_mul_split_into_chunks` multiplies k chunks of n words and then a REMAINDER of r words;
    the carry that crosses from one chunk into the next (and into the remainder product) is only exercised when
    r is in (24, n/2], (n/2, n) or <= 24 respectively — cover each class for Karatsuba- and Toom-3-sized n,
    with operands that force carries between the pieces (all ones) and random ones"""
    ns = [50, 60, 100, 192] + ([200, 300] if tier == "quick" else [193, 200, 300, 500, 700])
    for n in ns:
        rs = sorted({1, 24, 25, 26, n // 2 - 1, n // 2, n // 2 + 1, n - 1} - {0})
        for r in rs:
            if not (0 < r < n):
                continue
            for k in ((1, 2) if tier == "quick" else (1, 2, 3, 5)):
                la = k * n + r
                if tier == "quick" and la * n > 90_000:
                    continue
                for pa, pb in (("ones", "ones"), ("random", "random")):
                    a = nat_pattern(rng, la, pa); b = nat_pattern(rng, n, pb)
                    if rng.random() < 0.5:
                        yield Case("u.mul", [hx(a), hx(b)])
                    else:
                        yield Case("i.mul", [hx(signed(rng, b)), hx(signed(rng, a))])

def max_exp_in_word(b, W=64):
    e, p = 1, b
    while p * b < (1 << W):
        e += 1; p *= b
    return e

def pow_cases(rng, tier):
    """bases {0,1,2,2^k,3,10,B-1,B,B+1, 2-word, 3-word, bases with a factor 2^s} x exponents around the
    shortcuts (0,1,2,3), around wexp / 2*wexp of the word lifting, and up to ~200, bounded by result size"""
    B = 1 << 64
    maxbits = 200_000 if tier == "quick" else 3_000_000
    bases = [0, 1, 2, 3, 4, 5, 6, 7, 10, 12, 255, 256, 1 << 31, (1 << 32) - 1, 1 << 32, (1 << 32) + 1,
             1 << 63, B - 1, B, B + 1, B + 2, 3 * B, B * B - 1, 1 << 100, (1 << 100) + (1 << 40),
             B * B, B * B + 1, B ** 3 - 1, (B ** 3 - 1) << 7, 3 << 130, nat_pattern(rng, 3, "random"),
             nat_pattern(rng, 3, "random") | 1, nat_pattern(rng, 4, "sparse"), nat_pattern(rng, 5, "random") << 3]
    for k in (2, 3, 7, 16, 33, 62):
        bases.append(1 << k)
    nrand = 12 if tier == "quick" else 120
    for _ in range(nrand):
        bases.append(rng.getrandbits(rng.choice([5, 9, 17, 31, 33, 47, 63, 64])) | 1)
        bases.append((rng.getrandbits(rng.choice([7, 20, 40, 64, 100, 128, 150, 200])) | 1) << rng.choice([0, 1, 5, 64, 70]))
    for b in bases:
        exps = {0, 1, 2, 3, 4, 5, 7, 8, 15, 16, 17, 31, 32, 33, 63, 64, 65, 100, 127, 128, 129, 200}
        odd = b
        while odd and odd % 2 == 0:
            odd //= 2
        if 2 < odd < B:
            w = max_exp_in_word(odd)
            exps |= {w - 1, w, w + 1, 2 * w - 1, 2 * w, 2 * w + 1, 3 * w, 3 * w + 1, 4 * w - 1, 5 * w + 2}
        if tier == "thorough":
            exps |= {rng.randrange(3, 1000) for _ in range(6)} | {255, 256, 257, 511, 512, 1000}
        for e in sorted(x for x in exps if x >= 0):
            if b.bit_length() * e > maxbits:
                continue
            yield Case("u.pow", [hx(b), dec(e)])
            yield Case("i.pow", [hx(-b if rng.random() < 0.6 else b), dec(e)])


def ones_run_cases(rng, tier):
    """operands made of runs of all-ones words at the chunk / half / third boundaries of the recursive
    kernels: a = (B^n - 1) + B^n * (B^n - B^lo), b = B^n - B^j.  These drive the carry-propagation windows of
    Karatsuba (carry_c0 at 2*mid, carry_c1 at 3*mid), Toom-3 (carry_c0..c3) and of the chunk splitting
    (carry at c[n]) to all-ones / all-zero, so that the rarely non-zero carries out of those windows occur
    (found by mutation testing: dropping one of them survived random and single-pattern operands)."""
    B = 1 << 64
    ns = [25, 26, 31, 48, 49, 193, 194, 200] if tier == "quick" else \
         [25, 26, 27, 31, 33, 48, 49, 50, 97, 100, 191, 192, 193, 194, 195, 200, 256, 385, 577, 600]
    per = 7 if tier == "quick" else 24
    for n in ns:
        full = (1 << (64 * n)) - 1
        los = sorted(set([1, 2, n // 3 - 1, n // 3, n // 2, n - 1] + [rng.randrange(0, n) for _ in range(per)]))
        for lo in los:
            lo = max(0, min(n, lo))
            a2 = (1 << (64 * n)) - (1 << (64 * lo))
            j = rng.choice([0, 0, 0, rng.randrange(0, n)])
            b = (1 << (64 * n)) - (1 << (64 * j))
            a1 = rng.choice([full, full, (1 << (64 * n)) - (1 << (64 * rng.randrange(0, n))), 1])
            a = a1 + (a2 << (64 * n))
            yield Case("u.mul", [hx(a), hx(b)])
            if rng.random() < 0.3:
                yield Case("i.mul", [hx(-a), hx(b)])
            if rng.random() < 0.25:
                # three chunks, and the mirrored operand order
                a3 = a + (((1 << (64 * n)) - (1 << (64 * rng.randrange(0, n)))) << (128 * n))
                yield Case("u.mul", [hx(b), hx(a3)])
        # squares of run-structured operands (same windows through sqr -> add_signed_mul_same_len)
        yield Case("u.sqr", [hx((1 << (64 * n)) - (1 << (64 * rng.randrange(0, n))))])


def usub_boundary_pairs(rng, tier):
    """(a, b) pairs on BOTH sides of the UBig-subtraction panic (a < b) for every size-class pair:
    inline/inline, inline/heap, heap/inline, heap/heap of the same length (3, 4, 25, 200 words: differing in
    the top word, in the lowest word only, with all middle words equal, equal operands) and of different
    lengths; and valid subtractions whose borrow runs through all words / shrinks the result"""
    B = 1 << 64
    for n in ([3, 4, 25, 200] if tier == "quick" else [3, 4, 5, 24, 25, 26, 100, 200, 385]):
        P = 1 << (64 * (n - 1))
        for rep in range(2 if tier == "quick" else 6):
            top = rng.randrange(2, B - 2)
            mid = rng.choice([0, P // B * 0 + ((P - 1) & ~(B - 1)), rng.getrandbits(64 * (n - 1)) & ~(B - 1)])
            lo = rng.randrange(1, B - 2)
            a = top * P + mid + lo
            yield a, a + P                      # a < b, differ in the top word only
            yield a, a + 1                      # a < b, differ in the lowest word only
            yield a, a                          # equal
            yield a + 1, a                      # a > b by one
            yield top * P, top * P + 1          # all middle words zero
            yield top * P + (P - 1) - 1, top * P + (P - 1)      # all lower words ones
            yield a, (top + 1) * P              # a < b, b has zero low words
            # valid, borrow through every word
            yield top * P, (top - 1) * P + 1
            yield top * P, (top - 1) * P + (P - 1)              # result 1: shrinks to one word
            yield top * P, 1
            yield top * P + 5, top * P + 5 - 1
            # different lengths
            yield a % P, a                      # shorter - longer: panic
            yield a, a % P                      # longer - shorter
            yield P, P - 1                      # 1 0..0 - ff..f = 1
            yield P - 1, P                      # panic by one
    # inline / inline and inline / heap
    small = [0, 1, 2, B - 1, B, B + 1, B * B - 1]
    for x in small:
        for y in small:
            yield x, y
        yield x, B * B
        yield B * B, x
        yield x, B * B + x
        yield B * B + x, x


def usub_boundary_cases(rng, tier):
    for a, b in usub_boundary_pairs(rng, tier):
        yield Case("u.sub", [hx(a), hx(b)])


_generate_base = generate

def generate(rng, tier):
    yield from _generate_base(rng, tier)
    yield from boundary_cases(rng, tier)
    yield from mul_threshold_cases(rng, tier)
    yield from ones_run_cases(rng, tier)
    yield from usub_boundary_cases(rng, tier)
    yield from mul_chunk_remainder_cases(rng, tier)
    yield from pow_cases(rng, tier)

LEVEL_TEXT = ("Machine-checked Lean 4 theorems, for every word size W >= 1, every operand length and sign: the word-level "
              "carry/borrow loops, the inline/heap dispatch of every ownership form, from_buffer normalisation and the IBig "
              "sign tables compute exact sums/differences (UBig underflow = documented panic iff a < b) with canonical "
              "results; multiplication by one or two words, the schoolbook kernels, chunk splitting, the Karatsuba and "
              "Toom-3 recursions and the squaring kernels (thresholds regenerated from source; W >= 4 because of the "
              "word constants 6 and 12 of Toom-3) compute exact products, with every asserted-zero carry/borrow/remainder "
              "(mul::multiply, the Toom-3 scratch arithmetic, sqr::simple) proved zero; the mirrored control flow of pow.rs computes "
              "base^exp with the IBig sign rule. The hand-written model is tied to /repo on every run by differential "
              "execution of model and real code over structured operands around every size-class and algorithm threshold, "
              "all call forms. The single-word division by 6 and the 1-bit shift inside Toom-3 and the shifts / "
              "trailing_zeros around pow are composed with the mirrored kernels of C02 / C09 (no step at its specification); "
              "buffer capacity and allocation are C17. Scratch-memory sufficiency of mul_large/square_large is proved for all sizes.")
LEVEL_NOTE = ("Trusted: Lean kernel; axioms propext/Classical.choice/Quot.sound; the correspondence harness and generators "
              "(sampling) for the tie model<->code; arch intrinsics (add_with_carry, sub_with_borrow, overflowing_add, "
              "split_dword/extend_word) at their documented contracts; frontier kernels listed in evidence are modelled as "
              "their specification, not verified; usize exponent arithmetic only through the powShiftOverflows guard; "
              "allocation/capacity is C17.")
TECHNIQUE = "Lean 4 refinement proofs (induction over word lists, all W) + differential correspondence model vs real code"

# Tie A: IBig sign tables regenerated from integer/src/{add_ops,mul_ops}.rs on every run
USES_GEN = True
GEN_PROPS = ["Dashu.Props.GenInt"]
GEN_AUDIT = ["Dashu.Audit.GenInt"]
READY = True
