"""C01 — integer ring arithmetic exact (DESIGN §8 C01)."""
from vlib.core import Case
from vlib.gens import *

GROUP = "int"
LEAN_PROPS = "Dashu.Props.C01"
LEAN_AUDIT = "Dashu.Audit.C01"
REFINED = ["add_one_in_place", "sub_one_in_place", "add_word_in_place", "sub_word_in_place",
           "add_same_len_in_place", "sub_same_len_in_place", "sub_same_len_in_place_swap",
           "add_in_place", "sub_in_place (borrow <=> lhs < rhs)", "add_dword_in_place", "sub_dword_in_place",
           "sub_in_place_with_sign (value, sign, zeroed top words)",
           "Repr::from_buffer", "add_dword/add_large_dword/add_large",
           "sub_dword/sub_large_dword/sub_large/sub_large_ref_val (NegativeUBig iff a < b)",
           "repr_signed::sub_dword/sub_large/SubSigned (all forms)", "Repr::with_sign/neg, into_sign_repr",
           "impl_ibig_add", "impl_ibig_sub", "impl_ibig_mul (sign rule)",
           "mul_word_in_place_with_carry", "shl_in_place (as used by mul_large_dword)", "is_power_of_two",
           "mul_dword_in_place (incl. leftover word)", "mul_dword/mul_dword_spilled", "mul_large_dword",
           "TypedReprRef::sqr small arm / square_dword_spilled",
           "sqr::simple::square (triangular loop with c0, fused diagonal/doubling loop with c1,c2; the final carry "
           "bits are zero)", "sqr::sqr dispatch (MAX_LEN_SIMPLE), square_large, equal-operands shortcut of mul_large",
           "add_mul_word_same_len_in_place", "add_mul_word_in_place",
           "sub_mul_word_same_len_in_place (carry_plus_max: no underflow, fits DoubleWord)",
           "simple::add_mul_chunk / sub_mul_chunk / add_signed_mul_chunk",
           "add_signed_word_in_place / add_signed_same_len_in_place / add_signed_in_place",
           "helpers::add_signed_mul_split_into_chunks (signed carry at c[n] across chunks, remainder in either order)",
           "karatsuba::add_signed_mul_same_len (three products, carry_c0/carry_c1 placement) and karatsuba::add_signed_mul",
           "toom_3::add_signed_mul_same_len (five evaluations, interpolation t1/t2 with exact /6 and /2, 'never negative', "
           "carry_c0..carry_c3) and toom_3::add_signed_mul",
           "mul::add_signed_mul_same_len / mul::add_signed_mul dispatch (thresholds regenerated from source), "
           "simple::add_signed_mul, mul::multiply (asserted-zero carry is zero), mul_large for unequal operands",
           "scratch memory: memory.rs bump allocation (word counter) + memory_requirement_* of mul/karatsuba/toom_3/sqr + "
           "mul_large/square_large sizing: 'not enough memory allocated' unreachable for every operand size",
           "math::max_exp_in_word (k >= 1, base^k fits a word)", "pow binary loop (pow_word_base/pow_dword_base/pow_large_base)",
           "pow_word_base shortcuts (0,1,2,2^k) and word lifting", "TypedReprRef::pow shortcuts 0/1/2",
           "UBig::pow factor-2 removal", "IBig::pow sign rule",
           "pow_word_base/pow_dword_base with real buffers (what the driver runs): capacity assertions, scratch "
           "allocation, 'never resize', length bounds exp/wexp+1 and 2*exp; TypedReprRef::pow / UBig::pow / IBig::pow end to end",
           "composition: Toom-3's div_by_word_in_place(t1,6) / shr_in_place(t2,1) are exactly C02's mirrored kernels with "
           "remainder 0; UBig::pow/IBig::pow run through C09's mirrored trailing_zeros / >> / << (what the driver executes)",
           "math::mul_add_carry / mul_add_2carry / mul_add_carry_dword (the four word products behind mul_dword_spilled, "
           "square_dword_spilled, pow_dword_base)",
           "Tie A: memory_requirement_* of mul/karatsuba/toom_3/sqr, pow_word_base's exp<wexp / exp<2*wexp split and the "
           "Buffer::allocate / scratch sizes of pow_word_base / pow_dword_base regenerated (Gen/Scratch.lean) and proved to be "
           "the model's; sqr::MAX_LEN_SIMPLE regenerated (Gen/Misc.lean) and used by the squaring dispatch",
           "Tie A (round 5): the TypedRepr-level dispatch of + - * sub_signed — all 16 impls (4 traits x 4 ownership forms) of "
           "add_ops.rs mod repr / mod repr_signed and mul_ops.rs mod repr — regenerated (Gen/IntDispatch.lean, callee records "
           "with signatures inferred from the match patterns), EXECUTED by the driver over the mirrored kernels, and proved equal "
           "to the hand-written TRepr.add/sub/subSigned/mul that all other theorems are about; mul_dword's one-word test and "
           "mul_large's equal-operands shortcut / buffer+scratch sizes, mul_large_dword's skeleton (0 / 1 / one word: power of "
           "two -> shl_in_place by trailing_zeros else mul_word_in_place / two words with the carry pushed only if non-zero), "
           "TypedReprRef::sqr's shrink_dword test and mul_dword_spilled / square_dword_spilled regenerated (shape-checked "
           "transcription, fails closed) and proved equal to the model",
           "Tie A (round 5), pow.rs: IBig::pow's sign test (translated from the source expression), the magnitude flow of "
           "UBig::pow / IBig::pow (unwrap_or(0), shift != 0, shr -> pow -> shl with checked_mul evaluated after the receiver), "
           "TypedReprRef::pow's shortcuts 0/1/2 and base-class split, pow_word_base's shortcut returns and the Buffer::allocate "
           "arguments of pow_word_base / pow_dword_base: regenerated and proved equal to what the driver runs",
           "UBig - UBig in all four ownership forms (one theorem: same canonical difference, or panic_negative_ubig iff a < b); "
           "UBig + UBig, UBig * UBig (val/ref multiplies in the other operand order), sub_signed in all four forms",
           "link to C05: mul_large's equal-operands test cmp_in_place(lhs, rhs).is_eq(), computed by C05's mirrored cmpInPlace, "
           "is equality of the word lists (cmp_in_place_is_eq, mul_large_regenerated_cmp)",
           "public UBig::sqr / UBig::cubic / IBig::sqr / IBig::cubic: bodies regenerated (which repr-level op, which ownership form "
           "of Mul), executed by the driver, exact",
           "UBig/IBig (+,-,*) primitive integers of all 12 types, both operand orders, value/reference/assign forms: "
           "UBig::from / IBig::from of the primitive, then the same dispatch (driven; covered by the all-forms theorems)",
           "the allocation guards of pow: the up-front result buffer of pow_word_base (exp/wexp + 1 words, checked_add) / "
           "pow_dword_base (2*exp, checked_mul) and the final << (shl_one_spilled / shl_dword_spilled / shl_large_ref -> "
           "Buffer::allocate(n), n > MAX_CAPACITY = usize::MAX / WORD_BITS => panic_allocate_too_much): mirrored, executed, and UBig::pow / IBig::pow "
           "characterised completely (panic iff powAllocPanics, a predicate on values; else exact canonical power)",
           "link to C19 (round 7, Props/C01Arch.lean): add_same_len_in_place / sub_same_len_in_place / "
           "sub_same_len_in_place_swap written as the Rust loops (Boolean carry) over arch::add::add_with_carry / "
           "sub_with_borrow REGENERATED from arch/generic/add.rs (every W) and arch/x86_64, arch/x86 (one intrinsic each; "
           "W = 64 / 32) compute exactly the model's addSameLen / subSameLen / subSameLenSwap "
           "(word_loops_over_regenerated_arch); at every other call site the regenerated routine returns the model's "
           "s % 2^W, s / 2^W and d % 2^W, 1 - d / 2^W expressions (arch_step_is_model_step)",
           "link to C19, second layer (round 8, Props/C01ArchDword.lean): add_dword_in_place / sub_dword_in_place (first word "
           "overflowing_add / overflowing_sub, second word the REGENERATED add_with_carry / sub_with_borrow with the first "
           "word's Boolean carry, then carry && add_one_in_place(words_hi)) and add_in_place / sub_in_place (split_at_mut, the "
           "same-length loop over the regenerated routine, carry && add_one_in_place(lhs_hi)) written as the Rust functions "
           "are the model's addDwordInPlace / subDwordInPlace / addInPlace / subInPlace, every W (generic), W = 64 / 32 "
           "(x86_64 / x86 intrinsic routines) (add_rs_functions_over_regenerated_arch)"]
FRONTIER = ["pow results between ~2^22 bits and the MAX_CAPACITY guard (2^22 < exp*shift < 2^64 - 64, or an odd part > 1 "
            "with a huge exponent): the model states the exact power, but neither side can be EXECUTED — the real code would "
            "really allocate (outcome 'out of memory' or success depends on the allocator and the machine, not on dashu), the "
            "model would build the number; the theorem u_pow_guarded_iff covers these inputs, the correspondence does not",
            "Buffer capacity policy (default_capacity growth/clamping, reallocation) and MemoryAllocation::new size/align "
            "arithmetic are C17's ledger model; only the MAX_CAPACITY comparison of Buffer::allocate is mirrored here",
            "arch layer: add_with_carry / sub_with_borrow are no longer at contract — their bodies are regenerated by C19 "
            "(Gen/ArchAdd.lean) and linked to the word loops (Props/C01Arch.lean); what remains at the documented contract "
            "are the primitives BELOW them: Word::overflowing_add/sub, the x86 intrinsics _addcarry_u64/_subborrow_u64 "
            "(C19's stated assumption), checked_sub, wrapping_neg, extend_word/split_dword/shrink_dword — compiler/hardware "
            "primitives, no executable model below them; the link is proved for the three same-length loops of add.rs as "
            "whole loops and for every other call site as a single step (arch_step_is_model_step), not by regenerating those "
            "other loop bodies; round 8: add_dword_in_place / sub_dword_in_place / add_in_place / sub_in_place are now linked as "
            "whole functions too (Props/C01ArchDword.lean) — every function of add.rs that calls the routines is linked as a "
            "whole; still per step only: sqr::simple (line 41), mul::simple add_mul_chunk / sub_mul_chunk top word, "
            "Karatsuba / Toom-3 carry words",
            "THRESHOLD_KARATSUBA appears as the literal 192 in the Toom-3 scratch-potential argument (Proofs/Int/Memory.lean): a "
            "change of that constant is reported as a broken obligation (no-failing-input-found), not re-proved automatically"]
RULE = ("operand sizes drawn from the size classes {0,1,2,3,4,5, thr-1,thr,thr+1 for thr in 24,32,192, 385, 400, 1025, 2049...} x "
        "bit patterns {10..0, 1..1, 2^k, 2^k+-1, sparse, low words zero, random} x signs x "
        "{add,sub,mul,sqr,cubic,pow} x operand kinds (UBig, IBig, mixed); plus a deterministic block of carry/borrow chains "
        "that grow/shrink the word count across the 1/2/3/4-word boundaries for every sign combination and operand order; "
        "a block of products at (24|25) x (24|25|100|400), (192|193) x (192|193), 1024/1025 x 3/24/25 words (all-ones, random, "
        "patterned) with the equal-operand squaring shortcut; a block of operands built from runs of all-ones words "
        "(a = (B^n-1) + B^n(B^n-B^lo), b = B^n-B^j for n around every threshold) that drive the carry-propagation "
        "windows of Karatsuba / Toom-3 / chunk splitting to all-ones; pow: bases {0,1,2,2^k,3,10,B-1,B,B+1,2-word,3-word, bases "
        "with a factor 2^s} x exponents {0..5, around wexp and 2*wexp of max_exp_in_word, powers of two +-1, up to 200 "
        "(thorough: 1000)} bounded by result size (quick 2e5 bits, thorough 3e6 bits); "
        "E1 (usize exponent of pow): 0, 1, W-1, W, W+1, 2W, 2^31, 2^32-1, 2^32, 2^32+k, 2^58+-1, 2^63, MAX-k (k <= 130) for the "
        "bases 0, 1, -1 and for 2^s (s = 1..1000: word, double-word and heap bases) on both sides of the two panic boundaries "
        "(exp*s = 2^64, Buffer::allocate argument = MAX_CAPACITY), wherever the outcome is decided without allocating; "
        "E2: 2^k-1, 2^k, 2^k+1 for EVERY bit length k < 330 (thorough 1700) through add/sub (growth, shrink, underflow by one), "
        "mul, sqr, cubic, and pow bases of every bit length 2..128 around wexp / 2*wexp; "
        "primitive operands: every primitive type (u8..u128, usize, i8..i128, isize) at 0, 1, MAX, MAX-1, MAX/2, MIN, MIN+1, -1 "
        "and random values x big operands of every representation class x {add,sub,mul} x both operand orders, incl. both sides "
        "of the UBig underflow (a = p, p+-1); every case runs all ownership/assign call forms in the harness (and the four "
        "regenerated ownership forms in the model). Non-trivial := at least one operand has >= 3 words; distinct := distinct "
        "(op,args) lines.")
EXPLANATION = ("Theorems (all W >= 1, all lengths, all signs): + and - are refined from the operator sign tables through the "
               "inline/heap dispatch (every ownership form) down to the word-level carry/borrow loops, incl. the UBig "
               "underflow panic (error iff a < b) and canonical results without negative zero; x by a word / double word "
               "(shift path for powers of two included) and schoolbook x (add_mul_word / sub_mul_word with the "
               "carry_plus_max trick, add_mul_chunk / sub_mul_chunk) are refined to exact products; pow = base^exp for "
               "UBig/IBig with the sign rule, over the mirrored control flow of pow.rs. mul::add_signed_mul is refined "
               "for all operand lengths through chunk splitting and the Karatsuba recursion (slice-window updates with "
               "signed carries; the algebraic identity is one linear_combination); Toom-3 (five evaluations, the two exact divisions, thirteen "
               "window updates) and squaring (sqr::simple::square and the dispatch to mul for > 30 words) are refined as "
               "well: no multiplication kernel is left at the model frontier. Found while stating the pow theorem and since repaired in /repo (fix: 099d251): "
               "`exp * shift` in UBig::pow/IBig::pow overflowed usize for base = 2^s, exp*s >= 2^64 (wrong value 1 in "
               "release builds); the corpus witness now agrees with the model (documented allocation panic). Round 5: the "
               "operator dispatch (16 impls), public sqr/cubic and the mul_ops guards are regenerated from source and executed by "
               "the driver; UBig-UBig underflow in all four ownership forms is one theorem; pow carries the MAX_CAPACITY guard of "
               "its final shift, so usize::MAX-class exponents are driven and the panic class is characterised exactly.")
ASSUMPTIONS = ["arch add_with_carry/sub_with_borrow and overflowing_add behave as their documented contracts"]

THRESH = [24, 32, 192]

def nontrivial(c):
    import re
    ws = [len(a.lstrip('-')) for a in c.args if re.fullmatch(r"-?[0-9a-f]+", a)]
    return any(w > 32 for w in ws)

def sizes(tier):
    s = [0, 1, 1, 2, 2, 2, 3, 3, 3, 4, 5, 6, 8]
    for t in THRESH:
        s += [t - 1, t, t + 1]
    s += [47, 49, 64, 100]
    if tier == "thorough":
        s += [2 * 192 - 1, 2 * 192 + 1, 400, 577, 1025, 2049, 3000]
    else:
        s += [385, 400]
    return s

def generate(rng, tier):
    # round 6: random stream thinned 40000 -> 20000 (thorough budget; 62% of the model CPU; the directed blocks are untouched)
    n = 1500 if tier == "quick" else 20000
    sz = sizes(tier)
    small = [0, 1, 2, 3, 4]
    ops2 = ["add", "sub", "mul"]
    for i in range(n):
        kind = rng.choice(["u", "u", "i", "i", "ui", "iu"])
        op = rng.choice(ops2)
        if op == "mul":
            na = rng.choice(sz); nb = rng.choice(sz if rng.random() < 0.5 else small + [24, 25, 33])
            if tier == "quick" and na * nb > 60000:
                nb = rng.choice(small)
        else:
            na = rng.choice(sz)
            nb = na if rng.random() < 0.5 else rng.choice(sz)
        a = nat_pattern(rng, na, rng.choice(PATTERNS))
        b = nat_pattern(rng, nb, rng.choice(PATTERNS))
        r = rng.random()
        if op != "mul" and r < 0.15:
            b = a                      # cancellation to zero
        elif op != "mul" and r < 0.3 and a > 0:
            b = a + rng.choice([-1, 1, -(1 << 64), 1 << 64, 1 << 128])   # borrow chains / shrink
            b = abs(b)
        elif op != "mul" and r < 0.4 and na > 0:
            # a = B^n - 1 style: carries grow the word count
            a = (1 << (64 * na)) - 1
            b = rng.choice([1, 2, (1 << 64) - 1, 1 << 64])
        elif op == "mul" and r < 0.1:
            b = a
        if kind == "u":
            if op == "sub" and rng.random() < 0.7 and a < b:
                a, b = b, a
            yield Case("u." + op, [hx(a), hx(b)])
        elif kind == "i":
            yield Case("i." + op, [hx(signed(rng, a)), hx(signed(rng, b))])
        elif kind == "ui":
            yield Case("ui." + op, [hx(a), hx(signed(rng, b))])
        else:
            yield Case("iu." + op, [hx(signed(rng, a)), hx(b)])
    # unary ops
    m = 200 if tier == "quick" else 3000
    for i in range(m):
        na = rng.choice(sz if tier == "thorough" else [x for x in sz if x <= 200])
        a = nat_pattern(rng, na, rng.choice(PATTERNS))
        op = rng.choice(["u.sqr", "u.cubic", "i.sqr", "i.cubic", "i.neg", "i.abs", "i.signum"])
        if op.startswith("u."):
            yield Case(op, [hx(a)])
        else:
            yield Case(op, [hx(signed(rng, a))])


def boundary_cases(rng, tier):
    """carry/borrow chains that grow or shrink the word count across the 1/2/3(/4)-word boundaries,
    every sign combination, both operators, UBig and IBig and mixed kinds"""
    B = 1 << 64
    A = [B - 1, B, B * B - 1, B * B, B * B + 1, B ** 3 - 1, B ** 3, B * B - B, B * B + B - 1,
         (B * B - 1) ^ (1 << 64), B ** 4 - 1]
    D = [0, 1, 2, B - 1, B, B + 1, B * B - 1, B * B, B ** 3 - 1]
    for a in A:
        for d in D + [a, a - 1, a + 1]:
            for sa in (1, -1):
                for sb in (1, -1):
                    for op in ("add", "sub"):
                        yield Case("i." + op, [hx(sa * a), hx(sb * d)])
                        yield Case("i." + op, [hx(sb * d), hx(sa * a)])
            for op in ("add", "sub"):
                yield Case("u." + op, [hx(a), hx(d)])
                yield Case("u." + op, [hx(d), hx(a)])
                yield Case("ui." + op, [hx(a), hx(-d)])
                yield Case("iu." + op, [hx(-a), hx(d)])

MUL_PAIRS_QUICK = [(24, 24), (24, 25), (25, 24), (25, 25), (3, 24), (24, 100), (25, 100), (24, 400),
                   (192, 192), (192, 193), (193, 192), (193, 193), (100, 193), (1025, 3), (1025, 24),
                   (1024, 24), (2049, 5), (1025, 25), (1100, 24), (2048, 3), (60, 25), (30, 30), (31, 31),
                   (26, 25), (49, 25), (75, 40), (200, 193)]
MUL_PAIRS_THOROUGH = [(1025, 1025), (1024, 1025), (2049, 24), (2049, 25), (2049, 192), (2049, 193),
                      (2049, 2049), (2048, 2049), (4097, 24), (3000, 1025), (577, 193), (386, 385)]

def mul_threshold_cases(rng, tier):
    pairs = MUL_PAIRS_QUICK + (MUL_PAIRS_THOROUGH if tier == "thorough" else [])
    reps = 1 if tier == "quick" else 3
    for (na, nb) in pairs:
        for _ in range(reps):
            for pa, pb in (("ones", "ones"), ("random", "random"), (rng.choice(PATTERNS), rng.choice(PATTERNS))):
                a = nat_pattern(rng, na, pa); b = nat_pattern(rng, nb, pb)
                yield Case("u.mul", [hx(a), hx(b)])
                yield Case("i.mul", [hx(signed(rng, a)), hx(signed(rng, b))])
        a = nat_pattern(rng, na, "random")
        yield Case("u.sqr", [hx(a)])

def mul_chunk_remainder_cases(rng, tier):
    """unbalanced products whose longer factor is k*n + r words (n = shorter length > THRESHOLD_SIMPLE):
    `helpers::add_signed_mul_split_into_chunks` multiplies k chunks of n words and then a REMAINDER of r words;
    the carry that crosses from one chunk into the next (and into the remainder product) is only exercised when
    r is in (24, n/2], (n/2, n) or <= 24 respectively — cover each class for Karatsuba- and Toom-3-sized n,
    with operands that force carries between the pieces (all ones) and random ones"""
    ns = [50, 60, 100, 192] + ([200, 300] if tier == "quick" else [193, 200, 300, 500, 700])
    for n in ns:
        rs = sorted({1, 24, 25, 26, n // 2 - 1, n // 2, n // 2 + 1, n - 1} - {0})
        for r in rs:
            if not (0 < r < n):
                continue
            for k in ((1, 2) if tier == "quick" else (1, 2, 3, 5)):
                la = k * n + r
                if tier == "quick" and la * n > 90_000:
                    continue
                for pa, pb in (("ones", "ones"), ("random", "random")):
                    a = nat_pattern(rng, la, pa); b = nat_pattern(rng, n, pb)
                    if rng.random() < 0.5:
                        yield Case("u.mul", [hx(a), hx(b)])
                    else:
                        yield Case("i.mul", [hx(signed(rng, b)), hx(signed(rng, a))])

def max_exp_in_word(b, W=64):
    e, p = 1, b
    while p * b < (1 << W):
        e += 1; p *= b
    return e

def pow_cases(rng, tier):
    """bases {0,1,2,2^k,3,10,B-1,B,B+1, 2-word, 3-word, bases with a factor 2^s} x exponents around the
    shortcuts (0,1,2,3), around wexp / 2*wexp of the word lifting, and up to ~200, bounded by result size"""
    B = 1 << 64
    maxbits = 200_000 if tier == "quick" else 3_000_000
    bases = [0, 1, 2, 3, 4, 5, 6, 7, 10, 12, 255, 256, 1 << 31, (1 << 32) - 1, 1 << 32, (1 << 32) + 1,
             1 << 63, B - 1, B, B + 1, B + 2, 3 * B, B * B - 1, 1 << 100, (1 << 100) + (1 << 40),
             B * B, B * B + 1, B ** 3 - 1, (B ** 3 - 1) << 7, 3 << 130, nat_pattern(rng, 3, "random"),
             nat_pattern(rng, 3, "random") | 1, nat_pattern(rng, 4, "sparse"), nat_pattern(rng, 5, "random") << 3]
    for k in (2, 3, 7, 16, 33, 62):
        bases.append(1 << k)
    nrand = 12 if tier == "quick" else 60      # round 6: random bases 240 -> 120 (thorough budget); the directed bases are untouched
    for _ in range(nrand):
        bases.append(rng.getrandbits(rng.choice([5, 9, 17, 31, 33, 47, 63, 64])) | 1)
        bases.append((rng.getrandbits(rng.choice([7, 20, 40, 64, 100, 128, 150, 200])) | 1) << rng.choice([0, 1, 5, 64, 70]))
    for b in bases:
        exps = {0, 1, 2, 3, 4, 5, 7, 8, 15, 16, 17, 31, 32, 33, 63, 64, 65, 100, 127, 128, 129, 200}
        odd = b
        while odd and odd % 2 == 0:
            odd //= 2
        if 2 < odd < B:
            w = max_exp_in_word(odd)
            exps |= {w - 1, w, w + 1, 2 * w - 1, 2 * w, 2 * w + 1, 3 * w, 3 * w + 1, 4 * w - 1, 5 * w + 2}
        if tier == "thorough":
            exps |= {rng.randrange(3, 1000) for _ in range(6)} | {255, 256, 257, 511, 512, 1000}
        for e in sorted(x for x in exps if x >= 0):
            if b.bit_length() * e > maxbits:
                continue
            yield Case("u.pow", [hx(b), dec(e)])
            yield Case("i.pow", [hx(-b if rng.random() < 0.6 else b), dec(e)])


def ones_run_cases(rng, tier):
    """operands made of runs of all-ones words at the chunk / half / third boundaries of the recursive
    kernels: a = (B^n - 1) + B^n * (B^n - B^lo), b = B^n - B^j.  These drive the carry-propagation windows of
    Karatsuba (carry_c0 at 2*mid, carry_c1 at 3*mid), Toom-3 (carry_c0..c3) and of the chunk splitting
    (carry at c[n]) to all-ones / all-zero, so that the rarely non-zero carries out of those windows occur
    (found by mutation testing: dropping one of them survived random and single-pattern operands)."""
    B = 1 << 64
    ns = [25, 26, 31, 48, 49, 193, 194, 200] if tier == "quick" else \
         [25, 26, 27, 31, 33, 48, 49, 50, 97, 100, 191, 192, 193, 194, 195, 200, 256, 385, 577, 600]
    per = 7 if tier == "quick" else 24
    for n in ns:
        full = (1 << (64 * n)) - 1
        los = sorted(set([1, 2, n // 3 - 1, n // 3, n // 2, n - 1] + [rng.randrange(0, n) for _ in range(per)]))
        for lo in los:
            lo = max(0, min(n, lo))
            a2 = (1 << (64 * n)) - (1 << (64 * lo))
            j = rng.choice([0, 0, 0, rng.randrange(0, n)])
            b = (1 << (64 * n)) - (1 << (64 * j))
            a1 = rng.choice([full, full, (1 << (64 * n)) - (1 << (64 * rng.randrange(0, n))), 1])
            a = a1 + (a2 << (64 * n))
            yield Case("u.mul", [hx(a), hx(b)])
            if rng.random() < 0.3:
                yield Case("i.mul", [hx(-a), hx(b)])
            if rng.random() < 0.25:
                # three chunks, and the mirrored operand order
                a3 = a + (((1 << (64 * n)) - (1 << (64 * rng.randrange(0, n)))) << (128 * n))
                yield Case("u.mul", [hx(b), hx(a3)])
        # squares of run-structured operands (same windows through sqr -> add_signed_mul_same_len)
        yield Case("u.sqr", [hx((1 << (64 * n)) - (1 << (64 * rng.randrange(0, n))))])


def usub_boundary_pairs(rng, tier):
    """(a, b) pairs on BOTH sides of the UBig-subtraction panic (a < b) for every size-class pair:
    inline/inline, inline/heap, heap/inline, heap/heap of the same length (3, 4, 25, 200 words: differing in
    the top word, in the lowest word only, with all middle words equal, equal operands) and of different
    lengths; and valid subtractions whose borrow runs through all words / shrinks the result"""
    B = 1 << 64
    for n in ([3, 4, 25, 200] if tier == "quick" else [3, 4, 5, 24, 25, 26, 100, 200, 385]):
        P = 1 << (64 * (n - 1))
        for rep in range(2 if tier == "quick" else 6):
            top = rng.randrange(2, B - 2)
            mid = rng.choice([0, P // B * 0 + ((P - 1) & ~(B - 1)), rng.getrandbits(64 * (n - 1)) & ~(B - 1)])
            lo = rng.randrange(1, B - 2)
            a = top * P + mid + lo
            yield a, a + P                      # a < b, differ in the top word only
            yield a, a + 1                      # a < b, differ in the lowest word only
            yield a, a                          # equal
            yield a + 1, a                      # a > b by one
            yield top * P, top * P + 1          # all middle words zero
            yield top * P + (P - 1) - 1, top * P + (P - 1)      # all lower words ones
            yield a, (top + 1) * P              # a < b, b has zero low words
            # valid, borrow through every word
            yield top * P, (top - 1) * P + 1
            yield top * P, (top - 1) * P + (P - 1)              # result 1: shrinks to one word
            yield top * P, 1
            yield top * P + 5, top * P + 5 - 1
            # different lengths
            yield a % P, a                      # shorter - longer: panic
            yield a, a % P                      # longer - shorter
            yield P, P - 1                      # 1 0..0 - ff..f = 1
            yield P - 1, P                      # panic by one
    # inline / inline and inline / heap
    small = [0, 1, 2, B - 1, B, B + 1, B * B - 1]
    for x in small:
        for y in small:
            yield x, y
        yield x, B * B
        yield B * B, x
        yield x, B * B + x
        yield B * B + x, x


def usub_boundary_cases(rng, tier):
    for a, b in usub_boundary_pairs(rng, tier):
        yield Case("u.sub", [hx(a), hx(b)])


PRIM_U = {"u8": 8, "u16": 16, "u32": 32, "u64": 64, "usize": 64, "u128": 128}
PRIM_I = {"i8": 8, "i16": 16, "i32": 32, "i64": 64, "isize": 64, "i128": 128}

def prim_cases(rng, tier):
    """`+ - *` between UBig / IBig and every primitive integer type (add_ops.rs / mul_ops.rs "Ops with primitives"),
    all call forms in the harness: primitive values at the ends of the type (0, 1, MAX, MAX-1, MIN, MIN+1, -1, one
    random value of every bit length class), big operands of every representation class (0, one word, two words,
    the 2/3-word boundary, heap values with all-ones low words so that the carry/borrow runs into the heap part or
    shrinks it, 24/25 words), and for `-` both sides of the UBig underflow panic (a = p, p +- 1)."""
    B = 1 << 64
    bigs = [0, 1, 2, B - 1, B, B + 1, B * B - 1, B * B, B * B + 1, B ** 3 - 1, B ** 3, (B ** 3) + B - 1,
            B ** 4 - B * B, nat_pattern(rng, 3, "random"), nat_pattern(rng, 5, "random"), B ** 24 - 1, B ** 25 - 1,
            nat_pattern(rng, 25, "random")]
    reps = 1 if tier == "quick" else 4
    for ty, bits in list(PRIM_U.items()) + list(PRIM_I.items()):
        signed_ty = ty in PRIM_I
        lo, hi = (-(1 << (bits - 1)), (1 << (bits - 1)) - 1) if signed_ty else (0, (1 << bits) - 1)
        vals = {0, 1, 2, hi, hi - 1, hi // 2, hi // 2 + 1, lo, lo + 1}
        if signed_ty:
            vals |= {-1, -2}
        for _ in range(reps):
            k = rng.randrange(1, bits)
            v = rng.getrandbits(k) | (1 << (k - 1))
            vals.add(min(v, hi)); vals.add((1 << k) - 1 if (1 << k) - 1 <= hi else hi)
            if signed_ty:
                vals.add(max(-v, lo))
        for pv in sorted(vals):
            pool = bigs + [abs(pv), abs(pv) + 1, max(abs(pv) - 1, 0), abs(pv) + B, abs(pv) + B * B]
            picks = pool if tier == "thorough" else rng.sample(pool, 7) + [abs(pv), abs(pv) + 1, max(abs(pv) - 1, 0)]
            for a in picks:
                for op in ("add", "sub", "mul"):
                    if tier == "quick" and rng.random() < 0.65:
                        continue
                    if not signed_ty:
                        yield Case("up." + op, [ty, hx(a), hx(pv)])
                        yield Case("pu." + op, [ty, hx(pv), hx(a)])
                    sa = signed(rng, a)
                    yield Case("ip." + op, [ty, hx(sa), hx(pv)])
                    yield Case("pi." + op, [ty, hx(pv), hx(-sa if rng.random() < 0.5 else sa)])


USIZE_MAX = (1 << 64) - 1
BUF_MAX_CAPACITY = USIZE_MAX // 64

def extreme_usize(rng, tier):
    """ROUND4 addendum E1: 0, 1, W-1, W, W+1, 2W, 2^31, 2^32-1, 2^32, 2^32+k (k < 130), 2^63, MAX-k (k = 0..130)"""
    W = 64
    v = [0, 1, 2, 3, W - 1, W, W + 1, 2 * W - 1, 2 * W, 2 * W + 1, (1 << 31) - 1, 1 << 31, (1 << 31) + 1, (1 << 32) - 1, 1 << 32,
         (1 << 63) - 1, 1 << 63, (1 << 63) + 1, 1 << 62, (1 << 58) - 1, 1 << 58, (1 << 58) + 1]
    ks = range(130) if tier == "thorough" else [0, 1, 2, 63, 64, 65, 127, 128, 129] + [rng.randrange(130) for _ in range(6)]
    for k in ks:
        v.append((1 << 32) + k)
        v.append(USIZE_MAX - k)
    v.append(USIZE_MAX - 130)
    return sorted(set(v))

def pow_outcome(b, e, maxbits):
    """what `UBig::pow(b, e)` must do, decided without computing it: 'panic' (the documented allocation panic, raised
    before anything is allocated), 'cheap' (result below maxbits), or None (result astronomically large / the
    allocation would be attempted: not driven).  Mirrors pow.rs + shift_ops.rs `shl` + Buffer::allocate."""
    if e == 0 or b <= 1:
        return "cheap"
    s = (b & -b).bit_length() - 1
    odd = b >> s
    if e >= 3 and odd != 1:
        # the result buffer of pow_word_base / pow_dword_base is allocated up front (the odd part is powered first)
        if odd < (1 << 64):
            w = max_exp_in_word(odd)
            if e >= 2 * w and e // w + 1 > BUF_MAX_CAPACITY:
                return "panic"
        elif odd < (1 << 128) and 2 * e > BUF_MAX_CAPACITY:
            return "panic"
    if odd.bit_length() * e > maxbits and odd != 1:
        return None
    if s == 0:
        return "cheap"
    n = e * s
    if n > USIZE_MAX:
        return "panic" if odd == 1 else None       # the odd part is powered first: only cheap when it is 1
    if odd == 1:
        # r = 1: shl_dword(1, n): fits the double word, else shl_one_spilled allocates n/64 + 1 words
        if n <= 127:
            return "cheap"
        if n // 64 + 1 > BUF_MAX_CAPACITY:
            return "panic"
        return "cheap" if n <= maxbits else None
    return "cheap" if n + odd.bit_length() * e <= maxbits else None

def pow_extreme_cases(rng, tier):
    """E1 for the `usize` exponent of UBig::pow / IBig::pow: every extreme exponent for the bases whose power is cheap
    (0, 1, -1: the shortcuts of pow_word_base and the sign rule by parity) and for powers of two 2^s of every
    representation class (word, double word, heap), where the outcome is either a small shift or the documented
    allocation panic: `exp * shift` overflowing usize (`checked_mul`), or a shift whose `Buffer::allocate` argument
    exceeds MAX_CAPACITY (`2.pow(usize::MAX - k)`, k < 64).  Exponents for which the code would really try to allocate
    (between ~2^22 and 2^64 - 64 result bits) are not driven: the outcome depends on the allocator."""
    maxbits = 200_000 if tier == "quick" else 3_000_000
    exps = extreme_usize(rng, tier)
    for b in (0, 1):
        for e in exps:
            yield Case("u.pow", [hx(b), dec(e)])
            yield Case("i.pow", [hx(-b), dec(e)])
            yield Case("i.pow", [hx(b), dec(e)])
    shifts = [1, 2, 3, 7, 31, 32, 33, 62, 63, 64, 65, 100, 127, 128, 129, 130, 191, 192, 193, 200, 1000]
    for s in shifts:
        b = 1 << s
        cand = set(exps)
        # both sides of the two panic boundaries: exp*s = 2^64 +- small, and allocate(n/64 + 1) = MAX_CAPACITY +- 1
        q = (1 << 64) // s
        cand |= {q - 1, q, q + 1, q + 2}
        lim = BUF_MAX_CAPACITY * 64            # smallest n with n/64 + 1 > MAX_CAPACITY
        cand |= {-(-lim // s), -(-lim // s) + 1}
        for e in sorted(x for x in cand if 0 <= x <= USIZE_MAX):
            if pow_outcome(b, e, maxbits) is None:
                continue
            yield Case("u.pow", [hx(b), dec(e)])
            if rng.random() < 0.5:
                yield Case("i.pow", [hx(-b), dec(e)])
    # odd parts > 1: word bases (wexp from 1 to 40), double-word bases, with and without a factor 2^s — the up-front
    # Buffer::allocate of pow_word_base (exp / wexp + 1 words) / pow_dword_base (2 * exp words) against MAX_CAPACITY
    B = 1 << 64
    obases = [3, 5, 7, 10, 12, 255, (1 << 16) + 1, (1 << 32) - 1, (1 << 32) + 1, B - 1, 3 << 20, 5 << 64, 3 << 130,
              B + 1, B * B - 1, 3 * B, (B + 1) << 5, (B * B - 1) << 64]
    for b in obases:
        s = (b & -b).bit_length() - 1
        odd = b >> s
        cand = set(exps)
        if odd < B:
            w = max_exp_in_word(odd)
            cand |= {w * BUF_MAX_CAPACITY, w * BUF_MAX_CAPACITY + 1, w * BUF_MAX_CAPACITY + w, w * (BUF_MAX_CAPACITY + 1)}
        else:
            cand |= {BUF_MAX_CAPACITY // 2 + 1, BUF_MAX_CAPACITY // 2 + 2, BUF_MAX_CAPACITY, BUF_MAX_CAPACITY + 1}
        for e in sorted(x for x in cand if 0 <= x <= USIZE_MAX):
            if pow_outcome(b, e, maxbits) is None:
                continue
            yield Case("u.pow", [hx(b), dec(e)])
            if rng.random() < 0.5:
                yield Case("i.pow", [hx(-b), dec(e)])


def every_bit_length_cases(rng, tier):
    """E2: the boundary operands 2^k - 1, 2^k, 2^k + 1 for EVERY bit length k (not only near the ends of a word):
    carries that grow / borrows that shrink the bit length by one, products and squares on both sides of every word
    boundary, the UBig underflow by one; and pow bases of every bit length 2..64 (word lifting: `max_exp_in_word`
    depends on the bit length) and a double-word base of every bit length 65..128, around wexp and 2*wexp."""
    top = 330 if tier == "quick" else 1700
    for k in range(0, top):
        p = 1 << k
        j = rng.randrange(0, top)
        q = (1 << j) + rng.choice([-1, 0, 1])
        q = max(q, 0)
        yield Case("u.add", [hx(p - 1), hx(1)])
        yield Case("u.sub", [hx(p), hx(1)])
        yield Case("u.sub", [hx(p - 1), hx(p)])                  # underflow by one
        yield Case("i.sub", [hx(p - 1), hx(p + 1)])
        yield Case("i.add", [hx(-(p + 1)), hx(p - 1)])
        yield Case("u.mul", [hx(p - 1), hx(q)])
        yield Case("ui.mul", [hx(p + 1), hx(-q)])
        if k % 3 == 0 or tier == "thorough":
            yield Case("u.sqr", [hx(p - 1)])
            yield Case("i.sqr", [hx(-(p + 1))])
            yield Case("u.cubic", [hx(p - 1)])
            yield Case("i.cubic", [hx(-(p + 1))])
    maxbits = 200_000 if tier == "quick" else 3_000_000
    for k in range(2, 129):
        for b in {(1 << k) - 1, (1 << k) + 1 if k < 128 else (1 << k) - 3, (1 << (k - 1)) | rng.getrandbits(k - 1) | 1}:
            if b <= 2:
                continue
            exps = {2, 3, 4, 5}
            if b < (1 << 64):
                w = max_exp_in_word(b)
                exps |= {w - 1, w, w + 1, 2 * w - 1, 2 * w, 2 * w + 1, 3 * w + 1}
            for e in sorted(x for x in exps if x >= 0):
                if b.bit_length() * e > maxbits:
                    continue
                yield Case("u.pow", [hx(b), dec(e)])
                if rng.random() < 0.4:
                    yield Case("i.pow", [hx(-b), dec(e)])


_generate_base = generate

def generate(rng, tier):
    yield from _generate_base(rng, tier)
    yield from boundary_cases(rng, tier)
    yield from mul_threshold_cases(rng, tier)
    yield from ones_run_cases(rng, tier)
    yield from usub_boundary_cases(rng, tier)
    yield from mul_chunk_remainder_cases(rng, tier)
    yield from pow_cases(rng, tier)
    yield from pow_extreme_cases(rng, tier)
    yield from every_bit_length_cases(rng, tier)
    yield from prim_cases(rng, tier)

LEVEL_TEXT = ("Machine-checked Lean 4 theorems, for every word size W >= 1, every operand length and sign: the word-level "
              "carry/borrow loops, the inline/heap dispatch of every ownership form, from_buffer normalisation and the IBig "
              "sign tables compute exact sums/differences (UBig underflow = documented panic iff a < b, in all four ownership "
              "forms, one theorem) with canonical results; multiplication by one or two words, the schoolbook kernels, chunk "
              "splitting, the Karatsuba and Toom-3 recursions and the squaring kernels (thresholds regenerated from source; "
              "W >= 4 because of the word constants 6 and 12 of Toom-3) compute exact products, with every asserted-zero "
              "carry/borrow/remainder (mul::multiply, the Toom-3 scratch arithmetic, sqr::simple) proved zero; the public "
              "sqr/cubic of UBig/IBig are exact; the mirrored control flow of pow.rs computes base^exp with the IBig sign rule, "
              "and UBig::pow / IBig::pow are characterised completely for every usize exponent: the documented allocation "
              "panic exactly on an explicit class of (base, exp) values, the exact canonical power otherwise. "
              "Tie A (regenerated from /repo on every run, a semantic edit breaks a theorem): IBig sign tables, the 16 "
              "TypedRepr-level operator impls (which kernel each match arm calls, with which operands, which sign flip), "
              "public sqr/cubic bodies, mul_dword / mul_large guards, all multiplication thresholds, MAX_LEN_SIMPLE, the "
              "memory_requirement_* formulas and pow buffer sizes. Tie B: differential execution of the model (which runs the "
              "regenerated dispatch over the mirrored kernels) and the real code over structured operands around every "
              "size-class and algorithm threshold, every bit length, extreme exponents, all primitive operand types, all call "
              "forms. The single-word division by 6 and the 1-bit shift inside Toom-3 and the shifts / trailing_zeros around pow "
              "are composed with the mirrored kernels of C02 / C09 (no step at its specification); buffer capacity policy is C17. "
              "Scratch-memory sufficiency of mul_large/square_large is proved for all sizes.")
LEVEL_NOTE = ("Trusted: Lean kernel; axioms propext/Classical.choice/Quot.sound; the correspondence harness and generators "
              "(sampling) for the tie kernels<->code (the dispatch above the kernels is regenerated, not sampled); the extraction "
              "script vlib/extract_intdispatch.py (fails closed on any construct outside its subset); arch primitives "
              "(overflowing_add/sub, the x86 _addcarry/_subborrow intrinsics, split_dword/extend_word) at their documented "
              "contracts — add_with_carry / sub_with_borrow themselves are regenerated (C19, Gen/ArchAdd.lean) and proved to be "
              "the carry step of the word loops (Props/C01Arch.lean) and of add_dword_in_place / sub_dword_in_place / add_in_place / "
              "sub_in_place as whole functions (Props/C01ArchDword.lean); "
              "usize = 64 bits; pow results that would need a real allocation "
              "between ~2^22 bits and MAX_CAPACITY words are covered by theorem only (not executable on either side); "
              "buffer capacity policy / allocation layout is C17.")
TECHNIQUE = "Lean 4 refinement proofs (induction over word lists, all W) + differential correspondence model vs real code"

# Tie A: IBig sign tables regenerated from integer/src/{add_ops,mul_ops}.rs on every run
USES_GEN = True
GEN_PROPS = ["Dashu.Props.GenInt", "Dashu.Props.C01Dispatch", "Dashu.Props.C01Arch", "Dashu.Props.C01ArchDword"]
GEN_AUDIT = ["Dashu.Audit.GenInt", "Dashu.Audit.C01Dispatch", "Dashu.Audit.C01Arch", "Dashu.Audit.C01ArchDword"]
READY = True
