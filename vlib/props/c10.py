"""C10 — rounding to integers / fewer digits picks the right neighbour; the two public rounding
primitives follow the six mode definitions (DESIGN §8 C10)."""
from vlib.core import Case
from vlib.gens import hx, dec

GROUP = "float"
LEAN_PROPS = "Dashu.Props.C10"
LEAN_AUDIT = "Dashu.Audit.C10"
USES_GEN = True
READY = True
GEN_PROPS = ["Dashu.Props.GenRound", "Dashu.Props.C10Est", "Dashu.Props.C10EstNoStd"]
GEN_AUDIT = ["Dashu.Audit.GenRound", "Dashu.Audit.C10Est", "Dashu.Audit.C10EstNoStd"]
# Tie A, typed translator: trunc / split_at_point / fract / ceil / floor / round of float/src/round_ops.rs regenerated
# and proved equal to `Model/Float/RoundOps.lean`
GEN_PROPS += ["Dashu.Props.GenFloatOps"]
GEN_AUDIT += ["Dashu.Audit.GenFloatOps"]
# round 4: the coarse f32 test of round_fract on its explicit region (real analysis, kept apart like C10Est) and the
# mirrored rational/src/round.rs with the twelve RBig / Relaxed entry points
GEN_PROPS += ["Dashu.Props.C10Coarse", "Dashu.Props.C10Ratio"]
GEN_AUDIT += ["Dashu.Audit.C10Coarse", "Dashu.Audit.C10Ratio"]

BASES = [2, 3, 10, 16, 36]
MODES = "ZAUDEH"
PRECS = [1, 2, 3, 5, 8, 24, 53, 100]

# ----------------------------------------------------------------------------- helpers (shared with c03)

def fenc(base, signif, exp, prec, mode):
    return "f:%d:%s:%d:%d:%s" % (base, hx(signif), exp, prec, mode)

def fdec(s):
    t = s.split(":")
    sg = t[2]
    v = -int(sg[1:], 16) if sg.startswith("-") else int(sg, 16)
    return int(t[1]), v, int(t[3]), int(t[4]), t[5]

def ndigits(B, n):
    n = abs(n)
    d = 0
    while n:
        n //= B
        d += 1
    return d

def normalize(B, s, e):
    if s == 0:
        return 0, 0
    while s % B == 0:
        s //= B
        e += 1
    return s, e

def rand_sig(rng, B, d, pat=None):
    """a significand with exactly d digits whose last digit is non-zero (normalised)"""
    if d <= 0:
        return 0
    pat = pat or rng.choice(["random", "random", "ones", "one", "lowone", "half", "halfm", "halfp"])
    if d == 1:
        return rng.randrange(1, B)
    hi = B ** (d - 1)
    if pat == "ones":
        v = B ** d - 1
    elif pat == "one":
        v = hi + 1
    elif pat == "lowone":
        v = rng.randrange(1, B) * hi + rng.randrange(1, B)
    elif pat in ("half", "halfm", "halfp"):
        # leading digits random, tail = half of B^k (+-1)
        k = rng.randrange(1, d)
        top = rng.randrange(B ** (d - k - 1), B ** (d - k)) if d - k >= 1 else 0
        tail = (B ** k) // 2 + {"half": 0, "halfm": -1, "halfp": 1}[pat]
        v = top * B ** k + tail
    else:
        v = rng.randrange(hi, B ** d)
    if v % B == 0:
        v += rng.randrange(1, B)
    if ndigits(B, v) != d:
        v = hi + 1
    return v

# ----------------------------------------------------------------------------- generator

def half_fracs(B, k):
    bk = B ** k
    h = bk // 2
    fr = {0, 1, h - 1, h, h + 1, bk - 1}
    return sorted(f for f in fr if 0 <= f < bk)

def gen_primitives(rng, tier):
    # the complete finite grid (DESIGN §8 C10)
    for B in BASES:
        for k in (1, 2, 3, 7):
            for n in (-2, -1, 0, 1, 2):
                for f in half_fracs(B, k):
                    for sg in ((1, -1) if f else (1,)):
                        for m in MODES:
                            yield Case("r.fract", [m, dec(B), hx(n), hx(sg * f), dec(k)])
    dens = [2, 3, 4, 7, 10, 9, (1 << 64) - 1, 1 << 64, (1 << 64) + 1, 10 ** 30 + 1]
    for d in dens:
        h = d // 2
        nums = sorted(x for x in {0, 1, h - 1, h, h + 1, d - 1} if 0 <= x < d)
        for n in (-2, -1, 0, 1, 2):
            for num in nums:
                for sn in ((1, -1) if num else (1,)):
                    for sd in (1, -1):
                        for m in MODES:
                            yield Case("r.ratio", [m, dec(10), hx(n), hx(sn * num), hx(sd * d)])
    # large random integers / fractions
    cnt = 300 if tier == "quick" else 30000
    for _ in range(cnt):
        B = rng.choice(BASES); m = rng.choice(MODES)
        k = rng.choice([1, 2, 5, 17, 40, 64, 129])
        bk = B ** k
        n = rng.choice([0, 1, -1, rng.getrandbits(70), -rng.getrandbits(130), 2 * rng.getrandbits(64), 2 * rng.getrandbits(64) + 1])
        f = rng.choice([bk // 2, bk // 2 + 1, bk // 2 - 1, rng.randrange(0, bk), 1, bk - 1])
        f = min(f, bk - 1) * rng.choice([1, -1])
        yield Case("r.fract", [m, dec(B), hx(n), hx(f), dec(k)])
        den = rng.choice([rng.getrandbits(64) | 1, rng.getrandbits(200) | 1, 2 * rng.getrandbits(90) + 2])
        num = rng.choice([den // 2, den // 2 + 1, max(den // 2 - 1, 0), rng.randrange(0, den), 1, den - 1])
        yield Case("r.ratio", [m, dec(B), hx(n), hx(num * rng.choice([1, -1])), hx(den * rng.choice([1, -1]))])
    # directed probes of the coarse f32 test of round_fract (DESIGN §8 C10: margins 0.999 / 1.001
    # hold an f32 product error only while log2(B)*precision < ~2^13): fractions within 2^-0.002 of 1/2
    precs = [1200, 5000, 9000] if tier == "quick" else [1200, 2500, 4933, 5000, 7000, 9000, 12000, 16384, 20000, 33000]
    per = 4 if tier == "quick" else 40
    for k in precs:
        for B in ([10, 3] if tier == "quick" else [2, 3, 10, 16, 36]):
            bk = B ** k
            for _ in range(per):
                # |f| = B^k/2 * (1 + delta), delta in +-[2^-20, 2^-9]
                t = rng.randrange(9, 21)
                delta = rng.choice([-1, 1]) * (bk >> t) * rng.randrange(1, 4) // 2
                f = bk // 2 + delta + rng.choice([0, 1])
                f = max(1, min(bk - 1, f))
                m = rng.choice("EH")
                yield Case("r.fract", [m, dec(B), hx(rng.choice([0, 1, 2, -1])), hx(f * rng.choice([1, -1])), dec(k)], nontrivial=True)

def shx(v):
    return ("-%x" % -v) if v < 0 else ("%x" % v)

def gen_coarse_directed(rng, tier):
    """directed probes of round_fract's coarse f32 test through `r.fracth` (|fract| = B^k div 2 + c*(B^k >> t) + e is built on
    both sides, no digits are shipped).  Props/C10Coarse proves the test sound for k <= 2^24 (`precision as f32` exact); the
    classes: deep inside the region, at its edge (2^24 - 1, 2^24) and BEYOND it (2^24 + 1, 2^24 + 3, 2^25 + 3: k is rounded
    by the conversion), each with ties, tie+-1, near-halves (relative distance 2^-8 .. 2^-24) and fractions far from 1/2
    (where the test decides)."""
    def offsets(n):
        out = [(0, 0, 0), (0, 0, 1), (0, 0, -1), (2, 1, 0), (2, -1, 0), (3, 3, 1)]
        for _ in range(n):
            out.append((rng.randrange(8, 25), rng.choice([-3, -2, -1, 1, 2, 3]), rng.choice([0, 0, 1, -1])))
        return out
    inside = [1200, 1683, 5000, 9000, 33000, 100000] if tier == "quick" else \
        [1200, 1683, 2525, 4933, 5000, 7000, 9000, 12000, 16384, 20000, 33000, 100000, 300000, 1000000]
    for k in inside:
        for B in BASES:
            for (t, c, e) in offsets(3 if tier == "quick" else 30):
                yield Case("r.fracth", [rng.choice("EH" + MODES), dec(B), hx(rng.choice([0, 1, 2, -1])), dec(k), dec(t),
                                        shx(c), shx(e), rng.choice(["true", "false"])], nontrivial=True)
    K24 = 1 << 24
    if tier == "quick":
        edge = [(2, K24), (2, K24 + 1), (16, K24 + 1), (2, 2 * K24 + 3), (10, K24 + 1)]
        offs = [(0, 0, 0), (20, 1, -1)]
    else:
        edge = [(B, k) for B in BASES for k in (K24 - 1, K24, K24 + 1, K24 + 3, 2 * K24 + 3)]
        offs = [(0, 0, 0), (0, 0, -1), (rng.randrange(18, 25), rng.choice([-1, 1]), 0), (2, 1, 0)]
    for (B, k) in edge:
        for (t, c, e) in offs:
            yield Case("r.fracth", [rng.choice("EH"), dec(B), hx(rng.choice([0, 1])), dec(k), dec(t), shx(c), shx(e),
                                    rng.choice(["true", "false"])], nontrivial=True)

def float_values(rng, B, p):
    """(signif, exp) pairs built from the branch conditions of round_ops.rs: exponent >= 0, radix point
    inside the digits, |x| in [1/B,1), |x| < 1/B, exponent far below -precision; halves / near-halves"""
    d = rng.randrange(1, p + 1) if p > 0 else rng.randrange(1, 30)
    if rng.random() < 0.35:
        d = p if p > 0 else d
    s = rand_sig(rng, B, d)
    cls = rng.randrange(0, 10)
    if cls == 0:
        e = rng.choice([0, 1, 5])
    elif cls in (1, 2, 3):
        e = -rng.randrange(1, d + 1)                 # point inside / just left of the digits
    elif cls == 4:
        e = -d                                       # 0.ddd
    elif cls == 5:
        e = -d - 1                                   # 0.0ddd : exp + digits = -1
    elif cls in (6, 7):
        e = -d - 2                                   # exp + digits = -2 : smaller_than_one window of `round`
    elif cls == 8:
        e = -d - 3
    else:
        e = -d - rng.choice([4, 10, p + 5, 3 * p + 50])
    # exact halves and near halves of the fractional part
    r = rng.random()
    if r < 0.25 and e < 0 and B % 2 == 0:
        k = -e
        ip = rng.choice([0, 1, 2, 3, rng.randrange(0, B ** max(d - 1, 1))])
        fr = (B ** k) // 2 + rng.choice([0, 0, -1, 1])
        v = ip * B ** k + fr
        if v % B and (p == 0 or ndigits(B, v) <= p):
            s = v
    elif r < 0.35 and B % 2 == 0:
        s = B // 2                                   # 0.5, 0.05, 0.005 ...
    elif r < 0.45:
        s = B ** d - 1
    if rng.random() < 0.5:
        s = -s
    return s, e

def gen_floats(rng, tier):
    cnt = 5000 if tier == "quick" else 400000
    ops = ["f.trunc", "f.floor", "f.ceil", "f.round", "f.round", "f.fract", "f.split", "f.to_int", "f.to_int",
           "f.to_int", "f.repr_to_int"]
    for _ in range(cnt):
        B = rng.choice(BASES); m = rng.choice(MODES)
        p = rng.choice(PRECS + [1, 2, 3]) if rng.random() < 0.97 else 0
        s, e = float_values(rng, B, p)
        op = rng.choice(ops)
        if p == 0 and op in ("f.round", "f.to_int") and e + ndigits(B, s) <= -2:
            # unlimited precision on the defective path is a debug assertion; keep a few
            if rng.random() < 0.7:
                p = rng.choice(PRECS)
        if p and ndigits(B, s) > p:
            continue
        yield Case(op, [fenc(B, s, e, p, m)])
    # long operands at the threshold of the `smaller_than_one` shortcut (`exp + digits_ub < -1`), moved by up to 4 % of
    # the length: a digit estimate that is off by a few per cent of the digit count shows only here
    cnt = 300 if tier == "quick" else 20000
    for _ in range(cnt):
        B = rng.choice([10, 10, 2, 3, 16, 36]); m = rng.choice(MODES)
        d = rng.choice([64, 100, 100, 200, 400, 1000])
        s = rand_sig(rng, B, d) * rng.choice([1, -1])
        if rng.random() < 0.3:
            s = (B ** d - 1) * rng.choice([1, -1])
        e = -d + rng.choice([-3, -2, -1, 0, 1, 2, d // 60, d // 40, d // 25])
        yield Case(rng.choice(ops), [fenc(B, s, e, d, m)])
    cnt = 1500 if tier == "quick" else 120000
    for _ in range(cnt):
        B = rng.choice(BASES); m = rng.choice(MODES)
        p = rng.choice(PRECS)
        d = rng.choice([1, p, p, max(1, p - 1), rng.randrange(1, p + 1)])
        s = rand_sig(rng, B, d) * rng.choice([1, -1])
        e = rng.choice([0, -1, 3, -d, -d - 3, 17, -40])
        np_ = rng.choice([0, 1, 1, 2, max(1, d - 1), max(1, d - 1), d, d + 1, max(1, d // 2), p, p + 3])
        yield Case("f.with_precision", [fenc(B, s, e, p, m), dec(np_)])
    # unlimited source precision (context precision 0: no bound on the digit count) - with_precision must round
    # it (fix ee15d7b), and every rounding method must treat `precision.saturating_sub(..)` of 0 correctly
    cnt = 600 if tier == "quick" else 40000
    for _ in range(cnt):
        B = rng.choice(BASES); m = rng.choice(MODES)
        d = rng.choice([1, 2, 3, 7, 25, 60, 130])
        s = rand_sig(rng, B, d) * rng.choice([1, -1])
        e = rng.choice([0, -1, 3, -d, -d - 1, -d - 2, -d - 3, -(d // 2) - 1, 17, -40])
        op = rng.choice(["f.with_precision"] * 4 + ["f.trunc", "f.floor", "f.ceil", "f.round", "f.fract", "f.split",
                                                     "f.to_int", "f.repr_to_int"])
        if op == "f.with_precision":
            np_ = rng.choice([0, 1, 2, 3, max(1, d - 1), d, d + 1, max(1, d // 2), 2 * d + 3])
            yield Case(op, [fenc(B, s, e, 0, m), dec(np_)])
        else:
            yield Case(op, [fenc(B, s, e, 0, m)])

QOPS = ["q.trunc", "q.floor", "q.ceil", "q.round", "q.fract", "q.split", "q.fract_raw", "q.split_raw"]

def gen_rational(rng, tier):
    # every op runs the RBig AND the Relaxed entry point; `*_raw` print the fraction as each type holds it (unreduced in
    # Relaxed).  Denominators 6, 9, 12 with unreduced numerators exercise reduce / reduce2 before the rounding
    for d in (1, 2, 3, 4, 6, 7, 9, 10, 12):
        for n in range(-3 * d - 1, 3 * d + 2):
            for op in QOPS:
                yield Case(op, [hx(n), hx(d)], nontrivial=False)
    cnt = 600 if tier == "quick" else 60000
    for _ in range(cnt):
        d = rng.choice([rng.getrandbits(64) | 1, rng.getrandbits(130) | 1, 2 * rng.getrandbits(70) + 2, 1 << 64, (1 << 128) - 1])
        q = rng.choice([0, 1, rng.getrandbits(66), rng.getrandbits(200)])
        r = rng.choice([0, 1, d // 2, d // 2 + 1, max(d // 2 - 1, 0), d - 1, rng.randrange(0, d)])
        n = (q * d + r) * rng.choice([1, -1])
        if rng.random() < 0.4:
            # common factor: odd (kept by Relaxed, removed by RBig), a power of two (removed by both), or both
            g = rng.choice([3, 15, 1 << rng.randrange(1, 70), 3 << rng.randrange(1, 70), rng.getrandbits(64) | 1])
            n *= g; d *= g
        yield Case(rng.choice(QOPS), [hx(n), hx(d)])

def generate(rng, tier):
    yield from gen_primitives(rng, tier)
    yield from gen_coarse_directed(rng, tier)
    yield from gen_floats(rng, tier)
    yield from gen_rational(rng, tier)

def nontrivial(c):
    if c.op == "r.fracth":
        return True
    if c.op.startswith("r."):
        return c.args[3] != "0"
    if c.op.startswith("f."):
        B, s, e, p, m = fdec(c.args[0])
        return s != 0 and e < 0
    return True

RULE = ("primitives: the complete grid integer {-2..2} x fraction {0,+-1,+-(h-1),+-h,+-(h+1),+-(B^k-1)} (h = B^k div 2) x "
        "k {1,2,3,7} x bases {2,3,10,16,36} x 6 modes for round_fract, the analogous grid over 10 denominators (both signs) for "
        "round_ratio, plus random 64..900-bit operands and directed probes of round_fract's coarse f32 test (precision 1200..33000 "
        "digits, |fract| within 2^-9..2^-20 of 1/2). Floats: modes x bases x p in {1,2,3,5,8,24,53,100,(0)} x exponent classes "
        "{>=0, point inside the digits, exp+digits = 0,-1,-2,-3, far below -precision} x significands {random, B^d-1, exact halves "
        "and halves+-1 of the fractional part, B/2} x signs, through trunc/floor/ceil/round/fract/split_at_point/to_int/Repr::to_int "
        "and with_precision to {0,1,2,d-1,d,d+1,d/2,p,p+3} digits; 64..1000-digit operands with exp+digits in {-3..2, +1.6%, +2.5%, +4% of "
        "the length} (threshold of the digit-estimate shortcut); the same ops on operands of UNLIMITED precision (context precision 0, "
        "1..130 digits, with_precision to {0,1,2,3,d-1,d,d+1,d/2,2d+3}). Rationals: all n/d with d in {1,2,3,4,7,10}, |n| <= 3d+1, plus "
        "random 64..330-bit ones with remainders {0,1,d/2-1,d/2,d/2+1,d-1}, 40 % multiplied through by a common factor (odd, power "
        "of two, both) so that RBig and Relaxed hold different representations; every rational op runs both entry points, "
        "q.fract_raw / q.split_raw print the fraction as each type holds it. Coarse-test probes (r.fracth, |fract| = B^k div 2 + "
        "c*(B^k >> t) + e built on both sides): k in {1200 .. 10^6} inside the proved region, k = 2^24-1, 2^24 at its edge and "
        "k = 2^24+1, 2^24+3, 2^25+3 beyond it, with ties, ties+-1, near-halves (2^-8..2^-24) and far fractions. Non-trivial := non-zero low part / fractional digits "
        "present; distinct := distinct (op,args).")
REFINED = ["Round::round_low_part x6 (regenerated, Props/GenRound)", "Round::round_fract", "Round::round_ratio",
           "utils::split_digits / split_digits_ref (base-10, power-of-two and generic paths)",
           "utils::shl_digits / shl_digits_in_place / shr_digits / shr_ref (base-2, base-10, power-of-two and generic paths)",
           "utils::digit_len",
           "Repr::normalize", "Context::repr_round / repr_round_ref", "FBig::with_precision",
           "FBig::trunc/floor/ceil/round/fract/split_at_point/to_int", "Repr::to_int",
           "rational Repr::{split_at_point, ceil, floor, trunc, fract, round} mirrored statement by statement (Model/Float/QRound.lean: "
           "div_rem + adjustment, Repr::zero() for a zero remainder, unreduced fraction) and executed by the driver",
           "RBig::{split_at_point, ceil, floor, round, trunc, fract} and Relaxed::{...}: the twelve wrappers, each driven on the "
           "representation its type holds after from_parts (reduce / reduce2 mirrored at value level); results of fract / "
           "split_at_point proved to keep the type invariant without reduction",
           "round_fract's coarse f32 test (closure `test`): bit-exact Float32 replica `coarseF32` executed by the driver in "
           "r.fract / r.fracth in place of the exact comparison; proved sound over the reals on the explicit region "
           "2 <= B < 2^64, 0 < |fract| < B^k, k <= 2^24 (Props/C10Coarse)"]
FRONTIER = ["round_fract coarse test for precision > 2^24 digits (`precision as f32` is rounded): outside the proved region, driven on the "
            "real code against the exact comparison (k = 2^24+1, 2^24+3, 2^25+3, all bases, ties / near-halves / far fractions); "
            "inside the region the proof rests on the f32 assumptions (R) relative error <= 2^-24 per operation, (E) log2_bounds "
            "encloses log2, (S-structure) enclosure of the highest double word; FBig ops / repr_round still run the model with "
            "the exact comparison (sound by the same theorem; the replica is used in the r.* primitives)",
            "f32 estimates digits_ub / smaller_than_one: parameters with enclosure hypotheses. Proved: the "
            "hypotheses follow from (A) log2 n <= ub, (B) monotone f32 rounding fixing small integers, (C) two constants on the safe "
            "side (Props/C10Est); (A) for the no_std table estimator follows from builder-nt's integer theorems with no libm "
            "assumption (Props/C10EstNoStd); the estimate is not observable through trunc/fract/split/floor/ceil/round since "
            "/repo 0ac7547 (theorems estimate_unobservable, estimators_agree). Still "
            "assumed: IEEE-754 facts (B), the grid fact (G) for n >= 2^24, the numeric facts (C), log2f within one ulp (std path); "
            "the driver's bit-exact replica is checked against the enclosure on every operand"]
THEOREMS = ["Dashu.Props.C10." + t for t in (
    "round_fract_follows_mode round_fract_estimate_irrelevant round_ratio_follows_mode round_fract_contract digit_len_spec "
    "split_digits_all_paths shl_digits_all_paths shr_digits_all_paths repr_new_value_normalized repr_round_contract "
    "with_precision_contract with_precision_digits estimate_unobservable estimators_agree trunc_correct floor_correct ceil_correct round_correct to_int_correct to_int_contract "
    "repr_to_int_correct trunc_add_fract_eq split_at_point_eq rbig_trunc_correct rbig_floor_correct rbig_ceil_correct "
    "rbig_round_correct rbig_trunc_add_fract").split()] + [
    "Dashu.Props.C10Est.digits_ub_sound", "Dashu.Props.C10Est.dub_sound", "Dashu.Props.C10EstNoStd.digits_ub_nostd_sound",
    "Dashu.Props.C10Coarse.coarse_test_sound", "Dashu.Props.C10Coarse.round_fract_coarse_irrelevant",
    "Dashu.Props.C10Coarse.coarse_gt_margin", "Dashu.Props.C10Coarse.coarse_lt_margin",
    "Dashu.Props.C10Coarse.adjust_slack_lower", "Dashu.Props.C10Coarse.adjust_slack_upper",
    "Dashu.Props.C10Ratio.repr_trunc_correct", "Dashu.Props.C10Ratio.repr_floor_correct", "Dashu.Props.C10Ratio.repr_ceil_correct",
    "Dashu.Props.C10Ratio.repr_round_correct", "Dashu.Props.C10Ratio.repr_trunc_add_fract", "Dashu.Props.C10Ratio.repr_fract_range",
    "Dashu.Props.C10Ratio.repr_split_at_point_eq", "Dashu.Props.C10Ratio.rbig_entry_points",
    "Dashu.Props.C10Ratio.relaxed_entry_points",
    "Dashu.Props.GenRound.zero_correct", "Dashu.Props.GenRound.away_correct", "Dashu.Props.GenRound.up_correct",
    "Dashu.Props.GenRound.down_correct", "Dashu.Props.GenRound.half_even_correct", "Dashu.Props.GenRound.half_away_correct"]
EXPLANATION = ("Lean theorems, for every base >= 2, every precision and all integers: the regenerated six mode tables composed with the "
               "exact half comparison (round_fract, round_ratio) return the adjustment the mode's definition names; repr_round / "
               "with_precision satisfy the rounding contract over Rat; trunc+fract = x, split_at_point = (trunc, fract) and "
               "floor/ceil/round/trunc/to_int/Repr::to_int name the right neighbour with truthful flags for every digits_ub estimator "
               "satisfying its enclosure hypothesis (the model mirrors /repo after fix f9ab1b6 of split_at_point_internal, found here: "
               "0.0099 at 2 digits rounded to 1); the mirrored Repr::{split_at_point,ceil,floor,trunc,fract,round} of rational/src/round.rs "
               "and the twelve RBig/Relaxed entry points name the right neighbour, x = trunc + fract, and fract keeps the type "
               "invariant unreduced; the coarse f32 test of round_fract decides as the exact comparison for every precision up to "
               "2^24 digits (no bound of the order 10^4 is needed: log2_bounds_large's ADJUST factor pays for the roundings). Model tied to "
               "/repo by the regenerated tables and by differential execution.")
ASSUMPTIONS = ["round_fract coarse test (Props/C10Coarse): (R) every f32 + / * is a rounding with relative error <= 2^-24 (IEEE-754 "
               "round-to-nearest, normal range), (E) 0 <= lb <= log2 n <= ub for log2_bounds, (S) for operands >= 2^128 the highest "
               "double word's bounds enclose its log2 (the ADJUST slack is then derived), (C) 0.999f32 = 16760439/2^24, "
               "1.001f32 = 8396997/2^23; region k <= 2^24",
               "f32 digit estimate: digits <= digits_ub is PROVED (Props/C10Est, over the reals) from: (A) log2f at most one ulp too small "
               "(log2 x <= next_up(log2f x); for n >= 2^24 plus the IEEE grid fact next_up(fl(est+s)) >= next_up(est)+s), (B) the single "
               "f32 * or / is a monotone rounding fixing integers <= 2^24, (C) LOG10_2 >= log10 2 and 0 < log2_bounds(B).0 <= log2 B; "
               "(A)-(C) themselves are assumptions about IEEE binary32 / libm, and the driver additionally checks the resulting "
               "enclosure on every driven operand",
               "IBig/UBig kernels (mul, div_rem, pow, shifts) at their specification (C01/C02)"]
LEVEL_TEXT = ("Machine-checked Lean 4 theorems over all integers, bases, precisions and modes for the rounding primitives (on top of the "
              "mode tables regenerated from float/src/round.rs at every run), repr_round/with_precision (rounding contract over Rat) and "
              "the integer roundings of FBig and RBig; the hand-written part of the model is tied to /repo by differential execution "
              "over the complete primitive grid and structured floats around every branch condition of round_ops.rs.")
LEVEL_NOTE = ("Trusted: Lean kernel; axioms propext/Classical.choice/Quot.sound; the correspondence harness and generators (sampling) "
              "for the hand-written model; the f32 estimators only through checked enclosure hypotheses (not proved for libm's "
              "log2f). The defect found here (split_at_point_internal's smaller-than-one shortcut) is repaired in /repo (f9ab1b6); "
              "its witnesses stay in corpus/C10 as regression cases.")
TECHNIQUE = "Lean 4 proofs over a mirrored model (regenerated decision tables + hand-written arithmetic) + differential correspondence"
