"""C10 — rounding to integers / fewer digits picks the right neighbour; the two public rounding
primitives follow the six mode definitions (DESIGN §8 C10)."""
from vlib.core import Case
from vlib.gens import hx, dec

GROUP = "float"
LEAN_PROPS = "Dashu.Props.C10"
LEAN_AUDIT = "Dashu.Audit.C10"
USES_GEN = True
READY = True
GEN_PROPS = ["Dashu.Props.GenRound", "Dashu.Props.C10Est", "Dashu.Props.C10EstNoStd"]
GEN_AUDIT = ["Dashu.Audit.GenRound", "Dashu.Audit.C10Est", "Dashu.Audit.C10EstNoStd"]
# Tie A, typed translator: trunc / split_at_point / fract / ceil / floor / round of float/src/round_ops.rs regenerated
# and proved equal to `Model/Float/RoundOps.lean`
GEN_PROPS += ["Dashu.Props.GenFloatOps"]
GEN_AUDIT += ["Dashu.Audit.GenFloatOps"]
# round 4: the coarse f32 test of round_fract on its explicit region (real analysis, kept apart like C10Est) and the
# mirrored rational/src/round.rs with the twelve RBig / Relaxed entry points
GEN_PROPS += ["Dashu.Props.C10Coarse", "Dashu.Props.C10Ratio"]
GEN_AUDIT += ["Dashu.Audit.C10Coarse", "Dashu.Audit.C10Ratio"]
# round 5: IEEE-754 binary32 round-to-nearest-even as a concrete function on the reals; the facts (R), (B), (C), (G) that
# C10Coarse / C10Est carry as hypotheses are proved from its definition and the two estimator theorems re-stated without them
GEN_PROPS += ["Dashu.Props.C10F32"]
GEN_AUDIT += ["Dashu.Audit.C10F32"]
# round 7: the two halves composed - round_fract AS WRITTEN (f32 test of the source with log2_bounds = its model, exact
# comparison as fall-back) follows the mode definitions from (LIBM) alone, no CoarseSound oracle hypothesis left
GEN_PROPS += ["Dashu.Props.C10Libm"]
GEN_AUDIT += ["Dashu.Audit.C10Libm"]
# round 8: the third f32 estimator (Repr::digits_lb) as a concrete function meets DlbSound from (LIBM) alone; all three oracle
# hypotheses of the float theorems discharged together; link to C11's kernel fSubUlp_le (sub_ulp below ulp, no oracle hypothesis)
GEN_PROPS += ["Dashu.Props.C10Dlb"]
GEN_AUDIT += ["Dashu.Audit.C10Dlb"]

BASES = [2, 3, 10, 16, 36]
MODES = "ZAUDEH"
PRECS = [1, 2, 3, 5, 8, 24, 53, 100]

# ----------------------------------------------------------------------------- helpers (shared with c03)

def fenc(base, signif, exp, prec, mode):
    return "f:%d:%s:%d:%d:%s" % (base, hx(signif), exp, prec, mode)

def fdec(s):
    t = s.split(":")
    sg = t[2]
    v = -int(sg[1:], 16) if sg.startswith("-") else int(sg, 16)
    return int(t[1]), v, int(t[3]), int(t[4]), t[5]

def ndigits(B, n):
    n = abs(n)
    d = 0
    while n:
        n //= B
        d += 1
    return d

def normalize(B, s, e):
    if s == 0:
        return 0, 0
    while s % B == 0:
        s //= B
        e += 1
    return s, e

def rand_sig(rng, B, d, pat=None):
    """a significand with exactly d digits whose last digit is non-zero (normalised)"""
    if d <= 0:
        return 0
    pat = pat or rng.choice(["random", "random", "ones", "one", "lowone", "half", "halfm", "halfp"])
    if d == 1:
        return rng.randrange(1, B)
    hi = B ** (d - 1)
    if pat == "ones":
        v = B ** d - 1
    elif pat == "one":
        v = hi + 1
    elif pat == "lowone":
        v = rng.randrange(1, B) * hi + rng.randrange(1, B)
    elif pat in ("half", "halfm", "halfp"):
        # leading digits random, tail = half of B^k (+-1)
        k = rng.randrange(1, d)
        top = rng.randrange(B ** (d - k - 1), B ** (d - k)) if d - k >= 1 else 0
        tail = (B ** k) // 2 + {"half": 0, "halfm": -1, "halfp": 1}[pat]
        v = top * B ** k + tail
    else:
        v = rng.randrange(hi, B ** d)
    if v % B == 0:
        v += rng.randrange(1, B)
    if ndigits(B, v) != d:
        v = hi + 1
    return v

# ----------------------------------------------------------------------------- generator

def half_fracs(B, k):
    bk = B ** k
    h = bk // 2
    fr = {0, 1, h - 1, h, h + 1, bk - 1}
    return sorted(f for f in fr if 0 <= f < bk)

def gen_primitives(rng, tier):
    # the complete finite grid (DESIGN §8 C10)
    for B in BASES:
        for k in (1, 2, 3, 7):
            for n in (-2, -1, 0, 1, 2):
                for f in half_fracs(B, k):
                    for sg in ((1, -1) if f else (1,)):
                        for m in MODES:
                            yield Case("r.fract", [m, dec(B), hx(n), hx(sg * f), dec(k)])
    dens = [2, 3, 4, 7, 10, 9, (1 << 64) - 1, 1 << 64, (1 << 64) + 1, 10 ** 30 + 1]
    for d in dens:
        h = d // 2
        nums = sorted(x for x in {0, 1, h - 1, h, h + 1, d - 1} if 0 <= x < d)
        for n in (-2, -1, 0, 1, 2):
            for num in nums:
                for sn in ((1, -1) if num else (1,)):
                    for sd in (1, -1):
                        for m in MODES:
                            yield Case("r.ratio", [m, dec(10), hx(n), hx(sn * num), hx(sd * d)])
    # large random integers / fractions
    cnt = 300 if tier == "quick" else 30000
    for _ in range(cnt):
        B = rng.choice(BASES); m = rng.choice(MODES)
        k = rng.choice([1, 2, 5, 17, 40, 64, 129])
        bk = B ** k
        n = rng.choice([0, 1, -1, rng.getrandbits(70), -rng.getrandbits(130), 2 * rng.getrandbits(64), 2 * rng.getrandbits(64) + 1])
        f = rng.choice([bk // 2, bk // 2 + 1, bk // 2 - 1, rng.randrange(0, bk), 1, bk - 1])
        f = min(f, bk - 1) * rng.choice([1, -1])
        yield Case("r.fract", [m, dec(B), hx(n), hx(f), dec(k)])
        den = rng.choice([rng.getrandbits(64) | 1, rng.getrandbits(200) | 1, 2 * rng.getrandbits(90) + 2])
        num = rng.choice([den // 2, den // 2 + 1, max(den // 2 - 1, 0), rng.randrange(0, den), 1, den - 1])
        yield Case("r.ratio", [m, dec(B), hx(n), hx(num * rng.choice([1, -1])), hx(den * rng.choice([1, -1]))])
    # directed probes of the coarse f32 test of round_fract (DESIGN §8 C10: margins 0.999 / 1.001
    # hold an f32 product error only while log2(B)*precision < ~2^13): fractions within 2^-0.002 of 1/2
    precs = [1200, 5000, 9000] if tier == "quick" else [1200, 2500, 4933, 5000, 7000, 9000, 12000, 16384, 20000, 33000]
    per = 4 if tier == "quick" else 40
    for k in precs:
        for B in ([10, 3] if tier == "quick" else [2, 3, 10, 16, 36]):
            bk = B ** k
            for _ in range(per):
                # |f| = B^k/2 * (1 + delta), delta in +-[2^-20, 2^-9]
                t = rng.randrange(9, 21)
                delta = rng.choice([-1, 1]) * (bk >> t) * rng.randrange(1, 4) // 2
                f = bk // 2 + delta + rng.choice([0, 1])
                f = max(1, min(bk - 1, f))
                m = rng.choice("EH")
                yield Case("r.fract", [m, dec(B), hx(rng.choice([0, 1, 2, -1])), hx(f * rng.choice([1, -1])), dec(k)], nontrivial=True)

def shx(v):
    return ("-%x" % -v) if v < 0 else ("%x" % v)

def gen_coarse_directed(rng, tier):
    """directed probes of round_fract's coarse f32 test through `r.fracth` (|fract| = B^k div 2 + c*(B^k >> t) + e is built on
    both sides, no digits are shipped).  Props/C10Coarse proves the test sound for k <= 2^24 (`precision as f32` exact); the
    classes: deep inside the region, at its edge (2^24 - 1, 2^24) and BEYOND it (2^24 + 1, 2^24 + 3, 2^25 + 3: k is rounded
    by the conversion), each with ties, tie+-1, near-halves (relative distance 2^-8 .. 2^-24) and fractions far from 1/2
    (where the test decides)."""
    def offsets(n):
        out = [(0, 0, 0), (0, 0, 1), (0, 0, -1), (2, 1, 0), (2, -1, 0), (3, 3, 1)]
        for _ in range(n):
            out.append((rng.randrange(8, 25), rng.choice([-3, -2, -1, 1, 2, 3]), rng.choice([0, 0, 1, -1])))
        return out
    inside = [1200, 1683, 5000, 9000, 33000, 100000] if tier == "quick" else \
        [1200, 1683, 2525, 4933, 5000, 7000, 9000, 12000, 16384, 20000, 33000, 100000, 300000, 1000000]
    for k in inside:
        for B in BASES:
            for (t, c, e) in offsets(3 if tier == "quick" else 30):
                yield Case("r.fracth", [rng.choice("EH" + MODES), dec(B), hx(rng.choice([0, 1, 2, -1])), dec(k), dec(t),
                                        shx(c), shx(e), rng.choice(["true", "false"])], nontrivial=True)
    K24 = 1 << 24
    if tier == "quick":
        edge = [(2, K24), (2, K24 + 1), (16, K24 + 1), (2, 2 * K24 + 3), (10, K24 + 1)]
        offs = [(0, 0, 0), (20, 1, -1)]
    else:
        edge = [(B, k) for B in BASES for k in (K24 - 1, K24, K24 + 1, K24 + 3, 2 * K24 + 3)]
        offs = [(0, 0, 0), (0, 0, -1), (rng.randrange(18, 25), rng.choice([-1, 1]), 0), (2, 1, 0)]
    for (B, k) in edge:
        for (t, c, e) in offs:
            yield Case("r.fracth", [rng.choice("EH"), dec(B), hx(rng.choice([0, 1])), dec(k), dec(t), shx(c), shx(e),
                                    rng.choice(["true", "false"])], nontrivial=True)

def float_values(rng, B, p):
    """(signif, exp) pairs built from the branch conditions of round_ops.rs: exponent >= 0, radix point
    inside the digits, |x| in [1/B,1), |x| < 1/B, exponent far below -precision; halves / near-halves"""
    d = rng.randrange(1, p + 1) if p > 0 else rng.randrange(1, 30)
    if rng.random() < 0.35:
        d = p if p > 0 else d
    s = rand_sig(rng, B, d)
    cls = rng.randrange(0, 10)
    if cls == 0:
        e = rng.choice([0, 1, 5])
    elif cls in (1, 2, 3):
        e = -rng.randrange(1, d + 1)                 # point inside / just left of the digits
    elif cls == 4:
        e = -d                                       # 0.ddd
    elif cls == 5:
        e = -d - 1                                   # 0.0ddd : exp + digits = -1
    elif cls in (6, 7):
        e = -d - 2                                   # exp + digits = -2 : smaller_than_one window of `round`
    elif cls == 8:
        e = -d - 3
    else:
        e = -d - rng.choice([4, 10, p + 5, 3 * p + 50])
    # exact halves and near halves of the fractional part
    r = rng.random()
    if r < 0.25 and e < 0 and B % 2 == 0:
        k = -e
        ip = rng.choice([0, 1, 2, 3, rng.randrange(0, B ** max(d - 1, 1))])
        fr = (B ** k) // 2 + rng.choice([0, 0, -1, 1])
        v = ip * B ** k + fr
        if v % B and (p == 0 or ndigits(B, v) <= p):
            s = v
    elif r < 0.35 and B % 2 == 0:
        s = B // 2                                   # 0.5, 0.05, 0.005 ...
    elif r < 0.45:
        s = B ** d - 1
    if rng.random() < 0.5:
        s = -s
    return s, e

def gen_floats(rng, tier):
    cnt = 5000 if tier == "quick" else 240000   # round 6: thinned (400000) for the thorough-tier budget
    ops = ["f.trunc", "f.floor", "f.ceil", "f.round", "f.round", "f.fract", "f.split", "f.to_int", "f.to_int",
           "f.to_int", "f.repr_to_int"]
    for _ in range(cnt):
        B = rng.choice(BASES); m = rng.choice(MODES)
        p = rng.choice(PRECS + [1, 2, 3]) if rng.random() < 0.97 else 0
        s, e = float_values(rng, B, p)
        op = rng.choice(ops)
        if p == 0 and op in ("f.round", "f.to_int") and e + ndigits(B, s) <= -2:
            # unlimited precision on the defective path is a debug assertion; keep a few
            if rng.random() < 0.7:
                p = rng.choice(PRECS)
        if p and ndigits(B, s) > p:
            continue
        yield Case(op, [fenc(B, s, e, p, m)])
    # long operands at the threshold of the `smaller_than_one` shortcut (`exp + digits_ub < -1`), moved by up to 4 % of
    # the length: a digit estimate that is off by a few per cent of the digit count shows only here
    cnt = 300 if tier == "quick" else 20000
    for _ in range(cnt):
        B = rng.choice([10, 10, 2, 3, 16, 36]); m = rng.choice(MODES)
        d = rng.choice([64, 100, 100, 200, 400, 1000])
        s = rand_sig(rng, B, d) * rng.choice([1, -1])
        if rng.random() < 0.3:
            s = (B ** d - 1) * rng.choice([1, -1])
        e = -d + rng.choice([-3, -2, -1, 0, 1, 2, d // 60, d // 40, d // 25])
        yield Case(rng.choice(ops), [fenc(B, s, e, d, m)])
    cnt = 1500 if tier == "quick" else 80000   # round 6: thinned (120000)
    for _ in range(cnt):
        B = rng.choice(BASES); m = rng.choice(MODES)
        p = rng.choice(PRECS)
        d = rng.choice([1, p, p, max(1, p - 1), rng.randrange(1, p + 1)])
        s = rand_sig(rng, B, d) * rng.choice([1, -1])
        e = rng.choice([0, -1, 3, -d, -d - 3, 17, -40])
        np_ = rng.choice([0, 1, 1, 2, max(1, d - 1), max(1, d - 1), d, d + 1, max(1, d // 2), p, p + 3])
        yield Case("f.with_precision", [fenc(B, s, e, p, m), dec(np_)])
    # unlimited source precision (context precision 0: no bound on the digit count) - with_precision must round
    # it (fix ee15d7b), and every rounding method must treat `precision.saturating_sub(..)` of 0 correctly
    cnt = 600 if tier == "quick" else 40000
    for _ in range(cnt):
        B = rng.choice(BASES); m = rng.choice(MODES)
        d = rng.choice([1, 2, 3, 7, 25, 60, 130])
        s = rand_sig(rng, B, d) * rng.choice([1, -1])
        e = rng.choice([0, -1, 3, -d, -d - 1, -d - 2, -d - 3, -(d // 2) - 1, 17, -40])
        op = rng.choice(["f.with_precision"] * 4 + ["f.trunc", "f.floor", "f.ceil", "f.round", "f.fract", "f.split",
                                                     "f.to_int", "f.repr_to_int"])
        if op == "f.with_precision":
            np_ = rng.choice([0, 1, 2, 3, max(1, d - 1), d, d + 1, max(1, d // 2), 2 * d + 3])
            yield Case(op, [fenc(B, s, e, 0, m), dec(np_)])
        else:
            yield Case(op, [fenc(B, s, e, 0, m)])

QOPS = ["q.trunc", "q.floor", "q.ceil", "q.round", "q.fract", "q.split", "q.fract_raw", "q.split_raw"]

def gen_rational(rng, tier):
    # every op runs the RBig AND the Relaxed entry point; `*_raw` print the fraction as each type holds it (unreduced in
    # Relaxed).  Denominators 6, 9, 12 with unreduced numerators exercise reduce / reduce2 before the rounding
    for d in (1, 2, 3, 4, 6, 7, 9, 10, 12):
        for n in range(-3 * d - 1, 3 * d + 2):
            for op in QOPS:
                yield Case(op, [hx(n), hx(d)], nontrivial=False)
    cnt = 600 if tier == "quick" else 60000
    for _ in range(cnt):
        d = rng.choice([rng.getrandbits(64) | 1, rng.getrandbits(130) | 1, 2 * rng.getrandbits(70) + 2, 1 << 64, (1 << 128) - 1])
        q = rng.choice([0, 1, rng.getrandbits(66), rng.getrandbits(200)])
        r = rng.choice([0, 1, d // 2, d // 2 + 1, max(d // 2 - 1, 0), d - 1, rng.randrange(0, d)])
        n = (q * d + r) * rng.choice([1, -1])
        if rng.random() < 0.4:
            # common factor: odd (kept by Relaxed, removed by RBig), a power of two (removed by both), or both
            g = rng.choice([3, 15, 1 << rng.randrange(1, 70), 3 << rng.randrange(1, 70), rng.getrandbits(64) | 1])
            n *= g; d *= g
        yield Case(rng.choice(QOPS), [hx(n), hx(d)])

# ----------------------------------------------------------------------------- the IEEE assumption, one operation per case

LIT_SRC = ["0.999", "1.001", "0.301029995663981195213738894724493027", "1.5849625", "1.5849626", "256.0", "4.", "2.", "1.", "0."]

def f32bits(m, e):
    """bit pattern of m * 2^(e-23), 2^23 <= m < 2^24, normal range"""
    assert (1 << 23) <= m < (1 << 24) and 1 <= e + 127 <= 254
    return ((e + 127) << 23) | (m - (1 << 23))

def rand_m(rng):
    r = rng.random()
    if r < 0.15:
        return rng.choice([1 << 23, (1 << 23) + 1, (1 << 24) - 1, (1 << 24) - 2, (1 << 23) + (1 << 22), (1 << 23) + (1 << 22) + 1])
    if r < 0.3:
        # few significant bits (products / sums stay exact or become exact ties)
        b = rng.randrange(1, 13)
        return (1 << 23) | (rng.getrandbits(b) << (23 - b))
    return (1 << 23) | rng.getrandbits(23)

def sbytes(t):
    return "s:" + t.encode().hex()

def gen_f32(rng, tier):
    """`s32.*`: single binary32 operations of the machine against the integer-arithmetic model of round-to-nearest-even.
    Classes: random significands / few-bit significands / binade ends; exponent gaps 0..26 for + and - (alignment shifts past the
    24th bit: exact, tie, just above / below a tie); products and quotients of few-bit and full significands; `n as f32` for n of
    EVERY bit length 1..127 with 2^j, 2^j +- 1, ties (2^24+1)<<j, (2^24+3)<<j, near-ties and random low bits, plus the machine
    extremes of usize; the decimal literals of the source and random literals; next_up / next_down at binade ends; log2f on
    24-bit integers; dashu's log2_bounds on every size class (power of two, < 2^24, 25..128 bits, heap values with a power-of-two
    or all-ones highest double word, up to 2^20 words)."""
    n = 400 if tier == "quick" else 40000
    for _ in range(n):
        e1 = rng.randrange(-20, 41)
        gap = rng.choice([0, 1, 2, 11, 12, 22, 23, 24, 25, 26, rng.randrange(0, 30)])
        a = (rand_m(rng), e1)
        b = (rand_m(rng), e1 - gap)
        if rng.random() < 0.3:
            # b = exactly half / quarter of a's last place (+- one unit of b): ties and near-ties
            b = (rng.choice([1 << 23, (1 << 23) + 1, (1 << 24) - 1, 3 << 22]), e1 - rng.choice([24, 24, 25, 23]))
        A, Bb = f32bits(*a), f32bits(*b)
        op = rng.choice(["s32.add", "s32.add", "s32.sub", "s32.mul", "s32.div"])
        if op in ("s32.mul", "s32.div"):
            b = (b[0], rng.randrange(-20, 21)); Bb = f32bits(*b)
        if op == "s32.sub" and (a[1], a[0]) < (b[1], b[0]):
            A, Bb = Bb, A
        if op == "s32.sub" and A != Bb and gap == 0 and rng.random() < 0.5:
            continue            # massive cancellation can reach the subnormal range only below 2^-126: not here, but keep the stream short
        yield Case(op, [dec(A), dec(Bb)])
    # conversions: every bit length
    for j in range(0, 127):
        pats = [1 << j, (1 << j) + 1, (1 << (j + 1)) - 1]
        if j >= 25:
            sh = j - 24
            pats += [((1 << 24) + 1) << sh, ((1 << 24) + 3) << sh, (((1 << 24) + 1) << sh) + 1, (((1 << 24) + 1) << sh) - 1,
                     (((1 << 24) + 3) << sh) - 1, (((1 << 25) - 1) << (sh - 1)) if sh >= 1 else 1, (1 << (j + 1)) - (1 << (j - 24)),
                     (1 << (j + 1)) - (1 << (j - 24)) - 1]
        cnt = 2 if tier == "quick" else 40
        pats += [(1 << j) | rng.getrandbits(j) for _ in range(cnt)] if j else []
        for v in pats:
            if 0 < v < (1 << 127):
                yield Case("s32.ofnat", [hx(v)])
    for v in [0, 1, 63, 64, 65, 127, 128, (1 << 24) - 1, 1 << 24, (1 << 24) + 1, (1 << 24) + 2, (1 << 24) + 3, 1 << 31, (1 << 32) - 1,
              1 << 32, 1 << 63, (1 << 64) - 1] + [(1 << 32) + k for k in range(1, 130, 7)] + [(1 << 64) - 1 - k for k in range(0, 131, 5)]:
        yield Case("s32.ofnat", [hx(v)])
    for t in LIT_SRC:
        yield Case("s32.dec", [sbytes(t)])
    n = 150 if tier == "quick" else 20000
    for _ in range(n):
        ip = str(rng.randrange(0, rng.choice([2, 10, 1000, 10 ** 9])))
        fp = "".join(rng.choice("0123456789") for _ in range(rng.choice([0, 1, 3, 7, 9, 20, 40])))
        t = ip + ("." + fp if fp else "")
        if rng.random() < 0.3:
            t += "e%d" % rng.randrange(-8, 12)
        if int((ip + fp) or "0") == 0:
            continue
        if len(ip) < 2 and fp[:5] == "00000":
            continue
        yield Case("s32.dec", [sbytes(t)])
        m = (rand_m(rng), rng.randrange(-20, 41))
        yield Case(rng.choice(["s32.nextup", "s32.nextdown"]), [dec(f32bits(*m))])
    n = 300 if tier == "quick" else 20000   # round 6: thinned (60000); the thorough s32.sweep covers every integer anyway
    for _ in range(n):
        v = rng.choice([rng.randrange(2, 1 << 24), rng.randrange(1 << 23, (1 << 24) + 1), rng.randrange(2, 70)])
        e = v.bit_length() - 1
        yield Case("s32.log2", [dec(f32bits(v << (23 - e), e))])
    # dashu's own log2_bounds
    def l2b_values():
        for j in list(range(0, 140)) + [191, 192, 193, 255, 256, 257, 1000, 4096]:
            yield 1 << j
            if j > 1:
                yield (1 << j) + 1; yield (1 << j) - 1
        cnt = 200 if tier == "quick" else 30000
        for _ in range(cnt):
            bits = rng.choice([rng.randrange(2, 25), rng.randrange(25, 129), rng.randrange(129, 400), rng.choice([640, 2000, 20000])])
            v = (1 << (bits - 1)) | rng.getrandbits(bits - 1)
            r = rng.random()
            if r < 0.15 and bits > 130:
                # highest double word a power of two / all ones (slack of the ADJUST factor)
                w = (bits + 63) // 64
                hi = rng.choice([1 << 64, 1 << 127, (1 << 128) - 1, (1 << 64) + 1, 3 << 100])
                v = (hi << ((w - 2) * 64)) | rng.getrandbits((w - 2) * 64)
            elif r < 0.3 and bits > 24:
                sh = bits - 24
                v = (rng.choice([1 << 23, (1 << 24) - 1, rng.randrange(1 << 23, 1 << 24)]) << sh) | rng.choice([0, 1, (1 << sh) - 1, rng.getrandbits(sh)])
            yield v
        # many words: rem_bits as f32 up to and beyond 2^24
        for w in ([4097, 262143 + 2] if tier == "quick" else [4097, 65537, 262143 + 2, 262144 + 2, 262145 + 2, 524289 + 2, 1048577]):
            yield (rng.choice([1 << 64, (1 << 128) - 1, rng.getrandbits(128) | (1 << 127)]) << ((w - 2) * 64)) | 1
    for v in l2b_values():
        if v > 0:
            yield Case("s32.l2b", [hx(v)])
    # (LIBM): libm's log2f on every integer of a range against a rigorous integer enclosure of log2 (both sides sweep and
    # report a checksum of all bit patterns + the number of integers where the one-ulp enclosure is not confirmed).
    # thorough: ALL integers 1 .. 2^24 (the whole domain on which log2_bounds calls log2f), in 64 chunks
    K = 1 << 24
    if tier == "quick":
        a = rng.randrange(1 << 12, K - (1 << 12))
        chunks = [(1, 1 << 11), ((1 << 23) - 512, (1 << 23) + 512), (K - 1024, K + 1), (a, a + 2048)]
    else:
        step = K >> 6
        chunks = [(max(1, i * step), (i + 1) * step + (1 if i == 63 else 0)) for i in range(64)]
    for lo, hi in chunks:
        yield Case("s32.sweep", [dec(lo), dec(hi)])

# ----------------------------------------------------------------------------- round 6: the digit estimates themselves

DEST_BASES = [2, 3, 7, 10, 16, 36, 1000, 1 << 32, (1 << 64) - 1]

def gen_dest(rng, tier):
    """`s32.dest d:<B> <n>`: Repr::<B>::new(n, 0).digits_lb() / digits_ub() of dashu against digitsLbReal / digitsUbReal (the
    definitions of Props/C10F32.digits_estimates_enclose_libm) evaluated by the soft-float replica, the compiled-Float32 replica
    beside it, and the enclosure digits_lb <= digits <= digits_ub.  Classes from the branch conditions of digits_lb / digits_ub
    (B = 2 / 10 / other) and of log2_bounds (power of two, <= 24 bits, 25..128 bits, heap): B^k, B^k +- 1, B^k + small (significand
    just above a power of the base: the estimate falls one short), B^k - 1 (all digits maximal: product closest to the next
    integer), c * B^k, 2^j +- 1, random of every size class; k of every digit count up to 130 and sampled up to 5000."""
    quick = tier == "quick"
    def ks_for(B):
        lim = max(2, 9000 // B.bit_length())          # operand sizes up to ~9000 bits
        ks = list(range(0, min(lim, 131 if not quick else 42)))
        extra = [200, 317, 1000, 2500, 5000] if not quick else [200, 1000]
        ks += [k for k in extra if k <= lim]
        if quick:
            ks = [k for k in ks if k < 12 or k % 3 == rng.randrange(3) or k > 130]
        return ks
    for B in DEST_BASES:
        for k in ks_for(B):
            bk = B ** k
            vals = {bk, bk + 1, bk - 1, bk + rng.randrange(1, B), 2 * bk + 1, (B - 1) * bk + rng.randrange(0, max(1, bk >> 20) + 1),
                    bk + (bk >> 23), bk + (bk >> 25) + 1, bk - (bk >> 24) - 1}
            for v in sorted(vals):
                if v > 0:
                    yield Case("s32.dest", [dec(B), hx(v)])
    cnt = 250 if quick else 30000
    for _ in range(cnt):
        B = rng.choice(DEST_BASES)
        bits = rng.choice([rng.randrange(1, 25), rng.randrange(25, 129), rng.randrange(129, 400), rng.choice([640, 2000, 9000])])
        v = (1 << (bits - 1)) | rng.getrandbits(bits - 1)
        r = rng.random()
        if r < 0.2:
            v = (1 << bits) - 1
        elif r < 0.3:
            v = (1 << (bits - 1)) + 1
        yield Case("s32.dest", [dec(B), hx(v)])

# ----------------------------------------------------------------------------- E1: machine extremes of isize / usize parameters

IMIN = -(1 << 63)
UMAX = (1 << 64) - 1

def gen_extreme(rng, tier):
    """ROUND4 addendum E1.  Exponents (isize) at 2^20.., 2^31, 2^32-1, 2^32, 2^32+k, 2^62, isize::MAX-k and their negatives down to
    isize::MIN+k (k = 0..130) through trunc/floor/ceil/round/fract/split_at_point/Repr::to_int (specification evaluated
    symbolically by Driver/FloatX.lean: the value is an integer, resp. of magnitude < 1/B); FBig::to_int only down to -(2^20+k)
    (its `round_fract` debug assertion computes B^(-exponent)).  Precisions (usize) of the context and of with_precision at
    2^31, 2^32-1, 2^32, 2^32+k, 2^63, usize::MAX-k."""
    ks = [0, 1, 2, 63, 64, 65, 127, 128, 129] if tier == "quick" else list(range(0, 131))
    neg = [-(1 << 20) - k for k in ks[:4]] + [-(1 << 31), -(1 << 32) + 1, -(1 << 32), -(1 << 62)] + [-(1 << 32) - k for k in ks[1:]] + \
          [IMIN + k for k in ks]
    pos = [(1 << 20) + 1, 1 << 31, (1 << 32) - 1, 1 << 32, 1 << 62] + [(1 << 32) + k for k in ks[1:]] + [(1 << 63) - 1 - k for k in ks]
    ops_neg = ["f.trunc", "f.floor", "f.ceil", "f.round", "f.fract", "f.split", "f.repr_to_int"]
    ops_pos = ["f.trunc", "f.floor", "f.ceil", "f.round", "f.fract", "f.split"]
    rep = 1 if tier == "quick" else 4
    for e in neg + pos:
        for _ in range(rep):
            for op in (ops_neg if e < 0 else ops_pos):
                if tier == "quick" and rng.random() < 0.5 and e not in (IMIN, IMIN + 1, (1 << 63) - 1):
                    continue
                B = rng.choice(BASES); m = rng.choice(MODES)
                p = rng.choice([0, 1, 5, 40])
                d = rng.choice([1, 1, 2, 30]) if p == 0 else rng.choice([1, min(2, p), p])
                sg = rand_sig(rng, B, d) * rng.choice([1, -1])
                yield Case(op, [fenc(B, sg, e, p, m)], nontrivial=True)
    for k in ks[:5]:
        for m in MODES:
            B = rng.choice(BASES)
            yield Case("f.to_int", [fenc(B, rand_sig(rng, B, rng.choice([1, 3])) * rng.choice([1, -1]), -(1 << 20) - k, rng.choice([0, 5]), m)],
                       nontrivial=True)
    precs = [1 << 31, (1 << 32) - 1, 1 << 32, 1 << 63] + [(1 << 32) + k for k in ks[1:]] + [UMAX - k for k in ks]
    allops = ["f.trunc", "f.floor", "f.ceil", "f.round", "f.fract", "f.split", "f.to_int", "f.repr_to_int"]
    for p in precs:
        for _ in range(rep):
            B = rng.choice(BASES); m = rng.choice(MODES)
            d = rng.choice([1, 3, 12])
            sg = rand_sig(rng, B, d) * rng.choice([1, -1])
            e = rng.choice([0, 3, -1, -d, -d - 1, -d - 2, -d - 3, -d // 2 - 1, -40])
            yield Case(rng.choice(allops), [fenc(B, sg, e, p, m)], nontrivial=True)
            # with_precision: to an extreme precision (no rounding), and from an extreme context precision down to few digits
            yield Case("f.with_precision", [fenc(B, sg, e, rng.choice([0, d, d + 5]), m), dec(p)], nontrivial=True)
            yield Case("f.with_precision", [fenc(B, sg, e, p, m), dec(rng.choice([0, 1, max(1, d - 1), d, d + 1, p, UMAX]))], nontrivial=True)

def generate(rng, tier):
    yield from gen_primitives(rng, tier)
    yield from gen_f32(rng, tier)
    yield from gen_extreme(rng, tier)
    yield from gen_dest(rng, tier)
    yield from gen_coarse_directed(rng, tier)
    yield from gen_floats(rng, tier)
    yield from gen_rational(rng, tier)

def nontrivial(c):
    if c.op == "r.fracth" or c.op.startswith("s32."):
        return True
    if c.op.startswith("r."):
        return c.args[3] != "0"
    if c.op.startswith("f."):
        B, s, e, p, m = fdec(c.args[0])
        return s != 0 and e < 0
    return True

RULE = ("primitives: the complete grid integer {-2..2} x fraction {0,+-1,+-(h-1),+-h,+-(h+1),+-(B^k-1)} (h = B^k div 2) x "
        "k {1,2,3,7} x bases {2,3,10,16,36} x 6 modes for round_fract, the analogous grid over 10 denominators (both signs) for "
        "round_ratio, plus random 64..900-bit operands and directed probes of round_fract's coarse f32 test (precision 1200..33000 "
        "digits, |fract| within 2^-9..2^-20 of 1/2). Floats: modes x bases x p in {1,2,3,5,8,24,53,100,(0)} x exponent classes "
        "{>=0, point inside the digits, exp+digits = 0,-1,-2,-3, far below -precision} x significands {random, B^d-1, exact halves "
        "and halves+-1 of the fractional part, B/2} x signs, through trunc/floor/ceil/round/fract/split_at_point/to_int/Repr::to_int "
        "and with_precision to {0,1,2,d-1,d,d+1,d/2,p,p+3} digits; 64..1000-digit operands with exp+digits in {-3..2, +1.6%, +2.5%, +4% of "
        "the length} (threshold of the digit-estimate shortcut); the same ops on operands of UNLIMITED precision (context precision 0, "
        "1..130 digits, with_precision to {0,1,2,3,d-1,d,d+1,d/2,2d+3}). Rationals: all n/d with d in {1,2,3,4,7,10}, |n| <= 3d+1, plus "
        "random 64..330-bit ones with remainders {0,1,d/2-1,d/2,d/2+1,d-1}, 40 % multiplied through by a common factor (odd, power "
        "of two, both) so that RBig and Relaxed hold different representations; every rational op runs both entry points, "
        "q.fract_raw / q.split_raw print the fraction as each type holds it. Coarse-test probes (r.fracth, |fract| = B^k div 2 + "
        "c*(B^k >> t) + e built on both sides): k in {1200 .. 10^6} inside the proved region, k = 2^24-1, 2^24 at its edge and "
        "k = 2^24+1, 2^24+3, 2^25+3 beyond it, with ties, ties+-1, near-halves (2^-8..2^-24) and far fractions. "
        "IEEE assumption (s32.*, one machine f32 operation per case against the integer soft-float model): + - * / on random / few-bit / "
        "binade-end significands with exponent gaps 0..29 incl. exact ties and ties+-1; n as f32 for n of EVERY bit length 1..127 (2^j, "
        "2^j+-1, (2^24+1)<<j, (2^24+3)<<j and their neighbours, random) and the usize extremes; the decimal literals of the source "
        "(0.999, 1.001, LOG10_2, ...) and random literals; next_up / next_down; log2f on 24-bit integers; dashu's UBig::log2_bounds on "
        "every size class (2^j, 2^j+-1 for j <= 4096, < 2^24, 25..128 bits, heap values with power-of-two / all-ones highest double "
        "word, up to 2^20 words); s32.sweep = libm log2f on EVERY integer of a range against a rigorous integer enclosure of log2 "
        "(quick: 4 windows of 1-2 k integers; thorough: ALL of 1..2^24 in 64 chunks). Digit estimates (s32.dest: digits_lb / digits_ub of "
        "Repr<B>, B in {2,3,7,10,16,36,1000,2^32,2^64-1}, against the soft-float evaluation of digitsLbReal / digitsUbReal and the "
        "enclosure): B^k, B^k+-1, B^k+small, B^k-1, c*B^k for every k <= 130 and sampled up to 5000 digits / 9000 bits, random of every "
        "log2_bounds size class. Machine extremes (addendum E1): exponents "
        "+-2^20.., +-2^31, +-(2^32-1), +-2^32, +-(2^32+k), +-2^62, isize::MAX-k, isize::MIN+k (k = 0..130, quick 9 values) through "
        "trunc/floor/ceil/round/fract/split_at_point/Repr::to_int (FBig::to_int down to -(2^20+k)); context precision and "
        "with_precision argument at 2^31, 2^32-1, 2^32, 2^32+k, 2^63, usize::MAX-k. Non-trivial := non-zero low part / fractional digits "
        "present; distinct := distinct (op,args).")
REFINED = ["Round::round_low_part x6 (regenerated, Props/GenRound)", "Round::round_fract", "Round::round_ratio",
           "utils::split_digits / split_digits_ref (base-10, power-of-two and generic paths)",
           "utils::shl_digits / shl_digits_in_place / shr_digits / shr_ref (base-2, base-10, power-of-two and generic paths)",
           "utils::digit_len",
           "Repr::normalize", "Context::repr_round / repr_round_ref", "FBig::with_precision",
           "FBig::trunc/floor/ceil/round/fract/split_at_point/to_int", "Repr::to_int",
           "rational Repr::{split_at_point, ceil, floor, trunc, fract, round} mirrored statement by statement (Model/Float/QRound.lean: "
           "div_rem + adjustment, Repr::zero() for a zero remainder, unreduced fraction) and executed by the driver",
           "RBig::{split_at_point, ceil, floor, round, trunc, fract} and Relaxed::{...}: the twelve wrappers, each driven on the "
           "representation its type holds after from_parts (reduce / reduce2 mirrored at value level); results of fract / "
           "split_at_point proved to keep the type invariant without reduction",
           "round_fract's coarse f32 test (closure `test`): bit-exact Float32 replica `coarseF32` executed by the driver in "
           "r.fract / r.fracth in place of the exact comparison; proved sound over the reals on the explicit region "
           "2 <= B < 2^64, 0 < |fract| < B^k, k <= 2^24 (Props/C10Coarse)",
           "IEEE-754 binary32 arithmetic of the estimators: `rne32` (round-to-nearest-even, 24 bits) defined on the reals, its facts "
           "(relative error, monotone, small integers / representables fixed, the source literals 0.999 / 1.001 / LOG10_2 / 1 -+ 2 EPSILON, "
           "the next_up grid fact) PROVED from the definition; executable integer replica Model/Float/SoftF32.lean proved to denote "
           "rne32 for all operands and executed by the driver in every coarse test beside the compiled Float32 (and against Rust's "
           "f32 through s32.*) (Props/C10F32)",
           "log2_bounds upper estimate of the std path for every inline significand (`log2UbStd`: power-of-two / <= 24 bit / shifted "
           "branches, each conversion, `shifted + 1.`, `est + shift`, next_up an IEEE operation): proved an upper bound of log2 n from "
           "the libm hypothesis alone (Props/C10F32.log2_ub_std_sound, digits_ub_inline_sound); dashu's UBig::log2_bounds compared "
           "bit for bit with the replica (s32.l2b)",
           "TypedReprRef::log2_bounds as a whole (`log2LbModel` / `log2UbModel`: std u128 routine incl. next_down side, "
           "log2_bounds_large with highest double word, `rem_bits as f32`, the exact factors 1 -+ ADJUST): enclosure (E) and slack (S) "
           "proved from (LIBM) alone for operands up to 2^30 bits (Proofs/Float/{Log2Lb,Log2Large}.lean, "
           "Props/C10F32.log2_bounds_enclose, coarse_test_sound_libm)",
           "Repr::digits_lb (`digitsLbReal`: lb, lb * LOG10_2, lb / log2_bounds(B).1, `as usize`): digits_lb <= digits proved from "
           "(LIBM) alone with log2_bounds of significand and base = their models (Proofs/Float/DigitsLb.lean, "
           "Props/C10F32.digits_lb_sound_libm, dlb_sound_ieee = hypothesis DlbSound of the C03 / C11 theorems, "
           "digits_estimates_enclose_libm: digits_lb <= digits <= digits_ub); LOG10_2 enclosed from both sides (LOG10_2_two_sided)",
           "Round::round_fract as written (coarse f32 test with log2_bounds = log2LbModel / log2UbModel, then the exact comparison): "
           "composed with the six regenerated mode tables - follows the mode definition and reports a truthful flag for every "
           "2 <= B < 2^64, k <= 2^24, |fract| < B^k from (LIBM) alone, without the oracle hypothesis CoarseSound "
           "(Props/C10Libm.round_fract_follows_mode_libm, round_fract_contract_libm, round_fract_coarse_irrelevant_libm)",
           "both f32 estimators as concrete functions (`coarseLibm`: the test of the source on its region, undecided beyond; `dubLibm`: "
           "digits_ub with log2_bounds of significand and base = their models up to 2^30 bits / 2^24+1 digits, exact count beyond; equal to "
           "the source's estimators on the region: coarseLibm_eq, dubLibm_eq) meet CoarseSound / DubSound from (LIBM) alone "
           "(estimators_sound_libm), hence FBig::trunc / floor / ceil / round / to_int, the to_int flag contract and repr_round hold for "
           "THESE estimators without oracle hypotheses (fbig_int_roundings_libm, to_int_contract_libm, repr_round_contract_libm)",
           "Repr::digits_lb as a concrete function (`dlbLibm`: digits_lb with log2_bounds of significand and base = their models up to "
           "2^30 bits / 2^21 digits, exact count beyond; = the source's estimator on the region: dlbLibm_eq) meets DlbSound from (LIBM) "
           "alone (Props/C10Dlb.dlb_sound_libm); all three oracle hypotheses CoarseSound / DubSound / DlbSound hold together for the "
           "concrete estimators and digits_lb <= digits <= digits_ub for EVERY significand (all_estimators_sound_libm, "
           "env_oracles_sound_libm for a series context Env of C11 / C03); FBig::sub_ulp with this digits_lb is below ulp "
           "(sub_ulp_below_ulp_libm, link to C11's Proofs/Trans/Series.fSubUlp_le by import)"]
FRONTIER = ["round_fract coarse test for precision > 2^24 digits (`precision as f32` rounds): no theorem. Reason: with relative-error "
            "reasoning the budget is exactly exhausted at first order - the ADJUST factor of log2_bounds_large gives 4u, the two "
            "roundings inside it, the sum `lb + 0.999` and the product `b_ub * k` take u each, so the additional rounding of k (u) is "
            "not covered; a proof needs ulp-level (absolute error per binade) analysis of all five operations. Driven on the real code "
            "against the exact comparison at k = 2^24+1, 2^24+3, 2^25+3 (all bases, ties / near-halves / far fractions) with the "
            "soft-float replica beside it; FBig ops / repr_round run the model with the exact comparison (sound by the theorem for "
            "k <= 2^24; the replica is used in the r.* primitives)",
            "libm's log2f (kept as hypothesis, cannot be carried by a theorem: glibc code is outside the model): (LIBM) = Log2fSound: on "
            "the integers 2..2^24, 0 <= next_down(log2f m) <= log2 m <= next_up(log2f m), and log2f m a binary32 number of [16,32) "
            "for 2^23 <= m <= 2^24 (satisfiable: the correctly rounded logarithm meets it, libm_hypothesis_satisfiable). From (LIBM) "
            "ALONE PROVED: the enclosure (E) and the ADJUST slack (S) of log2_bounds for every operand of at most 2^30 bits "
            "(log2_bounds_enclose; inline values by the std u128 routine, heap values by log2_bounds_large), hence "
            "coarse_test_sound_libm (the coarse test of round_fract decides as the exact comparison on its whole region) and "
            "digits_ub_sound_libm (digits <= digits_ub for every base held in a word and every significand up to 2^30 bits, with "
            "log2_bounds of the significand and of the base = their models). The thorough tier checks (LIBM) on ALL 2^24 integers of "
            "this machine's libm against an integer-arithmetic enclosure (s32.sweep), the quick tier on samples. Round 6: the lower "
            "estimate digits_lb composed with the same models too (digits_lb_sound_libm: digits_lb <= digits, significands up to "
            "2^30 bits and 2^21 digits; LOG10_2 lies ABOVE log10 2, so for base 10 only `<= digits`, not `<= digits - 1`, "
            "follows - which is what DlbSound asks); the no_std table estimator has its own libm-free theorem "
            "(Props/C10EstNoStd). Round 7: coarse_test_sound_libm composed with the mode theorems "
            "(Props/C10Libm.round_fract_follows_mode_libm / round_fract_contract_libm: round_fract as written, no CoarseSound "
            "hypothesis) and both oracle hypotheses discharged for the concrete estimators "
            "(estimators_sound_libm -> fbig_int_roundings_libm, to_int_contract_libm, repr_round_contract_libm); the concrete estimators "
            "are clamped (undecided test for k > 2^24, exact digit count beyond 2^30 bits / 2^24+1 digits): outside the region they do "
            "not describe the code - that part is the first FRONTIER entry. Round 8: the third estimator too (dlbLibm, "
            "Props/C10Dlb.dlb_sound_libm / all_estimators_sound_libm; sub_ulp_below_ulp_libm links C11's fSubUlp_le). Open here: "
            "the OTHER side of digits_lb (DlbTight: at most cS digits below the count, needed by C11's expLoop_bound / step bounds) "
            "has no f32 theorem, so C11's expLoop_stage_error cannot yet be instantiated non-vacuously at dlbLibm; the remaining "
            "Est fields of C11 (logQuot, powGuard, log2Floor, belowInvBase, tooLarge, intDigits, floorLog2) have no f32 model",
            "machine integers: exponents / precisions are unbounded Int / Nat in the model; isize / usize overflow is outside every "
            "theorem and is covered by the E1 generator only (the one defect it found, exponent isize::MIN negated with overflow, is repaired in /repo 7e1bdaf: `unsigned_abs`)"]
THEOREMS = ["Dashu.Props.C10." + t for t in (
    "round_fract_follows_mode round_fract_estimate_irrelevant round_ratio_follows_mode round_fract_contract digit_len_spec "
    "split_digits_all_paths shl_digits_all_paths shr_digits_all_paths repr_new_value_normalized repr_round_contract "
    "with_precision_contract with_precision_digits estimate_unobservable estimators_agree trunc_correct floor_correct ceil_correct round_correct to_int_correct to_int_contract "
    "repr_to_int_correct trunc_add_fract_eq split_at_point_eq rbig_trunc_correct rbig_floor_correct rbig_ceil_correct "
    "rbig_round_correct rbig_trunc_add_fract").split()] + [
    "Dashu.Props.C10Est.digits_ub_sound", "Dashu.Props.C10Est.dub_sound", "Dashu.Props.C10EstNoStd.digits_ub_nostd_sound",
    "Dashu.Props.C10Coarse.coarse_test_sound", "Dashu.Props.C10Coarse.round_fract_coarse_irrelevant",
    "Dashu.Props.C10Coarse.coarse_gt_margin", "Dashu.Props.C10Coarse.coarse_lt_margin",
    "Dashu.Props.C10Coarse.adjust_slack_lower", "Dashu.Props.C10Coarse.adjust_slack_upper",
    "Dashu.Props.C10Ratio.repr_trunc_correct", "Dashu.Props.C10Ratio.repr_floor_correct", "Dashu.Props.C10Ratio.repr_ceil_correct",
    "Dashu.Props.C10Ratio.repr_round_correct", "Dashu.Props.C10Ratio.repr_trunc_add_fract", "Dashu.Props.C10Ratio.repr_fract_range",
    "Dashu.Props.C10Ratio.repr_split_at_point_eq", "Dashu.Props.C10Ratio.rbig_entry_points",
    "Dashu.Props.C10Ratio.relaxed_entry_points",
    "Dashu.Props.GenRound.zero_correct", "Dashu.Props.GenRound.away_correct", "Dashu.Props.GenRound.up_correct",
    "Dashu.Props.GenRound.down_correct", "Dashu.Props.GenRound.half_even_correct", "Dashu.Props.GenRound.half_away_correct"] + [
    "Dashu.Props.C10F32." + t for t in (
    "rne_relative_error rne_monotone rne_fixes_small_naturals rne_fixes_representable literal_0_999 literal_1_001 "
    "literal_LOG10_2 LOG10_2_safe adjust_factors_exact normal_range next_up_grid_fact coarseIEEE_eq coarse_test_sound_ieee "
    "round_fract_coarse_irrelevant_ieee digits_ub_sound_ieee dub_sound_ieee soft_rne_is_rne32 soft_ops_are_rne32 "
    "soft_div_sub_are_rne32 Exhaustive.small_integers_exact Exhaustive.integers_around_2_24 Exhaustive.ties_every_binade "
    "Exhaustive.source_literals Exhaustive.next_up_down_all_binades Exhaustive.bits_roundtrip log2_ub_std_sound "
    "digits_ub_inline_sound log2_bounds_enclose log2_bounds_sound_libm coarse_test_sound_libm libm_hypothesis_satisfiable "
    "digits_ub_sound_libm LOG10_2_two_sided digits_lb_sound_ieee dlb_sound_ieee digits_lb_sound_libm "
    "digits_estimates_enclose_libm").split()] + [
    "Dashu.Props.C10Libm." + t for t in
    "round_fract_coarse_irrelevant_libm round_fract_follows_mode_libm round_fract_contract_libm coarseLibm_eq dubLibm_eq "
    "estimators_sound_libm fbig_int_roundings_libm to_int_contract_libm repr_round_contract_libm".split()] + [
    "Dashu.Props.C10Dlb." + t for t in
    "dlbLibm_eq dlb_sound_libm all_estimators_sound_libm env_oracles_sound_libm sub_ulp_below_ulp_libm".split()]
EXPLANATION = ("Lean theorems, for every base >= 2, every precision and all integers: the regenerated six mode tables composed with the "
               "exact half comparison (round_fract, round_ratio) return the adjustment the mode's definition names; repr_round / "
               "with_precision satisfy the rounding contract over Rat; trunc+fract = x, split_at_point = (trunc, fract) and "
               "floor/ceil/round/trunc/to_int/Repr::to_int name the right neighbour with truthful flags for every digits_ub estimator "
               "satisfying its enclosure hypothesis (the model mirrors /repo after fix f9ab1b6 of split_at_point_internal, found here: "
               "0.0099 at 2 digits rounded to 1); the mirrored Repr::{split_at_point,ceil,floor,trunc,fract,round} of rational/src/round.rs "
               "and the twelve RBig/Relaxed entry points name the right neighbour, x = trunc + fract, and fract keeps the type "
               "invariant unreduced; the coarse f32 test of round_fract decides as the exact comparison for every precision up to "
               "2^24 digits (no bound of the order 10^4 is needed: log2_bounds_large's ADJUST factor pays for the roundings) - stated for the "
               "concrete IEEE rounding function rne32 whose relative-error / monotonicity / exactness facts and the source's f32 literals are "
               "proved (Props/C10F32), so the f32 side rests only on 'the machine operation is rne32 of the exact result' (compared per "
               "case through an integer soft-float replica proved equal to rne32) and on libm's log2f being within one ulp (checked on all "
               "2^24 integers in the thorough tier). Model tied to /repo by the regenerated tables and by differential execution.")
ASSUMPTIONS = ["(IEEE) the machine's f32 `+ - * /`, integer->f32 conversion and the compiler's decimal->f32 literal conversion return "
               "rne32 (round to nearest, ties to even, 24-bit significand; IEEE-754 4.3.1 / 5.4.1 / 5.12.2) of the exact result; no "
               "overflow / subnormal occurs (quantities are 0 or in [2^-1, 2^32]; Props/C10F32.normal_range). Every property of "
               "rne32 that the estimator theorems use is PROVED (Props/C10F32); (IEEE) itself is compared on every driven coarse "
               "test and on the s32.* cases against the integer soft-float model that is proved to denote rne32",
               "(LIBM) libm log2f: 0 <= next_down(log2f m) <= log2 m <= next_up(log2f m) for the integers 2..2^24, value a binary32 "
               "number of [16,32) on [2^23, 2^24] (Log2fSound; the only f32 hypothesis of coarse_test_sound_libm / "
               "log2_bounds_enclose / digits_ub_inline_sound); checked exhaustively on this machine in the thorough tier (s32.sweep); "
               "the driver additionally checks digits_lb <= digits <= digits_ub on every operand",
               "round_fract coarse test: region k <= 2^24 (beyond it driven only)",
               "IBig/UBig kernels (mul, div_rem, pow, shifts) at their specification (C01/C02)",
               "exponent / precision arithmetic over unbounded integers (isize / usize limits driven by the E1 generator, not proved)"]
LEVEL_TEXT = ("Machine-checked Lean 4 theorems over all integers, bases, precisions and modes for the rounding primitives (on top of the "
              "mode tables regenerated from float/src/round.rs at every run), repr_round/with_precision (rounding contract over Rat) and "
              "the integer roundings of FBig and RBig; the hand-written part of the model is tied to /repo by differential execution "
              "over the complete primitive grid and structured floats around every branch condition of round_ops.rs.")
LEVEL_NOTE = ("Trusted: Lean kernel; axioms propext/Classical.choice/Quot.sound; the correspondence harness and generators (sampling) "
              "for the hand-written model; the f32 estimators: IEEE arithmetic facts proved for the concrete rounding function rne32 and "
              "tied to the machine per case through the soft-float replica, libm's log2f accuracy assumed (exhaustively checked on the "
              "running machine in the thorough tier). The defect found here (split_at_point_internal's smaller-than-one shortcut) is repaired in /repo (f9ab1b6); "
              "its witnesses stay in corpus/C10 as regression cases; likewise the negation overflow for exponent == isize::MIN in "
              "trunc/floor/ceil/round/fract/split_at_point/to_int (7e1bdaf, corpus/C10/exponent_isize_min.case). No open finding.")
TECHNIQUE = "Lean 4 proofs over a mirrored model (regenerated decision tables + hand-written arithmetic) + differential correspondence"
