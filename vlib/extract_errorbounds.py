"""C18 (round 5, Tie A): the six `impl ErrorBounds for mode::X` of float/src/round.rs and the decision skeleton of
`RBig::simplest_from_float` (rational/src/third_party/dashu_float.rs) regenerated as Lean decision tables.

`fn error_bounds(f) -> (L, R, incl_L, incl_R)` of each mode is a small decision tree over four observations of `f`

    prec0  := f.precision() == 0            isZero := f.repr().is_zero()  (also written f.repr.is_zero())
    neg    := f.repr().sign() == Sign::Negative   (also the arms of `match f.repr().sign()`)
    odd    := f.repr.significand.bit(0)

whose leaves are tuples of widths `FBig::ZERO` (`.zero`), `f.ulp()` (`.ulp`), `half_ulp` (`.halfUlp`: `f.ulp()` with the
exponent lowered by one and the significand replaced by `UBig::from_word(E)`, E regenerated as `half_ulp_signif B`) and
booleans.  A dedicated recursive-descent reader translates exactly this subset; anything else raises ExtractError
(fails closed).  `f.ulp()` panics for an unlimited-precision float, so a leaf that mentions `.ulp`/`.halfUlp` and is
reached with `prec0 = true` is a panic: `Props/C18Gen.lean` proves that the hand model of C18 (`roundingSet Quirks.code`,
the `panicUnlimited` switch) is exactly this table, for every base, mode, sign, parity.
"""
import hashlib
import re

REL = "float/src/round.rs"
REL2 = "rational/src/third_party/dashu_float.rs"
MODES = ["Zero", "Away", "Down", "Up", "HalfAway", "HalfEven"]


class Rd:
    """reader over comment-free text"""

    def __init__(self, X, text, where):
        self.X, self.s, self.i, self.where = X, text, 0, where
        self.half = None          # Lean text of the half-ulp significand, once the three statements were seen
        self.env = {}             # let-bound boolean names -> Lean text

    def err(self, msg):
        raise self.X.ExtractError("%s: %s near `%s`" % (self.where, msg, self.s[self.i:self.i + 60].replace("\n", " ")))

    def ws(self):
        while self.i < len(self.s) and self.s[self.i].isspace():
            self.i += 1

    def at(self, lit):
        self.ws()
        return self.s.startswith(lit, self.i)

    def eat(self, lit):
        self.ws()
        if not self.s.startswith(lit, self.i):
            self.err("expected `%s`" % lit)
        self.i += len(lit)

    def m(self, pat):
        self.ws()
        mm = re.compile(pat).match(self.s, self.i)
        if mm:
            self.i = mm.end()
        return mm

    def eof(self):
        self.ws()
        return self.i >= len(self.s)

    # ---- conditions
    def cond_atom(self):
        if self.m(r"f\s*\.\s*precision\s*\(\s*\)\s*==\s*0\b"):
            return "prec0"
        if self.m(r"f\s*\.\s*repr(\s*\(\s*\))?\s*\.\s*is_zero\s*\(\s*\)"):
            return "isZero"
        if self.m(r"f\s*\.\s*repr(\s*\(\s*\))?\s*\.\s*sign\s*\(\s*\)\s*==\s*Sign::Negative\b"):
            return "neg"
        if self.m(r"f\s*\.\s*repr(\s*\(\s*\))?\s*\.\s*sign\s*\(\s*\)\s*==\s*Sign::Positive\b"):
            return "(!neg)"
        if self.m(r"f\s*\.\s*repr\s*\.\s*significand\s*\.\s*bit\s*\(\s*0\s*\)"):
            return "odd"
        self.err("unknown condition")

    def cond(self):
        c = self.cond_atom()
        while self.at("&&"):
            self.eat("&&")
            c = "(%s && %s)" % (c, self.cond_atom())
        return c

    # ---- leaves
    def elem(self):
        if self.m(r"FBig::ZERO\b"):
            return ".zero"
        if self.m(r"f\s*\.\s*ulp\s*\(\s*\)"):
            return ".ulp"
        if self.m(r"half_ulp(\s*\.\s*clone\s*\(\s*\))?"):
            if self.half is None:
                self.err("`half_ulp` used before its three defining statements")
            return ".halfUlp"
        if self.m(r"true\b"):
            return "true"
        if self.m(r"false\b"):
            return "false"
        mm = self.m(r"[a-z_][a-z0-9_]*\b")
        if mm and mm.group(0) in self.env:
            return self.env[mm.group(0)]
        self.err("unknown tuple element")

    def tuple(self):
        self.eat("(")
        xs = [self.elem()]
        while self.at(","):
            self.eat(",")
            if self.at(")"):
                break
            xs.append(self.elem())
        self.eat(")")
        return "(" + ", ".join(xs) + ")"

    # ---- expressions: tuple | if-chain | match on the sign
    def expr(self):
        if self.at("("):
            return self.tuple()
        if self.m(r"if\b"):
            c = self.cond()
            a = self.block()
            self.eat("else")
            b = self.expr() if self.at("if") else self.block()
            return "(if %s then %s else %s)" % (c, a, b)
        if self.m(r"match\s+f\s*\.\s*repr(\s*\(\s*\))?\s*\.\s*sign\s*\(\s*\)\s*\{"):
            arms = {}
            while not self.at("}"):
                mm = self.m(r"Sign::(Positive|Negative)\s*=>")
                if not mm:
                    self.err("unknown match arm")
                arms[mm.group(1)] = self.expr()
                if self.at(","):
                    self.eat(",")
            self.eat("}")
            if sorted(arms) != ["Negative", "Positive"]:
                self.err("match on the sign without both arms")
            return "(if neg then %s else %s)" % (arms["Negative"], arms["Positive"])
        self.err("unknown expression")

    def block(self):
        self.eat("{")
        r = self.stmts("}")
        self.eat("}")
        return r

    # ---- statement sequences ending in a value
    def stmts(self, closer):
        if self.m(r"return\b"):
            e = self.expr()
            self.eat(";")
            if not (self.eof() if closer is None else self.at(closer)):
                self.err("code after `return`")
            return e
        if self.m(r"let\s+mut\s+half_ulp\s*=\s*f\s*\.\s*ulp\s*\(\s*\)\s*;"):
            if not self.m(r"half_ulp\s*\.\s*repr\s*\.\s*exponent\s*-=\s*1\s*;"):
                self.err("`half_ulp.repr.exponent -= 1;` expected")
            mm = self.m(r"half_ulp\s*\.\s*repr\s*\.\s*significand\s*=\s*UBig::from_word\s*\(([^;]*?)\)\s*\.\s*into\s*\(\s*\)\s*;")
            if not mm:
                self.err("`half_ulp.repr.significand = UBig::from_word(…).into();` expected")
            e = re.sub(r"\s+", " ", mm.group(1).strip())
            if not re.fullmatch(r"[B0-9+\-*/() ]+", e):
                self.err("half-ulp significand is not arithmetic over B: `%s`" % e)
            self.half = e
            return self.stmts(closer)
        mm = self.m(r"let\s+\(\s*([a-z_]+)\s*,\s*([a-z_]+)\s*\)\s*=")
        if mm:
            e = self.expr()
            self.eat(";")
            self.env[mm.group(1)] = "%s.1" % e
            self.env[mm.group(2)] = "%s.2" % e
            return self.stmts(closer)
        mm = self.m(r"let\s+([a-z_]+)\s*=")
        if mm:
            c = self.cond()
            self.eat(";")
            self.env[mm.group(1)] = c
            return self.stmts(closer)
        if self.at("if"):
            # statement-level `if c { return X; }` followed by the rest, or a tail if-expression
            save = self.i
            self.m(r"if\b")
            c = self.cond()
            a = self.block()
            if self.at("else"):
                self.i = save
                e = self.expr()
            else:
                e = "(if %s then %s else %s)" % (c, a, self.stmts(closer))
                return e
            if not (self.eof() if closer is None else self.at(closer)):
                self.err("code after the tail expression")
            return e
        e = self.expr()
        if not (self.eof() if closer is None else self.at(closer)):
            self.err("code after the tail expression")
        return e


def _impl_fn_body(X, src, mode):
    mm = re.search(r"impl\s+ErrorBounds\s+for\s+mode::%s\s*\{" % mode, src)
    if not mm:
        raise X.ExtractError("%s: `impl ErrorBounds for mode::%s` not found" % (REL, mode))
    end = X.balanced(src, mm.end() - 1)
    body = src[mm.end():end - 1]
    fm = re.search(r"fn\s+error_bounds\s*<\s*const\s+B\s*:\s*Word\s*>\s*\(\s*f\s*:\s*&FBig<Self,\s*B>\s*,?\s*\)\s*->\s*"
                   r"\(\s*FBig<Self,\s*B>\s*,\s*FBig<Self,\s*B>\s*,\s*bool\s*,\s*bool\s*\)\s*\{", body)
    if not fm:
        raise X.ExtractError("%s: mode::%s: signature of `error_bounds` changed" % (REL, mode))
    bend = X.balanced(body, fm.end() - 1)
    if re.sub(r"//[^\n]*", "", body[bend:]).strip():
        raise X.ExtractError("%s: mode::%s: items besides `error_bounds` in the impl" % (REL, mode))
    line = src.count("\n", 0, mm.start()) + 1
    return body[fm.end():bend - 1], line


def generate(X):
    src = X.read(REL)
    out = ["/-! GENERATED by vlib/extract.py (vlib/extract_errorbounds.py) from /repo — do not edit.",
           "    C18: `ErrorBounds::error_bounds` of the six rounding modes (float/src/round.rs) as decision tables over",
           "    prec0 = `f.precision() == 0`, isZero = `f.repr().is_zero()`, neg = sign is Negative, odd = `significand.bit(0)`;",
           "    and the decision skeleton of `RBig::simplest_from_float` (rational/src/third_party/dashu_float.rs). -/",
           "namespace Dashu.Gen.ErrorBounds", "set_option linter.unusedVariables false", "",
           "/-- a width of the error interval: `FBig::ZERO`, `f.ulp()`, or `half_ulp` (`f.ulp()` with exponent − 1 and",
           "    significand `half_ulp_signif B`); `.ulp`/`.halfUlp` evaluate `f.ulp()`, which panics when prec0 -/",
           "inductive Width where", "  | zero | ulp | halfUlp", "  deriving DecidableEq, Repr", ""]
    info = {}
    halves = set()
    defs = []
    for mode in MODES:
        body, line = _impl_fn_body(X, src, mode)
        text = re.sub(r"//[^\n]*", "", body)
        rd = Rd(X, text, "%s:%d ErrorBounds for mode::%s" % (REL, line, mode))
        lean = rd.stmts(None)
        if rd.half is not None:
            halves.add(rd.half)
        defs.append("/-- `impl ErrorBounds for mode::%s` (%s:%d): `(L, R, incl_L, incl_R)` -/\n"
                    "def error_bounds_%s (prec0 isZero neg odd : Bool) : Width × Width × Bool × Bool :=\n    %s\n"
                    % (mode, REL, line, mode, lean))
        info["error_bounds_" + mode] = hashlib.sha1(re.sub(r"\s+", " ", text).encode()).hexdigest()[:12]
    if len(halves) != 1:
        raise X.ExtractError("%s: the half-ulp significand differs between the half modes: %s" % (REL, sorted(halves)))
    half = halves.pop()
    out.append("/-- significand of `half_ulp` (in units of `B^(exp−1)`): `UBig::from_word(%s)` -/" % half)
    out.append("def half_ulp_signif (B : Nat) : Nat := %s\n" % half)
    info["half_ulp_signif"] = half
    out += defs

    # ---- decision skeleton of RBig::simplest_from_float
    s2 = X.read(REL2)
    mm = re.search(r"pub\s+fn\s+simplest_from_float\s*<\s*R\s*:\s*ErrorBounds\s*,\s*const\s+B\s*:\s*Word\s*>\s*"
                   r"\(\s*f\s*:\s*&FBig<R,\s*B>\s*\)\s*->\s*Option<Self>\s*\{", s2)
    if not mm:
        raise X.ExtractError("%s: signature of `simplest_from_float` changed" % REL2)
    end = X.balanced(s2, mm.end() - 1)
    flat = re.sub(r"\s+", " ", re.sub(r"//[^\n]*", "", s2[mm.end():end - 1])).strip()
    shape = (r"if f\.repr\(\)\.is_infinite\(\) \{ return None; \} else if f\.repr\(\)\.is_zero\(\) \{ return Some\(Self::ZERO\); \} "
             # round 6 (proposed_fixes/c18-simplest-from-float-unlimited.diff): exact value of an unlimited-precision float,
             # returned BEFORE the error bounds are asked; without it the skeleton below has no such path and
             # Props/C18Gen.entry_is_skeleton stops checking
             r"(?P<exact>if f\.precision\(\) == 0 \{ return Some\(Self::try_from\(f\.clone\(\)\)\.unwrap\(\)\); \} )?"
             r"let \(l, r, incl_l, incl_r\) = R::error_bounds\(f\); "
             r"let lb = f - l\.with_precision\(f\.precision\(\) \+ 1\)\.unwrap\(\); "
             r"let rb = f \+ r\.with_precision\(f\.precision\(\) \+ 1\)\.unwrap\(\); "
             r"let left = Self::try_from\(lb\)\.unwrap\(\); let right = Self::try_from\(rb\)\.unwrap\(\); "
             r"let mut simplest = Self::simplest_in\(left\.clone\(\), right\.clone\(\)\); "
             r"if incl_l && left\.is_simpler_than\(&simplest\) \{ simplest = left; \} "
             r"if incl_r && right\.is_simpler_than\(&simplest\) \{ simplest = right; \} Some\(simplest\)")
    fm = re.fullmatch(shape, flat)
    if not fm:
        raise X.ExtractError("%s: body of `simplest_from_float` no longer has the mirrored shape "
                             "(infinite -> None, zero -> ZERO, [f-L, f+R], simplest_in, inclusive end points left then right)" % REL2)
    line2 = s2.count("\n", 0, mm.start()) + 1
    out.append("/-- `RBig::simplest_from_float` (%s:%d), decision skeleton: which early return is taken\n"
               "    (0 = `None`, 1 = `Some(ZERO)`, 3 = `f.precision() == 0`: the exact value `Self::try_from(f.clone())`,\n"
               "    2 = the interval path `[f − L, f + R]` → `simplest_in` → end points) -/" % (REL2, line2))
    out.append("def simplest_from_float_path (isInfinite isZero prec0 : Bool) : Nat :=\n    if isInfinite then 0 else if isZero then 1 else %s2\n"
               % ("if prec0 then 3 else " if fm.group("exact") else ""))
    out.append("/-- the end-point selection of the interval path: left first, then right (`simpler a b` = `a.is_simpler_than(&b)`) -/")
    out.append("def simplest_from_float_pick {α : Type} (simpler : α → α → Bool) (left right simplest : α) (incl_l incl_r : Bool) : α :=\n"
               "    let simplest := if incl_l && simpler left simplest then left else simplest\n"
               "    let simplest := if incl_r && simpler right simplest then right else simplest\n"
               "    simplest\n")
    info["simplest_from_float_body"] = hashlib.sha1(flat.encode()).hexdigest()[:12]
    out.append("end Dashu.Gen.ErrorBounds")
    out.append("")
    t3, i3 = _float_macro(X)
    out.append(t3)
    info.update(i3)
    return "\n".join(out) + "\n", info


REL3 = "rational/src/simplify.rs"


def _float_macro(X):
    """`impl_simplest_from_float!` (simplest_from_f32 / f64): the rounding interval in units of 2^(exp-2) — the numbers
    `below`, `center`, the two shifts, the upper offset, the parity test — read from the macro body, which must have
    exactly the mirrored statement sequence (fails closed otherwise)."""
    src = X.read(REL3)
    mm = re.search(r"macro_rules!\s+impl_simplest_from_float\s*\{", src)
    if not mm:
        raise X.ExtractError("%s: macro impl_simplest_from_float not found" % REL3)
    end = X.balanced(src, mm.end() - 1)
    line = src.count("\n", 0, mm.start()) + 1
    flat = re.sub(r"\s+", " ", re.sub(r"//[^\n]*", "", src[mm.end():end - 1])).strip()
    N = r"(\d+)"
    shape = (r"\(\$f:ident, \$t:ty\) => \{\{ "
             r"if \$f\.is_infinite\(\) \|\| \$f\.is_nan\(\) \{ return None; \} else if \$f == 0\. \{ return Some\(Self::ZERO\); \} "
             r"let \(man, exp\) = \$f\.decode\(\)\.unwrap\(\); let mag = man\.unsigned_abs\(\); "
             r"let min_exp = \(<\$t>::MIN_EXP - <\$t>::MANTISSA_DIGITS as i32\) as i16; "
             r"let below = if mag == 1 << \(<\$t>::MANTISSA_DIGITS - " + N + r"\) && exp (>=|>) min_exp \{ " + N + r" \} else \{ " + N + r" \}; "
             r"let center = IBig::from\(mag\) << " + N + r"; "
             r"let \(shift, den_shift\) = if exp >= " + N + r" \{ \(\(exp - " + N + r"\) as usize, 0\) \} else \{ \(0, \(" + N + r" - exp\) as usize\) \}; "
             r"let bound = \|num: IBig\| \{ Self\( Repr \{ numerator: \(num << shift\) \* man\.sign\(\), denominator: UBig::ONE << den_shift, \} \.reduce\(\), \) \}; "
             r"let left = bound\(&center - IBig::from\(below\)\); let right = bound\(center \+ IBig::from\(" + N + r"\)\); "
             r"let mut simplest = Self::simplest_in\(left\.clone\(\), right\.clone\(\)\); "
             r"if \$f\.to_bits\(\) & 1 == (0|1) \{ "
             r"if left\.is_simpler_than\(&simplest\) \{ simplest = left; \} if right\.is_simpler_than\(&simplest\) \{ simplest = right; \} \} "
             r"Some\(simplest\) \}\};")
    m = re.fullmatch(shape, flat)
    if not m:
        raise X.ExtractError("%s:%d: body of impl_simplest_from_float! no longer has the mirrored statement sequence" % (REL3, line))
    (pw_sub, cmp_op, b_pow, b_else, c_shift, thr, sub1, sub2, above, parity) = m.groups()
    o = ["/-! `impl_simplest_from_float!` (%s:%d): the rounding interval of `man · 2^exp` in units of `2^(exp − 2)` -/" % (REL3, line),
         "namespace Dashu.Gen.SimplestFromFloat", "",
         "/-- `min_exp = (<$t>::MIN_EXP - <$t>::MANTISSA_DIGITS as i32) as i16` -/",
         "def min_exp (MIN_EXP MANTISSA_DIGITS : Int) : Int := MIN_EXP - MANTISSA_DIGITS", "",
         "/-- `below`: distance from `center` down to the left end -/",
         "def below (MANTISSA_DIGITS : Nat) (min_exp : Int) (mag : Nat) (exp : Int) : Int :=",
         "    if mag = 2 ^ (MANTISSA_DIGITS - %s) ∧ exp %s min_exp then %s else %s" % (pw_sub, {">": ">", ">=": "≥"}[cmp_op], b_pow, b_else), "",
         "/-- `center = IBig::from(mag) << %s` -/" % c_shift,
         "def center (mag : Nat) : Int := (mag : Int) * 2 ^ %s" % c_shift, "",
         "/-- distance from `center` up to the right end -/",
         "def above : Int := %s" % above, "",
         "/-- `(shift, den_shift)` -/",
         "def shifts (exp : Int) : Nat × Nat :=",
         "    if exp ≥ %s then ((exp - %s).toNat, 0) else (0, (%s - exp).toNat)" % (thr, sub1, sub2), "",
         "/-- the end points may be returned iff `to_bits() & 1 == %s` -/" % parity,
         "def ends_allowed (bits : Nat) : Bool := bits %% 2 == %s" % parity, "",
         "end Dashu.Gen.SimplestFromFloat"]
    return "\n".join(o), {"impl_simplest_from_float": hashlib.sha1(flat.encode()).hexdigest()[:12]}
