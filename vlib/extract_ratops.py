"""Tie A (C04): the operator macro bodies of dashu-ratio regenerated from /repo into lean/Dashu/Gen/RatOps.lean.

Loaded by `vlib/extract.py::gen_rat_ops` (which passes its own module object, so nothing is imported circularly).

What is translated (FAIL CLOSED outside the subset — any other construct raises ExtractError naming the macro):
  * every `macro_rules! impl_…` of `rational/src/{add,mul,div}.rs` whose single rule has the parameter list
    `($a, $b, $c, $d, $ra, $rb, $rc, $rd, $method)` (binary operators between two rationals) or
    `($a, $b, $i, $ra, $rb, $ri, $method)` (mixed operators with a `UBig`/`IBig`): the body `{{ stmts; tail }}` becomes one
    Lean `do` block in `Except PanicKind` over the small vocabulary of `lean/Dashu/Model/Ratio/GenPrelude.lean`
    (`G.mul`, `G.div`, `G.gcd`, `G.sign`, `G.repr`, `G.rbig_from_parts`, …).  The macro's `$method` becomes a parameter
    `method` of the generated definition (a pure `Int → Int → Int` for the ring operators, a panicking
    `Int → Int → Except PanicKind τ` for `rem`, `div_euclid`, `rem_euclid`, `div_rem_euclid` — decided from the invocation
    table below); all other parameters are `Int` (numerator / denominator / integer operand; `$rx` is the borrowed `$x`).
    Panicking callees (`gcd`, `reduce_with_hint`, `from_parts`, a panicking `$method`) are bound in source evaluation
    order (`let t ← …`).
  * every invocation `impl_binop_with_macro!(…)` / `impl_binop_with_int!(…)` of these files: which trait, which method name,
    which operand types reach which macro body — emitted as the table `invocations`.
`Props/C04Gen.lean` proves every generated body equal to the hand-written model function the driver executes, and the
invocation table equal to the dispatch the model's `evalBin` / `evalIntR` / `evalIntL` assume.
"""
import re, hashlib

FILES = ["rational/src/add.rs", "rational/src/mul.rs", "rational/src/div.rs"]
BIN_PARAMS = ["a", "b", "c", "d", "ra", "rb", "rc", "rd", "method"]
INT_PARAMS = ["a", "b", "i", "ra", "rb", "ri", "method"]
# result type of a panicking `$method`
MONADIC_METHODS = {"rem": "Int", "div_euclid": "Int", "rem_euclid": "Int", "div_rem_euclid": "Int × Int"}
PURE_METHODS = {"add", "sub", "mul", "div"}

# method calls: name -> (arity without receiver, Lean function, monadic)
METHODS = {
    "gcd": (1, "G.gcd", True),
    "is_zero": (0, "G.is_zero", False),
    "is_one": (0, "G.is_one", False),
    "sign": (0, "G.sign", False),
    "unsigned_abs": (0, "G.unsigned_abs", False),
    "into_parts": (0, "G.into_parts", False),
    "into": (0, "G.into", False),
    "reduce_with_hint": (1, "G.reduce_with_hint", True),
}
# path calls
FUNCS = {
    "Gcd::gcd": (2, "G.gcd", True),
    "RBig::from_parts": (2, "G.rbig_from_parts", True),
    "Relaxed::from_parts": (2, "G.relaxed_from_parts", True),
    "IBig::from_parts": (2, "G.ibig_from_parts", False),
    "RBig": (1, "G.mk_rbig", False),
    "Relaxed": (1, "G.mk_relaxed", False),
}
BINOPS = {"*": "G.mul", "/": "G.div", "-": "G.sub", "+": "G.add", "<": "G.lt"}


def generate(X):
    ExtractError = X.ExtractError

    def sha(text):
        t = re.sub(r"/\*.*?\*/", "", text, flags=re.S)
        t = re.sub(r"//[^\n]*", "", t)
        return hashlib.sha1(re.sub(r"\s+", " ", t).strip().encode()).hexdigest()[:12]

    class Parser:
        """macro body -> AST (tuples)"""
        def __init__(self, toks, what):
            self.t, self.i, self.what = toks, 0, what

        def err(self, msg):
            ctx = " ".join(x[1] for x in self.t[max(0, self.i - 6):self.i + 4])
            raise ExtractError("%s: %s (near `%s`)" % (self.what, msg, ctx))

        def peek(self, k=0):
            return self.t[self.i + k] if self.i + k < len(self.t) else ("eof", "<eof>")

        def next(self):
            tok = self.peek()
            self.i += 1
            return tok

        def accept(self, v):
            if self.peek()[1] == v:
                self.i += 1
                return True
            return False

        def expect(self, v):
            if not self.accept(v):
                self.err("expected `%s`, found `%s`" % (v, self.peek()[1]))

        def block(self):
            """`{ stmt* tail? }` -> (stmts, tail | None)"""
            self.expect("{")
            stmts, tail = [], None
            while not self.accept("}"):
                if tail is not None:
                    self.err("expression in the middle of a block")
                if self.peek()[1] == "let":
                    self.next()
                    pat = self.pattern()
                    self.expect("=")
                    e = self.expr()
                    self.expect(";")
                    stmts.append(("let", pat, e))
                elif self.peek()[1] == "if":
                    e = self.if_expr()
                    if e[3] is None:
                        stmts.append(("ifstmt", e[1], e[2]))
                        self.accept(";")
                    else:
                        tail = e
                        if self.accept(";"):
                            self.err("an `if … else` statement whose value is dropped")
                else:
                    e = self.expr()
                    if self.accept(";"):
                        stmts.append(("expr", e))
                    else:
                        tail = e
            return stmts, tail

        def pattern(self):
            k, v = self.next()
            if v == "(":
                items = []
                while not self.accept(")"):
                    items.append(self.pattern())
                    self.accept(",")
                return ("ptuple", items)
            if k == "id" and not v.startswith("$"):
                return ("pvar", v)
            self.err("unsupported pattern `%s`" % v)

        def if_expr(self):
            self.expect("if")
            c = self.expr(no_struct=True)
            th = self.block()
            el = None
            if self.accept("else"):
                el = self.block()
            return ("if", c, th, el)

        def expr(self, no_struct=False):
            lhs = self.additive(no_struct)
            if self.peek()[1] == "<" :
                self.next()
                rhs = self.additive(no_struct)
                return ("bin", "<", lhs, rhs)
            return lhs

        def additive(self, ns):
            e = self.term(ns)
            while self.peek()[1] in ("+", "-"):
                op = self.next()[1]
                e = ("bin", op, e, self.term(ns))
            return e

        def term(self, ns):
            e = self.unary(ns)
            while self.peek()[1] in ("*", "/"):
                op = self.next()[1]
                e = ("bin", op, e, self.unary(ns))
            return e

        def unary(self, ns):
            if self.accept("&"):
                return self.unary(ns)                      # a borrow denotes the same value
            if self.accept("-"):
                return ("neg", self.unary(ns))
            return self.postfix(ns)

        def args(self):
            self.expect("(")
            out = []
            while not self.accept(")"):
                out.append(self.expr())
                if not self.accept(","):
                    self.expect(")")
                    break
            return out

        def postfix(self, ns):
            e = self.primary(ns)
            while self.peek()[1] == ".":
                self.next()
                k, name = self.next()
                if k != "id":
                    self.err("method name expected")
                e = ("mcall", e, name, self.args())
            return e

        def primary(self, ns):
            k, v = self.peek()
            if v == "(":
                self.next()
                items = [self.expr()]
                is_tuple = False
                while self.accept(","):
                    is_tuple = True
                    if self.peek()[1] == ")":
                        break
                    items.append(self.expr())
                self.expect(")")
                return ("tuple", items) if is_tuple else items[0]
            if v == "if":
                e = self.if_expr()
                if e[3] is None:
                    self.err("`if` without `else` used as a value")
                return e
            if k == "id":
                self.next()
                if v.startswith("$"):
                    return ("mvar", v[1:])
                path = [v]
                while self.peek()[1] == "::":
                    self.next()
                    kk, vv = self.next()
                    if kk != "id":
                        self.err("path segment expected")
                    path.append(vv)
                name = "::".join(path)
                if self.peek()[1] == "(":
                    return ("call", name, self.args())
                if self.peek()[1] == "{" and not ns:
                    self.next()
                    fields = []
                    while not self.accept("}"):
                        fk, fname = self.next()
                        if fk != "id":
                            self.err("field name expected")
                        self.expect(":")
                        fields.append((fname, self.expr()))
                        if not self.accept(","):
                            self.expect("}")
                            break
                    return ("struct", name, fields)
                if len(path) != 1:
                    self.err("path `%s` used as a value" % name)
                return ("var", v)
            self.err("unsupported token `%s`" % v)

    class Emitter:
        def __init__(self, what, monadic_method):
            self.what, self.n, self.monadic_method = what, 0, monadic_method
            self.uses_method = False
            self.used = set()

        def err(self, msg):
            raise ExtractError("%s: %s" % (self.what, msg))

        def fresh(self):
            self.n += 1
            return "t_%d" % self.n

        def atom(self, e, lines, ind):
            """pure Lean term for `e`; bindings it needs are appended to `lines`"""
            term, mon = self.expr(e, lines, ind)
            if mon:
                t = self.fresh()
                lines.append("%slet %s ← %s" % (ind, t, term))
                return t
            return term

        def expr(self, e, lines, ind):
            """(Lean term, is it a computation in Except?)"""
            k = e[0]
            if k == "mvar":
                if e[1] == "method":
                    self.err("`$method` used as a value")
                self.used.add(e[1])
                return e[1], False
            if k == "var":
                return X.ident(e[1]) if hasattr(X, "ident") else e[1], False
            if k == "neg":
                return "(G.neg %s)" % self.atom(e[1], lines, ind), False
            if k == "bin":
                a = self.atom(e[2], lines, ind)
                b = self.atom(e[3], lines, ind)
                return "(%s %s %s)" % (BINOPS[e[1]], a, b), False
            if k == "tuple":
                return "(%s)" % ", ".join(self.atom(x, lines, ind) for x in e[1]), False
            if k == "struct":
                if e[1] != "Repr" or [f for f, _ in e[2]] != ["numerator", "denominator"]:
                    self.err("struct literal `%s { %s }` is not `Repr { numerator, denominator }`" % (e[1], ", ".join(f for f, _ in e[2])))
                n = self.atom(e[2][0][1], lines, ind)
                d = self.atom(e[2][1][1], lines, ind)
                return "(G.repr %s %s)" % (n, d), False
            if k == "call":
                if e[1] == "panic_divide_by_0":
                    self.err("`panic_divide_by_0()` outside `if … { panic_divide_by_0() }`")
                if e[1] not in FUNCS:
                    self.err("call of `%s` is outside the vocabulary" % e[1])
                ar, fn, mon = FUNCS[e[1]]
                if len(e[2]) != ar:
                    self.err("`%s` called with %d arguments" % (e[1], len(e[2])))
                args = [self.atom(x, lines, ind) for x in e[2]]
                return "(%s %s)" % (fn, " ".join(args)), mon
            if k == "mcall":
                recv, name, args = e[1], e[2], e[3]
                if name == "$method":
                    self.uses_method = True
                    if len(args) != 1:
                        self.err("`.$method` called with %d arguments" % len(args))
                    r = self.atom(recv, lines, ind)
                    a = self.atom(args[0], lines, ind)
                    return "(method %s %s)" % (r, a), self.monadic_method
                if name not in METHODS:
                    self.err("method `.%s()` is outside the vocabulary" % name)
                ar, fn, mon = METHODS[name]
                if len(args) != ar:
                    self.err("`.%s` called with %d arguments" % (name, len(args)))
                r = self.atom(recv, lines, ind)
                aa = [self.atom(x, lines, ind) for x in args]
                return "(%s %s)" % (fn, " ".join([r] + aa)), mon
            if k == "if":
                c = self.atom(e[1], lines, ind)
                th = self.block(e[2], ind + "    ")
                el = self.block(e[3], ind + "    ")
                return "(if %s then (do\n%s)\n%s  else (do\n%s))" % (c, th, ind, el), True
            self.err("unsupported expression %r" % (k,))

        def pat(self, p):
            if p[0] == "pvar":
                return p[1]
            return "(%s)" % ", ".join(self.pat(x) for x in p[1])

        def block(self, blk, ind, top=False):
            stmts, tail = blk
            lines = []
            for st in stmts:
                if st[0] == "let":
                    p, e = st[1], st[2]
                    if p[0] == "pvar" and p[1] == "_unused":
                        # `let _unused = ($ra, …);` silences unused-variable warnings: only macro variables allowed
                        items = e[1] if e[0] == "tuple" else [e]
                        if not all(x[0] == "mvar" for x in items):
                            self.err("`let _unused = …` with something other than macro variables")
                        continue
                    term, mon = self.expr(e, lines, ind)
                    lines.append("%slet %s %s %s" % (ind, self.pat(p), "←" if mon else ":=", term))
                elif st[0] == "ifstmt":
                    c = self.atom(st[1], lines, ind)
                    bs, bt = st[2]
                    if bs or bt is None or bt != ("call", "panic_divide_by_0", []):
                        self.err("an `if` without `else` whose body is not `panic_divide_by_0()`")
                    lines.append("%sif %s then throw PanicKind.divideByZero" % (ind, c))
                else:
                    self.err("expression statement")
            if tail is None:
                self.err("block without a value")
            term, mon = self.expr(tail, lines, ind)
            lines.append("%s%s" % (ind, term if mon else "pure %s" % term))
            return "\n".join(lines)

    def macro_rule(src, m, name, rel):
        """the single rule of `macro_rules! name { (params) => {{ body }}; }` (comments before the rule head allowed)"""
        end = X.balanced(src, m.end() - 1)
        body = src[m.end():end - 1]
        m2 = re.match(r"(?:\s|//[^\n]*\n)*\(([^)]*)\)\s*=>\s*\{", body)
        if not m2:
            raise ExtractError("%s: macro %s: unsupported rule head" % (rel, name))
        plist = [x.strip() for x in m2.group(1).split(",") if x.strip()]
        params = []
        for p_ in plist:
            mm = re.fullmatch(r"\$([a-z0-9_]+)\s*:\s*ident", p_)
            if not mm:
                raise ExtractError("%s: macro %s: parameter `%s` is not an `ident`" % (rel, name, p_))
            params.append(mm.group(1))
        bstart = m2.end() - 1
        bend = X.balanced(body, bstart)
        rest = body[bend:].strip().rstrip(";").strip()
        if rest:
            raise ExtractError("%s: macro %s: more than one rule" % (rel, name))
        return params, body[bstart:bend]

    # ---- macros
    out = ["import Dashu.Model.Ratio.GenPrelude",
           "/-! GENERATED by vlib/extract.py (vlib/extract_ratops.py) from /repo — do not edit.",
           "    Operator macro bodies of `rational/src/{add,mul,div}.rs` and the table of their invocations. -/",
           "namespace Dashu.Gen.RatOps", "open Dashu.Model Dashu.Model.Ratio", "set_option linter.unusedVariables false", ""]
    info = {}
    macros = {}          # name -> (rel, params, body text, line)
    invs = []            # (kind, trait, method, lhs, rhs, macro, rel, line)
    for rel in FILES:
        src = X.read(rel)
        for m in re.finditer(r"macro_rules!\s+(impl_\w+)\s*\{", src):
            name = m.group(1)
            params, body = macro_rule(src, m, name, rel)
            macros[name] = (rel, params, body, src.count("\n", 0, m.start()) + 1)
        code = re.sub(r"//[^\n]*", lambda mm: " " * len(mm.group(0)), src)
        for m in re.finditer(r"\b(impl_binop_with_macro|impl_binop_with_int)!\s*\(", code):
            p0 = m.end() - 1
            p1 = X.balanced(code, p0, "(", ")")
            text = re.sub(r"\s+", " ", code[p0 + 1:p1 - 1]).strip()
            line = src.count("\n", 0, m.start()) + 1
            parts = [x.strip().replace("\u2192", "->") for x in X.split_top(text.replace("->", "\u2192"))]
            where = "%s:%d" % (rel, line)
            head = parts[0]
            if m.group(1) == "impl_binop_with_macro":
                mh = re.fullmatch(r"impl (\w+)(?: for (\w+))?", head)
                if not mh:
                    raise ExtractError("%s: invocation head `%s` not understood" % (where, head))
                trait, ty = mh.group(1), mh.group(2) or "RBig"
                mm = re.fullmatch(r"(\w+)(?: -> (\w+))?", parts[1])
                if not mm:
                    raise ExtractError("%s: method part `%s` not understood" % (where, parts[1]))
                method, omethod = mm.group(1), mm.group(2)
                rest = parts[2:]
                outs = ty
                if omethod:
                    outs = omethod
                if len(rest) == 3:
                    o1 = re.fullmatch(r"\w+ = (\w+)", rest[0]); o2 = re.fullmatch(r"\w+ = (\w+)", rest[1])
                    if not (o1 and o2):
                        raise ExtractError("%s: output types `%s` not understood" % (where, ", ".join(rest[:2])))
                    outs = "%s,%s" % (o1.group(1), o2.group(1))
                    rest = rest[2:]
                if len(rest) != 1:
                    raise ExtractError("%s: invocation `%s` not understood" % (where, text))
                invs.append(("bin", trait, method, ty, ty, outs, rest[0], rel, line))
            else:
                mh = re.fullmatch(r"impl (\w+)<(\w+)>", head)
                mh2 = re.fullmatch(r"impl (\w+) for (\w+)", head)
                if not (mh or mh2):
                    raise ExtractError("%s: invocation head `%s` not understood" % (where, head))
                method = parts[1]
                rest = parts[2:]
                ty = "RBig"
                if len(rest) == 2:
                    ty = rest[0]
                    rest = rest[1:]
                if len(rest) != 1 or not re.fullmatch(r"\w+", method) or ty not in ("RBig", "Relaxed"):
                    raise ExtractError("%s: invocation `%s` not understood" % (where, text))
                if mh:
                    invs.append(("intR", mh.group(1), method, ty, mh.group(2), ty, rest[0], rel, line))
                else:
                    invs.append(("intL", mh2.group(1), method, mh2.group(2), ty, ty, rest[0], rel, line))
    # which methods reach which macro
    reach = {}
    for inv in invs:
        if inv[6] not in macros:
            raise ExtractError("%s:%d: macro `%s` is not defined in rational/src/{add,mul,div}.rs" % (inv[7], inv[8], inv[6]))
        reach.setdefault(inv[6], set()).add(inv[2])
    for name in macros:
        if name not in reach:
            raise ExtractError("%s: macro `%s` is never invoked" % (macros[name][0], name))
    for name, (rel, params, body, line) in macros.items():
        what = "%s:%d macro `%s`" % (rel, line, name)
        if params == BIN_PARAMS:
            lean_params = ["a", "b", "c", "d", "ra", "rb", "rc", "rd"]
        elif params == INT_PARAMS:
            lean_params = ["a", "b", "i", "ra", "rb", "ri"]
        else:
            raise ExtractError("%s: parameter list %s is neither the binary nor the mixed-integer one" % (what, params))
        methods = reach[name]
        mono = methods & set(MONADIC_METHODS)
        if mono and (len(methods) != 1):
            raise ExtractError("%s: reached with the panicking method %s and others %s" % (what, sorted(mono), sorted(methods)))
        if not mono and not methods <= PURE_METHODS:
            raise ExtractError("%s: reached with unknown methods %s" % (what, sorted(methods)))
        inner = body.strip()
        if not (inner.startswith("{{") and inner.endswith("}}")):
            raise ExtractError("%s: body is not `{{ … }}`" % what)
        inner = inner[1:-1]
        ps = Parser(X.tokenize(inner), what)
        blk = ps.block()
        if ps.peek()[0] != "eof":
            ps.err("trailing tokens after the body")
        em = Emitter(what, bool(mono))
        text = em.block(blk, "    ")
        sig = []
        if em.uses_method:
            if mono:
                sig.append("(method : Int → Int → Except PanicKind (%s))" % MONADIC_METHODS[next(iter(mono))])
            else:
                sig.append("(method : Int → Int → Int)")
        sig.append("(%s : Int)" % " ".join(lean_params))
        # result type: the tail decides
        ret = "Q"
        if name.startswith("impl_euclid_divrem"):
            ret = "Int × Q"
        elif name == "impl_euclid_div":
            ret = "Int"
        h = sha(body)
        nl = body.count("\n")
        out.append("/-- `%s!` — %s:%d-%d, sha1 %s; reached with `$method` ∈ {%s} -/" % (name, rel, line, line + nl + 1, h, ", ".join(sorted(methods))))
        out.append("def %s %s : Except PanicKind (%s) := do\n%s\n" % (name, " ".join(sig), ret, text))
        info["RatOps." + name] = h
    out.append("/-- every `impl_binop_with_macro!` / `impl_binop_with_int!` invocation of rational/src/{add,mul,div}.rs:")
    out.append("    (shape, trait, method, left operand type, right operand type, output, macro body) -/")
    out.append("def invocations : List (String × String × String × String × String × String × String) := [")
    out.append(",\n".join("  (\"%s\", \"%s\", \"%s\", \"%s\", \"%s\", \"%s\", \"%s\")" % inv[:7] for inv in invs))
    out.append("]")
    out.append("")
    out.append("end Dashu.Gen.RatOps")
    info["RatOps.invocations"] = sha(repr([inv[:7] for inv in invs]))
    return "\n".join(out) + "\n", info
