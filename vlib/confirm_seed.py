#!/usr/bin/env python3
"""python3 vlib/confirm_seed.py <seed dir with patch.diff demo.rs meta.json> …
Confirms a seeded change independently, in a scratch worktree of /repo's HEAD:
  (a) the demonstration passes WITHOUT the change, (b) the patch applies and the workspace builds,
  (c) the existing suite still passes WITH the change, (d) the demonstration FAILS with the change.
Prints one verdict line per seed; scratch worktree and build output are removed at the end."""
import json, os, re, shutil, subprocess, sys, tempfile

def sh(cmd, cwd=None, env=None, timeout=3600):
    p = subprocess.run(cmd, cwd=cwd, env=env, shell=isinstance(cmd, str), stdout=subprocess.PIPE, stderr=subprocess.STDOUT, text=True, timeout=timeout)
    return p.returncode, p.stdout

def suite(wt, env):
    rc, out = sh("cargo test --workspace --no-fail-fast --offline", cwd=wt, env=env)
    passed = failed = 0
    for l in out.splitlines():
        m = re.match(r"test result: \w+\. (\d+) passed; (\d+) failed", l)
        if m:
            passed += int(m.group(1)); failed += int(m.group(2))
    return rc, passed, failed, out

def main():
    base = tempfile.mkdtemp(prefix="confirm-", dir="/tmp")
    env = dict(os.environ, CARGO_TARGET_DIR=base + "/target", CARGO_NET_OFFLINE="true")
    wt = base + "/repo"
    sh(["git", "-C", "/repo", "worktree", "add", "-q", "--detach", wt, "HEAD"])
    try:
        for d in sys.argv[1:]:
            d = os.path.abspath(d)
            meta = json.load(open(d + "/meta.json"))
            m = re.search(r"((?:integer|float|rational|base|macros)/(?:tests|examples)/[\w]+\.rs|tests/[\w]+\.rs)", meta["demo_path"])
            demo_path = m.group(1)
            m = re.search(r"((?:RUSTFLAGS=(?:'[^']*'|\"[^\"]*\"|\S+)\s+)?cargo (?:\+nightly )?test [^&;|(]+)", meta["demo_cmd"])
            demo_cmd = m.group(1).strip()
            if "--offline" not in demo_cmd:
                demo_cmd += " --offline"
            verdict = {}
            sh("git checkout -q -- . && git clean -qfd", cwd=wt)
            os.makedirs(os.path.dirname(os.path.join(wt, demo_path)), exist_ok=True)
            shutil.copy(d + "/demo.rs", os.path.join(wt, demo_path))
            rc, out = sh(demo_cmd, cwd=wt, env=env)
            verdict["demo_without"] = "pass" if rc == 0 else "FAIL"
            os.remove(os.path.join(wt, demo_path))
            rc, out = sh(["git", "apply", d + "/patch.diff"], cwd=wt)
            if rc != 0:
                rc, out = sh(["git", "apply", "-3", d + "/patch.diff"], cwd=wt)
            verdict["applies"] = rc == 0
            if rc == 0:
                rc, passed, failed, out = suite(wt, env)
                verdict["suite"] = "%d passed %d failed rc=%d" % (passed, failed, rc)
                shutil.copy(d + "/demo.rs", os.path.join(wt, demo_path))
                rc2, out2 = sh(demo_cmd, cwd=wt, env=env)
                verdict["demo_with"] = "fails" if rc2 != 0 else "PASSES"
                tail = [l for l in out2.splitlines() if "panicked" in l or "assert" in l][:2]
                verdict["demo_msg"] = tail
            ok = verdict.get("demo_without") == "pass" and verdict.get("applies") and "0 failed rc=0" in verdict.get("suite", "") and verdict.get("demo_with") == "fails"
            print("%s %s %s" % ("CONFIRMED" if ok else "REJECTED ", d, json.dumps(verdict)), flush=True)
    finally:
        sh(["git", "-C", "/repo", "worktree", "remove", "--force", wt])
        shutil.rmtree(base, ignore_errors=True)

main()
