"""C02 — the operator-trait plumbing table of integer division, generated from the MACRO-EXPANDED dashu-int
(`cargo +nightly rustc -- -Zunpretty=expanded`, the same listing vlib/forms.py reads for the harness table).

For every `impl Trait<Rhs> for Lhs` of the division family (Div, Rem, DivRem, DivEuclid, RemEuclid, DivRemEuclid and
the three assign traits) whose operand types are UBig / IBig / ConstDivisor (by value or by reference) in the modules
`div_ops` (outside `mod repr`) and `div_const`, the expanded `fn` body is reduced to
  * how each operand becomes a magnitude (`into_repr`, `repr`, `into_sign_repr`, `as_sign_repr`, `clone().into_…`,
    `&rhs.0`, `mem::take(self)`),
  * the CORE: the name of the sign-table macro whose (substituted) body the rest of the text equals — the macro
    definitions are part of the expanded listing — or one of the fixed wrapper shapes (`UBig(L.m(R))`, the UBig pair,
    `*self = take(self).m(rhs)`, the IBig/ConstDivisor sign wrappers),
  * the TypedRepr-level dispatch functions (`div` = `/`, `rem` = `%`, `div_rem`) the body calls, in text order.
A body outside these shapes becomes `Core.other "<text>"`: the driver then refuses the entry and the theorem
`Dashu.Props.C02.plumbing_table_routes` no longer checks (fails closed).

Output: lean/Dashu/Gen/DivPlumbing.lean (rewritten only when the text changes).  The expansion is cached under
.cache/c02-expand/ keyed by a hash of every file cargo reads for dashu-int (sources and manifests of base/ and integer/).
"""
import hashlib, os, re, sys

ROOT = os.path.dirname(os.path.dirname(os.path.abspath(__file__)))
OUT = os.path.join(ROOT, "lean", "Dashu", "Gen", "DivPlumbing.lean")
CACHE = os.path.join(ROOT, ".cache", "c02-expand")

TRAITS = {"Div": "div", "Rem": "rem", "DivRem": "div_rem", "DivEuclid": "div_euclid", "RemEuclid": "rem_euclid",
          "DivRemEuclid": "div_rem_euclid", "DivAssign": "div_assign", "RemAssign": "rem_assign",
          "DivRemAssign": "div_rem_assign"}
METHOD_TRAIT = {"div": "Div", "rem": "Rem", "div_rem": "DivRem", "/": "Div", "%": "Rem"}
TYPES = ("UBig", "IBig", "ConstDivisor")
KNOWN_SIGN = ["impl_ibig_div", "impl_ibig_rem", "impl_ibig_divrem", "impl_ibig_div_euclid", "impl_ibig_rem_euclid",
              "impl_ibig_divrem_euclid", "impl_ubig_ibig_rem", "impl_ubig_ibig_divrem"]


class PlumbError(Exception):
    pass


def repo_dir():
    return os.environ.get("VERIF_REPO", "/repo")


def source_hash(repo):
    h = hashlib.sha256()
    files = []
    for top in ("base", "integer"):
        for dp, dn, fn in os.walk(os.path.join(repo, top)):
            dn[:] = [d for d in dn if d not in ("target", ".git")]
            for f in fn:
                if f.endswith((".rs", ".toml")):
                    files.append(os.path.join(dp, f))
    for f in ("Cargo.toml", "Cargo.lock"):
        if os.path.exists(os.path.join(repo, f)):
            files.append(os.path.join(repo, f))
    for p in sorted(files):
        h.update(os.path.relpath(p, repo).encode() + b"\0")
        h.update(open(p, "rb").read())
        h.update(b"\0")
    return h.hexdigest()[:24]


def expanded(repo=None):
    """macro-expanded dashu-int of `repo` (cached by content hash)"""
    repo = repo or repo_dir()
    key = source_hash(repo)
    path = os.path.join(CACHE, key + ".rs")
    if os.path.exists(path):
        return open(path).read(), key, True
    sys.path.insert(0, ROOT)
    from vlib import forms
    src = forms.expand(repo)
    os.makedirs(CACHE, exist_ok=True)
    with open(path + ".tmp%d" % os.getpid(), "w") as f:
        f.write(src)
    os.replace(path + ".tmp%d" % os.getpid(), path)
    return src, key, False


# ------------------------------------------------------------------ text helpers

def balanced(s, i, o="{", c="}"):
    """s[i] == o: index after the matching closer"""
    depth = 0
    while i < len(s):
        if s[i] == o:
            depth += 1
        elif s[i] == c:
            depth -= 1
            if depth == 0:
                return i + 1
        i += 1
    raise PlumbError("unbalanced %s%s" % (o, c))


TOK = re.compile(r"[A-Za-z_][A-Za-z0-9_]*|\d+|::|->|=>|==|!=|&&|\|\||\S")


def toks(s):
    s = re.sub(r"//[^\n]*", "", s)
    return TOK.findall(s)


def module_text(src, name):
    m = re.search(r"^(?:pub(?:\([a-z]+\))? )?mod %s \{" % re.escape(name), src, re.M)
    if not m:
        raise PlumbError("module %s not found in the expanded crate" % name)
    e = balanced(src, m.end() - 1)
    return src[m.end():e - 1]


def drop_submodule(text, name):
    m = re.search(r"(?:pub(?:\([a-z]+\))? )?mod %s \{" % re.escape(name), text)
    if not m:
        return text
    e = balanced(text, m.end() - 1)
    return text[:m.start()] + text[e:]


def norm_type(t):
    t = re.sub(r"'[a-z_]+\s*", "", t.strip())
    t = t.replace("crate::", "")
    return re.sub(r"\s+", "", t)


HDR = re.compile(r"\bimpl(?:<[^>{]*>)?\s+([A-Za-z]+)<([^{]*?)>\s+for\s+([^{]+?)\s*\{")


def impls(text):
    """[(trait, lhs, rhs, fn body text)] for the division-family traits on UBig / IBig / ConstDivisor"""
    out = []
    for m in HDR.finditer(text):
        trait, rhs, lhs = m.group(1), norm_type(m.group(2)), norm_type(m.group(3))
        if trait not in TRAITS:
            continue
        if lhs.lstrip("&") not in TYPES or rhs.lstrip("&") not in TYPES:
            continue
        e = balanced(text, m.end() - 1)
        body = text[m.end():e - 1]
        fm = re.search(r"\bfn\s+%s\s*\(" % TRAITS[trait], body)
        if not fm:
            raise PlumbError("impl %s<%s> for %s: fn %s not found" % (trait, rhs, lhs, TRAITS[trait]))
        p1 = balanced(body, fm.end() - 1, "(", ")")
        b0 = body.index("{", p1)
        b1 = balanced(body, b0)
        out.append((trait, lhs, rhs, body[b0 + 1:b1 - 1]))
    return out


def macros(text):
    """{name: token list of the (single) rule body with `$x` written `x`} for the 4-ident / 2-ident local macros"""
    out = {}
    for m in re.finditer(r"macro_rules!\s+(\w+)\s*\{", text):
        e = balanced(text, m.end() - 1)
        body = text[m.end():e - 1].strip()
        if not body.startswith("("):
            continue
        j = balanced(body, 0, "(", ")")
        pat = body[1:j - 1]
        params = re.findall(r"\$(\w+)\s*:\s*ident", pat)
        if len(params) not in (2, 4) or re.sub(r"\$\w+\s*:\s*ident|[\s,]", "", pat):
            continue
        k = body.index("=>", j) + 2
        k = body.index("{", k)
        ke = balanced(body, k)
        rest = body[ke:].strip().strip(";").strip()
        if rest:
            continue                      # more than one rule: not a core macro
        out[m.group(1)] = (params, toks(body[k + 1:ke - 1].replace("$", "")))
    return out


ASSERT = re.compile(
    r"if true \{ match \( & (\w+) , & (\w+) \) \{ \( left_val , right_val \) => \{ if ! \( \* left_val == \* right_val \) \{ "
    r"let kind = :: core :: panicking :: AssertKind :: Eq ; :: core :: panicking :: assert_failed \( kind , & \* left_val , "
    r"& \* right_val , :: core :: option :: Option :: None \) ; \} \} \} ; \} ;")

L_ACC = [("self . clone ( ) . into_repr ( )", "clone_into_repr"), ("self . into_repr ( )", "into_repr"),
         ("self . repr ( )", "repr")]
R_ACC = [("rhs . into_repr ( )", "into_repr"), ("rhs . repr ( )", "repr"), ("& rhs . 0", "dot0")]
S_ACC = [("clone ( ) . into_sign_repr ( )", "clone_into_sign_repr"), ("into_sign_repr ( )", "into_sign_repr"),
         ("as_sign_repr ( )", "as_sign_repr")]


def sign_acc(expr, who):
    """accessor of `let (sign, mag) = <expr>` for operand `who`"""
    for t, name in S_ACC:
        if expr == "%s . %s" % (who, t):
            return name
    m = re.fullmatch(r"\( (?:dashu_base :: Sign :: )?Positive , %s \. (into_repr|repr) \( \) \)" % who, expr)
    if m:
        return "pos_" + m.group(1)
    return None


def calls_of(core):
    """TypedRepr-level dispatch functions named in a core text, in order"""
    out = []
    for m in re.finditer(r"\. (div_rem|div|rem) \(|(?<=[\w)]) (/|%) ", core):
        out.append(m.group(1) or {"/": "div", "%": "rem"}[m.group(2)])
    return out


def classify(trait, lhs, rhs, body, macro_table):
    """-> dict(lacc, racc, core (lean term), calls)"""
    t = " ".join(toks(body))
    t = ASSERT.sub(lambda m: "debug_assert_eq ! ( %s , %s ) ;" % (m.group(1), m.group(2)), t)
    # ---- assign forms: `*self = take(self).m(rhs).into();` / `*self = take(self) op rhs;` / pair
    m = re.fullmatch(r"\* self = (?:core :: )?mem :: take \( self \) \. (div|rem) \( rhs \) \. into \( \) ;", t) or \
        re.fullmatch(r"\* self = (?:core :: )?mem :: take \( self \) (/|%) rhs ;", t)
    if m:
        return dict(lacc="take", racc="pass", core=".take .%s" % METHOD_TRAIT[m.group(1)], calls=[])
    m = re.fullmatch(r"let \( (\w+) , (\w+) \) = (?:core :: )?mem :: take \( self \) \. div_rem \( rhs \) ; \* self = \1 ; \2", t)
    if m:
        return dict(lacc="take", racc="pass", core=".take .DivRem", calls=[])
    # ---- sign prelude (IBig / mixed through the forward_* macros)
    m = re.match(r"let \( (\w+) , (\w+) \) = (.+?) ; let \( (\w+) , (\w+) \) = (.+?) ; (.*)$", t)
    if m and sign_acc(m.group(3), "self") and sign_acc(m.group(6), "rhs"):
        s0, m0, e0, s1, m1, e1, core = m.groups()
        ren = {s0: "sign0", m0: "mag0", s1: "sign1", m1: "mag1"}
        ct = [ren.get(x, x) for x in core.split(" ")]
        if ct and ct[0] == "{" and ct[-1] == "}":
            inner = ct[1:-1]
        else:
            inner = None
        name = None
        for mn, (params, mt) in macro_table.items():
            if len(params) != 4:
                continue
            pr = dict(zip(params, ["sign0", "mag0", "sign1", "mag1"]))
            mt2 = [pr.get(x, x) for x in mt]
            # `=> { e }` expands to `e`; `=> {{ … }}` expands to `{ … }`
            if mt2 == ct or (inner is not None and mt2 == ["{"] + inner + ["}"]):
                name = mn
                break
        cs = calls_of(" ".join(ct))
        if name is None:
            return dict(lacc=sign_acc(e0, "self"), racc=sign_acc(e1, "rhs"), core='.other "%s"' % core.replace('"', "'"), calls=cs)
        lean = (".sign .%s" % name) if name in KNOWN_SIGN else ('.sign (.unknown "%s")' % name)
        return dict(lacc=sign_acc(e0, "self"), racc=sign_acc(e1, "rhs"), core=lean, calls=cs)
    # ---- IBig x ConstDivisor: `let (sign, repr) = self.X(); IBig((repr op &rhs.0).with_sign(sign))` and the pair form
    m = re.match(r"let \( sign , repr \) = self \. (.+?) ; (.*)$", t)
    if m:
        acc = dict((a, b) for a, b in S_ACC).get(m.group(1))
        core = m.group(2)
        m2 = re.fullmatch(r"IBig \( \( repr (/|%) & rhs \. 0 \) \. with_sign \( sign \) \)", core)
        if acc and m2:
            d = {"/": "div", "%": "rem"}[m2.group(1)]
            return dict(lacc=acc, racc="dot0", core=".signConst .%s" % d, calls=[d])
        if acc and core == "let ( q , r ) = repr . div_rem ( & rhs . 0 ) ; ( IBig ( q . with_sign ( sign ) ) , IBig ( r . with_sign ( sign ) ) )":
            return dict(lacc=acc, racc="dot0", core=".signConstPair", calls=["div_rem"])
    # ---- UBig wrappers
    for lt, la in L_ACC:
        for rt, ra in R_ACC:
            for d in ("div", "rem"):
                op = {"div": "/", "rem": "%"}[d]
                if t in ("UBig ( %s . %s ( %s ) )" % (lt, d, rt), "UBig ( %s %s %s )" % (lt, op, rt)):
                    return dict(lacc=la, racc=ra, core=".wrap .%s" % d, calls=[d])
            if t in ("let ( repr0 , repr1 ) = ( %s , %s ) ; { let ( q , r ) = repr0 . div_rem ( repr1 ) ; ( UBig ( q ) , UBig ( r ) ) }" % (lt, rt),
                     "let ( q , r ) = %s . div_rem ( %s ) ; ( UBig ( q ) , UBig ( r ) )" % (lt, rt)):
                return dict(lacc=la, racc=ra, core=".wrapPair", calls=["div_rem"])
    return dict(lacc="unknown", racc="unknown", core='.other "%s"' % t.replace('"', "'")[:400], calls=calls_of(t))


# ------------------------------------------------------------------ div_ops::repr: size-class dispatch of TypedRepr

RFNS = ("div_rem_dword", "div_rem_large_dword", "div_rem_large", "div_dword", "div_large_dword", "div_large",
        "rem_dword", "rem_large_dword", "rem_large")
RTYPES = {"TypedRepr": False, "TypedReprRef": True}
PAT_CTOR = {"Small": (False, False), "RefSmall": (False, True), "Large": (True, False), "RefLarge": (True, True)}


def submodule_text(text, name):
    m = re.search(r"(?:pub(?:\([a-z]+\))? )?mod %s \{" % re.escape(name), text)
    if not m:
        raise PlumbError("module %s not found" % name)
    e = balanced(text, m.end() - 1)
    return text[m.end():e - 1]


def tok_balanced(t, i, o="{", c="}"):
    """t[i] == o: index after the matching closer (token list)"""
    depth = 0
    while i < len(t):
        if t[i] == o:
            depth += 1
        elif t[i] == c:
            depth -= 1
            if depth == 0:
                return i + 1
        i += 1
    raise PlumbError("unbalanced tokens")


def ract(t):
    """Lean term of an arm body (token list with the payloads renamed x0 / x1, ownership noise removed)"""
    s = " ".join(t)
    if len(t) >= 2 and t[0] == "{" and tok_balanced(t, 0) == len(t):
        return ract(t[1:-1])
    m = re.fullmatch(r"(\w+) \( x0 , x1 \)", s)
    if m and m.group(1) in RFNS:
        return ".call .%s" % m.group(1)
    srcs = [("Repr :: from_dword ( x0 )", "", ".from_dword0"), ("Repr :: from_buffer ( x0 )", "", ".from_buffer0"),
            ("Repr :: from_buffer ( x1 )", "x1 . clone_from_slice ( x0 ) ; ", ".from_buffer1_cloned0")]
    for ret, pre, name in srcs:
        if s == pre + "( Repr :: zero ( ) , %s )" % ret:
            return ".zeroPair %s" % name
        if s == pre + ret:
            return ".lhs %s" % name
    if s == "Repr :: zero ( )":
        return ".zero"
    head = "if x0 . len ( ) > = x1 . len ( )".split(" ")      # TOK has no `>=` token
    if t[:len(head)] == head and len(t) > len(head) and t[len(head)] == "{":
        e1 = tok_balanced(t, len(head))
        if t[e1:e1 + 2] == ["else", "{"] and tok_balanced(t, e1 + 1) == len(t):
            return ".ifLen (%s) (%s)" % (ract(t[len(head):e1]), ract(t[e1 + 1:]))
    return '.other "%s"' % s.replace('"', "'")[:300]


def repr_impls(rep):
    """[(trait, lhsRef, rhsRef, [(lLarge, rLarge, act)])] of the Div / Rem / DivRem impls in `mod repr` of div_ops"""
    out = []
    for m in HDR.finditer(rep):
        trait, rhs, lhs = m.group(1), norm_type(m.group(2)), norm_type(m.group(3))
        rhs, lhs = re.sub(r"<.*>", "", rhs), re.sub(r"<.*>", "", lhs)
        if trait not in ("Div", "Rem", "DivRem") or lhs not in RTYPES or rhs not in RTYPES:
            continue
        e = balanced(rep, m.end() - 1)
        body = rep[m.end():e - 1]
        fm = re.search(r"\bfn\s+%s\s*\(" % TRAITS[trait], body)
        if not fm:
            raise PlumbError("repr impl %s<%s> for %s: fn not found" % (trait, rhs, lhs))
        p1 = balanced(body, fm.end() - 1, "(", ")")
        b0 = body.index("{", p1)
        b1 = balanced(body, b0)
        t = toks(body[b0 + 1:b1 - 1])
        arms = []
        head = ["match", "(", "self", ",", "rhs", ")", "{"]
        if t[:len(head)] != head or tok_balanced(t, len(head) - 1) != len(t):
            out.append((trait, RTYPES[lhs], RTYPES[rhs], [(False, False, '.other "%s"' % " ".join(t)[:200].replace('"', "'"))]))
            continue
        i = len(head)
        end = len(t) - 1
        while i < end:
            # pattern: ( C0 ( [mut] x ) , C1 ( [mut] y ) ) =>
            if t[i] != "(":
                raise PlumbError("repr impl %s<%s> for %s: arm pattern not understood at %r" % (trait, rhs, lhs, t[i:i + 8]))
            pe = tok_balanced(t, i, "(", ")")
            pat = [x for x in t[i + 1:pe - 1] if x != "mut"]
            mm = re.fullmatch(r"(\w+) \( (\w+) \) , (\w+) \( (\w+) \)", " ".join(pat))
            if not mm or mm.group(1) not in PAT_CTOR or mm.group(3) not in PAT_CTOR or t[pe] != "=>":
                raise PlumbError("repr impl %s<%s> for %s: arm pattern %r" % (trait, rhs, lhs, " ".join(pat)))
            (l_large, l_ref), (r_large, r_ref) = PAT_CTOR[mm.group(1)], PAT_CTOR[mm.group(3)]
            if l_ref != RTYPES[lhs] or r_ref != RTYPES[rhs]:
                raise PlumbError("repr impl %s<%s> for %s: pattern constructor of the wrong type" % (trait, rhs, lhs))
            j = pe + 1
            if t[j] == "{":
                k = tok_balanced(t, j)
                body_t = t[j:k]
                if k < end and t[k] == ",":
                    k += 1
            else:
                depth, k = 0, j
                while k < end and not (t[k] == "," and depth == 0):
                    depth += {"(": 1, "{": 1, "[": 1, ")": -1, "}": -1, "]": -1}.get(t[k], 0)
                    k += 1
                body_t = t[j:k]
                k += 1
            ren = {mm.group(2): "x0", mm.group(4): "x1"}
            ren.pop("_", None)
            bt = [ren.get(x, x) for x in body_t]
            # ownership noise: `x . into ( )` -> `x`, `& x` -> `x`
            s2 = " ".join(bt)
            s2 = re.sub(r"\b(x[01]) \. into \( \)", r"\1", s2)
            s2 = re.sub(r"& (x[01])\b", r"\1", s2)
            arms.append((l_large, r_large, ract(s2.split(" "))))
            i = k
        out.append((trait, RTYPES[lhs], RTYPES[rhs], arms))
    return out


# ------------------------------------------------------------------ div_const::repr: size-class arms against a ConstDivisorRepr
# (round 6)  Read from the SOURCE FILE integer/src/div_const.rs (comments stripped), not from the expansion: the arms contain
# `debug_assert_zero!`, whose expansion is std-internal text.  Every arm body must be, token for token (after renaming the two
# pattern payloads to x0 / dv and dropping `&`, `&mut`, `.into()` on x0 and trailing commas), one of the shapes below;
# anything else becomes `.other "<text>"`, which `CImpl.armsOk` refuses (the theorems fail closed).

CPAT_L = {"Small": (False, False), "RefSmall": (False, True), "Large": (True, False), "RefLarge": (True, True)}
CPAT_R = {"Single": ".single", "Double": ".double", "Large": ".large"}

_UNSHIFTED = ("let mut allocation = MemoryAllocation::new(div::memory_requirement_exact(x0.len(), div_len)); "
              "let q_top = div::div_rem_unshifted_in_place(&mut x0, &dv.normalized_divisor, dv.shift, dv.fast_div_top, "
              "&mut allocation.memory()); ")
CSHAPES = [
    (".ssQ", "Repr::from_dword(div_rem_small_single(x0, dv).0)"),
    (".sdQ", "Repr::from_word(div_rem_small_double(x0, dv).0)"),
    (".zero", "Repr::zero()"),
    (".lsQ", "let _rem = div::fast_div_by_word_in_place(&mut x0, dv.0.shift(), *dv.0.divider()); Repr::from_buffer(x0)"),
    (".ldQ", "let _rem = div::fast_div_by_dword_in_place(&mut x0, dv.0.shift(), *dv.0.divider()); Repr::from_buffer(x0)"),
    (".llQ", _UNSHIFTED + "x0.erase_front(div_len); x0.push_resizing(q_top); Repr::from_buffer(x0)"),
    (".remDwordW", "Repr::from_word(dv.rem_dword(x0) >> dv.0.shift())"),
    (".remDwordD", "Repr::from_dword(dv.rem_dword(x0) >> dv.0.shift())"),
    (".lhsDword", "Repr::from_dword(x0)"),
    (".lhsBuffer", "Repr::from_buffer(x0)"),
    (".remLargeW", "Repr::from_word(dv.rem_large(x0) >> dv.0.shift())"),
    (".remLargeD", "Repr::from_dword(dv.rem_large(x0) >> dv.0.shift())"),
    (".remLargeLarge", "rem_large_large(x0, dv)"),
    (".ssQR", "let (q, r) = div_rem_small_single(x0, dv); (Repr::from_dword(q), Repr::from_word(r))"),
    (".sdQR", "let (q, r) = div_rem_small_double(x0, dv); (Repr::from_word(q), Repr::from_dword(r))"),
    (".zeroLhsDword", "(Repr::zero(), Repr::from_dword(x0))"),
    (".zeroLhsBuffer", "(Repr::zero(), Repr::from_buffer(x0))"),
    (".lsQR", "let r = div::fast_div_by_word_in_place(&mut x0, dv.0.shift(), *dv.0.divider()); (Repr::from_buffer(x0), Repr::from_word(r))"),
    (".ldQR", "let r = div::fast_div_by_dword_in_place(&mut x0, dv.0.shift(), *dv.0.divider()); (Repr::from_buffer(x0), Repr::from_dword(r))"),
    (".llQR", _UNSHIFTED + "let mut q = Buffer::from(&x0[div_len..]); q.push_resizing(q_top); x0.truncate(div_len); "
              "debug_assert_zero!(shift::shr_in_place(&mut x0, dv.shift)); (Repr::from_buffer(q), Repr::from_buffer(x0))"),
]
# fn rem_large_large(mut lhs: Buffer, rhs: &ConstLargeDivisor): everything but the `if` condition (that one is GUARDS'
# guard_rem_large_large_reduce); `@` stands for the condition
RLL_SHAPE = ("let modulus = &rhs.normalized_divisor; if @ { "
             "let mut allocation = MemoryAllocation::new(div::memory_requirement_exact(lhs.len(), modulus.len())); "
             "let _qtop = div::div_rem_unshifted_in_place(&mut lhs, modulus, rhs.shift, rhs.fast_div_top, &mut allocation.memory()); "
             "lhs.truncate(modulus.len()); debug_assert_zero!(shift::shr_in_place(&mut lhs, rhs.shift)); } Repr::from_buffer(lhs)")


def cnorm(t):
    """normal form of an arm body (token list, payloads already renamed x0 / dv) as one string"""
    s = " " + " ".join(t) + " "
    s = s.replace(" , )", " )")
    s = re.sub(r" & mut x0 ", " x0 ", s)
    s = re.sub(r" & x0 (?!\[)", " x0 ", s)
    s = re.sub(r" x0 \. into \( \) ", " x0 ", s)
    return s.strip()


def cact(t):
    """Lean term (CAct) of an arm body"""
    if len(t) >= 2 and t[0] == "{" and tok_balanced(t, 0) == len(t):
        return cact(t[1:-1])
    s = cnorm(t)
    for name, shape in CSHAPES:
        if s == cnorm(toks(shape)):
            return name
    head = toks("let div_len = dv.normalized_divisor.len(); if x0.len() < div_len")
    if t[:len(head)] == head and len(t) > len(head) and t[len(head)] == "{":
        e1 = tok_balanced(t, len(head))
        if t[e1:e1 + 2] == ["else", "{"] and tok_balanced(t, e1 + 1) == len(t):
            return ".ifShort (%s) (%s)" % (cact(t[len(head):e1]), cact(t[e1 + 1:]))
    return '.other "%s"' % s.replace('"', "'").replace("\\", "/")[:300]


def const_repr_impls(repo):
    """([(trait, lhsRef, [(lLarge, divisor class, act)])], rem_large_large shape ok?) of `mod repr` of div_const.rs"""
    src = re.sub(r"//[^\n]*", "", open(os.path.join(repo, "integer/src/div_const.rs")).read())
    rep = submodule_text(src, "repr")
    out = []
    for m in HDR.finditer(rep):
        trait, rhs, lhs = m.group(1), norm_type(m.group(2)), norm_type(m.group(3))
        rhs, lhs = re.sub(r"<.*>", "", rhs), re.sub(r"<.*>", "", lhs)
        if trait not in ("Div", "Rem", "DivRem") or lhs not in RTYPES or "ConstDivisorRepr" not in rhs:
            continue
        e = balanced(rep, m.end() - 1)
        body = rep[m.end():e - 1]
        fm = re.search(r"\bfn\s+%s\s*\(" % TRAITS[trait], body)
        if not fm:
            raise PlumbError("div_const::repr impl %s for %s: fn not found" % (trait, lhs))
        p1 = balanced(body, fm.end() - 1, "(", ")")
        b0 = body.index("{", p1)
        t = toks(body[b0 + 1:balanced(body, b0) - 1])
        head = ["match", "(", "self", ",", "rhs", ")", "{"]
        if t[:len(head)] != head or tok_balanced(t, len(head) - 1) != len(t):
            out.append((trait, RTYPES[lhs], [(False, ".single", '.other "%s"' % " ".join(t)[:200].replace('"', "'"))]))
            continue
        i, end, arms = len(head), len(t) - 1, []
        while i < end:
            if t[i] != "(":
                raise PlumbError("div_const::repr impl %s for %s: arm pattern not understood at %r" % (trait, lhs, t[i:i + 8]))
            pe = tok_balanced(t, i, "(", ")")
            pat = " ".join(x for x in t[i + 1:pe - 1] if x != "mut")
            mm = re.fullmatch(r"(\w+) \( (\w+) \) , ConstDivisorRepr :: (\w+) \( (\w+) \)", pat)
            if not mm or mm.group(1) not in CPAT_L or mm.group(3) not in CPAT_R or t[pe] != "=>":
                raise PlumbError("div_const::repr impl %s for %s: arm pattern %r" % (trait, lhs, pat))
            l_large, l_ref = CPAT_L[mm.group(1)]
            if l_ref != RTYPES[lhs]:
                raise PlumbError("div_const::repr impl %s for %s: pattern constructor of the wrong type" % (trait, lhs))
            j = pe + 1
            if t[j] == "{":
                k = tok_balanced(t, j)
                body_t = t[j:k]
                if k < end and t[k] == ",":
                    k += 1
            else:
                depth, k = 0, j
                while k < end and not (t[k] == "," and depth == 0):
                    depth += {"(": 1, "{": 1, "[": 1, ")": -1, "}": -1, "]": -1}.get(t[k], 0)
                    k += 1
                body_t = t[j:k]
                k += 1
            ren = {mm.group(2): "x0", mm.group(4): "dv"}
            ren.pop("_", None)
            # (the divisor payload is called `div`, like the module: `div ::` is the module path, not the payload)
            bt = [x if (n + 1 < len(body_t) and body_t[n + 1] == "::") else ren.get(x, x) for n, x in enumerate(body_t)]
            arms.append((l_large, CPAT_R[mm.group(3)], cact(bt)))
            i = k
        out.append((trait, RTYPES[lhs], arms))
    # fn rem_large_large: the body around its `if` condition
    rll = toks(fn_text(rep, "rem_large_large"))
    a, b = [cnorm(toks(x)) for x in RLL_SHAPE.split("@")]
    s = cnorm(rll)
    rll_ok = s.startswith(a + " ") and s.endswith(" " + b) and "{" not in s[len(a):len(s) - len(b)]
    return out, rll_ok, s


# ------------------------------------------------------------------ length guards of the division kernels

# (Lean name, file, fn, kind of statement, index among the statements of that kind in the fn body, what it decides)
GUARDS = [
    ("guard_div_rem_in_place_simple", "integer/src/div/mod.rs", "div_rem_in_place", "if", 0,
     "`div::div_rem_in_place`: the `if` that selects `simple::div_rem_in_place` (else Burnikel-Ziegler)"),
    ("guard_dc_div_rem_in_place", "integer/src/div/divide_conquer.rs", "div_rem_in_place", "assert", 0,
     "`divide_conquer::div_rem_in_place`: entry `assert!`"),
    ("guard_dc_same_len", "integer/src/div/divide_conquer.rs", "div_rem_in_place_same_len", "assert", 0,
     "`div_rem_in_place_same_len`: entry `assert!`"),
    ("guard_dc_small_quotient_pre", "integer/src/div/divide_conquer.rs", "div_rem_in_place_small_quotient", "assert", 0,
     "`div_rem_in_place_small_quotient`: first `assert!`"),
    ("guard_dc_small_quotient_m", "integer/src/div/divide_conquer.rs", "div_rem_in_place_small_quotient", "assert", 1,
     "`div_rem_in_place_small_quotient`: second `assert!` (`m = lhs.len() - n`)"),
    ("guard_dc_small_quotient_simple", "integer/src/div/divide_conquer.rs", "div_rem_in_place_small_quotient", "if", 0,
     "`div_rem_in_place_small_quotient`: the `if` that hands a short quotient to `simple::div_rem_in_place`"),
    ("guard_simple_n", "integer/src/div/simple.rs", "div_rem_in_place", "assert", 0,
     "`simple::div_rem_in_place`: first `assert!`"),
    ("guard_simple_len", "integer/src/div/simple.rs", "div_rem_in_place", "assert", 1,
     "`simple::div_rem_in_place`: second `assert!`"),
    ("guard_hw_estimate", "integer/src/div/simple.rs", "div_rem_highest_word", "if", 0,
     "`div_rem_highest_word`: the `if` that takes the 3-by-2 estimate (else `Word::MAX`)"),
    ("guard_hw_addback", "integer/src/div/simple.rs", "div_rem_highest_word", "if", 1,
     "`div_rem_highest_word`: the `if` that detects an estimate too large by one (add-back)"),
    ("guard_dbw_one", "integer/src/div/mod.rs", "div_by_word_in_place", "if", 0,
     "`div_by_word_in_place`: divisor 1 shortcut"),
    ("guard_dbw_pow2", "integer/src/div/mod.rs", "div_by_word_in_place", "if", 1,
     "`div_by_word_in_place`: power-of-two shortcut"),
    ("guard_rbw_pow2", "integer/src/div/mod.rs", "rem_by_word", "if", 0,
     "`rem_by_word`: power-of-two shortcut"),
    ("guard_dbd_pow2", "integer/src/div/mod.rs", "div_by_dword_in_place", "if", 0,
     "`div_by_dword_in_place`: power-of-two shortcut"),
    ("guard_dbd_shift0", "integer/src/div/mod.rs", "div_by_dword_in_place", "if", 1,
     "`div_by_dword_in_place`: power of two = 2^WORD_BITS exactly (`shift = trailing_zeros - WORD_BITS`)"),
    ("guard_rbd_pow2", "integer/src/div/mod.rs", "rem_by_dword", "if", 0,
     "`rem_by_dword`: power-of-two shortcut"),
    ("guard_unshifted_carry", "integer/src/div/mod.rs", "div_rem_unshifted_in_place", "if", 0,
     "`div_rem_unshifted_in_place`: the shift carry gets its own quotient word"),
    ("guard_rem_large_large_reduce", "integer/src/div_const.rs", "rem_large_large", "if", 0,
     "`div_const::repr::rem_large_large`: the dividend is only reduced when it is at least as long as the divisor"),
]


def fn_text(src, name):
    m = re.search(r"\bfn\s+%s\s*(?:<[^>]*>)?\s*\(" % re.escape(name), src)
    if not m:
        raise PlumbError("fn %s not found" % name)
    p1 = balanced(src, m.end() - 1, "(", ")")
    b0 = src.index("{", p1)
    return src[b0 + 1:balanced(src, b0) - 1]


class GuardExpr:
    """`||`, `&&`, comparisons, `+ - *`, integer literals, identifiers, `x.len()`, `path::CONST`, parentheses"""

    def __init__(self, t):
        self.t, self.i, self.vars, self.bools = t, 0, [], set()

    def peek(self):
        return self.t[self.i] if self.i < len(self.t) else None

    def take(self):
        self.i += 1
        return self.t[self.i - 1]

    def var(self, v):
        if v not in self.vars:
            self.vars.append(v)
        return v

    def parse(self):
        e = self.or_()
        if self.peek() is not None:
            raise PlumbError("guard expression: unexpected %r" % self.peek())
        return e

    def or_(self):
        e = self.and_()
        while self.peek() == "||":
            self.take()
            e = "(%s || %s)" % (e, self.and_())
        return e

    def and_(self):
        e = self.cmp()
        while self.peek() == "&&":
            self.take()
            e = "(%s && %s)" % (e, self.cmp())
        return e

    def cmp(self):
        a = self.sum()
        op = self.peek()
        if a in self.bools and op in (None, "||", "&&", ")"):
            return a
        if op in ("<", ">"):
            self.take()
            if self.peek() == "=":
                self.take()
                op += "="
        elif op in ("==", "!="):
            self.take()
        else:
            raise PlumbError("guard expression: comparison expected after %r" % a)
        b = self.sum()
        return "decide (%s %s %s)" % (a, {"<": "<", "<=": "≤", ">": ">", ">=": "≥", "==": "=", "!=": "≠"}[op], b)

    def sum(self):
        e = self.prod()
        while self.peek() in ("+", "-"):
            e = "(%s %s %s)" % (e, self.take(), self.prod())
        return e

    def prod(self):
        e = self.atom()
        while self.peek() == "*":
            self.take()
            e = "(%s * %s)" % (e, self.atom())
        return e

    def atom(self):
        x = self.take()
        if x is None:
            raise PlumbError("guard expression: truncated")
        if x == "*":                       # deref of a `&Word` binding: the value
            x = self.take()
            if x is None or not re.fullmatch(r"[A-Za-z_]\w*", x) or self.peek() in (".", "(", "[", "::"):
                raise PlumbError("guard expression: `*` not followed by a plain identifier")
            return self.var(x)
        if x == "(":
            e = self.or_() if self.looks_bool() else self.sum()
            if self.take() != ")":
                raise PlumbError("guard expression: `)` expected")
            return e
        if re.fullmatch(r"\d+", x):
            return x
        if re.fullmatch(r"[A-Za-z_]\w*", x):
            while self.peek() == "::":
                self.take()
                x = self.take()
            if self.t[self.i:self.i + 4] == [".", "len", "(", ")"]:
                self.i += 4
                return self.var(x + "_len")
            if self.t[self.i:self.i + 4] == [".", "is_power_of_two", "(", ")"]:
                self.i += 4
                e = "Dashu.Model.Div.isPow2 %s" % self.var(x)       # the model's reading of the std method
                self.bools.add(e)
                return e
            if self.peek() in (".", "(", "["):
                raise PlumbError("guard expression: call or index on %r" % x)
            return self.var(x)
        raise PlumbError("guard expression: unexpected token %r" % x)

    def looks_bool(self):
        return False


def guard_defs(repo):
    """Lean text of the length guards (one `def … : Bool` each) read from the kernel sources"""
    out = []
    for lean, rel, fn, kind, idx, what in GUARDS:
        src = re.sub(r"//[^\n]*", "", open(os.path.join(repo, rel)).read())
        body = fn_text(src, fn)
        if kind == "if":
            hits = [m.group(1) for m in re.finditer(r"\bif\s+([^{};]+?)\s*\{", body)]
        else:
            hits = []
            for m in re.finditer(r"(?<![A-Za-z_])assert!\s*\(", body):
                e = balanced(body, m.end() - 1, "(", ")")
                hits.append(body[m.end():e - 1])
        if idx >= len(hits):
            raise PlumbError("%s: %s #%d of fn %s not found" % (rel, kind, idx, fn))
        text = " ".join(hits[idx].split())
        g = GuardExpr(toks(text))
        expr = g.parse()
        params = " ".join("(%s : Nat)" % v for v in sorted(g.vars))       # sorted: independent of the order of the operands
        out.append("/-- %s — %s fn %s: `%s` -/\ndef %s %s : Bool :=\n  %s" % (what, rel, fn, text, lean, params, expr))
    return out


def ty(t):
    return (".%s" % t.lstrip("&"), "true" if t.startswith("&") else "false")


def generate(repo=None):
    """-> (lean text, info)"""
    src, key, hit = expanded(repo)
    ops = drop_submodule(module_text(src, "div_ops"), "repr")
    const = module_text(src, "div_const")
    mt = macros(ops)
    rows = []
    for where, text in (("div_ops", ops), ("div_const", const)):
        for trait, lhs, rhs, body in impls(text):
            c = classify(trait, lhs, rhs, body, mt)
            rows.append((where, trait, lhs, rhs, c))
    if not rows:
        raise PlumbError("no division impl found in the expanded crate")
    seen = set()
    for r in rows:
        k = r[1:4]
        if k in seen:
            raise PlumbError("impl %s<%s> for %s listed twice" % (k[0], k[2], k[1]))
        seen.add(k)
    rows.sort(key=lambda r: (list(TRAITS).index(r[1]), r[2].lstrip("&"), r[3].lstrip("&"), r[2], r[3]))
    out = ["import Dashu.Model.Int.DivPlumbing",
           "/-! GENERATED by vlib/divplumb.py from the macro-expanded dashu-int (`-Zunpretty=expanded`) — do not edit.",
           "    One entry per `impl Trait<Rhs> for Lhs` of the division family on UBig / IBig / ConstDivisor (modules",
           "    `div_ops`, `div_const`): how the operands become magnitudes, the core the body is (a sign-table macro of",
           "    div_ops.rs, a wrapper shape, or the `mem::take` assign forwarding), and the TypedRepr-level dispatch",
           "    functions the body calls. -/",
           "namespace Dashu.Gen.DivPlumbing",
           "open Dashu.Model.DivPlumbing",
           "",
           "def table : List Entry := ["]
    lines = []
    for where, trait, lhs, rhs, c in rows:
        lt, lr = ty(lhs)
        rt, rr = ty(rhs)
        calls = "[" + ", ".join("." + x for x in c["calls"]) + "]"
        lines.append("  -- %s: impl %s<%s> for %s\n  ⟨.%s, %s, %s, %s, %s, .%s, .%s, %s, %s⟩" % (
            where, trait, rhs, lhs, trait, lt, lr, rt, rr, c["lacc"], c["racc"], c["core"], calls))
    out.append(",\n".join(lines))
    out.append("]")
    out.append("")
    rimpls = repr_impls(submodule_text(module_text(src, "div_ops"), "repr"))
    if not rimpls:
        raise PlumbError("no Div / Rem / DivRem impl for TypedRepr found in div_ops::repr")
    b = lambda x: "true" if x else "false"
    disp = {"Div": ".div", "Rem": ".rem", "DivRem": ".div_rem"}
    rimpls.sort(key=lambda r: (["DivRem", "Div", "Rem"].index(r[0]), r[1], r[2]))
    out.append("/-- `mod repr` of div_ops.rs: the arms of `match (self, rhs)` in every `impl Div / Rem / DivRem` between")
    out.append("    `TypedRepr` and `TypedReprRef` (the size-class dispatch the model's `divRepr` / `remRepr` / `divRemRepr` mirror) -/")
    out.append("def reprTable : List RImpl := [")
    rl = []
    for trait, lref, rref, arms in rimpls:
        rl.append("  -- impl %s<%s> for %s\n  ⟨%s, %s, %s, [%s]⟩" % (
            trait, "TypedReprRef" if rref else "TypedRepr", "TypedReprRef" if lref else "TypedRepr", disp[trait], b(lref), b(rref),
            ", ".join("⟨%s, %s, %s⟩" % (b(ll), b(rl_), act) for ll, rl_, act in arms)))
    out.append(",\n".join(rl))
    out.append("]")
    out.append("")
    cimpls, rll_ok, rll_text = const_repr_impls(repo or repo_dir())
    if not cimpls:
        raise PlumbError("no Div / Rem / DivRem<&ConstDivisorRepr> impl found in div_const::repr")
    cimpls.sort(key=lambda r: (["DivRem", "Div", "Rem"].index(r[0]), r[1]))
    out.append("/-- `mod repr` of div_const.rs (read from the source file): the arms of `match (self, rhs)` in every")
    out.append("    `impl Div / Rem / DivRem<&ConstDivisorRepr>` for `TypedRepr` / `TypedReprRef`, each body classified token for token")
    out.append("    (the model's `divConst` / `remConst` / `divRemConst` mirror them) -/")
    out.append("def constReprTable : List CImpl := [")
    cl = []
    for trait, lref, arms in cimpls:
        cl.append("  -- impl %s<&ConstDivisorRepr> for %s\n  ⟨%s, %s, [%s]⟩" % (
            trait, "TypedReprRef" if lref else "TypedRepr", disp[trait], b(lref),
            ", ".join("⟨%s, %s, %s⟩" % (b(ll), rc, act) for ll, rc, act in arms)))
    out.append(",\n".join(cl))
    out.append("]")
    out.append("")
    out.append("/-- `fn rem_large_large` of div_const::repr: its body is, token for token, `let modulus = …; if <guard_rem_large_large_reduce>")
    out.append("    { unshifted division; truncate; shift back with debug_assert_zero! } Repr::from_buffer(lhs)` -/")
    out.append("def remLargeLargeShape : CFnShape := %s" % (".reduceIfGuard" if rll_ok else '.other "%s"' % rll_text.replace('"', "'").replace("\\", "/")[:400]))
    out.append("")
    for g in guard_defs(repo or repo_dir()):
        out.append(g)
        out.append("")
    out.append("end Dashu.Gen.DivPlumbing")
    info = {"impls": len(rows), "repr_impls": len(rimpls), "const_repr_impls": len(cimpls), "expansion_cache_hit": hit, "source_hash": key,
            "unclassified": [("%s<%s> for %s" % (r[1], r[3], r[2])) for r in rows if r[4]["core"].startswith(".other")]}
    return "\n".join(out) + "\n", info


def regenerate(repo=None):
    text, info = generate(repo)
    old = open(OUT).read() if os.path.exists(OUT) else None
    info["changed"] = old != text
    if info["changed"]:
        with open(OUT + ".tmp", "w") as f:
            f.write(text)
        os.replace(OUT + ".tmp", OUT)
    return info


if __name__ == "__main__":
    import json
    if "--print" in sys.argv:
        print(generate()[0])
    else:
        print(json.dumps(regenerate(), indent=1))
