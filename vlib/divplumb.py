"""C02 — the operator-trait plumbing table of integer division, generated from the MACRO-EXPANDED dashu-int
(`cargo +nightly rustc -- -Zunpretty=expanded`, the same listing vlib/forms.py reads for the harness table).

For every `impl Trait<Rhs> for Lhs` of the division family (Div, Rem, DivRem, DivEuclid, RemEuclid, DivRemEuclid and
the three assign traits) whose operand types are UBig / IBig / ConstDivisor (by value or by reference) in the modules
`div_ops` (outside `mod repr`) and `div_const`, the expanded `fn` body is reduced to
  * how each operand becomes a magnitude (`into_repr`, `repr`, `into_sign_repr`, `as_sign_repr`, `clone().into_…`,
    `&rhs.0`, `mem::take(self)`),
  * the CORE: the name of the sign-table macro whose (substituted) body the rest of the text equals — the macro
    definitions are part of the expanded listing — or one of the fixed wrapper shapes (`UBig(L.m(R))`, the UBig pair,
    `*self = take(self).m(rhs)`, the IBig/ConstDivisor sign wrappers),
  * the TypedRepr-level dispatch functions (`div` = `/`, `rem` = `%`, `div_rem`) the body calls, in text order.
A body outside these shapes becomes `Core.other "<text>"`: the driver then refuses the entry and the theorem
`Dashu.Props.C02.plumbing_table_routes` no longer checks (fails closed).

Output: lean/Dashu/Gen/DivPlumbing.lean (rewritten only when the text changes).  The expansion is cached under
.cache/c02-expand/ keyed by a hash of every file cargo reads for dashu-int (sources and manifests of base/ and integer/).
"""
import hashlib, os, re, sys

ROOT = os.path.dirname(os.path.dirname(os.path.abspath(__file__)))
OUT = os.path.join(ROOT, "lean", "Dashu", "Gen", "DivPlumbing.lean")
CACHE = os.path.join(ROOT, ".cache", "c02-expand")

TRAITS = {"Div": "div", "Rem": "rem", "DivRem": "div_rem", "DivEuclid": "div_euclid", "RemEuclid": "rem_euclid",
          "DivRemEuclid": "div_rem_euclid", "DivAssign": "div_assign", "RemAssign": "rem_assign",
          "DivRemAssign": "div_rem_assign"}
METHOD_TRAIT = {"div": "Div", "rem": "Rem", "div_rem": "DivRem", "/": "Div", "%": "Rem"}
TYPES = ("UBig", "IBig", "ConstDivisor")
KNOWN_SIGN = ["impl_ibig_div", "impl_ibig_rem", "impl_ibig_divrem", "impl_ibig_div_euclid", "impl_ibig_rem_euclid",
              "impl_ibig_divrem_euclid", "impl_ubig_ibig_rem", "impl_ubig_ibig_divrem"]


class PlumbError(Exception):
    pass


def repo_dir():
    return os.environ.get("VERIF_REPO", "/repo")


def source_hash(repo):
    h = hashlib.sha256()
    files = []
    for top in ("base", "integer"):
        for dp, dn, fn in os.walk(os.path.join(repo, top)):
            dn[:] = [d for d in dn if d not in ("target", ".git")]
            for f in fn:
                if f.endswith((".rs", ".toml")):
                    files.append(os.path.join(dp, f))
    for f in ("Cargo.toml", "Cargo.lock"):
        if os.path.exists(os.path.join(repo, f)):
            files.append(os.path.join(repo, f))
    for p in sorted(files):
        h.update(os.path.relpath(p, repo).encode() + b"\0")
        h.update(open(p, "rb").read())
        h.update(b"\0")
    return h.hexdigest()[:24]


def expanded(repo=None):
    """macro-expanded dashu-int of `repo` (cached by content hash)"""
    repo = repo or repo_dir()
    key = source_hash(repo)
    path = os.path.join(CACHE, key + ".rs")
    if os.path.exists(path):
        return open(path).read(), key, True
    sys.path.insert(0, ROOT)
    from vlib import forms
    src = forms.expand(repo)
    os.makedirs(CACHE, exist_ok=True)
    with open(path + ".tmp%d" % os.getpid(), "w") as f:
        f.write(src)
    os.replace(path + ".tmp%d" % os.getpid(), path)
    return src, key, False


# ------------------------------------------------------------------ text helpers

def balanced(s, i, o="{", c="}"):
    """s[i] == o: index after the matching closer"""
    depth = 0
    while i < len(s):
        if s[i] == o:
            depth += 1
        elif s[i] == c:
            depth -= 1
            if depth == 0:
                return i + 1
        i += 1
    raise PlumbError("unbalanced %s%s" % (o, c))


TOK = re.compile(r"[A-Za-z_][A-Za-z0-9_]*|\d+|::|->|=>|==|!=|&&|\|\||\S")


def toks(s):
    s = re.sub(r"//[^\n]*", "", s)
    return TOK.findall(s)


def module_text(src, name):
    m = re.search(r"^(?:pub(?:\([a-z]+\))? )?mod %s \{" % re.escape(name), src, re.M)
    if not m:
        raise PlumbError("module %s not found in the expanded crate" % name)
    e = balanced(src, m.end() - 1)
    return src[m.end():e - 1]


def drop_submodule(text, name):
    m = re.search(r"(?:pub(?:\([a-z]+\))? )?mod %s \{" % re.escape(name), text)
    if not m:
        return text
    e = balanced(text, m.end() - 1)
    return text[:m.start()] + text[e:]


def norm_type(t):
    t = re.sub(r"'[a-z_]+\s*", "", t.strip())
    t = t.replace("crate::", "")
    return re.sub(r"\s+", "", t)


HDR = re.compile(r"\bimpl(?:<[^>{]*>)?\s+([A-Za-z]+)<([^{]*?)>\s+for\s+([^{]+?)\s*\{")


def impls(text):
    """[(trait, lhs, rhs, fn body text)] for the division-family traits on UBig / IBig / ConstDivisor"""
    out = []
    for m in HDR.finditer(text):
        trait, rhs, lhs = m.group(1), norm_type(m.group(2)), norm_type(m.group(3))
        if trait not in TRAITS:
            continue
        if lhs.lstrip("&") not in TYPES or rhs.lstrip("&") not in TYPES:
            continue
        e = balanced(text, m.end() - 1)
        body = text[m.end():e - 1]
        fm = re.search(r"\bfn\s+%s\s*\(" % TRAITS[trait], body)
        if not fm:
            raise PlumbError("impl %s<%s> for %s: fn %s not found" % (trait, rhs, lhs, TRAITS[trait]))
        p1 = balanced(body, fm.end() - 1, "(", ")")
        b0 = body.index("{", p1)
        b1 = balanced(body, b0)
        out.append((trait, lhs, rhs, body[b0 + 1:b1 - 1]))
    return out


def macros(text):
    """{name: token list of the (single) rule body with `$x` written `x`} for the 4-ident / 2-ident local macros"""
    out = {}
    for m in re.finditer(r"macro_rules!\s+(\w+)\s*\{", text):
        e = balanced(text, m.end() - 1)
        body = text[m.end():e - 1].strip()
        if not body.startswith("("):
            continue
        j = balanced(body, 0, "(", ")")
        pat = body[1:j - 1]
        params = re.findall(r"\$(\w+)\s*:\s*ident", pat)
        if len(params) not in (2, 4) or re.sub(r"\$\w+\s*:\s*ident|[\s,]", "", pat):
            continue
        k = body.index("=>", j) + 2
        k = body.index("{", k)
        ke = balanced(body, k)
        rest = body[ke:].strip().strip(";").strip()
        if rest:
            continue                      # more than one rule: not a core macro
        out[m.group(1)] = (params, toks(body[k + 1:ke - 1].replace("$", "")))
    return out


ASSERT = re.compile(
    r"if true \{ match \( & (\w+) , & (\w+) \) \{ \( left_val , right_val \) => \{ if ! \( \* left_val == \* right_val \) \{ "
    r"let kind = :: core :: panicking :: AssertKind :: Eq ; :: core :: panicking :: assert_failed \( kind , & \* left_val , "
    r"& \* right_val , :: core :: option :: Option :: None \) ; \} \} \} ; \} ;")

L_ACC = [("self . clone ( ) . into_repr ( )", "clone_into_repr"), ("self . into_repr ( )", "into_repr"),
         ("self . repr ( )", "repr")]
R_ACC = [("rhs . into_repr ( )", "into_repr"), ("rhs . repr ( )", "repr"), ("& rhs . 0", "dot0")]
S_ACC = [("clone ( ) . into_sign_repr ( )", "clone_into_sign_repr"), ("into_sign_repr ( )", "into_sign_repr"),
         ("as_sign_repr ( )", "as_sign_repr")]


def sign_acc(expr, who):
    """accessor of `let (sign, mag) = <expr>` for operand `who`"""
    for t, name in S_ACC:
        if expr == "%s . %s" % (who, t):
            return name
    m = re.fullmatch(r"\( (?:dashu_base :: Sign :: )?Positive , %s \. (into_repr|repr) \( \) \)" % who, expr)
    if m:
        return "pos_" + m.group(1)
    return None


def calls_of(core):
    """TypedRepr-level dispatch functions named in a core text, in order"""
    out = []
    for m in re.finditer(r"\. (div_rem|div|rem) \(|(?<=[\w)]) (/|%) ", core):
        out.append(m.group(1) or {"/": "div", "%": "rem"}[m.group(2)])
    return out


def classify(trait, lhs, rhs, body, macro_table):
    """-> dict(lacc, racc, core (lean term), calls)"""
    t = " ".join(toks(body))
    t = ASSERT.sub(lambda m: "debug_assert_eq ! ( %s , %s ) ;" % (m.group(1), m.group(2)), t)
    # ---- assign forms: `*self = take(self).m(rhs).into();` / `*self = take(self) op rhs;` / pair
    m = re.fullmatch(r"\* self = (?:core :: )?mem :: take \( self \) \. (div|rem) \( rhs \) \. into \( \) ;", t) or \
        re.fullmatch(r"\* self = (?:core :: )?mem :: take \( self \) (/|%) rhs ;", t)
    if m:
        return dict(lacc="take", racc="pass", core=".take .%s" % METHOD_TRAIT[m.group(1)], calls=[])
    m = re.fullmatch(r"let \( (\w+) , (\w+) \) = (?:core :: )?mem :: take \( self \) \. div_rem \( rhs \) ; \* self = \1 ; \2", t)
    if m:
        return dict(lacc="take", racc="pass", core=".take .DivRem", calls=[])
    # ---- sign prelude (IBig / mixed through the forward_* macros)
    m = re.match(r"let \( (\w+) , (\w+) \) = (.+?) ; let \( (\w+) , (\w+) \) = (.+?) ; (.*)$", t)
    if m and sign_acc(m.group(3), "self") and sign_acc(m.group(6), "rhs"):
        s0, m0, e0, s1, m1, e1, core = m.groups()
        ren = {s0: "sign0", m0: "mag0", s1: "sign1", m1: "mag1"}
        ct = [ren.get(x, x) for x in core.split(" ")]
        if ct and ct[0] == "{" and ct[-1] == "}":
            inner = ct[1:-1]
        else:
            inner = None
        name = None
        for mn, (params, mt) in macro_table.items():
            if len(params) != 4:
                continue
            pr = dict(zip(params, ["sign0", "mag0", "sign1", "mag1"]))
            mt2 = [pr.get(x, x) for x in mt]
            # `=> { e }` expands to `e`; `=> {{ … }}` expands to `{ … }`
            if mt2 == ct or (inner is not None and mt2 == ["{"] + inner + ["}"]):
                name = mn
                break
        cs = calls_of(" ".join(ct))
        if name is None:
            return dict(lacc=sign_acc(e0, "self"), racc=sign_acc(e1, "rhs"), core='.other "%s"' % core.replace('"', "'"), calls=cs)
        lean = (".sign .%s" % name) if name in KNOWN_SIGN else ('.sign (.unknown "%s")' % name)
        return dict(lacc=sign_acc(e0, "self"), racc=sign_acc(e1, "rhs"), core=lean, calls=cs)
    # ---- IBig x ConstDivisor: `let (sign, repr) = self.X(); IBig((repr op &rhs.0).with_sign(sign))` and the pair form
    m = re.match(r"let \( sign , repr \) = self \. (.+?) ; (.*)$", t)
    if m:
        acc = dict((a, b) for a, b in S_ACC).get(m.group(1))
        core = m.group(2)
        m2 = re.fullmatch(r"IBig \( \( repr (/|%) & rhs \. 0 \) \. with_sign \( sign \) \)", core)
        if acc and m2:
            d = {"/": "div", "%": "rem"}[m2.group(1)]
            return dict(lacc=acc, racc="dot0", core=".signConst .%s" % d, calls=[d])
        if acc and core == "let ( q , r ) = repr . div_rem ( & rhs . 0 ) ; ( IBig ( q . with_sign ( sign ) ) , IBig ( r . with_sign ( sign ) ) )":
            return dict(lacc=acc, racc="dot0", core=".signConstPair", calls=["div_rem"])
    # ---- UBig wrappers
    for lt, la in L_ACC:
        for rt, ra in R_ACC:
            for d in ("div", "rem"):
                op = {"div": "/", "rem": "%"}[d]
                if t in ("UBig ( %s . %s ( %s ) )" % (lt, d, rt), "UBig ( %s %s %s )" % (lt, op, rt)):
                    return dict(lacc=la, racc=ra, core=".wrap .%s" % d, calls=[d])
            if t in ("let ( repr0 , repr1 ) = ( %s , %s ) ; { let ( q , r ) = repr0 . div_rem ( repr1 ) ; ( UBig ( q ) , UBig ( r ) ) }" % (lt, rt),
                     "let ( q , r ) = %s . div_rem ( %s ) ; ( UBig ( q ) , UBig ( r ) )" % (lt, rt)):
                return dict(lacc=la, racc=ra, core=".wrapPair", calls=["div_rem"])
    return dict(lacc="unknown", racc="unknown", core='.other "%s"' % t.replace('"', "'")[:400], calls=calls_of(t))


def ty(t):
    return (".%s" % t.lstrip("&"), "true" if t.startswith("&") else "false")


def generate(repo=None):
    """-> (lean text, info)"""
    src, key, hit = expanded(repo)
    ops = drop_submodule(module_text(src, "div_ops"), "repr")
    const = module_text(src, "div_const")
    mt = macros(ops)
    rows = []
    for where, text in (("div_ops", ops), ("div_const", const)):
        for trait, lhs, rhs, body in impls(text):
            c = classify(trait, lhs, rhs, body, mt)
            rows.append((where, trait, lhs, rhs, c))
    if not rows:
        raise PlumbError("no division impl found in the expanded crate")
    seen = set()
    for r in rows:
        k = r[1:4]
        if k in seen:
            raise PlumbError("impl %s<%s> for %s listed twice" % (k[0], k[2], k[1]))
        seen.add(k)
    rows.sort(key=lambda r: (list(TRAITS).index(r[1]), r[2].lstrip("&"), r[3].lstrip("&"), r[2], r[3]))
    out = ["import Dashu.Model.Int.DivPlumbing",
           "/-! GENERATED by vlib/divplumb.py from the macro-expanded dashu-int (`-Zunpretty=expanded`) — do not edit.",
           "    One entry per `impl Trait<Rhs> for Lhs` of the division family on UBig / IBig / ConstDivisor (modules",
           "    `div_ops`, `div_const`): how the operands become magnitudes, the core the body is (a sign-table macro of",
           "    div_ops.rs, a wrapper shape, or the `mem::take` assign forwarding), and the TypedRepr-level dispatch",
           "    functions the body calls. -/",
           "namespace Dashu.Gen.DivPlumbing",
           "open Dashu.Model.DivPlumbing",
           "",
           "def table : List Entry := ["]
    lines = []
    for where, trait, lhs, rhs, c in rows:
        lt, lr = ty(lhs)
        rt, rr = ty(rhs)
        calls = "[" + ", ".join("." + x for x in c["calls"]) + "]"
        lines.append("  -- %s: impl %s<%s> for %s\n  ⟨.%s, %s, %s, %s, %s, .%s, .%s, %s, %s⟩" % (
            where, trait, rhs, lhs, trait, lt, lr, rt, rr, c["lacc"], c["racc"], c["core"], calls))
    out.append(",\n".join(lines))
    out.append("]")
    out.append("")
    out.append("end Dashu.Gen.DivPlumbing")
    info = {"impls": len(rows), "expansion_cache_hit": hit, "source_hash": key,
            "unclassified": [("%s<%s> for %s" % (r[1], r[3], r[2])) for r in rows if r[4]["core"].startswith(".other")]}
    return "\n".join(out) + "\n", info


def regenerate(repo=None):
    text, info = generate(repo)
    old = open(OUT).read() if os.path.exists(OUT) else None
    info["changed"] = old != text
    if info["changed"]:
        with open(OUT + ".tmp", "w") as f:
            f.write(text)
        os.replace(OUT + ".tmp", OUT)
    return info


if __name__ == "__main__":
    import json
    if "--print" in sys.argv:
        print(generate()[0])
    else:
        print(json.dumps(regenerate(), indent=1))
